"""C19 helpers: case encoding for the Coq model, running the real PytypeRunner.setup_build, parsing
build.ninja / *.imports back (a Python port of the lexer model, itself validated against the real ninja
binary), and the direct property oracle on the written plan."""
import itertools
import logging
import os
import shutil
import subprocess

NINJA = "/venv/lib/python3.12/site-packages/ninja/data/bin/ninja"
KINDS = ["Local", "Direct", "System", "Builtin"]

_state = {}


def setup():
  """Import the runner once (after common.bootstrap_pytype())."""
  if _state:
    return _state
  from pytype.tools.analyze_project import pytype_runner, parse_args   # pylint: disable=import-outside-toplevel
  from pytype import module_utils, imports_map_loader                  # pylint: disable=import-outside-toplevel
  logging.disable(logging.CRITICAL)
  _state["pr"] = pytype_runner
  _state["Module"] = module_utils.Module
  _state["parser"] = parse_args.make_parser()
  _state["iml"] = imports_map_loader
  return _state


def scratch_root():
  base = "/dev/shm" if os.access("/dev/shm", os.W_OK) else None
  if base is None:
    import common   # pylint: disable=import-outside-toplevel
    base = os.path.join(common.BUILD, "c19")
  d = os.path.join(base, "verif-c19-%d" % os.getpid())
  os.makedirs(d, exist_ok=True)
  return d


# ---------------------------------------------------------------------------------------------
# cases.  case = {"mods": [[path, target, name, kind]...], "groups": [[[idx...],[idx...]]...], "req": [str...]}

def real_modules(case):
  M = setup()["Module"]
  return [M(*m) for m in case["mods"]]


class Interner:
  def __init__(self):
    self.ids = {}
    self.strs = [None]
  def __call__(self, s):
    if s not in self.ids:
      self.ids[s] = len(self.strs)
      self.strs.append(s)
    return self.ids[s]


def encode_mods(case, it):
  """The 7 integer fields per module; the derived ones come from the REAL functions."""
  pr = setup()["pr"]
  toks = [str(len(case["mods"]))]
  for m in real_modules(case):
    toks += [str(it("p:" + m.path)), str(it("t:" + m.target)), str(it("n:" + m.name)), str(KINDS.index(m.kind)),
             str(it("f:" + m.full_path)), str(it("k:" + pr._module_to_output_path(m))),    # pylint: disable=protected-access
             "1" if m.name.startswith("pytype_extensions.") else "0"]
  return toks


def model_line(case):
  it = Interner()
  toks = ["P"] + encode_mods(case, it)
  toks += [str(len(case["req"]))] + [str(it("f:" + f)) for f in case["req"]]
  toks.append(str(len(case["groups"])))
  for g, d in case["groups"]:
    toks += [str(len(g))] + [str(i) for i in g] + [str(len(d))] + [str(i) for i in d]
  return " ".join(toks), it


def decode_model(out, it, outdir):
  """Model output line -> ("ERR" | (files, steps)) in string space, the shape parse_plan returns."""
  out = out.strip()
  if out == "ERR":
    return "ERR"
  assert out.startswith("OK "), out
  fs, _, body = out[3:].partition("#")
  pyi_dir = os.path.join(outdir, "pyi")
  imp_dir = os.path.join(outdir, "imports")
  def s(i):
    return it.strs[int(i)][2:]
  def path(p):
    if p == "D":
      return os.path.join(imp_dir, "default.pyi")
    k, f = p.rsplit(".", 1)
    return os.path.join(pyi_dir, s(k) + ".pyi" + ("-1" if f == "1" else ""))
  def imps(txt):
    return [(s(e.split("=")[0]), path(e.split("=")[1])) for e in txt.split(" ")] if txt else []
  steps = []
  for st in body.split(";") if body else []:
    o, a, i, ds, f, im, fin, mod = st.split("|")
    nm, first = f.split(":")
    steps.append({"out": path(o), "action": a, "input": s(i), "deps": [path(d) for d in ds.split(" ")] if ds else [],
                  "impfile": os.path.join(imp_dir, s(nm) + ".imports" + ("-1" if first == "1" else "")),
                  "imports_written": imps(im), "imports": imps(fin), "module": s(mod)})
  files = sorted(s(f) for f in fs.split(",")) if fs else []
  return files, steps


# ---------------------------------------------------------------------------------------------
# Python port of the lexer model (Plan/Model.v lex); validated against the ninja binary by the check.

def _simple(c):
  return c.isascii() and (c.isalnum() or c in "_-")


class Lexed(str):
  """The evaluated string; .ntok = number of tokens lexed (ninja tests the token list for emptiness)."""
  ntok = 0


def py_lex(text, pos, is_path, env=None):
  """Returns (string, newpos) or raises ValueError.  Undefined variables evaluate to ''."""
  v, newpos, ntok = _py_lex(text, pos, is_path, env)
  r = Lexed(v)
  r.ntok = ntok
  return r, newpos


def read_path_list(text, pos, env=None):
  """ninja's `for (;;) { ReadPath; if (eval.empty()) break; ... }`, then evaluation: an evaluated-empty path
  is an error ("empty path")."""
  res = []
  while True:
    p, pos = py_lex(text, pos, True, env)
    pos = _eat_ws(text, pos)
    if p.ntok == 0:
      return res, pos
    if p == "":
      raise ValueError("empty path")
    res.append(str(p))


def _py_lex(text, pos, is_path, env=None):
  env = env or {}
  out = []
  n = len(text)
  while True:
    if pos >= n:
      raise ValueError("unexpected EOF")
    c = text[pos]
    if c == "$":
      if pos + 1 >= n:
        raise ValueError("bad $-escape")
      d = text[pos + 1]
      if d in "$ :":
        out.append(d); pos += 2
      elif d == "\n" or (d == "\r" and text[pos + 2:pos + 3] == "\n"):
        pos += 2 if d == "\n" else 3
        while pos < n and text[pos] == " ":
          pos += 1
      elif d == "{":
        e = pos + 2
        while e < n and (_simple(text[e]) or text[e] == "."):
          e += 1
        if e == pos + 2 or e >= n or text[e] != "}":
          raise ValueError("bad $-escape")
        out.append(env.get(text[pos + 2:e], "")); pos = e + 1
      elif _simple(d):
        e = pos + 1
        while e < n and _simple(text[e]):
          e += 1
        out.append(env.get(text[pos + 1:e], "")); pos = e
      else:
        raise ValueError("bad $-escape")
    elif c == "\0":
      raise ValueError("unexpected EOF")
    elif c == "\r":
      if text[pos + 1:pos + 2] != "\n":
        raise ValueError("lexing error")
      if is_path:
        return "".join(out), pos, len(out)
      return "".join(out), pos + 2, len(out)
    elif c == "\n":
      return "".join(out), (pos if is_path else pos + 1), len(out)
    elif c in " :|":
      if is_path:
        return "".join(out), pos, len(out)
      out.append(c); pos += 1
    else:
      out.append(c); pos += 1


def _eat_ws(text, pos):
  while pos < len(text) and text[pos] == " ":
    pos += 1
  return pos


def _read_paths(text, pos):
  return read_path_list(text, pos)


def parse_ninja(text):
  """Parses the statements PytypeRunner writes: rule blocks (skipped) and build statements."""
  steps = []
  pos = 0
  n = len(text)
  while pos < n:
    if text.startswith("rule ", pos):
      pos = text.index("\n", pos) + 1
      while text.startswith("  ", pos):
        pos = text.index("\n", pos) + 1
      continue
    if not text.startswith("build ", pos):
      raise ValueError("unexpected statement at %d: %r" % (pos, text[pos:pos + 40]))
    pos = _eat_ws(text, pos + 5)
    outs, pos = _read_paths(text, pos)
    if text[pos] != ":":
      raise ValueError("expected ':' at %d" % pos)
    pos = _eat_ws(text, pos + 1)
    e = pos
    while e < n and (_simple(text[e]) or text[e] == "."):
      e += 1
    rule = text[pos:e]
    pos = _eat_ws(text, e)
    ins, pos = _read_paths(text, pos)
    imps = []
    if text[pos] == "|":
      if text[pos + 1] in "|@":
        raise ValueError("unexpected || or |@")
      pos = _eat_ws(text, pos + 1)
      imps, pos = _read_paths(text, pos)
    if text[pos] != "\n":
      raise ValueError("expected newline at %d: %r" % (pos, text[pos:pos + 20]))
    pos += 1
    binds = {}
    while pos < n and text[pos] == " ":
      pos = _eat_ws(text, pos)
      e = pos
      while e < n and (_simple(text[e]) or text[e] == "."):
        e += 1
      name = text[pos:e]
      pos = _eat_ws(text, e)
      if text[pos] != "=":
        raise ValueError("expected '='")
      pos = _eat_ws(text, pos + 1)
      v, pos = py_lex(text, pos, False)
      binds[name] = v
    steps.append({"outs": outs, "rule": rule, "ins": ins, "implicit": imps, "binds": binds})
  return steps


# ---------------------------------------------------------------------------------------------
# running the implementation

def run_impl(case, outdir, keep=False):
  """Runs the real PytypeRunner.setup_build.  Returns "ERR" (KeyError) or (files, steps) as read back
  from build.ninja and the *.imports files."""
  S = setup()
  pr = S["pr"]
  if not keep:
    shutil.rmtree(outdir, ignore_errors=True)
  os.makedirs(outdir, exist_ok=True)
  mods = real_modules(case)
  ss = [(tuple(mods[i] for i in g), tuple(mods[j] for j in d)) for g, d in case["groups"]]
  if "conf" not in S:
    S["conf"] = S["parser"].config_from_defaults()
  conf = S["conf"]
  conf.output = outdir
  conf.inputs = list(case["req"])
  runner = pr.PytypeRunner(conf, ss)
  try:
    files = runner.setup_build()
  except KeyError:
    return "ERR"
  return sorted(files), read_plan(outdir)


class Plan(list):
  """The build statements read back; .unreadable is set when ninja's lexer rejects the file as a whole."""
  unreadable = None
  cause = None


def split_entry(line, outdir):
  """One .imports line -> (key, path).  Paths always live under outdir, keys may contain spaces."""
  i = line.rfind(" " + outdir + os.sep)
  if i < 0:
    k, _, v = line.partition(" ")
    return k, v
  return line[:i], line[i + 1:]


def read_plan(outdir):
  with open(os.path.join(outdir, "build.ninja"), newline="") as f:
    text = f.read()
  plan = Plan()
  chunks = statements_text(outdir)
  try:
    sts = parse_ninja(text)
    if len(sts) != len(chunks):
      raise ValueError("a '$' at the end of a module binding swallowed the following statement")
  except ValueError as e:
    # ninja would reject the file (or read a different plan).  Is the unescaped module binding the only culprit?
    plan.unreadable = str(e)
    neutral = "".join(c.split("\n")[0] + "\n" + c.split("\n")[1] + "\n  module = x\n" if c.count("\n") >= 3 else c
                      for c in chunks)
    try:
      sts = parse_ninja(neutral)
      ok = len(sts) == len(chunks)
    except ValueError:
      ok = False
    plan.cause = "module-binding" if ok else "other"
    if ok:
      for st in sts:
        st["binds"]["module"] = None
    else:
      sts = []
      for c in chunks:
        ls = c.split("\n")
        try:
          st = parse_ninja(ls[0] + "\n")[0]
        except (ValueError, IndexError):
          st = {"outs": [], "rule": None, "ins": [], "implicit": [], "binds": {}}
        try:
          st["binds"] = {"imports": py_lex(ls[1][len("  imports = "):] + "\n", 0, False)[0], "module": None}
        except (ValueError, IndexError):
          st["binds"] = {"imports": "", "module": None}
        sts.append(st)
  for st in sts:
    imp = st["binds"].get("imports", "")
    try:
      with open(imp, newline="") as f:
        lines = [l for l in f.read().split("\n") if l]
      items = [split_entry(l, outdir) for l in lines]
    except OSError:
      lines = items = None
    plan.append({"out": st["outs"][0] if len(st["outs"]) == 1 else st["outs"], "action": st["rule"],
                 "input": st["ins"][0] if len(st["ins"]) == 1 else st["ins"], "deps": st["implicit"],
                 "impfile": imp, "imports": items, "import_lines": lines, "module": st["binds"].get("module")})
  return plan


def statements_text(outdir):
  """The raw text of each build statement (3 lines each) after the preamble."""
  with open(os.path.join(outdir, "build.ninja"), newline="") as f:
    text = f.read()
  i = text.index("\nbuild ") + 1 if "\nbuild " in text else len(text)
  body = text[i:]
  parts = []
  while body:
    j = body.find("\nbuild ")
    if j < 0:
      parts.append(body); break
    parts.append(body[:j + 1]); body = body[j + 1:]
  return parts


# ---------------------------------------------------------------------------------------------
# the direct oracle on a written plan (independent of the model)

def action_of(case, m):
  """What the property expects of module tuple m: 'default' for builtin/system (not pytype_extensions)."""
  if m[3] in ("Builtin", "System") and not m[2].startswith("pytype_extensions."):
    return "default"
  return "analyse"


def all_topo_orders(n, preds, cap):
  """All linear extensions of the DAG (preds[i] = set of j that must precede i), up to cap."""
  res = []
  order = []
  used = [False] * n
  def rec():
    if len(res) >= cap:
      return
    if len(order) == n:
      res.append(list(order)); return
    for i in range(n):
      if not used[i] and all(used[j] for j in preds[i]):
        used[i] = True; order.append(i)
        rec()
        order.pop(); used[i] = False
  rec()
  return res


def oracle(case, outdir, result, topo_cap=3000, rng=None):
  """Checks the property on what was written.  Returns a list of (fingerprint, message)."""
  bad = []
  if result == "ERR":
    return bad
  _, steps = result
  if getattr(steps, "unreadable", None):
    bad.append(("module-name-not-escaped" if steps.cause == "module-binding" else "plan-unreadable",
                "ninja cannot load build.ninja (%s); module names: %r" % (steps.unreadable, [m[2] for m in case["mods"]][:6])))
    return bad
  default = os.path.join(outdir, "imports", "default.pyi")
  full = {}
  S = setup()
  for m, t in zip(real_modules(case), case["mods"]):
    full.setdefault(m.full_path, []).append(t)
  outs = [s["out"] for s in steps]
  # every statement has exactly one output and one explicit input
  for s in steps:
    if not isinstance(s["out"], str) or not isinstance(s["input"], str):
      bad.append(("statement-shape", "a build statement does not have exactly one output and one input: %r" % (s,)))
      return bad
  producers = {}
  for i, o in enumerate(outs):
    producers.setdefault(o, []).append(i)
  dups = sorted(o for o, l in producers.items() if len(l) > 1)
  if dups:
    bad.append(("dup-output:module-name-collision",
                "two build statements declare the same output %r (ninja: multiple rules generate it)" % dups[0]))
    return bad
  # declared dependency graph
  n = len(steps)
  preds = [set() for _ in range(n)]
  for i, s in enumerate(steps):
    for d in s["deps"]:
      for j in producers.get(d, []):
        preds[i].add(j)
  # transitive ancestors
  anc = [None] * n
  def ancestors(i, stack=()):
    if anc[i] is not None:
      return anc[i]
    if i in stack:
      return None
    acc = set()
    for j in preds[i]:
      a = ancestors(j, stack + (i,))
      if a is None:
        return None
      acc.add(j); acc |= a
    anc[i] = acc
    return acc
  cyclic = False
  for i in range(n):
    if ancestors(i) is None or i in (anc[i] or ()):
      cyclic = True
  if cyclic:
    bad.append(("plan-cyclic", "the declared dependencies contain a cycle"))
    return bad
  # imports entries
  overwritten = False
  for i, s in enumerate(steps):
    if s["imports"] is None:
      bad.append(("imports-file-missing", "statement %d names an imports file that was not written: %r" % (i, s["impfile"])))
      continue
    for k, p in s["imports"]:
      if p == default:
        continue
      ps = producers.get(p, [])
      if not ps:
        bad.append(("imports-entry-not-produced", "step %d (%s) reads %r -> %r which no build statement produces"
                    % (i, s["out"], k, p)))
      elif not any(j in anc[i] for j in ps):
        same_file = [j for j, t in enumerate(steps) if t["impfile"] == s["impfile"] and j != i]
        if same_file:
          overwritten = True
          bad.append(("imports-file-overwritten:module-name-collision",
                      "steps %d and %d share the imports file %r; step %d reads %r produced by a step that is not "
                      "among its declared ancestors" % (i, same_file[0], s["impfile"], i, p)))
        else:
          bad.append(("imports-entry-not-ordered", "step %d (%s) reads %r produced by step %s which is not a declared "
                      "(transitive) dependency" % (i, s["out"], p, ps)))
  # completeness: the imports map has an entry for every direct dependency, and a second-pass statement of
  # an import cycle has one for every member of the cycle (the first-pass outputs feed the second pass)
  pr = S["pr"]
  mods = real_modules(case)
  where = {}
  for g, d in case["groups"]:
    for i in g:
      where[mods[i].full_path] = (g, d)
  for i, s in enumerate(steps):
    if s["imports"] is None or s["input"] not in where:
      continue
    g, d = where[s["input"]]
    need = list(d)
    if len(g) != 1 and not s["out"].endswith("-1"):
      need += list(g)
    have = {k for k, _ in s["imports"]}
    for j in need:
      k = pr._module_to_output_path(mods[j])   # pylint: disable=protected-access
      if k not in have:
        if any(t["impfile"] == s["impfile"] for jj, t in enumerate(steps) if jj != i):
          bad.append(("imports-file-overwritten:module-name-collision",
                      "step %d (%s) shares its imports file %r with another statement and lost its entry for %r"
                      % (i, s["out"], s["impfile"], k)))
          break
        bad.append(("imports-entry-missing", "step %d (%s) has no imports entry for its dependency %r" % (i, s["out"], k)))
        break
  # every requested analysable file is checked exactly once
  for f in case["req"]:
    for t in full.get(f, []):
      if action_of(case, t) != "analyse":
        continue
      c = sum(1 for s in steps if s["action"] == "check" and s["input"] == f)
      if c != 1 and not dups:
        bad.append(("checked-%d-times" % c, "requested file %r has %d check statements" % (f, c)))
  for s in steps:
    if s["action"] == "check" and s["input"] not in case["req"]:
      bad.append(("check-unrequested", "file %r is checked but was not requested" % s["input"]))
    if s["action"] not in ("check", "infer"):
      bad.append(("bad-action", "rule %r" % s["action"]))
  # names survive: inputs are module full paths, module variable is the module name
  names = {}
  for m in real_modules(case):
    names.setdefault(m.full_path, set()).add(m.name)
  for s in steps:
    if s["input"] not in names:
      bad.append(("input-path-mangled", "statement input %r is no module's full path" % s["input"]))
    elif s["module"] not in names[s["input"]]:
      raw = "".join(names[s["input"]])
      fp = "module-name-not-escaped" if ("$" in raw or any(x.startswith(" ") for x in names[s["input"]])) else "module-name-mangled"
      bad.append((fp, "statement for %r has module = %r, expected %r" % (s["input"], s["module"], sorted(names[s["input"]]))))
  # all linear schedules (explicit enumeration for small plans; the ancestor check above is the general argument)
  if not dups and not bad and n <= 8:
    orders = all_topo_orders(n, preds, topo_cap)
    for order in orders:
      done = set()
      for i in order:
        for k, p in steps[i]["imports"]:
          if p != default and not any(j in done for j in producers.get(p, [])):
            bad.append(("schedule-reads-before-write", "schedule %r: step %d reads %r before it is produced" % (order, i, p)))
            return bad
        done.add(i)
  return bad


def count_orders(result, cap=3000):
  if result == "ERR":
    return 0
  _, steps = result
  prod = {}
  for i, s in enumerate(steps):
    prod.setdefault(s["out"], []).append(i)
  preds = [set(j for d in s["deps"] for j in prod.get(d, [])) for s in steps]
  if len(steps) > 8:
    return -1
  return len(all_topo_orders(len(steps), preds, cap))


# ---------------------------------------------------------------------------------------------
# hypotheses of the theorems, monitored on every case

def wf_case(case):
  mods = real_modules(case)
  members = [i for g, _ in case["groups"] for i in g]
  fulls = [mods[i].full_path for i in members]
  if len(set(fulls)) != len(fulls):
    return False
  seen = set()
  for g, d in case["groups"]:
    if any(mods[j] not in seen for j in d):
      return False
    seen |= {mods[i] for i in g}
  return True


def injective_case(case):
  """(keys distinct, names distinct) over the members."""
  pr = setup()["pr"]
  mods = real_modules(case)
  members = [mods[i] for g, _ in case["groups"] for i in g]
  keys = [pr._module_to_output_path(m) for m in members]    # pylint: disable=protected-access
  names = [m.name for m in members]
  return len(set(keys)) == len(keys), len(set(names)) == len(names)


# ---------------------------------------------------------------------------------------------
# real ninja

def ninja(args, cwd):
  r = subprocess.run([NINJA] + args, cwd=cwd, capture_output=True, text=True)
  return r.returncode, r.stdout, r.stderr


def ninja_view(outdir, steps):
  """The plan as the real ninja binary reads it: for every output, (rule, explicit inputs, implicit inputs)
  via `-t query`, and the evaluated imports/module bindings via `-t commands` on a copy of the file whose
  two rules are replaced by a dummy command (pytype is never run)."""
  with open(os.path.join(outdir, "build.ninja"), newline="") as f:
    text = f.read()
  i = text.find("\nbuild ")
  body = text[i + 1:] if i >= 0 else ""
  d = os.path.join(outdir, "ninja_view")
  os.makedirs(d, exist_ok=True)
  dummy = ("rule infer\n  command = I<$imports>M<$module>\nrule check\n  command = I<$imports>M<$module>\n")
  with open(os.path.join(d, "build.ninja"), "w", newline="") as f:
    f.write(dummy + body)
  rc, out, err = ninja(["-t", "targets", "all"], d)
  if rc != 0:
    return {"error": (out + err).strip()}
  targets = [l for l in out.split("\n") if l]
  view = {"targets": targets, "edges": [], "cmds": []}
  if not steps:
    return view
  rc, out, err = ninja(["-t", "query"] + [s["out"] for s in steps], d)
  if rc != 0:
    view["edges"] = [{"error": (out + err).strip()}]
    return view
  lines = out.split("\n")
  k = 0
  for s in steps:
    if k >= len(lines) or lines[k] != s["out"] + ":":
      view["edges"].append({"error": "query output out of step at %r" % (lines[k:k + 2],)}); break
    rule = lines[k + 1].strip().split(": ", 1)[1] if lines[k + 1].startswith("  input: ") else None
    k += 2 if rule is not None else 1
    ins, imps = [], []
    while k < len(lines) and lines[k].startswith("    "):
      l = lines[k][4:]
      if l.startswith("| "):
        imps.append(l[2:])
      else:
        ins.append(l)
      k += 1
    if k < len(lines) and lines[k].startswith("  outputs:"):
      k += 1
      while k < len(lines) and lines[k].startswith("    "):
        k += 1
    view["edges"].append({"rule": rule, "ins": ins, "implicit": imps})
  rc, out, err = ninja(["-t", "commands"], d)
  view["cmds"] = sorted(l for l in out.split("\n") if l) if rc == 0 else ["error: " + (out + err).strip()]
  return view
