"""C18 extension legs: (b) the rest of the public API of variables.py / state.py, (c) the normal form of the terms
conditions.py builds.  Model: coq/Flow/Api.v; theorems: Props/C18.v (extension 2b, 2c).

Every function here works on the REAL classes; the `*_items` functions also produce the Coq terms whose vm_compute
value (the model's answer) c18.run compares with the real answer.  The `*_oracle` functions decide the specification
directly on the real objects, independently of the model.
"""
import itertools
import typing

import c18


# ---------------------------------------------------------------------------------------------------------
# (c) conditions: normal form

def wf_real(c):
  """cond_wfb of Flow/Api.v, re-implemented on the real objects: None if well formed, else a reason."""
  m = c18.impl()
  C = m.C
  if c is C.TRUE or c is C.FALSE or type(c) is m.Atom:
    return None
  if type(c) is C._Not:
    if type(c.condition) is C._Not:
      return "double negation %r" % (c,)
    return wf_real(c.condition)
  if type(c) in (C._And, C._Or):
    ms = list(c.conditions)
    if not isinstance(c.conditions, frozenset):
      return "members not a frozenset"
    if len(ms) < 2:
      return "composite with %d member(s): %r" % (len(ms), c)
    for x in ms:
      if x is C.TRUE or x is C.FALSE or type(x) in (C._True, C._False):
        return "constant member in %r" % (c,)
      r = wf_real(x)
      if r is not None:
        return r
    for x in ms:
      nx = x.condition if type(x) is C._Not else C._Not(x)     # _Not.make, re-implemented
      if any(nx == y for y in ms):
        return "complementary members %r / %r" % (x, nx)
    return None
  return "unknown condition object %r" % (c,)


def shape_real(kind, args, result):
  """make_result_shape on the real objects: the result is an argument, a constant, or a composite of the called
  kind whose members are all arguments (no flattening, no new subterm).  None or a reason."""
  m = c18.impl()
  C = m.C
  if kind == "not":
    a = args[0]
    if type(a) is C._Not:
      return None if result is a.condition or result == a.condition else "Not(_Not(x)) is not x"
    return None if type(result) is C._Not and result.condition == a else "Not(x) is not _Not(x)"
  if result is C.TRUE or result is C.FALSE:
    return None
  if any(result is a or result == a for a in args):
    return None
  cls = C._And if kind == "and" else C._Or
  if type(result) is not cls:
    return "result %r is neither an argument, a constant nor a %s" % (result, cls.__name__)
  for x in result.conditions:
    if not any(x == a for a in args):
      return "member %r of the result is not an argument" % (x,)
  return None


def law_failures(t):
  """The laws of Props/C18.v (make_single, make_idem, make_unit, make_zero, not_involutive, make_complement) on
  the real constructors for one well-formed term t.  Returns a list of (law, got)."""
  m = c18.impl()
  C = m.C
  bad = []

  def chk(name, got, want):
    if not (got is want or (got == want and type(got) is type(want))):
      bad.append((name, c18.canon_str(c18.canon(got))))
  for nm, f, unit, zero in (("And", C.And, C.TRUE, C.FALSE), ("Or", C.Or, C.FALSE, C.TRUE)):
    chk("%s(t)=t" % nm, f(t), t)
    chk("%s(t,t)=t" % nm, f(t, t), t)
    chk("%s(unit,t)=t" % nm, f(unit, t), t)
    chk("%s(t,unit)=t" % nm, f(t, unit), t)
    chk("%s(zero,t)=zero" % nm, f(zero, t), zero)
    chk("%s(t,zero)=zero" % nm, f(t, zero), zero)
    nt = C.Not(t)
    if t not in (C.TRUE, C.FALSE) and nt not in (C.TRUE, C.FALSE):
      chk("%s(t,Not t)=zero" % nm, f(t, nt), zero)
      chk("%s(Not t,t)=zero" % nm, f(nt, t), zero)
  chk("Not(Not t)=t", C.Not(C.Not(t)), t)
  return bad


def handbuilt_conditions():
  """Real condition objects NOT built by the constructors, for tying wf_real to the model's cond_wfb."""
  m = c18.impl()
  C = m.C
  a, b = m.Atom(0), m.Atom(1)
  return [C._And(frozenset([a])), C._Or(frozenset()), C._Not(C._Not(a)), C._And(frozenset([a, C.TRUE])),
          C._Or(frozenset([a, C._Not(a)])), C._And(frozenset([a, C._Or(frozenset([b]))])),
          C._Not(C._And(frozenset([a, C._Not(C._Not(b))]))), C._And(frozenset([a, b])),
          C._Or(frozenset([C._And(frozenset([a, b])), C._Not(a)])), C._Not(C.TRUE),
          C._And(frozenset([C._And(frozenset([a, b])), a]))]


# ---------------------------------------------------------------------------------------------------------
# (b) variables.py: get_atomic_value / is_atomic / has_atomic_value / with_value / with_name / values

_TYPES = None


def types():
  """[(label, python type object or None, Coq isinstance predicate after get_origin, usable with is_atomic?)]."""
  global _TYPES
  if _TYPES is None:
    class SmallMeta(type):
      def __instancecheck__(cls, v):
        return type(v) is int and v <= 1

    class Small(metaclass=SmallMeta):
      pass

    T = typing.TypeVar("T")

    class SmallG(typing.Generic[T], metaclass=SmallMeta):
      pass
    _TYPES = [("None", None, "None", True),
              ("int", int, "(Some (fun _ : nat => true))", True),
              ("str", str, "(Some (fun _ : nat => false))", True),
              ("Small", Small, "(Some (fun v : nat => Nat.leb v 1))", True),
              ("list[int]", list[int], "(Some (fun _ : nat => false))", False),      # get_origin -> list
              ("SmallG[int]", SmallG[int], "(Some (fun v : nat => Nat.leb v 1))", False)]   # get_origin -> SmallG
  return _TYPES


def variable_universe():
  """Real Variables: 0..3 bindings over values {1,2}, conditions {TRUE, a0, not a0}, name None / 'n0'."""
  m = c18.impl()
  conds = [m.C.TRUE, m.Atom(0), m.C.Not(m.Atom(0))]
  one = [(v, c) for v in (1, 2) for c in conds]
  shapes = [()] + [(b,) for b in one] + [(b1, b2) for b1 in one for b2 in one]
  shapes.append(((1, m.Atom(0)), (2, m.C.Not(m.Atom(0))), (3, m.C.TRUE)))
  out = []
  for sh in shapes:
    for name in (None, "n0"):
      out.append(m.V.Variable(tuple(m.V.Binding(v, c) for v, c in sh), name))
  return out


def var_to_coq(v):
  bs = "; ".join("mkB %d %s" % (b.value, c18.cond_to_coq(b.condition)) for b in v.bindings)
  return "(mkV [%s] %s)" % (bs, c18.opt_nat(c18.name_id(v.name)))


def real_gav(v, typ):
  """(0, value) | (1, 0) too few | (2, 0) too many | (3, 0) wrong type   (render_gav of Flow/Api.v)."""
  try:
    return (0, v.get_atomic_value(typ))
  except ValueError as e:
    msg = str(e)
    if msg.startswith("Too few bindings"):
      return (1, 0)
    if msg.startswith("Too many bindings"):
      return (2, 0)
    if msg.startswith("Wrong type"):
      return (3, 0)
    raise c18.Untranslatable("unexpected ValueError %r" % msg)


def real_var_answers(v):
  """Everything else the public API says about v, in the shape of var_item's Coq tuple."""
  ia = [bool(v.is_atomic(t[1])) for t in types() if t[3]]
  ha = [bool(v.has_atomic_value(x)) for x in (1, 2, 3)]
  try:
    wv = c18.render_var(v.with_value(5))
  except AssertionError:
    wv = None
  wn = c18.render_var(v.with_name("n1"))
  wn0 = c18.render_var(v.with_name(None))
  return (ia, ha, wv, wn, wn0, list(v.values))


def var_item(v):
  cv = var_to_coq(v)
  ia = "; ".join("is_atomic %s %s" % (cv, t[2]) for t in types() if t[3])
  ha = "; ".join("has_atomic_value %s %d" % (cv, x) for x in (1, 2, 3))
  return ("([%s], [%s], option_map render_var (with_value %s 5), render_var (with_name %s (Some 1)), "
          "render_var (with_name %s None), var_values %s)" % (ia, ha, cv, cv, cv, cv))


def gav_item(v, t):
  return "render_gav (get_atomic_value %s %s)" % (var_to_coq(v), t[2])


def parse_bool(t):
  if t == "true":
    return True
  if t == "false":
    return False
  raise c18.Untranslatable("not a bool: %r" % (t,))


def parse_var(t):
  bs, nm = t
  return (tuple((v, c18.model_cond(bc)) for v, bc in bs), c18.model_opt(nm, lambda x: x))


def parse_var_item(t):
  ia, ha, wv, wn, wn0, vals = t
  return ([parse_bool(x) for x in ia], [parse_bool(x) for x in ha], c18.model_opt(wv, parse_var),
          parse_var(wn), parse_var(wn0), list(vals))


def parse_gav(t):
  return tuple(t)


def var_vals(v, rho):
  return [b.value for b in v.bindings if c18.ev(b.condition, rho)]


def variable_api_oracle(v):
  """The specification theorems of Props/C18.v decided directly on the real Variable.  [] or list of reasons."""
  bad = []
  n = len(v.bindings)
  for label, typ, _, for_is_atomic in types():
    origin = typing.get_origin(typ) or typ
    r = real_gav(v, typ)
    if n == 0:
      want = (1, 0)
    elif n > 1:
      want = (2, 0)
    elif typ is not None and not isinstance(v.bindings[0].value, origin):
      want = (3, 0)
    else:
      want = (0, v.bindings[0].value)
    if r != want:
      bad.append("get_atomic_value(%s) gives %s, specification %s" % (label, r, want))
    if r[0] == 0:
      # get_atomic_value_only_value: under no valuation can the variable have another value
      for rho in c18.VALUATIONS:
        if any(x != r[1] for x in var_vals(v, rho)):
          bad.append("get_atomic_value(%s) = %s but the variable can be %s" % (label, r[1], var_vals(v, rho)))
          break
    if for_is_atomic:
      ia = v.is_atomic(typ)
      if bool(ia) != (r[0] == 0):
        bad.append("is_atomic(%s) = %s but get_atomic_value %s" % (label, ia, "succeeds" if r[0] == 0 else "raises"))
  for x in (1, 2, 3):
    if bool(v.has_atomic_value(x)) != (real_gav(v, None) == (0, x)):
      bad.append("has_atomic_value(%d) = %s" % (x, v.has_atomic_value(x)))
  try:
    w = v.with_value(5)
  except AssertionError:
    w = None
  if (w is None) != (n != 1):
    bad.append("with_value %s with %d bindings" % ("raised" if w is None else "did not raise", n))
  if w is not None:
    if w.name != v.name:
      bad.append("with_value changed the name")
    for rho in c18.VALUATIONS:
      if var_vals(w, rho) != [5 for _ in var_vals(v, rho)]:
        bad.append("with_value(5): under %s the new variable is %s, the old one %s" % (rho, var_vals(w, rho), var_vals(v, rho)))
        break
  for nm in ("n1", None):
    w = v.with_name(nm)
    if w.name != nm or w.bindings != v.bindings:
      bad.append("with_name(%r) -> %r" % (nm, w))
  if tuple(v.values) != tuple(b.value for b in v.bindings):
    bad.append("values")
  return bad


# ---------------------------------------------------------------------------------------------------------
# (b) state.py: load_local / get_locals / store_local round trip / with_condition shape

def state_api_oracle(p):
  """load_local_spec, load_local_none, load_local_vals, store_then_load, get_locals_store on the real BlockState
  built by history p.  [] or list of reasons."""
  m = c18.impl()
  s = c18.run_prog(p)
  if s is None:
    return []
  bad = []
  loc = s.get_locals()
  if isinstance(loc, dict) or loc is s._locals:  # pylint: disable=protected-access
    bad.append("get_locals hands out a mutable dict")
  for x in c18.NAMES + (7,):
    n = c18.name_str(x)
    try:
      var = s.load_local(n)
    except KeyError:
      var = None
    if (var is None) != (n not in loc):
      bad.append("load_local(%s) %s but get_locals %s it" % (n, "raises" if var is None else "answers",
                                                             "has" if n in loc else "lacks"))
      continue
    if var is None:
      continue
    if var.name != n or var.bindings != loc[n].bindings:
      bad.append("load_local(%s) = %r, get_locals has %r" % (n, var, loc[n]))
    for rho in c18.VALUATIONS:
      blk = c18.ev(s._condition, rho) if n in s._locals_with_block_condition else True  # pylint: disable=protected-access
      want = frozenset(var_vals(var, rho)) if blk else frozenset()
      if c18.state_vals(s, rho, x) != want:
        bad.append("load_local(%s) under %s: %s vs state %s" % (n, rho, sorted(want), sorted(c18.state_vals(s, rho, x))))
        break
  # store / load round trip on a copy; the earlier get_locals() snapshot must not move
  before = {k: v for k, v in loc.items()}
  t = s.merge_into(None)
  nv = m.V.Variable((m.V.Binding(1, m.Atom(0)), m.V.Binding(2, m.C.Not(m.Atom(0)))), "zz")
  snap = t.get_locals()
  t.store_local("n1", nv)
  if dict(snap) != before or dict(loc) != before:
    bad.append("a get_locals() result changed after store_local")
  got = t.load_local("n1")
  if got.bindings != nv.bindings or got.name != "n1":
    bad.append("load_local after store_local gives %r" % (got,))
  if t.get_locals()["n1"] is not nv and t.get_locals()["n1"] != nv:
    bad.append("get_locals after store_local does not hold the stored variable")
  for x in c18.NAMES:
    n = c18.name_str(x)
    if n != "n1" and (n in before) and t.get_locals().get(n) != before[n]:
      bad.append("store_local(n1) changed %s" % n)
  return bad


def with_shape_oracle(p):
  """with_condition_shape / with_condition_keys for the history p = ('with', q, c) on the real classes."""
  m = c18.impl()
  s = c18.run_prog(p[1])
  if s is None:
    return []
  c = p[2]
  r = s.with_condition(c)
  bad = []
  cc = m.C.And(s._condition, c)  # pylint: disable=protected-access
  if r._condition != cc:  # pylint: disable=protected-access
    bad.append("condition %r, specification %r" % (r._condition, cc))  # pylint: disable=protected-access
  if r._locals_with_block_condition != s._locals_with_block_condition:  # pylint: disable=protected-access
    bad.append("locals_with_block_condition changed")
  if r._locals_with_block_condition is s._locals_with_block_condition:  # pylint: disable=protected-access
    bad.append("locals_with_block_condition shared with the receiver")
  if list(r.get_locals()) != list(s.get_locals()):
    bad.append("keys %s, specification %s" % (list(r.get_locals()), list(s.get_locals())))
    return bad
  for n, var in s.get_locals().items():
    got = r.get_locals()[n]
    if n in s._locals_with_block_condition:  # pylint: disable=protected-access
      want = var
    elif cc is m.C.TRUE:
      want = var
    else:
      want = m.V.Variable(tuple(m.V.Binding(b.value, m.C.And(b.condition, cc)) for b in var.bindings), var.name)
    if got != want:
      bad.append("local %s = %r, specification %r" % (n, got, want))
  return bad
