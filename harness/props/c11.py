"""C11 — stub optimisation only ever widens types and is idempotent.

Proof: coq/Props/C11.v over the model coq/Opt/Model.v (optimize.py's lossless visitors as bottom-up
functions, JoinTypes, UnionType normalisation, the signature-level passes) with the pass list/flags of
optimize.Optimize REGENERATED from /repo on every run (coq/Generated/C11_Passes.v, fail-closed translator).
Tie: the extracted model and the real optimize.Optimize (called with keyword settings the way pytype.io does)
run the same generated declarations; results are compared structurally.
Oracle (independent of the model): finite-universe membership (admitted before => admitted after, every
original signature covered) and Optimize(Optimize(x)) == Optimize(x) on the real ASTs; also on the stubs
emitted for generated programs and (thorough) on the bundled builtins/typing stubs.
"""
import ast
import collections
import json
import os
import subprocess
import time

import common

LOSSLESS_PASSES = {
    # visitor class name -> (Coq constructor, expected callback names)
    "NormalizeGenericSelfTypes": ("PNormalizeGenericSelfTypes", {"EnterClass", "LeaveClass", "VisitFunction"}),
    "RemoveDuplicates": ("PRemoveDuplicates", {"VisitFunction"}),
    "SimplifyUnions": ("PSimplifyUnions", {"VisitUnionType"}),
    "CombineReturnsAndExceptions": ("PCombineReturnsAndExceptions", {"VisitFunction"}),
    "CombineContainers": ("PCombineContainers", {"VisitUnionType"}),
    "SimplifyContainers": ("PSimplifyContainers", {"VisitGenericType"}),
    "SimplifyUnionsWithSuperclasses": ("PSimplifyUnionsWithSuperclasses", {"VisitUnionType"}),
    "FindCommonSuperClasses": ("PFindCommonSuperClasses", {"VisitUnionType"}),
    "CollapseLongUnions": ("PCollapseLongUnions", {"VisitUnionType"}),
    "AdjustReturnAndConstantGenericType": ("PAdjustReturnAndConstantGenericType", {"VisitSignature", "VisitConstant"}),
    "AdjustGenericType": (None, {"VisitClassType"}),
    "AbsorbMutableParameters": ("PAbsorbMutableParameters", {"VisitParameter"}),
    "MergeTypeParameters": ("PMergeTypeParameters", {"EnterSignature", "LeaveSignature", "VisitUnionType",
                                                     "VisitSignature"}),
    "AdjustSelf": ("PAdjustSelf", None),          # lives in visitors.py; only its name is used here
}
FLAG_OF = {"deps": "FDeps", "lossy": "FLossy", "use_abcs": "FUseAbcs", "max_union": "FMaxUnion",
           "remove_mutable": "FRemoveMutable", "can_do_lookup": "FCanDoLookup"}

SC_COLLAPSE_BODY = ("[If(test=Compare(left=Call(func=Name(id='len', ctx=Load()), args=[Attribute(value=Name(id='union', "
                    "ctx=Load()), attr='type_list', ctx=Load())], keywords=[]), ops=[Eq()], comparators=[Constant(value=1)]), "
                    "body=[Return(value=Subscript(value=Attribute(value=Name(id='union', ctx=Load()), attr='type_list', "
                    "ctx=Load()), slice=Constant(value=0), ctx=Load()))], orelse=[]), Return(value=Name(id='union', ctx=Load()))]")


class TranslateError(Exception):
  pass


def _callbacks(cls):
  return {n.name for n in cls.body if isinstance(n, ast.FunctionDef)
          and n.name[:5] in ("Visit", "Enter", "Leave")}


def _strip_doc(body):
  if body and isinstance(body[0], ast.Expr) and isinstance(body[0].value, ast.Constant) \
      and isinstance(body[0].value.value, str):
    return body[1:]
  return body


def translate():
  """Reads optimize.py / pytd_utils.py / visitors.py; returns (steps, max_union_default, sc_collapse, coq_text).

  Fail-closed: any construct in Optimize, or any callback on a modelled visitor, that the model does not
  know raises TranslateError."""
  path = os.path.join(common.REPO, "pytype", "pytd", "optimize.py")
  tree = ast.parse(open(path).read())
  classes = {n.name: n for n in tree.body if isinstance(n, ast.ClassDef)}
  funcs = {n.name: n for n in tree.body if isinstance(n, ast.FunctionDef)}
  if "Optimize" not in funcs:
    raise TranslateError("optimize.Optimize not found")
  sc_collapse = False
  for name, (_, want) in LOSSLESS_PASSES.items():
    if want is None:
      continue
    if name not in classes:
      raise TranslateError("visitor class %s missing" % name)
    got = _callbacks(classes[name])
    if name == "MergeTypeParameters":
      got = got | {"EnterSignature", "LeaveSignature"}       # may be inherited or overridden
    if name == "SimplifyContainers" and got == want | {"VisitUnionType"}:
      fn = [n for n in classes[name].body if isinstance(n, ast.FunctionDef) and n.name == "VisitUnionType"][0]
      if [a.arg for a in fn.args.args] != ["self", "union"]:
        raise TranslateError("SimplifyContainers.VisitUnionType: unexpected signature")
      body = "[" + ", ".join(ast.dump(s) for s in _strip_doc(fn.body)) + "]"
      if body != SC_COLLAPSE_BODY:
        raise TranslateError("SimplifyContainers.VisitUnionType has a body the model does not know: " + body[:300])
      sc_collapse = True
      continue
    if got != want:
      raise TranslateError("visitor %s has callbacks %s, the model knows %s" % (name, sorted(got), sorted(want)))
  # literals the model hard-codes (coq/Opt/Syntax.v ids 1..8)
  cn = [n for n in classes["CombineContainers"].body if isinstance(n, ast.Assign)
        and isinstance(n.targets[0], ast.Name) and n.targets[0].id == "_CONTAINER_NAMES"]
  want_cn = ("Dict(keys=[Attribute(value=Name(id='pytd', ctx=Load()), attr='TupleType', ctx=Load()), "
             "Attribute(value=Name(id='pytd', ctx=Load()), attr='CallableType', ctx=Load())], "
             "values=[Tuple(elts=[Constant(value='builtins.tuple'), Constant(value='typing.Tuple')], ctx=Load()), "
             "Tuple(elts=[Constant(value='typing.Callable')], ctx=Load())])")
  if len(cn) != 1 or ast.dump(cn[0].value) != want_cn:
    raise TranslateError("CombineContainers._CONTAINER_NAMES changed")
  strs = {n.value for n in ast.walk(classes["AdjustGenericType"]) if isinstance(n, ast.Constant)
          and isinstance(n.value, str) and "." in n.value and " " not in n.value}
  if strs != {"builtins.object"}:
    raise TranslateError("AdjustGenericType literals: %s" % sorted(strs))
  ut = ast.parse(open(os.path.join(common.REPO, "pytype", "pytd", "pytd_utils.py")).read())
  jt = [n for n in ut.body if isinstance(n, ast.FunctionDef) and n.name == "JoinTypes"]
  if len(jt) != 1:
    raise TranslateError("pytd_utils.JoinTypes not found")
  jl = sorted(n.value for s in _strip_doc(jt[0].body) for n in ast.walk(s)
              if isinstance(n, ast.Constant) and isinstance(n.value, str))
  if jl != ["NoneType", "builtins.NoneType"]:
    raise TranslateError("JoinTypes string literals: %s" % jl)

  fn = funcs["Optimize"]
  argnames = [a.arg for a in fn.args.args]
  if argnames != ["node", "deps", "lossy", "use_abcs", "max_union", "remove_mutable", "can_do_lookup"]:
    raise TranslateError("Optimize parameters: %s" % argnames)
  defaults = [ast.dump(d) for d in fn.args.defaults]
  if defaults != ["Constant(value=None)", "Constant(value=False)", "Constant(value=False)",
                  defaults[3], "Constant(value=False)", "Constant(value=True)"] \
      or not isinstance(fn.args.defaults[3], ast.Constant) or type(fn.args.defaults[3].value) is not int:
    raise TranslateError("Optimize defaults: %s" % defaults)
  max_union_default = fn.args.defaults[3].value
  steps = []
  hier_state = []

  def visitor_call(c):
    """X(...) or visitors.X(...) -> (name, args dump)"""
    if not isinstance(c, ast.Call) or c.keywords:
      return None
    f = c.func
    if isinstance(f, ast.Name):
      name = f.id
    elif isinstance(f, ast.Attribute) and isinstance(f.value, ast.Name) and f.value.id == "visitors":
      name = f.attr
    else:
      return None
    return name, [ast.dump(a) for a in c.args]

  def walk(stmts, flags):
    for st in stmts:
      d = ast.dump(st)
      if isinstance(st, ast.Return):
        if d != "Return(value=Name(id='node', ctx=Load()))":
          raise TranslateError("return: " + d)
        continue
      if isinstance(st, ast.If):
        if st.orelse:
          raise TranslateError("else branch in Optimize")
        t = st.test
        if isinstance(t, ast.Name) and t.id in FLAG_OF:
          fl = [FLAG_OF[t.id]]
        elif isinstance(t, ast.BoolOp) and isinstance(t.op, ast.And) and all(
            isinstance(v, ast.Name) and v.id in FLAG_OF for v in t.values):
          fl = [FLAG_OF[v.id] for v in t.values]
        else:
          raise TranslateError("condition: " + ast.dump(t))
        walk(st.body, flags + fl)
        continue
      # hierarchy construction (exact forms)
      if d == ("Assign(targets=[Name(id='superclasses', ctx=Store())], value=Call(func=Attribute(value=Name(id='deps', "
               "ctx=Load()), attr='Visit', ctx=Load()), args=[Call(func=Attribute(value=Name(id='visitors', ctx=Load()), "
               "attr='ExtractSuperClassesByName', ctx=Load()), args=[], keywords=[])], keywords=[]))"):
        hier_state.append("deps")
        continue
      if d == ("Expr(value=Call(func=Attribute(value=Name(id='superclasses', ctx=Load()), attr='update', ctx=Load()), "
               "args=[Call(func=Attribute(value=Name(id='node', ctx=Load()), attr='Visit', ctx=Load()), "
               "args=[Call(func=Attribute(value=Name(id='visitors', ctx=Load()), attr='ExtractSuperClassesByName', "
               "ctx=Load()), args=[], keywords=[])], keywords=[])], keywords=[]))"):
        hier_state.append("node")
        continue
      if d == ("Expr(value=Call(func=Attribute(value=Name(id='superclasses', ctx=Load()), attr='update', ctx=Load()), "
               "args=[Call(func=Attribute(value=Name(id='abc_hierarchy', ctx=Load()), attr='GetSuperClasses', "
               "ctx=Load()), args=[], keywords=[])], keywords=[]))"):
        steps.append((list(flags), "PUseAbcs", "UseAbcs"))
        continue
      if d == ("Assign(targets=[Name(id='hierarchy', ctx=Store())], value=Call(func=Name(id='SuperClassHierarchy', "
               "ctx=Load()), args=[Name(id='superclasses', ctx=Load())], keywords=[]))"):
        if hier_state != ["deps", "node"]:
          raise TranslateError("superclass table built as %s, the model knows deps-then-node" % hier_state)
        hier_state.append("built")
        continue
      if isinstance(st, ast.Assign) and len(st.targets) == 1 and ast.dump(st.targets[0]) == "Name(id='node', ctx=Store())":
        v = st.value
        if ast.dump(v) == ("Call(func=Attribute(value=Name(id='visitors', ctx=Load()), attr='LookupClasses', ctx=Load()), "
                           "args=[Name(id='node', ctx=Load()), Name(id='deps', ctx=Load())], "
                           "keywords=[keyword(arg='ignore_late_types', value=Constant(value=True))])"):
          steps.append((list(flags), "PLookupClasses", "LookupClasses"))
          continue
        if (isinstance(v, ast.Call) and isinstance(v.func, ast.Attribute) and v.func.attr == "Visit"
            and ast.dump(v.func.value) == "Name(id='node', ctx=Load())" and len(v.args) == 1 and not v.keywords):
          vc = visitor_call(v.args[0])
          if vc is None or vc[0] not in LOSSLESS_PASSES or LOSSLESS_PASSES[vc[0]][0] is None:
            raise TranslateError("unknown visitor in Optimize: " + ast.dump(v.args[0]))
          name, args = vc
          want_args = {"SimplifyUnionsWithSuperclasses": ["Name(id='hierarchy', ctx=Load())"],
                       "FindCommonSuperClasses": ["Name(id='hierarchy', ctx=Load())"],
                       "CollapseLongUnions": ["Name(id='max_union', ctx=Load())"]}.get(name, [])
          if args != want_args:
            raise TranslateError("arguments of %s: %s" % (name, args))
          if want_args and want_args[0].startswith("Name(id='hierarchy'") and "built" not in hier_state:
            raise TranslateError("%s used before the hierarchy is built" % name)
          steps.append((list(flags), LOSSLESS_PASSES[name][0], name))
          continue
      raise TranslateError("statement in Optimize the model does not know: " + d[:400])

  walk(_strip_doc(fn.body), [])
  coq = ["(* REGENERATED by harness/props/c11.py from the AST of optimize.Optimize (%s); do not edit *)" % path,
         "From Coq Require Import List. Import ListNotations.",
         "From PV Require Import Opt.Syntax.",
         "Definition passes : list (list flag * pass) :=",
         "  [ " + ";\n    ".join("([%s], %s)" % ("; ".join(fl), p) for fl, p, _ in steps) + " ].",
         "Definition default_max_union : nat := %d." % max_union_default,
         "Definition sc_collapse_single : bool := %s." % ("true" if sc_collapse else "false"), ""]
  return steps, max_union_default, sc_collapse, "\n".join(coq)


# ----------------------------------------------------------------------------------------------
# stepwise execution of the REAL visitors following the regenerated pass list (for attribution)

def trace_real(node, deps, o, steps):
  """Runs the real passes one at a time.  Returns [(pass name, node after)] for the enabled steps."""
  from pytype.pytd import optimize, visitors, abc_hierarchy  # pylint: disable=import-outside-toplevel
  truth = {"FDeps": bool(deps) if o["deps"] else False, "FLossy": bool(o.get("lossy")),
           "FUseAbcs": bool(o.get("use_abcs")), "FMaxUnion": bool(o["max_union"]),
           "FRemoveMutable": bool(o["remove_mutable"]), "FCanDoLookup": bool(o["can_do_lookup"])}
  out = []
  superclasses = None
  for fl, _, name in steps:
    if not all(truth[f] for f in fl):
      continue
    if name in ("SimplifyUnionsWithSuperclasses", "FindCommonSuperClasses"):
      if superclasses is None:
        superclasses = deps.Visit(visitors.ExtractSuperClassesByName())
        superclasses.update(node.Visit(visitors.ExtractSuperClassesByName()))
      node = node.Visit(getattr(optimize, name)(optimize.SuperClassHierarchy(superclasses)))
    elif name == "UseAbcs":
      superclasses = deps.Visit(visitors.ExtractSuperClassesByName())
      superclasses.update(node.Visit(visitors.ExtractSuperClassesByName()))
      superclasses.update(abc_hierarchy.GetSuperClasses())
    elif name == "CollapseLongUnions":
      node = node.Visit(optimize.CollapseLongUnions(o["max_union"]))
    elif name == "LookupClasses":
      node = visitors.LookupClasses(node, deps, ignore_late_types=True)
    elif name == "AdjustSelf":
      node = node.Visit(visitors.AdjustSelf())
    else:
      node = node.Visit(getattr(optimize, name)())
    out.append((name, node))
  return out


def _kebab(name):
  out = []
  for i, ch in enumerate(name):
    if ch.isupper() and i and (not name[i - 1].isupper()):
      out.append("-")
    out.append(ch.lower())
  return "".join(out)


def has_single_member_union(node):
  from pytype.pytd import pytd, visitors  # pylint: disable=import-outside-toplevel
  found = []

  class V(visitors.Visitor):
    def EnterUnionType(self, u):
      if len(u.type_list) == 1:
        found.append(u)
  node.Visit(V())
  return bool(found)


def idempotence_fingerprint(L, node, deps, o, steps, o1, o2, mode=""):
  """Names the class of an Optimize(Optimize(x)) != Optimize(x) case by running the REAL passes one at a time:
  step i = last step of the first run that changed the stub, step j = first step of the re-run that changes it.
    one-member union in the result, collapsed by the re-run  -> single-member-union-after-<pass that created it>
    j < i  (an earlier pass gets new work from a later one)    -> single-sweep:rerun-<pass j>
    j == i                                                     -> pass-not-idempotent:<pass>
    j > i                                                      -> late-pass-unstable:<pass j>
  Inputs outside what pytype feeds Optimize get their own class: NamedType stubs that only the final
  LookupClasses resolves, and remove_mutable (documented as lossy, result "temporary")."""
  if mode == "cn":
    return "named-types-resolved-only-by-final-lookup"
  if o.get("remove_mutable"):
    return "not-a-fixpoint-with-remove-mutable"
  try:
    t1 = trace_real(node, deps, o, steps)
    if not t1 or not L.same_ast(t1[-1][1], o1):
      return "untraceable"
    last_change = -1
    prev = node
    origin = None
    for i, (name, n) in enumerate(t1):
      if name != "LookupClasses" and not L.same_ast(prev, n):
        last_change = i
      if has_single_member_union(n) and not has_single_member_union(prev):
        origin = name
      prev = n
    t2 = trace_real(o1, deps, o, steps)
    first = None
    prev = o1
    for j, (name, n) in enumerate(t2):
      if not L.same_ast(prev, n):
        first = j
        break
      prev = n
    if first is None:
      return "untraceable"
    fname = _kebab(t2[first][0])
    if has_single_member_union(o1) and origin is not None and not has_single_member_union(t2[first][1]):
      return "single-member-union-after-" + _kebab(origin)
    if first < last_change:
      return "single-sweep:rerun-" + fname
    if first == last_change:
      return "pass-not-idempotent:" + fname
    return "late-pass-unstable:" + fname
  except Exception as e:  # pylint: disable=broad-except
    return "untraceable:%s" % type(e).__name__


# ----------------------------------------------------------------------------------------------
# case generation

PROPOSED = {"narrowing:merge-type-parameters-bounded-class-parameter", "narrowing:literal-bool-int-conflated-by-eq"}


def bounded_class_tparam(node):
  return any(it.type_param.bound is not None or it.type_param.constraints for c in node.classes for it in c.template)


def unbound_class_tparams(node):
  """The same unit with the bounds/constraints of class-level type parameters removed (everywhere they occur)."""
  from pytype.pytd import visitors  # pylint: disable=import-outside-toplevel
  keys = {it.type_param for c in node.classes for it in c.template}

  class V(visitors.Visitor):
    def VisitTypeParameter(self, p):
      return p.Replace(bound=None, constraints=()) if self.old_node in keys or p in keys else p
  return node.Visit(V())


def literal_leg(L, res, r, steps):
  """(d) msgspec `==` on Literal values: Literal(True) == Literal(1).  Direct oracle on the real Optimize:
  every original signature's return literal must still be admitted nominally (bool vs int distinguished)."""
  from pytype.pytd import pytd, optimize  # pylint: disable=import-outside-toplevel
  out = []
  stats = collections.Counter()
  vals = [True, False, 0, 1, 2]
  for _ in range(40):
    lits = [r.choice(vals) for _ in range(r.choice([2, 2, 3]))]
    sigs = tuple(pytd.Signature((), None, None, pytd.Literal(v), (), ()) for v in lits)
    unit = pytd.TypeDeclUnit("m", (), (), (), (pytd.Function("f0", sigs, pytd.MethodKind.METHOD),), ())
    o1 = optimize.Optimize(unit)
    after = []
    for s in o1.functions[0].signatures:
      ts = s.return_type.type_list if isinstance(s.return_type, pytd.UnionType) else (s.return_type,)
      after += [(type(t.value), t.value) for t in ts if isinstance(t, pytd.Literal)]
    stats["cases"] += 1
    lost = [v for v in lits if (type(v), v) not in after]
    mixed = any(type(v) is bool for v in lits) and any(type(v) is int and v in (0, 1) for v in lits)
    if lost:
      stats["lost-literal"] += 1
      if not mixed:
        out.append(("narrowing:return", "literal %r lost from %r -> %r without a bool/int clash" % (lost, lits, after),
                    {"kind": "literals", "lits": [repr(v) for v in lits]}))
      elif not any(fp == "narrowing:literal-bool-int-conflated-by-eq" for fp, _, _ in out):
        out.append(("narrowing:literal-bool-int-conflated-by-eq",
                    "def f() -> Literal[%s] overloads optimise to %r: %r is gone (Literal(True) == Literal(1) under msgspec ==)"
                    % ("], Literal[".join(map(repr, lits)), after, lost), {"kind": "literals", "lits": [repr(v) for v in lits]}))
  res.extra["literal_leg"] = dict(stats)
  return out


def mk_universe_record(uni):
  return {"names": {str(k): v for k, v in uni.names.items()}, "bases": {str(k): v for k, v in uni.bases.items()},
          "in_node": sorted(uni.in_node)}


def universe_from_record(L, rec):
  u = L.Universe.__new__(L.Universe)
  u.names = {int(k): v for k, v in rec["names"].items()}
  u.bases = {int(k): list(v) for k, v in rec["bases"].items()}
  u.in_node = set(rec["in_node"])
  u.ids = {n: i for i, n in u.names.items()}
  u._deps = None
  return u


def gen_case(L, r, uni, idx):
  """Returns dict(mode, o, node, kindc).  Modes: 'c' resolved ClassType unit with deps (what pytype.io passes),
  'n' NamedType unit (what the parser/pytd tool passes), 't' bare type without deps (print_pytd),
  'cn' NamedType unit with deps and lookup (resolved only by the final LookupClasses)."""
  from pytype.pytd import visitors  # pylint: disable=import-outside-toplevel
  x = r.random()
  mode = "c" if x < 0.62 else "n" if x < 0.80 else "t" if x < 0.93 else "cn"
  o = dict(deps=True, max_union=r.choice([7, 7, 7, 7, 3, 0]), remove_mutable=r.random() < 0.15,
           can_do_lookup=True)
  if mode == "n":
    o["can_do_lookup"] = False
    o["deps"] = r.random() < 0.7
  # generic classes / signatures with TypeParameters; MergeTypeParameters only runs under remove_mutable
  templates = mode != "t" and r.random() < 0.3
  if templates:
    o["remove_mutable"] = r.random() < 0.7
  g = L.Gen(r, uni, "c" if mode == "c" else "n", allow_named_none=(mode == "n"), templates=templates)
  if mode == "t":
    o["deps"] = False
    g = L.Gen(r, uni, r.choice("cn"), allow_named_none=True)
    node = g.ty(3)
    return dict(mode=mode, o=o, node=node, kindc="T")
  node = g.unit(r.choice([1, 2, 2, 3, 4]))
  if mode == "c":
    node = visitors.LookupClasses(node, uni.deps())
  return dict(mode=mode, o=o, node=node, kindc="U", templates=templates)


EDGE_TYPES = [
    # (description, s-expression over the fixed ids) — hand-picked shapes, run on every check
    ("single-member", "(U (G c10 c1) c10)"),
    ("any-after-object", "(U c1 (G c10 c8))"),
    ("late-subclass", "(U (G c10 c1) c9)"),
    ("optional-any-named", "(U A n2 n8)"),
    ("optional-any-class", "(U A c2 c8)"),
    ("tuple-lengths", "(U (T c3 c8 c2) (T c3 c8))"),
    ("tuple-homog", "(U (T c3 c8 c2) (G c3 c9))"),
    ("tuple-same-len", "(U (T c3 c8 c2) (T c3 c2 c8))"),
    ("empty-tuple", "(U (T c3) (G c3 c8))"),
    ("callable-lengths", "(U (F c5 c8 c2) (F c5 c2))"),
    ("callable-homog", "(U (F c5 c8 c2) (G c5 A c9))"),
    ("zip-truncation", "(U (G c11 c8 c2) (G c11 c9))"),
    ("nested-merge", "(U (G c10 (G c10 c8)) (G c10 (G c10 c2)) c8)"),
    ("order-sensitive-dup", "(U (G c10 (U c8 c2)) (G c10 (U c2 c8)))"),
    ("nothing-member", "(U (G c10 c8) Z)"),
    ("long-union", "(U c8 c2 c9 c10 c11 c3 c5 c7)"),
    ("long-union-literal", "(U c8 c2 c9 c10 c11 c3 c5 c7 L1)"),
    ("long-in-generic", "(U (G c10 (U c8 c2 c9 c10 c11 c3 c5 c7)) c10)"),
    ("any-param", "(G c11 A A)"),
    ("nested-any-param", "(G c10 (G c10 A))"),
]


# ----------------------------------------------------------------------------------------------

def build_model():
  return common.build_extracted("opt", "Extract/ExtractOpt.v",
                                os.path.join(common.VERIF, "harness", "ocaml", "opt_driver.ml"), ["opt_model"])


def run_model(exe, lines, nproc=4):
  """Feeds the case lines to the extracted model (split over a few processes); returns output lines."""
  if not lines:
    return []
  n = max(1, min(nproc, len(lines) // 50 + 1))
  chunks = [lines[i::n] for i in range(n)]
  procs = [subprocess.Popen([exe], stdin=subprocess.PIPE, stdout=subprocess.PIPE, stderr=subprocess.PIPE, text=True)
           for _ in chunks]
  outs = []
  import threading  # pylint: disable=import-outside-toplevel
  res = [None] * n

  def feed(i):
    res[i] = procs[i].communicate("\n".join(chunks[i]) + "\n")
  ths = [threading.Thread(target=feed, args=(i,)) for i in range(n)]
  for t in ths:
    t.start()
  for t in ths:
    t.join()
  for i, p in enumerate(procs):
    if p.returncode != 0:
      raise common.BuildError("model driver failed: " + (res[i][1] or "")[-1500:])
  split = [r_[0].split("\n") for r_ in res]
  out = [None] * len(lines)
  for i in range(n):
    for j, ln in enumerate(split[i][:len(chunks[i])]):
      out[i + j * n] = ln
  return out


def shrink_unit(L, unit, bad, budget_s=15.0):
  """Greedy: drop declarations / signatures / union members / replace a type by a child while bad() holds."""
  from pytype.pytd import pytd  # pylint: disable=import-outside-toplevel
  deadline = time.time() + budget_s

  def variants(u):
    for i in range(len(u.constants)):
      yield u.Replace(constants=u.constants[:i] + u.constants[i + 1:])
    for i in range(len(u.functions)):
      yield u.Replace(functions=u.functions[:i] + u.functions[i + 1:])
    for i, c in enumerate(u.classes):
      if c.methods or c.constants:
        yield u.Replace(classes=u.classes[:i] + (c.Replace(methods=(), constants=()),) + u.classes[i + 1:])
    for i, f in enumerate(u.functions):
      if len(f.signatures) > 1:
        for j in range(len(f.signatures)):
          yield u.Replace(functions=u.functions[:i] + (f.Replace(signatures=f.signatures[:j] + f.signatures[j + 1:]),)
                          + u.functions[i + 1:])
      for j, s in enumerate(f.signatures):
        for s2 in sig_variants(s):
          yield u.Replace(functions=u.functions[:i] + (f.Replace(signatures=f.signatures[:j] + (s2,) + f.signatures[j + 1:]),)
                          + u.functions[i + 1:])
    for i, c in enumerate(u.constants):
      for t in type_variants(c.type):
        yield u.Replace(constants=u.constants[:i] + (c.Replace(type=t),) + u.constants[i + 1:])
    for ci, c in enumerate(u.classes):
      def with_methods(ms, c=c, ci=ci):
        return u.Replace(classes=u.classes[:ci] + (c.Replace(methods=tuple(ms)),) + u.classes[ci + 1:])
      if c.constants:
        yield u.Replace(classes=u.classes[:ci] + (c.Replace(constants=()),) + u.classes[ci + 1:])
      for i, f in enumerate(c.methods):
        yield with_methods(c.methods[:i] + c.methods[i + 1:])
        if len(f.signatures) > 1:
          for j in range(len(f.signatures)):
            yield with_methods(c.methods[:i] + (f.Replace(signatures=f.signatures[:j] + f.signatures[j + 1:]),)
                               + c.methods[i + 1:])
        for j, sg in enumerate(f.signatures):
          for s2 in sig_variants(sg):
            yield with_methods(c.methods[:i] + (f.Replace(signatures=f.signatures[:j] + (s2,) + f.signatures[j + 1:]),)
                               + c.methods[i + 1:])

  def sig_variants(s):
    for j in range(len(s.params)):
      yield s.Replace(params=s.params[:j] + s.params[j + 1:])
    if s.exceptions:
      yield s.Replace(exceptions=())
    for t in type_variants(s.return_type):
      yield s.Replace(return_type=t)
    for j, p in enumerate(s.params):
      if p.mutated_type is not None:
        yield s.Replace(params=s.params[:j] + (p.Replace(mutated_type=None),) + s.params[j + 1:])
        for t in type_variants(p.mutated_type):
          yield s.Replace(params=s.params[:j] + (p.Replace(mutated_type=t),) + s.params[j + 1:])
      for t in type_variants(p.type):
        yield s.Replace(params=s.params[:j] + (p.Replace(type=t),) + s.params[j + 1:])

  def type_variants(t):
    if isinstance(t, pytd.UnionType):
      for x in t.type_list:
        yield x
      if len(t.type_list) > 2:
        for j in range(len(t.type_list)):
          yield pytd.UnionType(t.type_list[:j] + t.type_list[j + 1:])
      for j, x in enumerate(t.type_list):
        for y in type_variants(x):
          yield pytd.UnionType(t.type_list[:j] + (y,) + t.type_list[j + 1:])
    elif isinstance(t, pytd.GenericType):
      for j, x in enumerate(t.parameters):
        for y in type_variants(x):
          yield t.Replace(parameters=t.parameters[:j] + (y,) + t.parameters[j + 1:])

  changed = True
  while changed and time.time() < deadline:
    changed = False
    for v in variants(unit):
      if time.time() > deadline:
        break
      try:
        if bad(v):
          unit = v
          changed = True
          break
      except Exception:  # pylint: disable=broad-except
        pass
  return unit


PROGRAMS = [
    "def f(c):\n  if c:\n    return object()\n  return [1]\n",
    "def f(c):\n  if c:\n    return [object()]\n  return (1, 2)\n",
    "class A: pass\nclass B(A): pass\ndef f(c):\n  return A() if c else B()\n",
    "def f(c, d):\n  if c:\n    return (1, 'a')\n  if d:\n    return (1,)\n  return ()\n",
    "def f(x):\n  x.append(1)\n  return x\n",
    "def f(c):\n  if c == 1: return 1\n  if c == 2: return 'a'\n  if c == 3: return 1.0\n  if c == 4: return b''\n"
    "  if c == 5: return []\n  if c == 6: return {}\n  if c == 7: return ()\n  if c == 8: return None\n  return set()\n",
    "from typing import Any, Optional, List\ndef g(x: Optional[Any], y: List[object]):\n  return y if x else None\n",
    "x = [object()] if __name__ else [1]\ny = {1: 'a'} if __name__ else {'a': 1}\n",
    "class K:\n  def m(self, a):\n    return [a] if a else (a,)\n  def n(self):\n    return lambda q: q\n",
    "def f(c):\n  return (lambda: 1) if c else (lambda a: 'x')\n",
]


def gen_program(r):
  """A small typeshed-free program whose inferred stub has unions / containers / overloads."""
  exprs = ["1", "'a'", "1.0", "None", "object()", "[1]", "['a']", "[object()]", "(1, 'a')", "(1,)", "()", "{1: 'a'}",
           "{'a': 1}", "[[1]]", "[None]", "(lambda: 1)", "(lambda a: a)", "A()", "B()", "C()", "[A()]", "[B()]",
           "(A(), 1)", "{1}", "b''", "True"]
  src = ["class A: pass", "class B(A): pass", "class C(A):\n  def m(self, c):\n    return %s if c else %s"
         % (r.choice(exprs), r.choice(exprs))]
  for i in range(r.choice([1, 2, 3])):
    n = r.choice([2, 2, 3, 4, 9])
    body = ["def f%d(c):" % i]
    for j in range(n - 1):
      body.append("  if c == %d: return %s" % (j, r.choice(exprs)))
    body.append("  return %s" % r.choice(exprs))
    src.append("\n".join(body))
  for i in range(r.choice([0, 1, 2])):
    src.append("x%d = %s if __name__ else %s" % (i, r.choice(exprs), r.choice(exprs)))
  return "\n".join(src) + "\n"


def real_hierarchy(L, node, deps):
  """name -> reflexive ancestors, read from class.bases (independent of optimize.py)."""
  from pytype.pytd import pytd  # pylint: disable=import-outside-toplevel
  table = {}
  def add(unit):
    for c in unit.classes:
      bs = []
      for b in c.bases:
        if isinstance(b, (pytd.NamedType, pytd.ClassType)):
          bs.append(b.name)
        elif isinstance(b, pytd.GenericType):
          bs.append(b.base_type.name)
      table[c.name] = bs
  if deps is not None:
    add(deps)
  if isinstance(node, pytd.TypeDeclUnit):
    add(node)
  return L.subclass_closure(table)


def check_real_unit(L, res, r, node, deps, o, label, steps, stats):
  """Oracle on an arbitrary real unit (may contain nodes outside the model): widening where the oracle
  understands the types, and idempotence.  Returns list of (fingerprint, what, replay)."""
  out = []
  o1 = L.run_optimize(node, deps, o)
  o2 = L.run_optimize(o1, deps, o)
  stats["units"] += 1
  anc = real_hierarchy(L, node, deps)
  names = sorted(anc)[:400]
  orc = L.Oracle(anc)
  pick = [n for n in names if not n.startswith("typing.")][:60] + ["builtins.object", "builtins.int", "builtins.str",
                                                                     "builtins.list", "builtins.tuple", "builtins.NoneType"]
  vals = L.value_universe(r, sorted(set(pick)), {"builtins.list": 1, "builtins.dict": 2, "builtins.tuple": 1,
                                                  "builtins.set": 1}, n_extra=60)
  try:
    why = L.unit_narrowing(orc, node, o1, vals)
    stats["widening_checked"] += 1
  except L.Unsupported:
    why = None
    stats["widening_skipped_unsupported"] += 1
  if why:
    out.append(("narrowing:" + L.narrowing_kind(why), "stub %s: %s" % (label, why),
                {"kind": "program", "label": label, "why": why}))
  if not L.same_ast(o1, o2):
    fp = idempotence_fingerprint(L, node, deps, o, steps, o1, o2)
    out.append((fp, "stub %s: Optimize(Optimize(x)) != Optimize(x)" % label, {"kind": "program", "label": label}))
    stats["non_idempotent"] += 1
  return out


def run(res):
  res.rule = ("pytd units over a per-batch random 7-class hierarchy K0..K6 (some classes in the unit, some in deps) plus "
              "object/NoneType/int/tuple/typing.Tuple/Callable/Sequence/list/dict/dep.G/dep.GS: constants, overloaded "
              "functions, methods with self/cls, mutated parameters, */** parameters; types of depth<=3 with unions to "
              "width 9, related members (same-base containers, sub/superclasses, Tuple of other arity, homogeneous tuple, "
              "degenerate Callable), Literal, Any, nothing; resolved ClassType units with deps (as pytype.io), NamedType "
              "units with/without deps (as the pytd tool), NamedType units resolved only by the final LookupClasses, bare "
              "types without deps (as print_pytd); max_union in {7,3,0}, remove_mutable on 15%; plus outputs of Optimize "
              "fed back as inputs, 20 hand-picked edge shapes, the corpus, stubs inferred for small programs and "
              "(thorough) builtins.pytd/typing.pytd; 30% of the unit cases have generic classes (1-2 class type parameters, "
              "40% of them bounded/constrained) and signature templates (1-3 function type parameters) with unions of type "
              "parameters in parameters/returns/mutated types, 70% of those with remove_mutable (MergeTypeParameters); 40 "
              "overload sets of bool/int Literal returns.  Non-trivial = Optimize changed the input; distinct by input text.")
  res.assumptions = [
      "input ASTs are built by the pytd constructors (unions flat and duplicate-free); the model re-normalises every "
      "union it rebuilds, Node.Visit only when a child changed identity",
      "set/dict membership of pytd nodes = strict structural equality (no hash collisions)",
      "no GenericType based on builtins.object; TupleType based on builtins.tuple/typing.Tuple, CallableType on "
      "typing.Callable with >=1 parameter; class bases are plain class references; no nested classes; TypeParameters "
      "(name, scope, bound, constraints; no default) occur only inside the template that declares them, structurally "
      "equal to the template item, and bounds/constraints mention no type parameter; a type parameter is read as its "
      "upper value (constraints, else bound, else Any)",
      "MergeTypeParameters._AppendNew compares by identity (`is`), the model structurally: the lists differ only by "
      "later duplicates, which the `seen` set and the final JoinTypes cannot observe; _AllContaining's fuel "
      "(#collected type parameters + 2) is monitored (exhaustion = model ERR = mismatch), not proved",
      "Node.Visit's identity short-cut = the always-rebuilding visitor on constructor-built unions "
      "(visit_identity_shortcut; every UnionType passes through __post_init__)",
      "Literal values are ints; bool literals are outside the model because msgspec == conflates True with 1 "
      "(literal_eq_conflation_refuted; monitored by a direct leg)",
      "value oracle: Obj(class, contents per type parameter) / fixed tuples / functions (arity, sample result) / small "
      "ints; callable parameter positions unconstrained (DESIGN, stated limitation)",
      "(proved, no longer assumed: CombineContainers' fuel 2*size+2 is sufficient, cc_fuel_sufficient)",
      "translator harness/props/c11.py:translate (pass list, flags, callbacks per visitor, literals)"]
  # --- regenerate the pass list from /repo (fail closed)
  steps = None
  try:
    steps, max_union_default, sc_collapse, coq = translate()
    common.write_if_changed(os.path.join(common.COQ, "Generated", "C11_Passes.v"), coq)
    res.obligation("translator:optimize.Optimize", True,
                   "%d steps, max_union=%d, sc_collapse_single=%s" % (len(steps), max_union_default, sc_collapse))
    res.extra["passes"] = [("+".join(fl) or "always") + ":" + n for fl, _, n in steps]
    res.extra["sc_collapse_single"] = sc_collapse
  except TranslateError as e:
    res.obligation("translator:optimize.Optimize", False, str(e))
  t_coq = time.time()
  coq_ok = common.coq_obligations(res, "C11")
  res.extra["coq_leg_s"] = round(time.time() - t_coq, 1)
  common.bootstrap_pytype()
  import c11_lib as L  # pylint: disable=import-outside-toplevel
  from pytype.pytd import pytd, pytd_utils, visitors  # pylint: disable=import-outside-toplevel
  exe = None
  if steps is not None:
    try:
      exe = build_model()
      res.trusted_base += ["Coq extraction (ExtrOcamlBasic only) + OCaml 4.13.1 ocamlopt + harness/ocaml/opt_driver.ml"]
    except common.BuildError as e:
      res.obligation("model-build", False, str(e)[-2000:])
  if steps is None:
    # still search for property violations with the oracle, using a nominal pass list for attribution only
    steps = []
  res.trusted_base += ["harness/props/c11.py (translator, differ, tracer), harness/props/c11_lib.py (generator, codec, "
                       "membership oracle)", "out-of-tree g++ build of /repo/pytype/typegraph/*.cc (import of pytype.pytd)"]
  r = common.rng(res.seed, "c11")
  thorough = res.tier == "thorough"
  t_start = time.time()

  # ---------------------------------------------------------------- cases
  cases = []          # dict(name, uni, o, node, kindc, line, impl)
  fixed_uni = L.Universe(common.rng(0, "c11-fixed"))
  cdir = os.path.join(common.CORPUS, "C11")
  for f in sorted(os.listdir(cdir)) if os.path.isdir(cdir) else []:
    d = json.load(open(os.path.join(cdir, f)))
    uni = universe_from_record(L, d["universe"])
    dec = L.Decoder(uni.names)
    sx = L.parse_sx(d["input"])
    node = dec.unit(sx) if d["kindc"] == "U" else dec.ty(sx)
    if d.get("resolve"):
      node = visitors.LookupClasses(node, uni.deps())
    cases.append(dict(name="corpus:" + f, uni=uni, o=d["opts"], node=node, kindc=d["kindc"], mode="corpus",
                      resolved=bool(d.get("resolve"))))
  dec = L.Decoder(fixed_uni.names)
  for desc, sx in EDGE_TYPES:
    t = dec.ty(L.parse_sx(sx))
    named = any(tok.startswith("n") for tok in sx.replace("(", " ").replace(")", " ").split())
    for pos in ("const", "ret", "param", "bare"):
      for mu in (7, 3):
        o = dict(deps=pos != "bare", max_union=mu, remove_mutable=False, can_do_lookup=not named)
        resolved = False
        if pos == "bare":
          node, kindc = t, "T"
        else:
          if pos == "const":
            node = pytd.TypeDeclUnit(name="m", constants=(pytd.Constant("x0", t),), type_params=(), classes=(),
                                     functions=(), aliases=())
          else:
            p = pytd.Parameter("p2", t if pos == "param" else pytd.AnythingType(), pytd.ParameterKind.REGULAR, False, None)
            s = pytd.Signature(params=(p,), starargs=None, starstarargs=None,
                               return_type=t if pos == "ret" else pytd.AnythingType(), exceptions=(), template=())
            node = pytd.TypeDeclUnit(name="m", constants=(), type_params=(), classes=(),
                                     functions=(pytd.Function("f0", (s,), pytd.MethodKind.METHOD),), aliases=())
          kindc = "U"
          if not named:
            node = visitors.LookupClasses(node, fixed_uni.deps())
            resolved = True
        cases.append(dict(name="edge:%s:%s:%d" % (desc, pos, mu), uni=fixed_uni, o=o, node=node, kindc=kindc, mode="edge",
                          resolved=resolved))
  n_rand = 6000 if thorough else 1100
  uni = None
  for i in range(n_rand):
    if i % 50 == 0:
      uni = L.Universe(r)
    c = gen_case(L, r, uni, i)
    c.update(name="gen%d" % i, uni=uni, resolved=c["mode"] == "c")
    cases.append(c)

  def impl_run(c):
    cod = L.Codec(c["uni"])
    nodeh, depsh = c["uni"].hier_table()
    sx = cod.unit(c["node"]) if c["kindc"] == "U" else cod.ty(c["node"])
    c["input"] = sx
    c["line"] = "(case %s %s %s %s)" % (c["kindc"], L.opts_sx(c["o"]), cod.hier(depsh), sx)
    try:
      out = L.run_optimize(c["node"], c["uni"].deps(), c["o"])
      c["o1"] = out
      c["impl"] = cod.unit(out) if c["kindc"] == "U" else cod.ty(out)
    except Exception as e:  # pylint: disable=broad-except
      c["o1"] = None
      c["impl"] = "EXC:%s:%s" % (type(e).__name__, str(e)[:120])

  for c in cases:
    impl_run(c)
  # outputs of Optimize fed back as inputs (idempotence stream: includes one-member unions etc.)
  fed = []
  for c in cases:
    if c["o1"] is not None and c["impl"] != c["input"] and (thorough or len(fed) < 700):
      c2 = dict(name=c["name"] + "+again", uni=c["uni"], o=c["o"], node=c["o1"], kindc=c["kindc"], mode="again")
      impl_run(c2)
      c["again"] = c2
      fed.append(c2)
  allc = cases + fed
  t_impl = time.time() - t_start

  # ---------------------------------------------------------------- model
  model_out = None
  if exe is not None:
    try:
      model_out = run_model(exe, [c["line"] for c in allc])
    except common.BuildError as e:
      res.obligation("model-run", False, str(e))
  t_model = time.time() - t_start - t_impl
  n_mism = 0
  mism_cases = []
  n_stable = n_stable_checked = 0
  hist = collections.Counter()
  for idx, c in enumerate(allc):
    changed = c["impl"] != c["input"]
    hist["mode:" + c["mode"]] += 1
    hist["changed" if changed else "unchanged"] += 1
    if c["impl"].startswith("EXC:"):
      hist["impl-exception"] += 1
    res.count((c["line"],) if changed else None)
    if len(res.samples) < 4 and changed and c["kindc"] == "U" and len(c["input"]) < 220 and c["mode"] == "c":
      res.sample({"input": c["input"], "opts": c["o"], "optimized_impl": c["impl"]})
    if model_out is not None:
      mo = model_out[idx] or ""
      mparts = mo.split("\t")
      mtext = mparts[0]
      mflag = mparts[1] if len(mparts) > 1 else ""
      c["model_second_run_stable"] = (mparts[2] == "R") if len(mparts) > 2 else None
      if mtext == "ERR" and c["impl"].startswith("EXC:KeyError") and c["o"]["remove_mutable"]:
        # a TypeParameter outside every enclosing template: ReplaceTypeParameters raises KeyError, the model says None
        hist["keyerror-out-of-scope-type-parameter"] += 1
      elif mtext != c["impl"]:
        n_mism += 1
        mism_cases.append(c)
        if n_mism <= 3:
          res.obligation("correspondence:" + c["name"], False,
                         "model and optimize.Optimize differ\n input=%s\n opts=%s\n impl =%s\n model=%s"
                         % (c["input"][:700], c["o"], c["impl"][:700], mtext[:700]))
      c["model_stable"] = mflag == "S"
  if model_out is not None:
    res.obligation("correspondence:model-vs-optimize.Optimize", n_mism == 0,
                   "%d of %d cases disagree" % (n_mism, len(allc)))

  # ---------------------------------------------------------------- property oracle on the implementation
  viol = collections.OrderedDict()      # fingerprint -> (what, replay)
  fp_hist = collections.Counter()
  t_or = time.time()
  n_widen = n_idem = 0
  srs = collections.Counter()
  oracle_budget = 600 if thorough else 38
  mism_ids = {id(x) for x in mism_cases}
  for c in mism_cases + [x for x in cases if id(x) not in mism_ids]:
    if c["o1"] is None:
      # an exception inside Optimize on a well-formed input is outside the property unless the model expected a result
      continue
    if time.time() - t_or > oracle_budget:
      hist["oracle-budget-exhausted"] += 1
      break
    uni_c = c["uni"]
    if "orc" not in uni_c.__dict__:
      uni_c.orc, uni_c.vals = L.universe_oracle(uni_c, common.rng(res.seed, "c11-values"))
    # (1) never narrows
    if c["impl"] != c["input"]:
      n_widen += 1
      try:
        if c["kindc"] == "T":
          w = L.narrowing_witness(uni_c.orc, c["node"], c["o1"], uni_c.vals)
          why = None if w is None else "type loses %r" % (w,)
        else:
          why = L.unit_narrowing(uni_c.orc, c["node"], c["o1"], uni_c.vals,
                                 skip_self_in_classes=c["o"]["remove_mutable"])
      except L.Unsupported as e:
        why = None
        hist["oracle-unsupported"] += 1
      if why:
        fp = "narrowing:" + L.narrowing_kind(why)
        if c["o"]["remove_mutable"] and c["kindc"] == "U" and bounded_class_tparam(c["node"]):
          # merge_type_parameters_widens_refuted: a bounded/constrained class type parameter absorbs a function one
          o_unb = L.run_optimize(unbound_class_tparams(c["node"]), uni_c.deps(), c["o"])
          if not L.unit_narrowing(uni_c.orc, unbound_class_tparams(c["node"]), o_unb, uni_c.vals,
                                  skip_self_in_classes=True):
            fp = "narrowing:merge-type-parameters-bounded-class-parameter"
        fp_hist[fp] += 1
        if fp not in viol:
          viol[fp] = (why, c)
    # (2) idempotent
    n_idem += 1
    again = c.get("again")
    if again is not None:
      o2_text, o2 = again["impl"], again["o1"]
    else:
      try:
        o2 = L.run_optimize(c["o1"], uni_c.deps(), c["o"])
        cod = L.Codec(uni_c)
        o2_text = cod.unit(o2) if c["kindc"] == "U" else cod.ty(o2)
      except Exception as e:  # pylint: disable=broad-except
        o2, o2_text = None, "EXC:%s" % type(e).__name__
    idem = o2 is not None and o2_text == c["impl"] and L.same_ast(c["o1"], o2)
    if again is not None and again.get("model_stable") is not None:
      pass
    if c.get("model_stable") and c["o"]["remove_mutable"] is False and c["kindc"] == "U":
      n_stable += 1
      if not idem:
        res.obligation("normal-form-fixpoint:" + c["name"], False,
                       "model says Optimize's result is in normal form, yet the real re-run changes it: " + c["impl"][:500])
    if c["kindc"] == "U" and c["o"]["remove_mutable"] is False:
      n_stable_checked += 1
    if c["kindc"] == "U" and c.get("model_second_run_stable") is not None:
      srs["checked"] += 1
      if c["model_second_run_stable"]:
        srs["model-stable"] += 1
        if not idem:
          res.obligation("second-run-stable-fixpoint:" + c["name"], False,
                         "model says every enabled step fixes Optimize's result, yet the real re-run changes it: "
                         + c["impl"][:500])
      elif idem:
        # the converse (no step undoes another): not proved, monitored
        srs["idempotent-but-some-step-changes"] += 1
    if not idem:
      fp = idempotence_fingerprint(L, c["node"], uni_c.deps(), c["o"], steps, c["o1"], o2, c["mode"])
      fp_hist[fp] += 1
      if fp not in viol:
        viol[fp] = ("Optimize(Optimize(x)) != Optimize(x): once=%s twice=%s" % (c["impl"][:300], o2_text[:300]), c)
  res.obligation("monitored:second-run-stable-iff-real-fixpoint", srs["idempotent-but-some-step-changes"] == 0,
                 "%d results checked, %d second_run_stable in the model (all real fixed points); %d real fixed points "
                 "on which some modelled step is not the identity (converse of second_run_stable_fixpoint)"
                 % (srs["checked"], srs["model-stable"], srs["idempotent-but-some-step-changes"]))
  res.extra["second_run"] = dict(srs)
  res.obligation("monitored:normal-form-implies-fixpoint", True,
                 "%d results in normal form (of %d lossless unit cases), all fixed points of the real Optimize"
                 % (n_stable, n_stable_checked))

  # ---------------------------------------------------------------- emitted stubs / bundled stubs
  stats = collections.Counter()
  prog_viol = []
  try:
    from pytype import config, io  # pylint: disable=import-outside-toplevel
    from pytype.pytd import optimize  # pylint: disable=import-outside-toplevel
    captured = []
    orig = optimize.Optimize

    def spy(node, *a, **k):
      if isinstance(node, pytd.TypeDeclUnit) and a:
        captured.append((node, a[0], k))
      return orig(node, *a, **k)
    progs = list(PROGRAMS) + [gen_program(r) for _ in range(120 if thorough else 14)]
    optimize.Optimize = spy
    try:
      for i, src in enumerate(progs):
        del captured[:]
        try:
          io.generate_pyi(src, config.Options.create(python_version=(3, 12)))
        except Exception as e:  # pylint: disable=broad-except
          stats["program-not-analysable:" + type(e).__name__] += 1
          continue
        stats["programs"] += 1
        for node, deps, k in captured[-1:]:
          o = dict(deps=True, lossy=k.get("lossy", False), use_abcs=k.get("use_abcs", False),
                   max_union=k.get("max_union", 7), remove_mutable=k.get("remove_mutable", False), can_do_lookup=True)
          optimize.Optimize = orig
          try:
            for fp, what, rep in check_real_unit(L, res, r, node, deps, o, "prog%d" % i, steps, stats):
              rep["source"] = src
              prog_viol.append((fp, what, rep))
          finally:
            optimize.Optimize = spy
    finally:
      optimize.Optimize = orig
    if thorough:
      from pytype.imports import builtin_stubs  # pylint: disable=import-outside-toplevel
      b, t = builtin_stubs.GetBuiltinsAndTyping(config.Options.create(python_version=(3, 12)))
      both = pytd_utils.Concat(b, t)
      for label, unit in (("builtins.pytd", b), ("typing.pytd", t)):
        o = dict(deps=True, max_union=7, remove_mutable=False, can_do_lookup=False)
        for fp, what, rep in check_real_unit(L, res, r, unit, both, o, label, steps, stats):
          prog_viol.append((fp, what, rep))
  except Exception as e:  # pylint: disable=broad-except
    import traceback  # pylint: disable=import-outside-toplevel
    res.obligation("emitted-stubs-leg", False, traceback.format_exc()[-1500:])
  try:
    prog_viol += literal_leg(L, res, r, steps)
  except Exception:  # pylint: disable=broad-except
    import traceback  # pylint: disable=import-outside-toplevel
    res.obligation("literal-eq-leg", False, traceback.format_exc()[-1500:])
  for fp, what, rep in prog_viol:
    fp_hist[fp] += 1
    if fp not in viol:
      viol[fp] = (what, rep)

  # ---------------------------------------------------------------- report
  reported = 0
  for fp, (what, c) in viol.items():
    if isinstance(c, dict) and "node" in c:
      if fp not in res.known and reported < 3 and c["kindc"] == "U":
        # shrink while the same fingerprint reproduces
        def bad(u, c=c, fp=fp):
          o1 = L.run_optimize(u, c["uni"].deps(), c["o"])
          if fp.startswith("narrowing:"):
            return bool(L.unit_narrowing(c["uni"].orc, u, o1, c["uni"].vals, skip_self_in_classes=c["o"]["remove_mutable"]))
          o2 = L.run_optimize(o1, c["uni"].deps(), c["o"])
          if L.same_ast(o1, o2):
            return False
          return fp == idempotence_fingerprint(L, u, c["uni"].deps(), c["o"], steps, o1, o2, c["mode"])
        try:
          small = shrink_unit(L, c["node"], bad)
          cod = L.Codec(c["uni"])
          c = dict(c, node=small, input=cod.unit(small))
        except Exception:  # pylint: disable=broad-except
          pass
      rep = {"kind": "case", "seed": res.seed, "kindc": c["kindc"], "opts": c["o"], "input": c["input"], "case": c["name"],
             "universe": mk_universe_record(c["uni"]), "resolve": bool(c.get("resolved"))}
    else:
      rep = c
    if fp not in res.known:
      reported += 1
      if reported > 3:
        continue
    res.violation(fp, what[:600], rep)
  common.log("[C11] repo=%s sc_collapse_single=%s classes=%s stubs=%s" % (
      common.REPO, res.extra.get("sc_collapse_single"), dict(fp_hist), dict(stats)))
  res.extra["cases"] = len(allc)
  res.extra["distribution"] = dict(hist)
  res.extra["oracle"] = {"widening_checked": n_widen, "idempotence_checked": n_idem,
                         "violation_classes": dict(fp_hist), "model_normal_form_results": n_stable}
  res.extra["emitted_stubs"] = dict(stats)
  res.extra["oracle_positions_skipped"] = dict(L.SKIPPED)
  res.extra["timing_s"] = {"generate+impl": round(t_impl, 1), "model": round(t_model, 1),
                           "oracle+stubs+shrink": round(time.time() - t_or, 1), "until_cases": round(t_start - res.t0, 1)}
  if thorough:
    ok, out = common_coqchk("C11")
    res.obligation("coqchk", ok, out[-1500:])
  return "proof"


def common_coqchk(pid):
  r = subprocess.run(["timeout", "1500", "coqchk", "-silent", "-o", "-Q", common.COQ, "PV", f"PV.Props.{pid}"],
                     capture_output=True, text=True, cwd=common.COQ)
  return r.returncode == 0, r.stdout + r.stderr


def replay(res, path):
  common.bootstrap_pytype()
  import c11_lib as L  # pylint: disable=import-outside-toplevel
  from pytype.pytd import pytd_utils, visitors  # pylint: disable=import-outside-toplevel
  d = json.load(open(path))
  rep = d["replay"]
  try:
    steps = translate()[0]
  except TranslateError:
    steps = []
  if rep.get("kind") == "program":
    from pytype import config, io  # pylint: disable=import-outside-toplevel
    from pytype.pytd import optimize  # pylint: disable=import-outside-toplevel
    if "source" not in rep:
      print("bundled stub %s: re-run the thorough tier" % rep.get("label"))
      return 1
    cap = []
    orig = optimize.Optimize
    def spy(node, *a, **k):
      if a:
        cap.append((node, a[0], k))
      return orig(node, *a, **k)
    optimize.Optimize = spy
    try:
      io.generate_pyi(rep["source"], config.Options.create(python_version=(3, 12)))
    finally:
      optimize.Optimize = orig
    node, deps, k = cap[-1]
    o = dict(deps=True, max_union=k.get("max_union", 7), remove_mutable=False, can_do_lookup=True)
    stats = collections.Counter()
    out = check_real_unit(L, res, common.rng(0), node, deps, o, "replay", steps, stats)
    print(rep["source"])
    for fp, what, _ in out:
      print("impl  :", fp, what)
    return 1 if out else 0
  uni = universe_from_record(L, rep["universe"])
  dec = L.Decoder(uni.names)
  sx = L.parse_sx(rep["input"])
  node = dec.unit(sx) if rep["kindc"] == "U" else dec.ty(sx)
  if rep.get("resolve") and rep["kindc"] == "U":
    node = visitors.LookupClasses(node, uni.deps())
  o = rep["opts"]
  o1 = L.run_optimize(node, uni.deps(), o)
  o2 = L.run_optimize(o1, uni.deps(), o)
  cod = L.Codec(uni)
  enc = cod.unit if rep["kindc"] == "U" else cod.ty
  print("input :", rep["input"])
  print("once  :", enc(o1))
  print("twice :", enc(o2))
  if rep["kindc"] == "U":
    print("once (pyi):\n" + pytd_utils.Print(o1))
  orc, vals = L.universe_oracle(uni, common.rng(rep.get("seed", res.seed), "c11-values"))
  if rep["kindc"] == "U":
    why = L.unit_narrowing(orc, node, o1, vals, skip_self_in_classes=o["remove_mutable"])
  else:
    w = L.narrowing_witness(orc, node, o1, vals)
    why = None if w is None else "type loses %r" % (w,)
  idem = L.same_ast(o1, o2)
  print("oracle: narrowing =", why, "; idempotent =", idem)
  if not idem and rep["kindc"] == "U":
    print("class :", idempotence_fingerprint(L, node, uni.deps(), o, steps, o1, o2))
  return 0 if (why is None and idem) else 1


def generate():
  """Called by harness/setup.py before the Coq build (coq/Generated is not committed)."""
  common.bootstrap_pytype()
  _, _, _, coq = translate()
  common.write_if_changed(os.path.join(common.COQ, "Generated", "C11_Passes.v"), coq)
