"""C06 end-to-end oracle: upstream program A -> stub -> downstream module B analysed through three transports.

Everything the oracle needs about A is read from A's emitted stub (parsed with pytype's own parser), so the
oracle is independent of the program generator and of the Coq model."""
import json
import os
import shutil
import traceback

import common

# ---------------------------------------------------------------------------------------------
# upstream program generator (no imports except typing)

LITS = [("0", "int"), ("1", "int"), ("''", "str"), ("'a'", "str"), ("1.5", "float"), ("b''", "bytes"),
        ("None", "None"), ("2j", "complex"), ("True", "bool")]


class Gen:
  def __init__(self, r, n_classes):
    self.r = r
    self.classes = []          # (name, n_ctor_args)
    self.funcs = []            # names usable as values
    self.n_classes = n_classes

  def expr(self, depth, names=()):
    """an expression; `names` are local variable names usable as leaves."""
    r = self.r
    x = r.random()
    if depth <= 0 or x < 0.28:
      if names and r.random() < 0.4:
        return r.choice(names)
      return r.choice(LITS)[0]
    if x < 0.40:
      k = r.choice([0, 1, 1, 2, 3])
      return "[" + ", ".join(self.expr(depth - 1, names) for _ in range(k)) + "]"
    if x < 0.48:
      k = r.choice([0, 1, 2])
      return "{" + ", ".join("%s: %s" % (r.choice(["'k'", "1", "'j'", "2"]), self.expr(depth - 1, names))
                             for _ in range(k)) + "}"
    if x < 0.54:
      k = r.choice([1, 2])
      return "{" + ", ".join(r.choice(["1", "'a'", "2.5", "None"]) for _ in range(k)) + "}"
    if x < 0.66:
      k = r.choice([0, 1, 2, 2, 3])
      items = [self.expr(depth - 1, names) for _ in range(k)]
      return "(" + ", ".join(items) + ("," if k == 1 else "") + ")"
    if x < 0.76:
      return "(%s if _cond() else %s)" % (self.expr(depth - 1, names), self.expr(depth - 1, names))
    if x < 0.84 and self.classes:
      name, nargs = r.choice(self.classes)
      return "%s(%s)" % (name, ", ".join(["0", "''"][:nargs]))
    if x < 0.89 and self.classes:
      return r.choice(self.classes)[0]                       # a class as a value
    if x < 0.94 and self.funcs:
      return r.choice(self.funcs)                            # a function as a value
    if x < 0.97:
      k = r.choice([0, 1, 2])
      ps = ["p%d" % i for i in range(k)]
      return "(lambda %s: %s)" % (", ".join(ps), self.expr(depth - 1, tuple(ps)))
    return "frozenset([%s])" % self.expr(0, names)

  ANNOTS = ["int", "str", "float", "bool", "bytes", "list[int]", "dict[str, int]", "Optional[int]",
            "Union[int, str]", "tuple[int, str]", "tuple[int, ...]", "Callable[[int], str]", "Callable[..., int]",
            "set[str]", "list[Optional[str]]", "Any", "object", "type", "list", "dict", "tuple[()]",
            "list[list[int]]", "dict[str, list[Union[int, str]]]", "Optional[Callable[[], None]]"]

  def annot(self, allow_cls=True):
    r = self.r
    if allow_cls and self.classes and r.random() < 0.3:
      c = r.choice(self.classes)[0]
      return r.choice([c, "Optional[%s]" % c, "list[%s]" % c, "type[%s]" % c, "dict[str, %s]" % c,
                       "Callable[[%s], %s]" % (c, c), "Union[%s, int]" % c])
    return r.choice(self.ANNOTS)

  def params(self, k):
    r = self.r
    ps = []
    for i in range(k):
      if r.random() < 0.75:
        ps.append(("a%d" % i, self.annot()))
      else:
        ps.append(("a%d" % i, None))
    return ps

  def func(self, name, indent, is_method, kind="method"):
    r = self.r
    k = r.choice([0, 1, 1, 2, 2, 3]) if kind != "property" else 0
    ps = self.params(k)
    first = {"method": ["self"], "property": ["self"], "classmethod": ["cls"], "staticmethod": []}[kind] if is_method else []
    sig = first + [p if a is None else "%s: %s" % (p, a) for p, a in ps]
    # defaults on a suffix of the parameters, then optional *args / keyword-only / **kwargs
    if ps and r.random() < 0.25:
      j = r.randrange(len(ps))
      for q in range(j, len(ps)):
        pn, an = ps[q]
        sig[len(first) + q] += (" = " if an else "=") + (default_expr(an, self) if an else "None")
    extra = r.random()
    if extra < 0.08:
      sig.append("*args")
    elif extra < 0.14:
      sig.append("*, kw: int = 0")
    elif extra < 0.18:
      sig.append("**kwargs")
    names = tuple(p for p, _ in ps) + (("self",) if is_method and kind == "method" and r.random() < 0.2 else ())
    ret = ""
    if r.random() < 0.35:
      ra = self.annot()
      ret = " -> " + ra
      body = ["return %s" % default_expr(ra, self)]
    else:
      body = []
      if r.random() < 0.3:
        body.append("if _cond(): return %s" % self.expr(2, names))
      body.append("return %s" % self.expr(2, names))
    pad = " " * indent
    deco = "" if kind in ("method",) or not is_method else pad + "@%s\n" % kind
    return deco + pad + "def %s(%s)%s:\n" % (name, ", ".join(sig), ret) + "".join(pad + "  " + b + "\n" for b in body)

  def klass(self, idx):
    r = self.r
    name = "K%d" % idx
    bases = ""
    inherited_ctor = None
    if self.classes and r.random() < 0.4:
      b, nb = r.choice(self.classes)
      bases = "(%s)" % b
      inherited_ctor = nb
    lines = ["class %s%s:\n" % (name, bases)]
    for i in range(r.choice([0, 1, 2])):
      if r.random() < 0.5:
        lines.append("  c%d_%d = %s\n" % (idx, i, self.expr(2)))
      else:
        a = self.annot()
        lines.append("  c%d_%d: %s = %s\n" % (idx, i, a, default_expr(a, self)))
    nargs = inherited_ctor if inherited_ctor is not None else 0
    if inherited_ctor is None or r.random() < 0.3:
      nargs = r.choice([0, 0, 1, 2])
      ps = [("p0", "int"), ("p1", "str")][:nargs]
      lines.append("  def __init__(self%s) -> None:\n" % "".join(", %s: %s" % p for p in ps))
      if inherited_ctor is not None:
        lines.append("    super().__init__(%s)\n" % ", ".join(["0", "''"][:inherited_ctor]))
      nattr = r.choice([0, 1, 2, 3])
      for i in range(nattr):
        if r.random() < 0.6:
          lines.append("    self.i%d_%d = %s\n" % (idx, i, self.expr(2, tuple(p for p, _ in ps))))
        else:
          a = self.annot()
          lines.append("    self.i%d_%d: %s = %s\n" % (idx, i, a, default_expr(a, self)))
      if nattr == 0:
        lines.append("    pass\n")
    for i in range(r.choice([0, 1, 2])):
      lines.append(self.func("m%d_%d" % (idx, i), 2, True))
    if r.random() < 0.3:
      kind = r.choice(["property", "staticmethod", "classmethod"])
      lines.append(self.func("%s%d" % (kind[0], idx), 2, True, kind))
    if self.classes and r.random() < 0.15:
      lines.append("  N%d = %s\n" % (idx, r.choice(self.classes)[0]))       # a class as a class attribute
    if len(lines) == 1:
      lines.append("  pass\n")
    self.classes.append((name, nargs))
    return "".join(lines)

  def program(self):
    r = self.r
    out = ["from typing import Any, Callable, Generic, NamedTuple, Optional, TypeVar, Union\n",
           "def _cond(): return bool(_cond)\n"]
    for i in range(self.n_classes):
      out.append(self.klass(i))
    if r.random() < 0.4:
      out.append("T = TypeVar('T')\n"
                 "class G0(Generic[T]):\n"
                 "  def __init__(self, x: T) -> None:\n"
                 "    self.x = x\n"
                 "  def get(self) -> T:\n"
                 "    return self.x\n"
                 "  def wrap(self):\n"
                 "    return %s\n" % r.choice(["[self.x]", "(self.x, 0)", "{'k': self.x}", "(self.x if _cond() else None)"]))
      for i in range(r.choice([1, 2])):
        e1, e2 = self.expr(1), self.expr(1)
        out.append("g%d = %s\n" % (i, r.choice(["G0(%s)" % e1, "(G0(%s) if _cond() else G0(%s))" % (e1, e2),
                                                  "[G0(%s)]" % e1])))
      out.append("def mk0(a: int) -> G0[%s]:\n  return G0(%s)\n" %
                 r.choice([("int", "a"), ("list[int]", "[a]"), ("Optional[str]", "None")]))
    if r.random() < 0.2:
      out.append("class NT(NamedTuple):\n  a: int\n  b: %s\n" % self.annot(allow_cls=False))
      self.classes.append(("NT", 2))
    nf = r.choice([1, 2, 3])
    for i in range(nf):
      out.append(self.func("f%d" % i, 0, False))
      self.funcs.append("f%d" % i)
    nv = r.choice([3, 4, 5, 6])
    for i in range(nv):
      x = r.random()
      if x < 0.6:
        out.append("v%d = %s\n" % (i, self.expr(3)))
      elif x < 0.8:
        out.append("if _cond():\n  v%d = %s\nelse:\n  v%d = %s\n" % (i, self.expr(2), i, self.expr(2)))
      else:
        a = self.annot()
        out.append("v%d: %s = %s\n" % (i, a, default_expr(a, self)))
    return "".join(out)


def default_expr(annot, g):
  """a value of the annotated type (source text)."""
  table = {"int": "0", "str": "''", "float": "0.5", "bool": "True", "bytes": "b''", "list[int]": "[1]",
           "dict[str, int]": "{'a': 1}", "Optional[int]": "None", "Union[int, str]": "''", "tuple[int, str]": "(1, '')",
           "tuple[int, ...]": "(1, 2)", "Callable[[int], str]": "(lambda q: '')", "Callable[..., int]": "(lambda *q: 0)",
           "set[str]": "{'a'}", "list[Optional[str]]": "[None]", "Any": "None", "object": "0", "type": "int",
           "list": "[]", "dict": "{}", "tuple[()]": "()", "list[list[int]]": "[[1]]",
           "dict[str, list[Union[int, str]]]": "{}", "Optional[Callable[[], None]]": "None"}
  if annot in table:
    return table[annot]
  # class-based annotations
  for name, nargs in g.classes:
    inst = "%s(%s)" % (name, ", ".join(["0", "''"][:nargs]))
    forms = {name: inst, "Optional[%s]" % name: "None", "list[%s]" % name: "[%s]" % inst, "type[%s]" % name: name,
             "dict[str, %s]" % name: "{}", "Callable[[%s], %s]" % (name, name): "(lambda q: q)",
             "Union[%s, int]" % name: "0"}
    if annot in forms:
      return forms[annot]
  return "None"


def gen_program(r):
  return Gen(r, r.choice([0, 1, 2, 2, 3])).program()


# ---------------------------------------------------------------------------------------------
# canonical, order-insensitive form of a pytd type (module prefix of A stripped)

def canon(t, mod="A"):
  from pytype.pytd import pytd
  def name(n):
    for p in (mod + ".", "builtins.", "typing."):
      if n.startswith(p):
        n = n[len(p):]
    return {"Tuple": "tuple", "List": "list", "Dict": "dict", "Type": "type", "Set": "set",
            "FrozenSet": "frozenset"}.get(n, n)
  if isinstance(t, pytd.AnythingType):
    return "Any"
  if isinstance(t, pytd.NothingType):
    return "nothing"
  if isinstance(t, (pytd.NamedType, pytd.ClassType, pytd.LateType)):
    return name(t.name)
  if isinstance(t, pytd.TypeParameter):
    return "~" + t.name
  if isinstance(t, pytd.UnionType):
    ms = set()
    for m in t.type_list:
      c = canon(m, mod)
      if isinstance(c, tuple) and c[0] == "U":
        ms.update(c[1])
      else:
        ms.add(c)
    return mk_union(ms)
  if isinstance(t, pytd.TupleType):
    return ("T",) + tuple(canon(p, mod) for p in t.parameters)
  if isinstance(t, pytd.CallableType):
    return ("F", tuple(canon(p, mod) for p in t.args), canon(t.ret, mod))
  if isinstance(t, pytd.GenericType):
    return ("G", name(t.base_type.name)) + tuple(canon(p, mod) for p in t.parameters)
  if isinstance(t, pytd.Literal):
    return ("L", str(t.value))
  if isinstance(t, pytd.Annotated):
    return canon(t.base_type, mod)
  return ("?", type(t).__name__, str(t))


def mk_union(ms):
  """Union as a set; a union with an Any member is Any (pytd_utils.JoinTypes, which pytype's Optimize applies
  to every union: SimplifyUnions / CollapseLongUnions; AdjustReturnAndConstantGenericType can leave a
  `Union[Any, X]` behind in a stub when it rewrites `object`, and that denotes the same type as Any)."""
  ms = set(ms)
  ms.discard("nothing")
  if "Any" in ms:
    return "Any"
  if len(ms) == 1:
    return next(iter(ms))
  if not ms:
    return "nothing"
  return ("U", tuple(sorted(ms, key=repr)))


def type_to_any(c):
  """c with every bare `type` replaced by Any, re-normalised (Union with Any -> Any, all-Any container -> bare
  class).  Used only to recognise the known finding `type` -> Any."""
  if isinstance(c, str):
    return "Any" if c == "type" else c
  if c[0] == "U":
    ms = set()
    for m in c[1]:
      m2 = type_to_any(m)
      if isinstance(m2, tuple) and m2[0] == "U":
        ms.update(m2[1])
      else:
        ms.add(m2)
    return mk_union(ms)
  if c[0] == "T":
    return ("T",) + tuple(type_to_any(x) for x in c[1:])
  if c[0] == "F":
    return ("F", tuple(type_to_any(x) for x in c[1]), type_to_any(c[2]))
  if c[0] == "G":
    ps = tuple(type_to_any(x) for x in c[2:])
    if all(p == "Any" for p in ps):
      return "Any" if c[1] == "type" else c[1]
    return ("G", c[1]) + ps
  return c


def subst_tv(c, sub):
  if isinstance(c, str):
    return sub.get(c, c)
  if c[0] == "U":
    ms = set()
    for m in c[1]:
      m2 = subst_tv(m, sub)
      if isinstance(m2, tuple) and m2[0] == "U":
        ms.update(m2[1])
      else:
        ms.add(m2)
    return mk_union(ms)
  if c[0] == "T":
    return ("T",) + tuple(subst_tv(x, sub) for x in c[1:])
  if c[0] == "F":
    return ("F", tuple(subst_tv(x, sub) for x in c[1]), subst_tv(c[2], sub))
  if c[0] == "G":
    return ("G", c[1]) + tuple(subst_tv(x, sub) for x in c[2:])
  return c


def has_typevar(c):
  if isinstance(c, str):
    return c.startswith("~")
  return any(has_typevar(x) for x in c if isinstance(x, (str, tuple)))


def show(c):
  if isinstance(c, str):
    return c
  if c[0] == "U":
    return "Union[" + ", ".join(show(x) for x in c[1]) + "]"
  if c[0] == "T":
    return "tuple[" + (", ".join(show(x) for x in c[1:]) or "()") + "]"
  if c[0] == "F":
    return "Callable[[" + ", ".join(show(x) for x in c[1]) + "], " + show(c[2]) + "]"
  if c[0] == "G":
    return c[1] + "[" + ", ".join(show(x) for x in c[2:]) + "]"
  return repr(c)


# ---------------------------------------------------------------------------------------------
# derive the downstream module from the upstream stub

def parse_stub(text, name):
  from pytype.pyi import parser
  return parser.parse_string(text, name=name, filename=name + ".pyi",
                             options=parser.PyiOptions(python_version=(3, 12)))


def mk_expr(t, classes, depth=3):
  """source text of an expression whose type is the stub type t, or None."""
  from pytype.pytd import pytd
  if depth < 0:
    return None
  if isinstance(t, pytd.AnythingType):
    return "None"
  if isinstance(t, pytd.TypeParameter):
    return "0"
  if isinstance(t, (pytd.NamedType, pytd.ClassType)):
    n = t.name
    base = {"int": "0", "str": "''", "float": "0.5", "bool": "True", "bytes": "b''", "complex": "1j",
            "NoneType": "None", "None": "None", "object": "0", "list": "[]", "dict": "{}", "tuple": "()",
            "set": "set()", "type": "int"}
    n0 = n.split(".")[-1]
    if n0 in base and n0 not in classes:
      return base[n0]
    if n0 in classes:
      args = ctor_args(classes[n0], classes, depth - 1)
      return None if args is None else "A.%s(%s)" % (n0, ", ".join(args))
    return None
  if isinstance(t, pytd.UnionType):
    for m in t.type_list:
      e = mk_expr(m, classes, depth - 1)
      if e is not None:
        return e
    return None
  if isinstance(t, pytd.TupleType):
    es = [mk_expr(p, classes, depth - 1) for p in t.parameters]
    if any(e is None for e in es):
      return None
    return "(" + ", ".join(es) + ("," if len(es) == 1 else "") + ")"
  if isinstance(t, pytd.CallableType):
    e = mk_expr(t.ret, classes, depth - 1)
    if e is None:
      return None
    return "(lambda %s: %s)" % (", ".join("q%d" % i for i in range(len(t.args))), e)
  if isinstance(t, pytd.GenericType):
    b = t.base_type.name.split(".")[-1]
    ps = t.parameters
    if b == "Callable":
      e = mk_expr(ps[-1], classes, depth - 1)
      return None if e is None else "(lambda *q: %s)" % e
    if b == "type":
      if isinstance(ps[0], (pytd.NamedType, pytd.ClassType)):
        n0 = ps[0].name.split(".")[-1]
        return ("A." + n0) if n0 in classes else (n0 if n0 in ("int", "str", "float", "list", "dict") else None)
      return None
    es = [("" if isinstance(p, pytd.NothingType) else mk_expr(p, classes, depth - 1)) for p in ps]
    if any(e is None for e in es):
      return None
    if b in ("list", "List"):
      return "[%s]" % es[0]
    if b in ("set", "Set"):
      return "{%s}" % es[0] if es[0] else "set()"
    if b == "frozenset":
      return "frozenset([%s])" % es[0]
    if b in ("tuple", "Tuple"):
      return "(%s,)" % es[0] if es[0] else "()"
    if b in ("dict", "Dict"):
      return "{%s: %s}" % (es[0], es[1]) if es[0] and es[1] else "{}"
  return None


def sig_args(sig, classes, depth, skip_self):
  ps = list(sig.params)
  if skip_self and ps:
    ps = ps[1:]
  if sig.starargs or sig.starstarargs:
    return None
  out = []
  for p in ps:
    if p.optional:
      continue
    e = mk_expr(p.type, classes, depth)
    if e is None:
      return None
    if p.kind == p.kind.KWONLY if hasattr(p.kind, "KWONLY") else False:
      out.append("%s=%s" % (p.name, e))
    else:
      out.append(e)
  return out


def ctor_args(cls, classes, depth):
  if any(getattr(b, "name", "").split(".")[-1] == "NamedTuple" for b in cls.bases):
    es = [mk_expr(c.type, classes, depth) for c in cls.constants]
    return None if any(e is None for e in es) else es
  for c in mro_of(cls, classes):
    for m in c.methods:
      if m.name == "__init__":
        if len(m.signatures) != 1:
          return None
        return sig_args(m.signatures[0], classes, depth, True)
  return []


def class_tparams(cls):
  """names of the class's type parameters (the raw parse leaves Class.template empty; AdjustTypeParameters fills
  it at load time from the bases)."""
  from pytype.pytd import pytd
  if cls.template:
    return [t.name for t in cls.template]
  out = []
  gen = [b for b in cls.bases if isinstance(b, pytd.GenericType) and b.base_type.name in ("typing.Generic", "Generic")]
  for b in gen or [b for b in cls.bases if isinstance(b, pytd.GenericType)]:
    for p in b.parameters:
      if isinstance(p, pytd.TypeParameter) and p.name not in out:
        out.append(p.name)
  return out


def mro_of(cls, classes):
  """the class followed by its (single-inheritance chain of) bases defined in the same stub."""
  out = [cls]
  seen = {cls.name}
  todo = list(cls.bases)
  while todo:
    b = todo.pop(0)
    n = getattr(b, "name", "").split(".")[-1]
    if n in classes and n not in seen:
      seen.add(n)
      out.append(classes[n])
      todo.extend(classes[n].bases)
  return out


def derive_downstream(stub_text):
  """Returns (source of B, expectations) where expectations maps a name of B to
  ("type", canonical type) | ("callable", params, ret)."""
  from pytype.pytd import pytd
  ast = parse_stub(stub_text, "A")
  classes = {c.name.split(".")[-1]: c for c in ast.classes}
  lines = ["import A\n"]
  exp = {}
  def public(n):
    return not n.startswith("_")
  def generic_probes(prefix, expr, ct, where):
    """ct = canonical type of `expr`; if it is an instance of a generic class of A, read its attributes and call its
    parameterless methods, expecting the declared type with the class's type parameters substituted."""
    if not (isinstance(ct, tuple) and ct[0] == "G" and ct[1] in classes and class_tparams(classes[ct[1]])):
      return
    cls = classes[ct[1]]
    names = ["~" + t for t in class_tparams(cls)]
    if len(names) != len(ct) - 2:
      return
    sub = dict(zip(names, ct[2:]))
    for a in cls.constants:
      if public(a.name):
        nm = "%s_%s" % (prefix, a.name)
        lines.append("%s = %s.%s\n" % (nm, expr, a.name))
        e = subst_tv(canon(a.type), sub)
        if not has_typevar(e):
          exp[nm] = ("type", e, "%s.%s" % (where, a.name))
    for m in cls.methods:
      if public(m.name) and len(m.signatures) == 1 and m.kind == pytd.MethodKind.METHOD and \
         len(m.signatures[0].params) == 1 and not m.signatures[0].starargs and not m.signatures[0].starstarargs:
        nm = "%s_%s" % (prefix, m.name)
        lines.append("%s = %s.%s()\n" % (nm, expr, m.name))
        e = subst_tv(canon(m.signatures[0].return_type), sub)
        if not has_typevar(e):
          exp[nm] = ("type", e, "%s.%s()" % (where, m.name))
  for c in ast.constants:
    n = c.name.split(".")[-1]
    if public(n):
      lines.append("v_%s = A.%s\n" % (n, n))
      exp["v_" + n] = ("type", canon(c.type), "A." + n)
      generic_probes("q_" + n, "A." + n, canon(c.type), "A." + n)
  for a in ast.aliases:
    n = a.name.split(".")[-1]
    if not public(n) or isinstance(a.type, pytd.Module):
      continue
    if isinstance(a.type, (pytd.Function, pytd.Constant)) or n in ("Any", "Callable", "Optional", "Union", "Generic", "NamedTuple", "TypeVar"):
      continue
    lines.append("v_%s = A.%s\n" % (n, n))
    if isinstance(a.type, pytd.Type):
      exp["v_" + n] = ("alias", canon(a.type), "A." + n)
  for f in ast.functions:
    n = f.name.split(".")[-1]
    if not public(n):
      continue
    lines.append("g_%s = A.%s\n" % (n, n))
    exp["g_" + n] = ("function", [sig_canon(s, False) for s in f.signatures], "A." + n)
    if len(f.signatures) == 1:
      args = sig_args(f.signatures[0], classes, 2, False)
      ret = canon(f.signatures[0].return_type)
      if args is not None:
        lines.append("r_%s = A.%s(%s)\n" % (n, n, ", ".join(args)))
        if not has_typevar(ret):
          exp["r_" + n] = ("type", ret, "A.%s(...)" % n)
          generic_probes("q_r_" + n, "r_" + n, ret, "A.%s(...)" % n)
  for cn, c in classes.items():
    if not public(cn):
      continue
    lines.append("k_%s = A.%s\n" % (cn, cn))
    exp["k_" + cn] = ("type", ("G", "type", cn), "A." + cn)
    args = ctor_args(c, classes, 2)
    if args is None:
      continue
    lines.append("i_%s = A.%s(%s)\n" % (cn, cn, ", ".join(args)))
    if class_tparams(c):
      continue                      # the instance's parameters depend on the constructor arguments
    exp["i_" + cn] = ("type", cn, "A.%s()" % cn)
    seen = set()
    for k in mro_of(c, classes):
      for a in k.constants:
        an = a.name
        if an in seen or not public(an):
          continue
        seen.add(an)
        lines.append("a_%s_%s = i_%s.%s\n" % (cn, an, cn, an))
        ct = canon(a.type)
        if not has_typevar(ct):
          exp["a_%s_%s" % (cn, an)] = ("type", ct, "A.%s().%s" % (cn, an))
      for m in k.methods:
        mn = m.name
        if mn in seen or not public(mn) or len(m.signatures) != 1:
          continue
        seen.add(mn)
        ret = canon(m.signatures[0].return_type)
        if m.kind == pytd.MethodKind.PROPERTY:
          lines.append("m_%s_%s = i_%s.%s\n" % (cn, mn, cn, mn))
          if not has_typevar(ret):
            exp["m_%s_%s" % (cn, mn)] = ("type", ret, "A.%s().%s" % (cn, mn))
          continue
        skip_first = m.kind != pytd.MethodKind.STATICMETHOD
        margs = sig_args(m.signatures[0], classes, 2, skip_first)
        if margs is None:
          continue
        recv = "i_%s" % cn if m.kind == pytd.MethodKind.METHOD else "A.%s" % cn
        lines.append("m_%s_%s = %s.%s(%s)\n" % (cn, mn, recv, mn, ", ".join(margs)))
        if not has_typevar(ret):
          exp["m_%s_%s" % (cn, mn)] = ("type", ret, "%s.%s(...)" % (recv.replace("i_", "A.") + ("()" if recv.startswith("i_") else ""), mn))
  return "".join(lines), exp


def sig_canon(sig, skip_self):
  ps = list(sig.params)[1:] if skip_self else list(sig.params)
  return (tuple((p.name, canon(p.type), bool(p.optional)) for p in ps),
          bool(sig.starargs), bool(sig.starstarargs), canon(sig.return_type))


# ---------------------------------------------------------------------------------------------
# analysis through the three transports

TRANSPORTS = ("text", "imports_map", "pickle")


def analyse_upstream(src, workdir):
  """Analyses A the way pytype-single does for `--pickle-output`/`-o`: returns (stub text, error names) and
  writes A.pyi and A.pickled into workdir."""
  from pytype import config, io
  os.makedirs(workdir, exist_ok=True)
  py = os.path.join(workdir, "A.py")
  with open(py, "w") as f:
    f.write(src)
  opts = config.Options.create(py, python_version=(3, 12), module_name="A", pythonpath="",
                               output=os.path.join(workdir, "A.pickled"), pickle_output=True)
  ret, pyi = io.generate_pyi(src, opts)
  with open(os.path.join(workdir, "A.pyi"), "w") as f:
    f.write(pyi)
  io.write_pickle(ret.ast, opts, ret.context.loader)          # the real serialisation path (PrepareForExport ...)
  errs = [(e.name, e.line) for e in ret.context.errorlog]
  return pyi, errs


def analyse_downstream(src, workdir, transport):
  from pytype import config, io
  if transport == "text":
    opts = config.Options.create(python_version=(3, 12), module_name="B", pythonpath=workdir)
  elif transport == "imports_map":
    opts = config.Options.create(python_version=(3, 12), module_name="B",
                                 imports_map_items=[("A.pyi", os.path.join(workdir, "A.pyi"))])
  else:
    opts = config.Options.create(python_version=(3, 12), module_name="B", use_pickled_files=True,
                                 imports_map_items=[("A.pyi", os.path.join(workdir, "A.pickled"))])
  ret, pyi = io.generate_pyi(src, opts)
  errs = [(e.name, e.line, str(e.message)[:200]) for e in ret.context.errorlog]
  loader_cls = type(ret.context.loader).__name__
  return pyi, errs, loader_cls


def downstream_defs(pyi):
  """{name: ("type"|"alias", canon) | ("function", sigs) | ("class",)} of B's stub."""
  from pytype.pytd import pytd
  ast = parse_stub(pyi, "B")
  out = {}
  for c in ast.constants:
    out[c.name.split(".")[-1]] = ("type", canon(c.type))
  for a in ast.aliases:
    n = a.name.split(".")[-1]
    if isinstance(a.type, pytd.Type):
      out[n] = ("alias", canon(a.type))
    else:
      out[n] = ("other-alias", str(a.type)[:200])
  for f in ast.functions:
    out[f.name.split(".")[-1]] = ("function", [sig_canon(s, False) for s in f.signatures])
  for c in ast.classes:
    out[c.name.split(".")[-1]] = ("class",)
  return out


FATAL = ("import-error", "pyi-error")


def check_pair(src_a, workdir, transports=TRANSPORTS):
  """Runs the full oracle for one upstream program.  Returns a dict with 'status' in
  {'ok', 'skip', 'violation'} and details (first violation only)."""
  from pytype import utils as pytype_utils
  shutil.rmtree(workdir, ignore_errors=True)
  try:
    stub_a, errs_a = analyse_upstream(src_a, workdir)
  except pytype_utils.UsageError as e:
    return {"status": "skip", "why": "usage-error " + str(e)[:100]}
  src_b, exp = derive_downstream(stub_a)
  res = {"status": "ok", "src_b": src_b, "stub_a": stub_a, "n_expect": len(exp), "upstream_errors": errs_a,
         "kinds": {}}
  stubs = {}
  for tr in transports:
    try:
      pyi, errs, loader_cls = analyse_downstream(src_b, workdir, tr)
    except pytype_utils.UsageError as e:
      return {"status": "skip", "why": "usage-error " + str(e)[:100]}
    except Exception as e:  # pylint: disable=broad-except
      res.update(status="violation", transport=tr, kind="crash",
                 what="downstream analysis raised %s: %s" % (type(e).__name__, str(e)[:300]),
                 trace=traceback.format_exc()[-1500:])
      return res
    if tr == "pickle" and loader_cls != "PickledPyiLoader":
      res.update(status="violation", transport=tr, kind="harness", what="pickle transport did not use PickledPyiLoader")
      return res
    stubs[tr] = pyi
    fatal = [e for e in errs if e[0] in FATAL]
    if fatal:
      res.update(status="violation", transport=tr, kind=fatal[0][0], what="downstream reports %r" % (fatal[0],))
      return res
    attr = [e for e in errs if e[0] in ("module-attr", "attribute-error", "name-error", "not-callable")]
    if attr:
      res.update(status="violation", transport=tr, kind=attr[0][0], what="downstream reports %r" % (attr[0],))
      return res
    res.setdefault("downstream_errors", {})[tr] = errs
    # a call the oracle built badly (wrong-arg-types, missing-parameter, ...) says nothing about the hand-off:
    # the names assigned on such lines, and everything read from such an instance, are not compared
    b_lines = src_b.split("\n")
    tainted = set()
    for e in errs:
      if 0 < e[1] <= len(b_lines):
        tainted.add(b_lines[e[1] - 1].split(" = ")[0])
    for t in list(tainted):
      if t.startswith("i_"):
        c = t[2:]
        tainted.update(n for n in exp if n.startswith("a_%s_" % c) or n.startswith("m_%s_" % c))
    res["tainted"] = res.get("tainted", 0) + len([n for n in exp if n in tainted])
    try:
      got = downstream_defs(pyi)
    except Exception as e:  # pylint: disable=broad-except
      res.update(status="violation", transport=tr, kind="unparseable-stub", what=str(e)[:300])
      return res
    for name, e in sorted(exp.items()):
      if name in tainted:
        continue
      g = got.get(name)
      bad = compare(e, g)
      res["kinds"][e[0]] = res["kinds"].get(e[0], 0) + 1
      if bad:
        kind = "type-differs"
        if e[0] in ("type", "alias") and g is not None and g[0] in ("type", "alias") and \
           type_to_any(e[1]) == type_to_any(g[1]):
          kind = "bare-type-read-as-Any"
        res.setdefault("issues", []).append({
            "transport": tr, "kind": kind, "name": name, "source": e[2],
            "what": "%s: upstream %s, downstream %s" % (e[2], bad[0], bad[1])})
  issues = res.get("issues", [])
  other = [i for i in issues if i["kind"] != "bare-type-read-as-Any"]
  if other:
    res.update(status="violation", **{k: other[0][k] for k in ("transport", "kind", "name", "source", "what")})
    return res
  if len(set(stubs.values())) != 1:
    a = stubs[transports[0]]
    for tr in transports[1:]:
      if stubs[tr] != a:
        res.update(status="violation", transport=tr, kind="transports-differ",
                   what="B's stub through %s differs from the one through %s" % (tr, transports[0]),
                   stub_0=a, stub_1=stubs[tr])
        return res
  return res


def compare(e, g):
  """None if the downstream definition g carries the expected type e, else (expected text, got text)."""
  if e[0] == "type":
    want = e[1]
    if g is None:
      return (show(want), "<name missing from B's stub>")
    if g[0] == "type" and g[1] == want:
      return None
    # `x = T` (alias) and `x: type[T]` declare the same class-valued attribute
    if g[0] == "alias" and isinstance(want, tuple) and want[:2] == ("G", "type") and len(want) == 3 and g[1] == want[2]:
      return None
    return (show(want), "%s %s" % (g[0], show(g[1]) if g[0] in ("type", "alias") else g[1:]))
  if e[0] == "alias":
    want = e[1]
    if g is None:
      return ("alias " + show(want), "<name missing from B's stub>")
    if g[0] == "alias" and g[1] == want:
      return None
    if g[0] == "type" and g[1] == ("G", "type", want):
      return None
    return ("alias " + show(want), "%s %s" % (g[0], show(g[1]) if g[0] in ("type", "alias") else g[1:]))
  if e[0] == "function":
    if g is None:
      return ("function", "<name missing from B's stub>")
    if g[0] == "function" and g[1] == e[1]:
      return None
    return ("def " + repr(e[1]), repr(g))
  return None
