"""C06 end-to-end oracle: upstream program A -> stub -> downstream module B analysed through three transports.

Everything the oracle needs about A is read from A's emitted stub (parsed with pytype's own parser), so the
oracle is independent of the program generator and of the Coq model."""
import json
import os
import shutil
import traceback

import common

# ---------------------------------------------------------------------------------------------
# upstream program generator (no imports except typing)

LITS = [("0", "int"), ("1", "int"), ("''", "str"), ("'a'", "str"), ("1.5", "float"), ("b''", "bytes"),
        ("None", "None"), ("2j", "complex"), ("True", "bool")]


class Gen:
  def __init__(self, r, n_classes):
    self.r = r
    self.classes = []          # (name, n_ctor_args)
    self.funcs = []            # names usable as values
    self.n_classes = n_classes

  def expr(self, depth, names=()):
    """an expression; `names` are local variable names usable as leaves."""
    r = self.r
    x = r.random()
    if depth <= 0 or x < 0.28:
      if names and r.random() < 0.4:
        return r.choice(names)
      return r.choice(LITS)[0]
    if x < 0.40:
      k = r.choice([0, 1, 1, 2, 3])
      return "[" + ", ".join(self.expr(depth - 1, names) for _ in range(k)) + "]"
    if x < 0.48:
      k = r.choice([0, 1, 2])
      return "{" + ", ".join("%s: %s" % (r.choice(["'k'", "1", "'j'", "2"]), self.expr(depth - 1, names))
                             for _ in range(k)) + "}"
    if x < 0.54:
      k = r.choice([1, 2])
      return "{" + ", ".join(r.choice(["1", "'a'", "2.5", "None"]) for _ in range(k)) + "}"
    if x < 0.66:
      k = r.choice([0, 1, 2, 2, 3])
      items = [self.expr(depth - 1, names) for _ in range(k)]
      return "(" + ", ".join(items) + ("," if k == 1 else "") + ")"
    if x < 0.76:
      return "(%s if _cond() else %s)" % (self.expr(depth - 1, names), self.expr(depth - 1, names))
    if x < 0.84 and self.classes:
      name, nargs = r.choice(self.classes)
      return "%s(%s)" % (name, ", ".join(["0", "''"][:nargs]))
    if x < 0.89 and self.classes:
      return r.choice(self.classes)[0]                       # a class as a value
    if x < 0.94 and self.funcs:
      return r.choice(self.funcs)                            # a function as a value
    if x < 0.97:
      k = r.choice([0, 1, 2])
      ps = ["p%d" % i for i in range(k)]
      return "(lambda %s: %s)" % (", ".join(ps), self.expr(depth - 1, tuple(ps)))
    return "frozenset([%s])" % self.expr(0, names)

  ANNOTS = ["int", "str", "float", "bool", "bytes", "list[int]", "dict[str, int]", "Optional[int]",
            "Union[int, str]", "tuple[int, str]", "tuple[int, ...]", "Callable[[int], str]", "Callable[..., int]",
            "set[str]", "list[Optional[str]]", "Any", "object", "type", "list", "dict", "tuple[()]",
            "list[list[int]]", "dict[str, list[Union[int, str]]]", "Optional[Callable[[], None]]"]

  def annot(self, allow_cls=True):
    r = self.r
    if allow_cls and self.classes and r.random() < 0.3:
      c = r.choice(self.classes)[0]
      return r.choice([c, "Optional[%s]" % c, "list[%s]" % c, "type[%s]" % c, "dict[str, %s]" % c,
                       "Callable[[%s], %s]" % (c, c), "Union[%s, int]" % c])
    return r.choice(self.ANNOTS)

  def params(self, k):
    r = self.r
    ps = []
    for i in range(k):
      if r.random() < 0.75:
        ps.append(("a%d" % i, self.annot()))
      else:
        ps.append(("a%d" % i, None))
    return ps

  def func(self, name, indent, is_method, kind="method"):
    r = self.r
    k = r.choice([0, 1, 1, 2, 2, 3]) if kind != "property" else 0
    ps = self.params(k)
    first = {"method": ["self"], "property": ["self"], "classmethod": ["cls"], "staticmethod": []}[kind] if is_method else []
    sig = first + [p if a is None else "%s: %s" % (p, a) for p, a in ps]
    # defaults on a suffix of the parameters, then optional *args / keyword-only / **kwargs
    if ps and r.random() < 0.25:
      j = r.randrange(len(ps))
      for q in range(j, len(ps)):
        pn, an = ps[q]
        sig[len(first) + q] += (" = " if an else "=") + (default_expr(an, self) if an else "None")
    extra = r.random()
    if extra < 0.08:
      sig.append("*args")
    elif extra < 0.14:
      sig.append("*, kw: int = 0")
    elif extra < 0.18:
      sig.append("**kwargs")
    names = tuple(p for p, _ in ps) + (("self",) if is_method and kind == "method" and r.random() < 0.2 else ())
    ret = ""
    if r.random() < 0.35:
      ra = self.annot()
      ret = " -> " + ra
      body = ["return %s" % default_expr(ra, self)]
    else:
      body = []
      if r.random() < 0.15:
        # a RESULT that is a union of a PEP 484 "compat" pair: the printer may collapse such a pair in a parameter
        # annotation (int is acceptable where float is declared) but never in a return type
        lo, hi = r.choice([("1", "2.5"), ("2.5", "1j"), ("1", "1j"), ('b"x"', 'bytearray(b"y")'), ("[1]", "[2.5]")])
        if r.random() < 0.5:
          lo, hi = hi, lo
        body.append("if _cond(): return %s" % lo)
        body.append("return %s" % hi)
      else:
        if r.random() < 0.3:
          body.append("if _cond(): return %s" % self.expr(2, names))
        body.append("return %s" % self.expr(2, names))
    pad = " " * indent
    deco = "" if kind in ("method",) or not is_method else pad + "@%s\n" % kind
    return deco + pad + "def %s(%s)%s:\n" % (name, ", ".join(sig), ret) + "".join(pad + "  " + b + "\n" for b in body)

  def klass(self, idx):
    r = self.r
    name = "K%d" % idx
    bases = ""
    inherited_ctor = None
    if self.classes and r.random() < 0.4:
      b, nb = r.choice(self.classes)
      bases = "(%s)" % b
      inherited_ctor = nb
    lines = ["class %s%s:\n" % (name, bases)]
    for i in range(r.choice([0, 1, 2])):
      if r.random() < 0.5:
        lines.append("  c%d_%d = %s\n" % (idx, i, self.expr(2)))
      else:
        a = self.annot()
        lines.append("  c%d_%d: %s = %s\n" % (idx, i, a, default_expr(a, self)))
    nargs = inherited_ctor if inherited_ctor is not None else 0
    if inherited_ctor is None or r.random() < 0.3:
      nargs = r.choice([0, 0, 1, 2])
      ps = [("p0", "int"), ("p1", "str")][:nargs]
      lines.append("  def __init__(self%s) -> None:\n" % "".join(", %s: %s" % p for p in ps))
      if inherited_ctor is not None:
        lines.append("    super().__init__(%s)\n" % ", ".join(["0", "''"][:inherited_ctor]))
      nattr = r.choice([0, 1, 2, 3])
      for i in range(nattr):
        if r.random() < 0.6:
          lines.append("    self.i%d_%d = %s\n" % (idx, i, self.expr(2, tuple(p for p, _ in ps))))
        else:
          a = self.annot()
          lines.append("    self.i%d_%d: %s = %s\n" % (idx, i, a, default_expr(a, self)))
      if nattr == 0:
        lines.append("    pass\n")
    for i in range(r.choice([0, 1, 2])):
      lines.append(self.func("m%d_%d" % (idx, i), 2, True))
    if r.random() < 0.3:
      kind = r.choice(["property", "staticmethod", "classmethod"])
      lines.append(self.func("%s%d" % (kind[0], idx), 2, True, kind))
    if self.classes and r.random() < 0.15:
      lines.append("  N%d = %s\n" % (idx, r.choice(self.classes)[0]))       # a class as a class attribute
    if len(lines) == 1:
      lines.append("  pass\n")
    self.classes.append((name, nargs))
    return "".join(lines)

  TV_POOL = ["T", "S", "R", "K", "V", "U", "W", "Q", "A1", "Z"]
  DISTINCT = [("1", "int"), ("'s'", "str"), ("1.5", "float"), ("b''", "bytes"), ("None", "None"), ("[1]", "list[int]"),
              ("(1, 's')", "tuple[int, str]"), ("{'k': 1.5}", "dict[str, float]")]

  def generic_block(self):
    """a generic class with 1-3 type parameters whose TypeVar names are drawn in random (often non-alphabetical)
    order, one attribute and accessor methods per parameter, a subclass fixing the first parameter, generic
    functions returning instances, and module-level instances with pairwise different argument types."""
    r = self.r
    n = r.choice([1, 2, 2, 2, 3, 3])
    tvs = r.sample(self.TV_POOL, n)
    out = []
    kinds = {}
    for t in tvs:
      k = r.random()
      if k < 0.12:
        out.append("%s = TypeVar('%s', bound=object)\n" % (t, t)); kinds[t] = "bound"
      elif k < 0.2 and n <= 2:
        out.append("%s = TypeVar('%s', int, str, float, bytes, None, list, tuple, dict)\n" % (t, t)); kinds[t] = "constr"
      else:
        out.append("%s = TypeVar('%s')\n" % (t, t)); kinds[t] = "plain"
    f = ["f%d" % i for i in range(n)]
    cls = ["class P0(Generic[%s]):\n" % ", ".join(tvs),
           "  def __init__(self, %s) -> None:\n" % ", ".join("%s: %s" % (f[i], tvs[i]) for i in range(n))]
    for i in range(n):
      cls.append("    self.%s = %s\n" % (f[i], f[i]))
    for i in range(n):
      cls.append("  def get%d(self) -> %s:\n    return self.%s\n" % (i, tvs[i], f[i]))
    i = r.randrange(n)
    cls.append("  def lst(self) -> list[%s]:\n    return [self.%s]\n" % (tvs[i], f[i]))
    # properties typed by the class's type parameters: T, Optional[T], list[T]
    j = r.randrange(n)
    cls.append("  @property\n  def val(self) -> %s:\n    return self.%s\n" % (tvs[j], f[j]))
    cls.append("  @property\n  def maybe(self) -> Optional[%s]:\n    return self.%s\n" % (tvs[-1], f[-1]))
    if r.random() < 0.6:
      cls.append("  @property\n  def items(self) -> list[%s]:\n    return [self.%s]\n" % (tvs[0], f[0]))
    if n >= 2:
      cls.append("  def rev(self):\n    return (%s)\n" % ", ".join("self.%s" % x for x in reversed(f)))
      cls.append("  def opt(self, flag: bool) -> Optional[%s]:\n    return self.%s if flag else None\n" % (tvs[-1], f[-1]))
      cls.append("  def same(self, o: %s) -> dict[str, %s]:\n    return {'k': o}\n" % (tvs[0], tvs[0]))
    out.extend(cls)
    args = r.sample(self.DISTINCT, 3)
    def mk(c, k, shift=0):
      return "%s(%s)" % (c, ", ".join(args[(j + shift) % 3][0] for j in range(k)))
    out.append("pv0 = %s\n" % mk("P0", n))
    out.append("pv3 = %s\n" % mk("P0", n, 1))          # a second, differently parameterised instance
    out.append("pv1 = (%s if _cond() else %s)\n" % (mk("P0", n, 1), mk("P0", n, 2)))
    if n >= 2:
      # a subclass that fixes the first parameter and stays generic in the others
      fixed = args[0]
      rest = tvs[1:]
      out.append("class P1(P0[%s, %s]):\n  def extra(self) -> %s:\n    return self.%s\n" %
                 (fixed[1], ", ".join(rest), rest[-1], f[-1]))
      out.append("pv2 = P1(%s)\n" % ", ".join(args[j % 3][0] for j in range(n)))
      # generic functions returning instances with the parameters permuted
      perm = list(range(n)); r.shuffle(perm)
      out.append("def flip(p: P0[%s]) -> P0[%s]:\n  return P0(%s)\n" %
                 (", ".join(tvs), ", ".join(tvs[j] for j in perm), ", ".join("p.%s" % f[j] for j in perm)))
      out.append("def mkp(%s) -> P0[%s]:\n  return P0(%s)\n" %
                 (", ".join("a%d: %s" % (j, tvs[j]) for j in range(n)), ", ".join(tvs),
                  ", ".join("a%d" % j for j in range(n))))
    else:
      out.append("def mkp(a0: int) -> P0[%s]:\n  return P0(%s)\n" %
                 r.choice([("int", "a0"), ("list[int]", "[a0]"), ("Optional[str]", "None")]))
    out.append("pl = [pv0]\n")
    return "".join(out)

  def nested_block(self):
    """classes nested one and two levels deep, referenced as types by constants, attributes and return types; in
    some programs a top-level class shares the simple name of a nested one."""
    r = self.r
    inner, leaf = r.choice([("Inner", "Leaf"), ("Item", "Leaf"), ("Inner", "Item")])
    out = []
    same_name_first = r.random() < 0.25
    if same_name_first:
      out.append("class %s:\n  top = %s\n" % (inner, self.expr(1)))
    out.append("class Node0:\n"
               "  class %s:\n    val = %s\n    def m(self):\n      return [self.val]\n" % (inner, self.expr(1)) +
               "  class Mid:\n    class %s:\n      z = %s\n      def w(self) -> tuple[int, str]:\n        return (1, '')\n"
               % (leaf, self.expr(1)) +
               "  def __init__(self) -> None:\n    self.inner = Node0.%s()\n    self.leaves = [Node0.Mid.%s()]\n" % (inner, leaf) +
               "  def mk(self) -> 'Node0.%s':\n    return Node0.%s()\n" % (inner, inner) +
               "  def opt(self):\n    return (Node0.Mid.%s() if _cond() else None)\n" % leaf)
    if not same_name_first and r.random() < 0.35:
      out.append("class %s:\n  top = %s\n" % (r.choice([inner, leaf]), self.expr(1)))
    out.append("def mk_inner() -> Node0.%s:\n  return Node0.%s()\n" % (inner, inner))
    out.append("def mk_leaf():\n  return Node0.Mid.%s()\n" % leaf)
    out.append("nx = Node0.%s()\nnl = Node0.Mid.%s()\nnd = {'k': Node0.%s()}\nnn = Node0()\n" % (inner, leaf, inner))
    out.append("nk = Node0.%s\n" % inner)
    return "".join(out)

  def program(self):
    r = self.r
    out = ["from typing import Any, Callable, Generic, NamedTuple, Optional, TypeVar, Union\n",
           "def _cond(): return bool(_cond)\n"]
    for i in range(self.n_classes):
      out.append(self.klass(i))
    if r.random() < 0.55:
      out.append(self.generic_block())
    if r.random() < 0.35:
      out.append(self.nested_block())
    if r.random() < 0.2:
      out.append("class NT(NamedTuple):\n  a: int\n  b: %s\n" % self.annot(allow_cls=False))
      self.classes.append(("NT", 2))
    nf = r.choice([1, 2, 3])
    for i in range(nf):
      out.append(self.func("f%d" % i, 0, False))
      self.funcs.append("f%d" % i)
    nv = r.choice([3, 4, 5, 6])
    for i in range(nv):
      x = r.random()
      if x < 0.6:
        out.append("v%d = %s\n" % (i, self.expr(3)))
      elif x < 0.8:
        out.append("if _cond():\n  v%d = %s\nelse:\n  v%d = %s\n" % (i, self.expr(2), i, self.expr(2)))
      else:
        a = self.annot()
        out.append("v%d: %s = %s\n" % (i, a, default_expr(a, self)))
    return "".join(out)


def default_expr(annot, g):
  """a value of the annotated type (source text)."""
  table = {"int": "0", "str": "''", "float": "0.5", "bool": "True", "bytes": "b''", "list[int]": "[1]",
           "dict[str, int]": "{'a': 1}", "Optional[int]": "None", "Union[int, str]": "''", "tuple[int, str]": "(1, '')",
           "tuple[int, ...]": "(1, 2)", "Callable[[int], str]": "(lambda q: '')", "Callable[..., int]": "(lambda *q: 0)",
           "set[str]": "{'a'}", "list[Optional[str]]": "[None]", "Any": "None", "object": "0", "type": "int",
           "list": "[]", "dict": "{}", "tuple[()]": "()", "list[list[int]]": "[[1]]",
           "dict[str, list[Union[int, str]]]": "{}", "Optional[Callable[[], None]]": "None"}
  if annot in table:
    return table[annot]
  # class-based annotations
  for name, nargs in g.classes:
    inst = "%s(%s)" % (name, ", ".join(["0", "''"][:nargs]))
    forms = {name: inst, "Optional[%s]" % name: "None", "list[%s]" % name: "[%s]" % inst, "type[%s]" % name: name,
             "dict[str, %s]" % name: "{}", "Callable[[%s], %s]" % (name, name): "(lambda q: q)",
             "Union[%s, int]" % name: "0"}
    if annot in forms:
      return forms[annot]
  return "None"


def gen_program(r):
  return Gen(r, r.choice([0, 1, 2, 2, 3])).program()


# generic classes whose TypeVars have a bound or constraints, used UN-parameterised ("bare") in A's annotations: A's
# analysis gives such a value the upper value of each TypeVar (the bound / the Union of the constraints) as parameter,
# A's stub says only `-> BBox`, and B has to re-derive the same parameters from the TypeVar declarations in the stub
# (convert.py: GenericType(cls, upper values)).  Own random stream (harness/props/c06.py), so the programs of
# gen_program are unchanged.
B_BOUNDS = [("Base0", ["Base0()", "Sub0()"]), ("Sub0", ["Sub0()"]), ("int", ["1"]), ("str", ["'s'"]),
            ("list[int]", ["[1]"]), ("dict[str, Base0]", ["{'k': Base0()}"]), ("tuple[int, str]", ["(1, 's')"])]
B_CONSTRAINTS = [("int, str", ["1", "'s'"]), ("bytes, Base0", ["b''", "Base0()"]), ("int, str, float", ["1.5", "2"]),
                 ("list[int], str", ["[1]", "'s'"]), ("Base0, None", ["None", "Base0()"])]


def gen_bounded_program(r):
  tv = r.sample(["BT", "CT", "T", "S", "K", "V", "A1", "Z"], 3)
  bnd, bvals = r.choice(B_BOUNDS)
  con, cvals = r.choice(B_CONSTRAINTS)
  out = ["from typing import Any, Callable, Generic, NamedTuple, Optional, TypeVar, Union\n",
         "def _cond(): return bool(_cond)\n",
         "class Base0:\n  tag = %s\n  def m(self) -> int:\n    return 1\n" % r.choice(["0", "''", "1.5"]),
         "class Sub0(Base0):\n  pass\n",
         "%s = TypeVar('%s', bound=%s)\n" % (tv[0], tv[0], bnd),
         "%s = TypeVar('%s', %s)\n" % (tv[1], tv[1], con),
         "%s = TypeVar('%s')\n" % (tv[2], tv[2])]
  # BBox: one bounded parameter;  CBox: one constrained parameter;  PBox: bounded + unbounded (in random order)
  out.append("class BBox(Generic[%s]):\n  def __init__(self, v: %s) -> None:\n    self.v = v\n"
             "  def get(self) -> %s:\n    return self.v\n" % (tv[0], tv[0], tv[0]))
  if r.random() < 0.7:
    out.append("  @property\n  def pv(self) -> %s:\n    return self.v\n" % tv[0])
  if r.random() < 0.5:
    out.append("  def lst(self) -> list[%s]:\n    return [self.v]\n" % tv[0])
  if r.random() < 0.4:
    out.append("  def pair(self) -> tuple[%s, int]:\n    return (self.v, 0)\n" % tv[0])
  out.append("class CBox(Generic[%s]):\n  def __init__(self, c: %s) -> None:\n    self.c = c\n"
             "  def opt(self) -> Optional[%s]:\n    return self.c\n" % (tv[1], tv[1], tv[1]))
  two = r.random() < 0.6
  if two:
    order = [tv[0], tv[2]] if r.random() < 0.5 else [tv[2], tv[0]]
    out.append("class PBox(Generic[%s]):\n  def __init__(self, a: %s, b: %s) -> None:\n    self.a = a\n    self.b = b\n"
               "  def first(self) -> %s:\n    return self.a\n  def second(self) -> %s:\n    return self.b\n"
               % (", ".join(order), order[0], order[1], order[0], order[1]))
    pargs = (bvals[0], "2j") if order[0] == tv[0] else ("2j", bvals[0])
  out.append("class BHolder:\n  box: BBox\n  cbox: CBox\n  def __init__(self, b: BBox, c: CBox) -> None:\n"
             "    self.box = b\n    self.cbox = c\n  def take(self) -> BBox:\n    return self.box\n")
  uses = [("mkb", "BBox", "BBox(%s)" % r.choice(bvals)), ("mkc", "CBox", "CBox(%s)" % r.choice(cvals))]
  extra = [("mkl", "list[BBox]", "[BBox(%s)]" % bvals[0]), ("mko", "Optional[BBox]", "None"),
           ("mkt", "tuple[BBox, CBox]", "(BBox(%s), CBox(%s))" % (bvals[0], cvals[0])),
           ("mkd", "dict[str, CBox]", "{'k': CBox(%s)}" % cvals[0]),
           ("mku", "Union[BBox, int]", "0"), ("mkh", "BHolder", "BHolder(BBox(%s), CBox(%s))" % (bvals[0], cvals[0]))]
  if two:
    extra.append(("mkp", "PBox", "PBox(%s, %s)" % pargs))
  uses += r.sample(extra, r.choice([2, 3, 4]))
  for name, ann, val in uses:
    out.append("def %s() -> %s:\n  return %s\n" % (name, ann, val))
  if r.random() < 0.6:
    out.append("def idb(b: BBox) -> BBox:\n  return b\n")
  out.append("bg: BBox = mkb()\n")
  out.append("cg: CBox = mkc()\n")
  out.append("bh = BHolder(bg, cg)\n")
  if r.random() < 0.5:
    out.append("bl: list[BBox] = [bg]\n")
  if two and r.random() < 0.7:
    out.append("pg: PBox = PBox(%s, %s)\n" % pargs)
  return "".join(out)


# ---------------------------------------------------------------------------------------------
# canonical, order-insensitive form of a pytd type (module prefix of A stripped)

def canon(t, mod="A"):
  from pytype.pytd import pytd
  def name(n):
    for p in (mod + ".", "builtins.", "typing."):
      if n.startswith(p):
        n = n[len(p):]
    return {"Tuple": "tuple", "List": "list", "Dict": "dict", "Type": "type", "Set": "set",
            "FrozenSet": "frozenset"}.get(n, n)
  if isinstance(t, pytd.AnythingType):
    return "Any"
  if isinstance(t, pytd.NothingType):
    return "nothing"
  if isinstance(t, (pytd.NamedType, pytd.ClassType, pytd.LateType)):
    return name(t.name)
  if isinstance(t, pytd.TypeParameter):
    return "~" + t.name
  if isinstance(t, pytd.UnionType):
    ms = set()
    for m in t.type_list:
      c = canon(m, mod)
      if isinstance(c, tuple) and c[0] == "U":
        ms.update(c[1])
      else:
        ms.add(c)
    return mk_union(ms)
  if isinstance(t, pytd.TupleType):
    return ("T",) + tuple(canon(p, mod) for p in t.parameters)
  if isinstance(t, pytd.CallableType):
    return ("F", tuple(canon(p, mod) for p in t.args), canon(t.ret, mod))
  if isinstance(t, pytd.GenericType):
    ps = tuple(canon(p, mod) for p in t.parameters)
    if all(p == "Any" for p in ps):
      # a container whose parameters are all Any is the bare class (optimize.SimplifyContainers; a stub can still
      # show `list[Any]` when AdjustReturnAndConstantGenericType rewrites `list[object]` after that pass)
      return name(t.base_type.name)
    return ("G", name(t.base_type.name)) + ps
  if isinstance(t, pytd.Literal):
    return ("L", str(t.value))
  if isinstance(t, pytd.Annotated):
    return canon(t.base_type, mod)
  return ("?", type(t).__name__, str(t))


def mk_union(ms):
  """Union as a set; a union with an Any member is Any (pytd_utils.JoinTypes, which pytype's Optimize applies
  to every union: SimplifyUnions / CollapseLongUnions; AdjustReturnAndConstantGenericType can leave a
  `Union[Any, X]` behind in a stub when it rewrites `object`, and that denotes the same type as Any)."""
  ms = set(ms)
  ms.discard("nothing")
  if "Any" in ms:
    return "Any"
  if len(ms) == 1:
    return next(iter(ms))
  if not ms:
    return "nothing"
  return ("U", tuple(sorted(ms, key=repr)))


def type_to_any(c):
  """c with every bare `type` replaced by Any, re-normalised (Union with Any -> Any, all-Any container -> bare
  class).  Used only to recognise the known finding `type` -> Any."""
  if isinstance(c, str):
    return "Any" if c == "type" else c
  if c[0] == "U":
    ms = set()
    for m in c[1]:
      m2 = type_to_any(m)
      if isinstance(m2, tuple) and m2[0] == "U":
        ms.update(m2[1])
      else:
        ms.add(m2)
    return mk_union(ms)
  if c[0] == "T":
    return ("T",) + tuple(type_to_any(x) for x in c[1:])
  if c[0] == "F":
    return ("F", tuple(type_to_any(x) for x in c[1]), type_to_any(c[2]))
  if c[0] == "G":
    ps = tuple(type_to_any(x) for x in c[2:])
    if all(p == "Any" for p in ps):
      return "Any" if c[1] == "type" else c[1]
    return ("G", c[1]) + ps
  return c


def subst_tv(c, sub):
  if isinstance(c, str):
    return sub.get(c, c)
  if c[0] == "U":
    ms = set()
    for m in c[1]:
      m2 = subst_tv(m, sub)
      if isinstance(m2, tuple) and m2[0] == "U":
        ms.update(m2[1])
      else:
        ms.add(m2)
    return mk_union(ms)
  if c[0] == "T":
    return ("T",) + tuple(subst_tv(x, sub) for x in c[1:])
  if c[0] == "F":
    return ("F", tuple(subst_tv(x, sub) for x in c[1]), subst_tv(c[2], sub))
  if c[0] == "G":
    return ("G", c[1]) + tuple(subst_tv(x, sub) for x in c[2:])
  return c


def has_typevar(c):
  if isinstance(c, str):
    return c.startswith("~")
  return any(has_typevar(x) for x in c if isinstance(x, (str, tuple)))


def show(c):
  if isinstance(c, str):
    return c
  if c[0] == "U":
    return "Union[" + ", ".join(show(x) for x in c[1]) + "]"
  if c[0] == "T":
    return "tuple[" + (", ".join(show(x) for x in c[1:]) or "()") + "]"
  if c[0] == "F":
    return "Callable[[" + ", ".join(show(x) for x in c[1]) + "], " + show(c[2]) + "]"
  if c[0] == "G":
    return c[1] + "[" + ", ".join(show(x) for x in c[2:]) + "]"
  return repr(c)


# ---------------------------------------------------------------------------------------------
# derive the downstream module from the upstream stub

def parse_stub(text, name):
  from pytype.pyi import parser
  return parser.parse_string(text, name=name, filename=name + ".pyi",
                             options=parser.PyiOptions(python_version=(3, 12)))


def short(n, mod="A"):
  """class name relative to the module: A.Node.Inner -> Node.Inner."""
  return n[len(mod) + 1:] if n.startswith(mod + ".") else n


def ident(cn):
  return cn.replace(".", "__")


def all_classes(ast):
  """{relative dotted name: pytd.Class} for the classes of the stub, nested ones included."""
  out = {}
  def walk(cs):
    for c in cs:
      out[short(c.name)] = c
      walk(c.classes)
  walk(ast.classes)
  return out


CONSTS = "\0consts"     # key of `classes` holding {class name: "A.<constant of that class>"}


def mk_expr(t, classes, depth=3):
  """source text of an expression whose type is the stub type t, or None."""
  from pytype.pytd import pytd
  if depth < 0:
    return None
  if isinstance(t, pytd.AnythingType):
    return "None"
  if isinstance(t, pytd.TypeParameter):
    return "0"
  if isinstance(t, (pytd.NamedType, pytd.ClassType)):
    n = t.name
    base = {"int": "0", "str": "''", "float": "0.5", "bool": "True", "bytes": "b''", "complex": "1j",
            "NoneType": "None", "None": "None", "object": "0", "list": "[]", "dict": "{}", "tuple": "()",
            "set": "set()", "type": "int"}
    n0 = short(n) if short(n) in classes else n.split(".")[-1]
    if n0 in base and n0 not in classes:
      return base[n0]
    if n0 in classes:
      args = ctor_args(classes[n0], classes, depth - 1)
      return None if args is None else "A.%s(%s)" % (n0, ", ".join(args))
    return None
  if isinstance(t, pytd.UnionType):
    for m in t.type_list:
      e = mk_expr(m, classes, depth - 1)
      if e is not None:
        return e
    return None
  if isinstance(t, pytd.TupleType):
    es = [mk_expr(p, classes, depth - 1) for p in t.parameters]
    if any(e is None for e in es):
      return None
    return "(" + ", ".join(es) + ("," if len(es) == 1 else "") + ")"
  if isinstance(t, pytd.CallableType):
    e = mk_expr(t.ret, classes, depth - 1)
    if e is None:
      return None
    return "(lambda %s: %s)" % (", ".join("q%d" % i for i in range(len(t.args))), e)
  if isinstance(t, pytd.GenericType):
    b = short(t.base_type.name) if short(t.base_type.name) in classes else t.base_type.name.split(".")[-1]
    ps = t.parameters
    if b in classes:
      return classes.get(CONSTS, {}).get(b)          # e.g. A.pv0 for a parameter of type P0[T, S]
    if b == "Callable":
      e = mk_expr(ps[-1], classes, depth - 1)
      return None if e is None else "(lambda *q: %s)" % e
    if b == "type":
      if isinstance(ps[0], (pytd.NamedType, pytd.ClassType)):
        n0 = short(ps[0].name) if short(ps[0].name) in classes else ps[0].name.split(".")[-1]
        return ("A." + n0) if n0 in classes else (n0 if n0 in ("int", "str", "float", "list", "dict") else None)
      return None
    es = [("" if isinstance(p, pytd.NothingType) else mk_expr(p, classes, depth - 1)) for p in ps]
    if any(e is None for e in es):
      return None
    if b in ("list", "List"):
      return "[%s]" % es[0]
    if b in ("set", "Set"):
      return "{%s}" % es[0] if es[0] else "set()"
    if b == "frozenset":
      return "frozenset([%s])" % es[0]
    if b in ("tuple", "Tuple"):
      return "(%s,)" % es[0] if es[0] else "()"
    if b in ("dict", "Dict"):
      return "{%s: %s}" % (es[0], es[1]) if es[0] and es[1] else "{}"
  return None


def sig_args(sig, classes, depth, skip_self):
  ps = list(sig.params)
  if skip_self and ps:
    ps = ps[1:]
  if sig.starargs or sig.starstarargs:
    return None
  out = []
  for p in ps:
    if p.optional:
      continue
    e = mk_expr(p.type, classes, depth)
    if e is None:
      return None
    if p.kind == p.kind.KWONLY if hasattr(p.kind, "KWONLY") else False:
      out.append("%s=%s" % (p.name, e))
    else:
      out.append(e)
  return out


def ctor_args(cls, classes, depth):
  if any(getattr(b, "name", "").split(".")[-1] == "NamedTuple" for b in cls.bases):
    es = [mk_expr(c.type, classes, depth) for c in cls.constants]
    return None if any(e is None for e in es) else es
  for c in mro_of(cls, classes):
    for m in c.methods:
      if m.name == "__init__":
        if len(m.signatures) != 1:
          return None
        return sig_args(m.signatures[0], classes, depth, True)
  return []


def class_tparams(cls):
  """names of the class's type parameters (the raw parse leaves Class.template empty; AdjustTypeParameters fills
  it at load time from the bases)."""
  from pytype.pytd import pytd
  if cls.template:
    return [t.name for t in cls.template]
  out = []
  gen = [b for b in cls.bases if isinstance(b, pytd.GenericType) and b.base_type.name in ("typing.Generic", "Generic")]
  for b in gen or [b for b in cls.bases if isinstance(b, pytd.GenericType)]:
    for p in b.parameters:
      if isinstance(p, pytd.TypeParameter) and p.name not in out:
        out.append(p.name)
  return out


def mro_subst(cls, classes, sub):
  """[(class, {~typevar: canonical type})]: the class and its bases (defined in the stub), each with the binding of
  its own type parameters implied by `sub` (the binding of cls's own parameters); None when unknown."""
  from pytype.pytd import pytd
  out = [(cls, sub)]
  seen = {cls.name}
  todo = [(b, sub) for b in cls.bases]
  while todo:
    b, sb = todo.pop(0)
    bn = (b.base_type.name if isinstance(b, pytd.GenericType) else getattr(b, "name", ""))
    bn = short(bn) if short(bn) in classes else bn.split(".")[-1]
    if bn not in classes or classes[bn].name in seen:
      continue
    bc = classes[bn]
    seen.add(bc.name)
    own = ["~" + t for t in class_tparams(bc)]
    if isinstance(b, pytd.GenericType) and sb is not None and len(own) == len(b.parameters):
      bsub = dict(zip(own, (subst_tv(canon(p), sb) for p in b.parameters)))
    elif not own:
      bsub = {}
    else:
      bsub = None
    out.append((bc, bsub))
    todo.extend((x, bsub) for x in bc.bases)
  return out


def unify(decl, actual, out):
  """binds the ~typevars of the canonical type `decl` by matching it against `actual`; False on a clash."""
  if isinstance(decl, str):
    if decl.startswith("~"):
      if decl in out and out[decl] != actual:
        return False
      out[decl] = actual
    return True
  if not isinstance(actual, tuple) or actual[0] != decl[0]:
    return not has_typevar(decl)
  if decl[0] == "U":
    return not has_typevar(decl)
  if decl[0] == "F":
    if len(decl[1]) != len(actual[1]):
      return not has_typevar(decl)
    return all(unify(d, a, out) for d, a in zip(decl[1], actual[1])) and unify(decl[2], actual[2], out)
  if len(decl) != len(actual) or (decl[0] == "G" and decl[1] != actual[1]):
    return not has_typevar(decl)
  return all(unify(d, a, out) for d, a in zip(decl[1:], actual[1:]) if isinstance(d, (str, tuple)))


def call_expectation(sig, skip_self, classes, const_types, sub0=None):
  """the declared result type of the call the oracle builds for `sig` (see sig_args): every required parameter gets
  mk_expr's argument, whose type is the declared type with type variables read as int, or the type of the
  module constant used for a parameter that is an instance of one of A's generic classes.  None if unknown."""
  from pytype.pytd import pytd
  binds = dict(sub0 or {})
  ps = list(sig.params)[1:] if skip_self else list(sig.params)
  for p in ps:
    if p.optional:
      continue
    d = subst_tv(canon(p.type), sub0 or {})
    if isinstance(p.type, pytd.GenericType) and short(p.type.base_type.name) in const_types:
      actual = const_types[short(p.type.base_type.name)]
    else:
      actual = all_tv_to(d, "int")
    if not unify(d, actual, binds):
      return None
  ret = subst_tv(subst_tv(canon(sig.return_type), sub0 or {}), binds)
  return None if has_typevar(ret) else ret


def all_tv_to(c, t):
  if isinstance(c, str):
    return t if c.startswith("~") else c
  if c[0] == "U":
    return mk_union({all_tv_to(x, t) for x in c[1]})
  if c[0] == "F":
    return ("F", tuple(all_tv_to(x, t) for x in c[1]), all_tv_to(c[2], t))
  return (c[0],) + tuple(all_tv_to(x, t) if isinstance(x, (str, tuple)) and i >= (1 if c[0] == "G" else 0) else x
                         for i, x in enumerate(c[1:]))


def mro_of(cls, classes):
  """the class followed by its (single-inheritance chain of) bases defined in the same stub."""
  out = [cls]
  seen = {cls.name}
  todo = list(cls.bases)
  while todo:
    b = todo.pop(0)
    n = getattr(b, "name", "")
    n = short(n) if short(n) in classes else n.split(".")[-1]
    if n in classes and n not in seen:
      seen.add(n)
      out.append(classes[n])
      todo.extend(classes[n].bases)
  return out


MAX_PROBES = 90


def derive_downstream(stub_text):
  """Derives the downstream module from A's stub.

  Returns (source of B, exp, meta): exp maps a name of B to the expectation read off the stub
  ("type"|"alias", canonical type, where) | ("function", sigs, where); meta maps every name of B to
  {"expr": source text, "parent": name it was read from or None, "what": ..., flags used to classify findings}.
  B re-exports every public name, calls every function, and probes INSIDE every value whose type is a class of A
  (generic or not): each attribute (inherited ones included) is read, each property is read, each method taking
  at most one constructible argument is called."""
  from pytype.pytd import pytd
  ast = parse_stub(stub_text, "A")
  classes = all_classes(ast)
  consts = {}
  const_types = {}
  for c in ast.constants:
    ct = canon(c.type)
    if isinstance(ct, tuple) and ct[0] == "G" and ct[1] in classes and not c.name.split(".")[-1].startswith("_"):
      if ct[1] not in consts:
        consts[ct[1]] = "A." + c.name.split(".")[-1]
        const_types[ct[1]] = ct
  classes_env = dict(classes)
  classes_env[CONSTS] = consts
  lines = ["import A\n"]
  exp = {}
  meta = {}
  def public(n):
    return not n.startswith("_")
  def add(name, expr, parent, what, **flags):
    if len(meta) >= MAX_PROBES and parent is not None:
      return False
    lines.append("%s = %s\n" % (name, expr))
    # a probe is `constructed` when the oracle builds a new value or chooses call arguments anywhere on the way to
    # it; otherwise it only reads what A's module already holds
    built = bool(flags.pop("built", False)) or (parent is not None and meta[parent].get("constructed", False))
    meta[name] = dict(expr=expr, parent=parent, what=what, constructed=built, **flags)
    return True
  def omitted_tv_default(sig):
    return any(p.optional and has_typevar(canon(p.type)) for p in sig.params)
  def class_of(ct):
    if isinstance(ct, str) and ct in classes:
      return ct, ()
    if isinstance(ct, tuple) and ct[0] == "G" and ct[1] in classes:
      return ct[1], ct[2:]
    return None, ()
  def value_probes(prefix, expr, ct, where, parent):
    """probes inside a value of canonical stub type ct."""
    cn, params = class_of(ct)
    if cn is None:
      return
    cls = classes[cn]
    own = ["~" + t for t in class_tparams(cls)]
    sub = dict(zip(own, params)) if len(own) == len(params) else None
    seen = {}
    chain = mro_subst(cls, classes, sub)
    def decl_in(t, ksub):
      e = subst_tv(canon(t), ksub) if ksub is not None else canon(t)
      if isinstance(e, tuple) and e[:2] == ("G", "Final") and len(e) == 3:
        e = e[2]
      return None if has_typevar(e) else e
    all_owners = {}
    for k, ksub in chain:
      for a in k.constants:
        all_owners.setdefault(a.name, []).append((short(k.name), decl_in(a.type, ksub)))
    for k, ksub in chain:
      kn = short(k.name)
      def declared(t):
        e = subst_tv(canon(t), ksub) if ksub is not None else canon(t)
        if isinstance(e, tuple) and e[:2] == ("G", "Final") and len(e) == 3:
          e = e[2]            # Final is a qualifier of the declaration, not part of the type of the value read
        return None if has_typevar(e) else e
      for a in k.constants:
        an = a.name
        if not public(an):
          continue
        if an in seen:
          continue
        nm = "%s_%s" % (prefix, an)
        if not add(nm, "%s.%s" % (expr, an), parent, "%s.%s" % (where, an), kind="attr", cls=cn, member=an,
                   declared=canon(a.type), owners=all_owners[an]):
          return
        seen[an] = nm
        if declared(a.type) is not None:
          exp[nm] = ("type", declared(a.type), "%s.%s" % (where, an))
      for m in k.methods:
        mn = m.name
        if not public(mn) or mn in seen or len(m.signatures) != 1:
          continue
        sig = m.signatures[0]
        nm = "%s_%s" % (prefix, mn)
        if m.kind == pytd.MethodKind.PROPERTY:
          if not add(nm, "%s.%s" % (expr, mn), parent, "%s.%s" % (where, mn), kind="attr", cls=cn, member=mn,
                     declared=canon(sig.return_type), owners=[(kn, declared(sig.return_type))]):
            return
          seen[mn] = nm
          if declared(sig.return_type) is not None:
            exp[nm] = ("type", declared(sig.return_type), "%s.%s" % (where, mn))
          continue
        skip_first = m.kind != pytd.MethodKind.STATICMETHOD
        n_extra = len([p for p in sig.params[(1 if skip_first else 0):] if not p.optional])
        if n_extra > 1:
          continue
        margs = sig_args(sig, classes_env, 2, skip_first)
        if margs is None:
          continue
        recv = expr if m.kind == pytd.MethodKind.METHOD else "A.%s" % cn
        if not add(nm, "%s.%s(%s)" % (recv, mn, ", ".join(margs)), parent, "%s.%s(...)" % (where, mn), kind="call",
                   cls=cn, member=mn, omitted_tv_default=omitted_tv_default(sig), built=bool(margs)):
          return
        seen[mn] = nm
        e = call_expectation(sig, skip_first, classes, const_types, ksub) if ksub is not None else None
        if e is not None:
          exp[nm] = ("type", e, "%s.%s(...)" % (where, mn))
  for c in ast.constants:
    n = c.name.split(".")[-1]
    if public(n):
      add("v_" + n, "A." + n, None, "A." + n, kind="var")
      exp["v_" + n] = ("type", canon(c.type), "A." + n)
  for a in ast.aliases:
    n = a.name.split(".")[-1]
    if not public(n) or isinstance(a.type, pytd.Module):
      continue
    if isinstance(a.type, (pytd.Function, pytd.Constant)) or \
       n in ("Any", "Callable", "Optional", "Union", "Generic", "NamedTuple", "TypeVar", "Final"):
      continue
    add("v_" + n, "A." + n, None, "A." + n, kind="var")
    if isinstance(a.type, pytd.Type):
      exp["v_" + n] = ("alias", canon(a.type), "A." + n)
  results = []
  for f in ast.functions:
    n = f.name.split(".")[-1]
    if not public(n):
      continue
    add("g_" + n, "A." + n, None, "A." + n, kind="ref")
    exp["g_" + n] = ("function", [sig_canon(s_, False) for s_ in f.signatures], "A." + n)
    if len(f.signatures) == 1:
      sig = f.signatures[0]
      args = sig_args(sig, classes_env, 2, False)
      ret = canon(sig.return_type)
      if args is not None:
        add("r_" + n, "A.%s(%s)" % (n, ", ".join(args)), None, "A.%s(...)" % n, kind="call", member=n,
            omitted_tv_default=omitted_tv_default(sig), built=bool(args))
        e = call_expectation(sig, False, classes, const_types)
        if e is not None:
          exp["r_" + n] = ("type", e, "A.%s(...)" % n)
        results.append(("q_r_" + n, "r_" + n, e if e is not None else ret, "A.%s(...)" % n, "r_" + n))
  for cn, c in classes.items():
    if not all(public(x) for x in cn.split(".")):
      continue
    add("k_" + ident(cn), "A." + cn, None, "A." + cn, kind="ref")
    exp["k_" + ident(cn)] = ("type", ("G", "type", cn), "A." + cn)
    args = ctor_args(c, classes_env, 2)
    if args is None:
      continue
    add("i_" + ident(cn), "A.%s(%s)" % (cn, ", ".join(args)), None, "A.%s(...)" % cn, kind="call", member=cn, built=True)
    if class_tparams(c):
      # the instance's parameters follow from the constructor arguments the oracle passes (type variables get int)
      own = ["~" + t for t in class_tparams(c)]
      ct = ("G", cn) + tuple(own)
      for k, ksub in mro_subst(c, classes, {t: t for t in own}):
        init = [m for m in k.methods if m.name == "__init__" and len(m.signatures) == 1]
        if init and ksub is not None:
          binds = {}
          ok = True
          for p in list(init[0].signatures[0].params)[1:]:
            if not p.optional:
              d = subst_tv(canon(p.type), ksub)
              ok = ok and unify(d, all_tv_to(d, "int"), binds)
          if ok and all(t in binds for t in own):
            ct = ("G", cn) + tuple(binds[t] for t in own)
            exp["i_" + ident(cn)] = ("type", ct, "A.%s(...)" % cn)
          break
        if init:
          break
      results.append(("a_" + ident(cn), "i_" + ident(cn), ct, "A.%s(...)" % cn, "i_" + ident(cn)))
    else:
      exp["i_" + ident(cn)] = ("type", cn, "A.%s()" % cn)
      results.append(("a_" + ident(cn), "i_" + ident(cn), cn, "A.%s()" % cn, "i_" + ident(cn)))
  # probes inside values: module-level constants first, then call results and constructed instances
  for c in ast.constants:
    n = c.name.split(".")[-1]
    if public(n):
      value_probes("q_" + n, "A." + n, canon(c.type), "A." + n, "v_" + n)
  for prefix, expr, ct, where, parent in results:
    value_probes(prefix, expr, ct, where, parent)
  return "".join(lines), exp, meta


def upstream_probe_source(meta):
  """the same probe expressions, computed inside A itself (appended to A's source): `_p_<name> = <expr>`; A's own
  analysis of them is what B's analysis has to reproduce."""
  import re
  names = sorted(meta, key=len, reverse=True)
  pat = re.compile(r"\b(%s)\b" % "|".join(re.escape(n) for n in names)) if names else None
  out = []
  for name, m in meta.items():
    e = re.sub(r"\bA\.", "", m["expr"])
    if pat:
      e = pat.sub(lambda mo: "_p_" + mo.group(1), e)
    out.append("_p_%s = %s\n" % (name, e))
  return "".join(out)


def sig_canon(sig, skip_self):
  ps = list(sig.params)[1:] if skip_self else list(sig.params)
  return (tuple((p.name, canon(p.type), bool(p.optional)) for p in ps),
          bool(sig.starargs), bool(sig.starstarargs), canon(sig.return_type))


# ---------------------------------------------------------------------------------------------
# analysis through the three transports

TRANSPORTS = ("text", "imports_map", "pickle")


def analyse_upstream(src, workdir):
  """Analyses A the way pytype-single does for `--pickle-output`/`-o`: returns (stub text, error names) and
  writes A.pyi and A.pickled into workdir."""
  from pytype import config, io
  os.makedirs(workdir, exist_ok=True)
  py = os.path.join(workdir, "A.py")
  with open(py, "w") as f:
    f.write(src)
  opts = config.Options.create(py, python_version=(3, 12), typeshed=False, module_name="A", pythonpath="",
                               output=os.path.join(workdir, "A.pickled"), pickle_output=True)
  ret, pyi = io.generate_pyi(src, opts)
  with open(os.path.join(workdir, "A.pyi"), "w") as f:
    f.write(pyi)
  io.write_pickle(ret.ast, opts, ret.context.loader)          # the real serialisation path (PrepareForExport ...)
  errs = [(e.name, e.line) for e in ret.context.errorlog]
  return pyi, errs


def analyse_downstream(src, workdir, transport):
  from pytype import config, io
  if transport == "text":
    opts = config.Options.create(python_version=(3, 12), typeshed=False, module_name="B", pythonpath=workdir)
  elif transport == "imports_map":
    opts = config.Options.create(python_version=(3, 12), typeshed=False, module_name="B",
                                 imports_map_items=[("A.pyi", os.path.join(workdir, "A.pyi"))])
  else:
    opts = config.Options.create(python_version=(3, 12), typeshed=False, module_name="B", use_pickled_files=True,
                                 imports_map_items=[("A.pyi", os.path.join(workdir, "A.pickled"))])
  ret, pyi = io.generate_pyi(src, opts)
  errs = [(e.name, e.line, str(e.message)[:200]) for e in ret.context.errorlog]
  loader_cls = type(ret.context.loader).__name__
  return pyi, errs, loader_cls


def downstream_defs(pyi):
  """{name: ("type"|"alias", canon) | ("function", sigs) | ("class",)} of B's stub."""
  from pytype.pytd import pytd
  ast = parse_stub(pyi, "B")
  out = {}
  for c in ast.constants:
    out[c.name.split(".")[-1]] = ("type", canon(c.type))
  for a in ast.aliases:
    n = a.name.split(".")[-1]
    if isinstance(a.type, pytd.Type):
      out[n] = ("alias", canon(a.type))
    else:
      out[n] = ("other-alias", str(a.type)[:200])
  for f in ast.functions:
    out[f.name.split(".")[-1]] = ("function", [sig_canon(s, False) for s in f.signatures])
  for c in ast.classes:
    out[c.name.split(".")[-1]] = ("class",)
  return out


FATAL = ("import-error", "pyi-error")


KNOWN_KINDS = ("bare-type-read-as-Any", "omitted-typevar-default-call-is-Any", "final-attribute-read-keeps-Final",
               "generic-base-attribute-overridden-in-subclass")


def upstream_inferred(stub_text):
  """{B name: ("type"|"alias", canonical type)} from the `_p_<name>` definitions of A's stub (A analysed with the
  probe expressions appended)."""
  from pytype.pytd import pytd
  ast = parse_stub(stub_text, "A")
  out = {}
  for c in ast.constants:
    n = c.name.split(".")[-1]
    if n.startswith("_p_"):
      out[n[3:]] = ("type", canon(c.type))
  for a in ast.aliases:
    n = a.name.split(".")[-1]
    if n.startswith("_p_") and isinstance(a.type, pytd.Type):
      out[n[3:]] = ("alias", canon(a.type))
  return out


def taint(errs, src, prefix, meta):
  """names assigned on a line with an error (a call the oracle built badly: wrong-arg-types, missing-parameter, ...)
  and everything read from them."""
  lines = src.split("\n")
  bad = set()
  for e in errs:
    if 0 < e[1] <= len(lines):
      n = lines[e[1] - 1].split(" = ")[0]
      if n.startswith(prefix):
        bad.add(n[len(prefix):])
  changed = True
  while changed:
    changed = False
    for n, m in meta.items():
      if n not in bad and m.get("parent") in bad:
        bad.add(n)
        changed = True
  return bad


def same_def(e, g):
  """e = ("type"|"alias", canon) expected, g = downstream definition."""
  return compare((e[0], e[1], ""), g) is None


COMPAT_WIDER = {"int": ("float", "complex"), "float": ("complex",), "bytearray": ("bytes",)}


def compat_narrowed(inf, dec):
  """True if the declared type `dec` is the inferred type `inf` with a PEP 484 compat member dropped in favour of
  its wider partner (Union[float, int] -> float; also below generics): what the printer may do to a PARAMETER
  annotation and must never do to the type of a value B reads."""
  mem = lambda c: list(c[1]) if isinstance(c, tuple) and c[0] == "U" else [c]
  mi, md = mem(inf), mem(dec)
  lost = [x for x in mi if x not in md]
  if lost and all(x in mi for x in md):
    return all(isinstance(x, str) and any(w in md for w in COMPAT_WIDER.get(x, ())) for x in lost)
  if isinstance(inf, tuple) and isinstance(dec, tuple) and inf[0] == dec[0] and len(inf) == len(dec) and inf[0] in "GT":
    a, b = (inf[2:], dec[2:]) if inf[0] == "G" else (inf[1:], dec[1:])
    if inf[0] == "G" and inf[1] != dec[1]:
      return False
    diff = [(x, y) for x, y in zip(a, b) if x != y]
    return bool(diff) and all(compat_narrowed(x, y) for x, y in diff)
  return False


def classify(name, m, want, g):
  """the narrow classes of mismatch that are listed known findings; everything else is `type-differs`."""
  if g is None or g[0] not in ("type", "alias"):
    return "type-differs"
  if any(w is not None and type_to_any(w[1]) == type_to_any(g[1]) for w in want):
    return "bare-type-read-as-Any"
  if m.get("kind") == "call" and m.get("omitted_tv_default") and g[1] == "Any":
    return "omitted-typevar-default-call-is-Any"
  d = m.get("declared")
  if m.get("kind") == "attr" and isinstance(d, tuple) and d[:2] == ("G", "Final") and \
     isinstance(g[1], tuple) and g[1][:2] == ("G", "Final"):
    return "final-attribute-read-keeps-Final"
  owners = m.get("owners") or []
  if m.get("kind") == "attr" and len(owners) > 1 and owners[0][1] is not None and owners[0][1] != g[1] and \
     any(o[1] is not None and o[1] == g[1] for o in owners[1:]):
    return "generic-base-attribute-overridden-in-subclass"
  return "type-differs"


def compare_names(res, names, meta, exp, inferred, got, tainted, dropped, tr, suffix=""):
  """holds every name of `names` (defined in the downstream stub `got`) to A's inference / A's stub; appends the
  mismatches, classified, to res["issues"].  Returns the number of names compared."""
  n_cmp = [0]
  for name in names:
    m = meta[name]
    if name in tainted or name in dropped:
      res["tainted"] += 1
      continue
    e_stub = exp.get(name)
    e_inf = inferred.get(name)
    g = got.get(name)
    if e_stub is not None and e_stub[0] == "function":
      n_cmp[0] += 1
      res["kinds"]["function"] = res["kinds"].get("function", 0) + 1
      bad = compare(e_stub, g)
      if bad:
        res["issues"].append({"transport": tr, "kind": "type-differs", "name": name, "source": m["what"],
                              "what": "%s%s: upstream %s, downstream %s" % (m["what"], suffix, bad[0], bad[1])})
      continue
    if m.get("kind") == "ref" or (e_inf is None and e_stub is None):
      if e_stub is not None:
        n_cmp[0] += 1
        bad = compare(e_stub, g)
        if bad:
          res["issues"].append({"transport": tr, "kind": "type-differs", "name": name, "source": m["what"],
                                "what": "%s%s: upstream %s, downstream %s" % (m["what"], suffix, bad[0], bad[1])})
      continue
    n_cmp[0] += 1
    k = "inferred" if e_inf is not None else "declared"
    res["kinds"][k] = res["kinds"].get(k, 0) + 1
    ok_inf = e_inf is not None and same_def(e_inf, g)
    ok_stub = e_stub is not None and same_def(e_stub, g)
    if ok_inf:
      continue
    if ok_stub:
      # B has exactly the declared type; A's context-sensitive analysis of the same expression found another
      # one (e.g. a more precise result of an unannotated function): not the hand-off's doing - unless the
      # declaration is A's inference with a compat member collapsed away (int into float ...), which narrows
      if e_inf is not None:
        res["inferred_differs_from_declared"] += 1
        if e_inf[0] == "type" and e_stub[0] == "type" and compat_narrowed(e_inf[1], e_stub[1]):
          res["issues"].append({"transport": tr, "kind": "type-differs", "name": name, "source": m["what"],
                                "what": "%s%s: A inferred %s, its stub declares and B sees %s (compat pair collapsed outside "
                                        "a parameter annotation)" % (m["what"], suffix, show(e_inf[1]), show(e_stub[1]))})
      continue
    if m.get("constructed") and e_stub is None:
      # the oracle built this value / chose the arguments and the stub gives no closed declared type to hold B
      # to: A sees the concrete arguments (int for a float parameter, literal precision, ...) and may
      # legitimately be narrower than what the signature promises B
      res["undecided_constructed"] = res.get("undecided_constructed", 0) + 1
      continue
    want = [e_inf, e_stub]
    kind = classify(name, m, want, g)
    wtxt = " / ".join(("inferred " if i == 0 else "declared ") + show(w[1]) for i, w in enumerate(want) if w is not None)
    gtxt = "<name missing from B's stub>" if g is None else \
        "%s %s" % (g[0], show(g[1]) if g[0] in ("type", "alias") else g[1:])
    res["issues"].append({"transport": tr, "kind": kind, "name": name, "source": m["what"],
                          "what": "%s%s: upstream %s, downstream %s" % (m["what"], suffix, wtxt, gtxt)})
  return n_cmp[0]


def check_pair(src_a, workdir, transports=TRANSPORTS):
  """Runs the full oracle for one upstream program.  Returns a dict with 'status' in {'ok', 'skip', 'violation'},
  'issues' (every mismatch, classified) and the concrete replay material (A with probes, B)."""
  from pytype import config, io
  from pytype import utils as pytype_utils
  shutil.rmtree(workdir, ignore_errors=True)
  os.makedirs(workdir, exist_ok=True)
  try:
    # 1. A alone, to learn its public surface
    _, stub0 = io.generate_pyi(src_a, config.Options.create(python_version=(3, 12), typeshed=False, module_name="A", pythonpath=""))
    src_b, exp, meta = derive_downstream(stub0)
    # 2. A with the probe expressions appended: A's own inference for every probe; this is the stub B imports
    src_a2 = src_a + ("" if src_a.endswith("\n") else "\n") + upstream_probe_source(meta)
    stub_a, errs_a = analyse_upstream(src_a2, workdir)
  except pytype_utils.UsageError as e:
    return {"status": "skip", "why": "usage-error " + str(e)[:100]}
  inferred = upstream_inferred(stub_a)
  # the stub B really imports is the one of A-with-probes: a probe call can add a signature to an unannotated
  # function, so the declared expectations are re-read from it; a probe that is no longer derivable (e.g. the
  # callee became overloaded) is not compared
  try:
    _, exp, meta2 = derive_downstream(stub_a)
  except Exception:  # pylint: disable=broad-except
    meta2 = meta
  dropped = {n for n in meta if n not in meta2 or meta2[n]["expr"] != meta[n]["expr"]}
  for n in meta:
    if n in meta2:
      for k in ("owners", "declared", "omitted_tv_default"):
        if k in meta2[n]:
          meta[n][k] = meta2[n][k]
  tainted_a = taint([(e[0], e[1]) for e in errs_a], src_a2, "_p_", meta)
  res = {"status": "ok", "src_a": src_a2, "src_b": src_b, "stub_a": stub_a, "n_expect": 0, "upstream_errors": errs_a,
         "kinds": {}, "n_probes_inside": len([m for m in meta.values() if m.get("parent")]),
         "inferred_differs_from_declared": 0, "tainted": 0, "issues": []}
  stubs = {}
  for tr in transports:
    try:
      pyi, errs, loader_cls = analyse_downstream(src_b, workdir, tr)
    except pytype_utils.UsageError as e:
      return {"status": "skip", "why": "usage-error " + str(e)[:100]}
    except Exception as e:  # pylint: disable=broad-except
      res.update(status="violation", transport=tr, kind="crash",
                 what="downstream analysis raised %s: %s" % (type(e).__name__, str(e)[:300]),
                 trace=traceback.format_exc()[-1500:])
      return res
    if tr == "pickle" and loader_cls != "PickledPyiLoader":
      res.update(status="violation", transport=tr, kind="harness", what="pickle transport did not use PickledPyiLoader")
      return res
    stubs[tr] = pyi
    fatal = [e for e in errs if e[0] in FATAL]
    if fatal:
      res.update(status="violation", transport=tr, kind=fatal[0][0], what="downstream reports %r" % (fatal[0],))
      return res
    tainted = taint(errs, src_b, "", meta) | tainted_a
    attr = [e for e in errs if e[0] in ("module-attr", "attribute-error", "name-error", "not-callable")]
    # an attribute error that A's own analysis reports for the same probe is A's, not the hand-off's
    attr = [e for e in attr if src_b.split("\n")[e[1] - 1].split(" = ")[0] not in tainted_a]
    if attr:
      res.update(status="violation", transport=tr, kind=attr[0][0], what="downstream reports %r" % (attr[0],))
      return res
    res.setdefault("downstream_errors", {})[tr] = errs
    try:
      got = downstream_defs(pyi)
    except Exception as e:  # pylint: disable=broad-except
      res.update(status="violation", transport=tr, kind="unparseable-stub", what=str(e)[:300])
      return res
    n_cmp = compare_names(res, list(meta), meta, exp, inferred, got, tainted, dropped, tr)
    res["n_expect"] = max(res["n_expect"], n_cmp)
  # a second downstream module reads the members of A's module-level values in the REVERSE order (a conversion
  # cached on a class by the first read must not leak into the reads through other instances)
  rev = [n for n, m in meta.items() if m.get("parent") and not m.get("constructed") and n not in dropped]
  if len(rev) >= 2:
    src_b2 = "import A\n" + "".join("%s = %s\n" % (n, meta[n]["expr"]) for n in reversed(rev))
    res["src_b_reversed"] = src_b2
    for tr in transports:
      try:
        pyi2, errs2, _ = analyse_downstream(src_b2, workdir, tr)
        got2 = downstream_defs(pyi2)
      except pytype_utils.UsageError:
        break
      except Exception as e:  # pylint: disable=broad-except
        res.update(status="violation", transport=tr, kind="crash",
                   what="downstream analysis (reversed reads) raised %s: %s" % (type(e).__name__, str(e)[:300]),
                   trace=traceback.format_exc()[-1500:])
        return res
      tainted2 = taint(errs2, src_b2, "", {n: {"parent": None} for n in rev}) | tainted_a
      n_before = len(res["issues"])
      compare_names(res, rev, meta, exp, inferred, got2, tainted2, dropped, tr, suffix=" [reversed reads]")
      for i in res["issues"][n_before:]:
        i["module"] = "reversed"
  other = [i for i in res["issues"] if i["kind"] not in KNOWN_KINDS]
  if other:
    res.update(status="violation", **{k: other[0][k] for k in ("transport", "kind", "name", "source", "what")})
    if other[0].get("module") == "reversed":
      res["src_b"] = res["src_b_reversed"]
    return res
  if len(set(stubs.values())) != 1:
    a = stubs[transports[0]]
    for tr in transports[1:]:
      if stubs[tr] != a:
        res.update(status="violation", transport=tr, kind="transports-differ",
                   what="B's stub through %s differs from the one through %s" % (tr, transports[0]),
                   stub_0=a, stub_1=stubs[tr])
        return res
  return res


def compare(e, g):
  """None if the downstream definition g carries the expected type e, else (expected text, got text)."""
  if e[0] == "type":
    want = e[1]
    if g is None:
      return (show(want), "<name missing from B's stub>")
    if g[0] == "type" and g[1] == want:
      return None
    # `x = T` (alias) and `x: type[T]` declare the same class-valued attribute
    if g[0] == "alias" and isinstance(want, tuple) and want[:2] == ("G", "type") and len(want) == 3 and g[1] == want[2]:
      return None
    return (show(want), "%s %s" % (g[0], show(g[1]) if g[0] in ("type", "alias") else g[1:]))
  if e[0] == "alias":
    want = e[1]
    if g is None:
      return ("alias " + show(want), "<name missing from B's stub>")
    if g[0] == "alias" and g[1] == want:
      return None
    if g[0] == "type" and g[1] == ("G", "type", want):
      return None
    return ("alias " + show(want), "%s %s" % (g[0], show(g[1]) if g[0] in ("type", "alias") else g[1:]))
  if e[0] == "function":
    if g is None:
      return ("function", "<name missing from B's stub>")
    if g[0] == "function" and g[1] == e[1]:
      return None
    return ("def " + repr(e[1]), repr(g))
  return None


# ---------------------------------------------------------------------------------------------
# MODULE CHAINS:  upstream module(s) u  <-  a (imports u under an alias / from a package)  <-  b (reads a's names)
#
# a's emitted stub then carries `import u as alias` / `from pk import sub as alias` and spells every type of u through
# the alias (alias.K.In); b's loader has to resolve the alias (load_pytd._Resolver.resolve_module_alias) to find the
# dependency, incl. classes nested one and two levels below a member of the aliased module, with same-named top-level
# decoys in u (a wrong lookup then yields a wrong TYPE rather than an error) and in a package's __init__.
# The expectation is a's own inference: the probe expressions b evaluates are appended to a as `_p_<name> = <expr>`.

CH_LITS = [("0", "int"), ("''", "str"), ("1.5", "float"), ("b''", "bytes"), ("2j", "complex"), ("[1]", "list"),
           ("(1, '')", "tuple"), ("{'k': 1}", "dict")]
CH_NESTED = ["In", "Item", "Leaf", "Node"]


def gen_upstream(r, lit_offset):
  """source of an upstream module: classes K0.. each with a nested class (some with a second level), a top-level
  decoy for every nested name, functions and methods returning nested classes.  Returns (source, description)."""
  lits = CH_LITS[lit_offset:] + CH_LITS[:lit_offset]
  nk = r.choice([1, 2, 2])
  out = []
  desc = []
  li = 0
  def lit():
    nonlocal li
    li += 1
    return lits[li % len(lits)][0]
  used = []
  for i in range(nk):
    nested = r.choice(CH_NESTED)
    deep = r.choice([None, None, "Deep", r.choice(CH_NESTED)])
    if deep == nested:
      deep = "Deep"
    body = ["class K%d:\n" % i, "  z = %s\n" % lit(), "  class %s:\n    z = %s\n" % (nested, lit())]
    if deep:
      body.append("    class %s:\n      z = %s\n" % (deep, lit()))
    body.append("    def up(self):\n      return K%d()\n" % i)
    body.append("  def mk(self):\n    return K%d.%s()\n" % (i, nested))
    if deep and r.random() < 0.7:
      body.append("  def mkd(self) -> 'K%d.%s.%s':\n    return K%d.%s.%s()\n" % (i, nested, deep, i, nested, deep))
    out.append("".join(body))
    out.append("def mk%d() -> K%d.%s:\n  return K%d.%s()\n" % (i, i, nested, i, nested))
    desc.append((i, nested, deep))
    used += [nested] + ([deep] if deep else [])
  # decoys: top-level classes with the simple names of the nested ones (always for the first, mostly for the others)
  decoys = []
  for k, n in enumerate(dict.fromkeys(used)):
    if k == 0 or r.random() < 0.7:
      decoys.append("class %s:\n  z = %s\n  decoy = True\n" % (n, lit()))
  if r.random() < 0.5:
    out = decoys + out
  else:
    out = out + decoys
  return "".join(out), desc


def gen_chain(r):
  """{"modules": [(file path without extension, module name, source)] in dependency order (upstream.., a, b),
      "probes": n, "shape": ...}"""
  layout = r.choice(["flat", "flat", "pkg", "pkg", "pkg_from", "deep"])
  src_u, desc = gen_upstream(r, r.randrange(len(CH_LITS)))
  mods = []
  if layout == "flat":
    mods.append(("c", "c", src_u))
    imp, q = r.choice([("import c as cc", "cc"), ("import c as cc", "cc"), ("import c as c2", "c2")])
  elif layout == "pkg":
    mods.append(("pk/__init__", "pk", gen_upstream(r, 3)[0] if r.random() < 0.6 else "In = 3\n"))
    mods.append(("pk/sub", "pk.sub", src_u))
    imp, q = "import pk.sub as ps", "ps"
  elif layout == "pkg_from":
    mods.append(("pk/__init__", "pk", gen_upstream(r, 3)[0] if r.random() < 0.6 else "Item = ''\n"))
    mods.append(("pk/sub", "pk.sub", src_u))
    imp, q = "from pk import sub as ps", "ps"
  else:
    mods.append(("pk/__init__", "pk", ""))
    mods.append(("pk/mid/__init__", "pk.mid", gen_upstream(r, 5)[0] if r.random() < 0.5 else ""))
    mods.append(("pk/mid/leaf", "pk.mid.leaf", src_u))
    imp, q = r.choice([("import pk.mid.leaf as lf", "lf"), ("from pk.mid import leaf as lf", "lf")])
  a = ["from typing import Optional\n", imp + "\n", "def _cond(): return bool(_cond)\n"]
  # a second upstream module with the SAME class names under another alias
  # (ALWAYS: a flat `import d as dd` is the form whose emitted alias the loader resolves through
  # resolve_module_alias; every chain carries at least this one, whatever the main layout is)
  second = None
  if True:
    src_d, desc_d = gen_upstream(r, 6)
    mods.append(("d", "d", src_d))
    a.append("import d as dd\n")
    second = ("dd", desc_d)
  probes = []     # (name, expression with {A} in front of a's names)
  def P(name, expr):
    probes.append((name, expr))
  for (i, nested, deep) in desc:
    a.append("x%d = %s.K%d()\n" % (i, q, i))
    a.append("y%d = %s.K%d.%s()\n" % (i, q, i, nested))
    P("vx%d" % i, "{A}x%d" % i)
    P("vy%d" % i, "{A}y%d" % i)
    P("yz%d" % i, "{A}y%d.z" % i)
    P("xm%d" % i, "{A}x%d.mk()" % i)
    P("xmz%d" % i, "{A}x%d.mk().z" % i)
    P("yu%d" % i, "{A}y%d.up().z" % i)
    if deep:
      a.append("w%d = %s.K%d.%s.%s()\n" % (i, q, i, nested, deep))
      P("vw%d" % i, "{A}w%d" % i)
      P("wz%d" % i, "{A}w%d.z" % i)
    a.append("def f%d(k: %s.K%d) -> %s.K%d.%s:\n  return k.%s()\n" % (i, q, i, q, i, nested, nested))
    P("r%d" % i, "{A}f%d({A}x%d)" % (i, i))
    P("rz%d" % i, "{A}f%d({A}x%d).z" % (i, i))
    x = r.random()
    if x < 0.5:
      a.append("l%d = [%s.K%d.%s()]\n" % (i, q, i, nested))
      P("lz%d" % i, "{A}l%d[0].z" % i)
    if x > 0.3:
      a.append("def g%d(v: %s.K%d.%s) -> list[%s.K%d.%s]:\n  return [v]\n" % (i, q, i, nested, q, i, nested))
      P("gz%d" % i, "{A}g%d({A}y%d)[0].z" % (i, i))
    x = r.random()
    if x < 0.4:
      a.append("class D%d(%s.K%d.%s):\n  own = 1\n" % (i, q, i, nested))
      P("dz%d" % i, "{A}D%d().z" % i)
    if x > 0.25:
      a.append("class E%d:\n  a: %s.K%d.%s\n  def __init__(self) -> None:\n    self.a = %s.K%d.%s()\n    self.o = (%s.mk%d() if _cond() else None)\n"
               % (i, q, i, nested, q, i, nested, q, i))
      P("ez%d" % i, "{A}E%d().a.z" % i)
      P("eo%d" % i, "{A}E%d().o" % i)
    if r.random() < 0.5:
      a.append("kk%d = %s.K%d.%s\n" % (i, q, i, nested))
      P("kz%d" % i, "{A}kk%d().z" % i)
    if r.random() < 0.5:
      a.append("t%d = (%s.K%d.%s(), %s.mk%d())\n" % (i, q, i, nested, q, i))
      P("tz%d" % i, "{A}t%d[1].z" % i)
    if r.random() < 0.4:
      a.append("o%d: Optional[%s.K%d.%s] = None\n" % (i, q, i, nested))
      P("vo%d" % i, "{A}o%d" % i)
  if second:
    q2, desc_d = second
    i, nested, deep = desc_d[0]
    a.append("s0 = %s.K%d.%s()\n" % (q2, i, nested))
    a.append("def h0(k: %s.K%d) -> %s.K%d.%s:\n  return k.%s()\n" % (q2, i, q2, i, nested, nested))
    P("vs0", "{A}s0")
    P("sz0", "{A}s0.z")
    P("hz0", "{A}h0({A}s0.up()).z")
  src_a = "".join(a)
  src_a_probes = src_a + "".join("_p_%s = %s\n" % (n, e.replace("{A}", "")) for n, e in probes)
  src_b = "import a\n" + "".join("%s = %s\n" % (n, e.replace("{A}", "a.")) for n, e in probes)
  mods.append(("a", "a", src_a_probes))
  mods.append(("b", "b", src_b))
  return {"modules": mods, "probes": [n for n, _ in probes], "layout": layout, "import": imp}


def rename_canon(c, f):
  if isinstance(c, str):
    return f(c)
  return tuple(rename_canon(x, f) if isinstance(x, (str, tuple)) else x for x in c)


def chain_defs(pyi, name):
  """{name: canonical type} of a stub, module aliases spelled out (`cc.K.In` -> `c.K.In`)."""
  from pytype.pytd import pytd
  ast = parse_stub(pyi, name)
  amap = {}
  for al in ast.aliases:
    if isinstance(al.type, pytd.Module):
      amap[al.name.split(".", 1)[-1] if al.name.startswith(name + ".") else al.name] = al.type.module_name
  def fix(n):
    if n.startswith("~"):
      return n
    parts = n.split(".")
    for k in range(len(parts), 0, -1):
      head = ".".join(parts[:k])
      if head in amap:
        return ".".join([amap[head]] + parts[k:])
    return n
  out = {}
  for c in ast.constants:
    out[c.name.split(".")[-1]] = ("type", rename_canon(canon(c.type, mod=name), fix))
  for al in ast.aliases:
    if isinstance(al.type, pytd.Type):
      out[al.name.split(".")[-1]] = ("alias", rename_canon(canon(al.type, mod=name), fix))
  return out


def check_chain(chain, workdir, transports=TRANSPORTS):
  """analyses the modules in order through each transport; b's probes must have the types a's own analysis inferred
  for the same expressions; no import / pyi / attribute errors anywhere."""
  from pytype import config, io
  from pytype import utils as pytype_utils
  mods = [tuple(m) for m in chain["modules"]]
  res = {"status": "ok", "issues": [], "n_expect": 0, "kinds": {}, "src_a": mods[-2][2], "src_b": mods[-1][2],
         "chain": True, "layout": chain.get("layout")}
  stubs_b = {}
  for tr in transports:
    shutil.rmtree(workdir, ignore_errors=True)
    os.makedirs(workdir)
    imap = []
    pyis = {}
    for path, name, src in mods:
      os.makedirs(os.path.dirname(os.path.join(workdir, path)) or workdir, exist_ok=True)
      kw = dict(python_version=(3, 12), typeshed=False, module_name=name)
      if tr == "text":
        kw["pythonpath"] = workdir
      else:
        kw["imports_map_items"] = list(imap)
        kw["use_pickled_files"] = tr == "pickle"
      try:
        ret, pyi = io.generate_pyi(src, config.Options.create(**kw))
      except pytype_utils.UsageError as e:
        return {"status": "skip", "why": "usage-error " + str(e)[:100]}
      except Exception as e:  # pylint: disable=broad-except
        res.update(status="violation", transport=tr, kind="crash",
                   what="analysis of module %s raised %s: %s" % (name, type(e).__name__, str(e)[:300]),
                   trace=traceback.format_exc()[-1500:])
        return res
      if tr == "pickle" and name == "b" and type(ret.context.loader).__name__ != "PickledPyiLoader":
        res.update(status="violation", transport=tr, kind="harness", what="pickle transport did not use PickledPyiLoader")
        return res
      errs = [(e.name, e.line, str(e.message)[:200]) for e in ret.context.errorlog]
      bad = [e for e in errs if e[0] in FATAL + ("module-attr", "attribute-error", "name-error", "not-callable", "invalid-annotation")]
      if bad:
        res.update(status="violation", transport=tr, kind=bad[0][0], what="module %s reports %r" % (name, bad[0]))
        return res
      with open(os.path.join(workdir, path + ".pyi"), "w") as f:
        f.write(pyi)
      pyis[name] = pyi
      if tr == "pickle":
        out = os.path.join(workdir, path + ".pickled")
        o2 = config.Options.create(os.path.join(workdir, path + ".py"), output=out, pickle_output=True, **kw)
        io.write_pickle(ret.ast, o2, ret.context.loader)
        imap.append((path + ".pyi", out))
      else:
        imap.append((path + ".pyi", os.path.join(workdir, path + ".pyi")))
    res["stub_a"] = pyis["a"]
    try:
      da = chain_defs(pyis["a"], "a")
      db = chain_defs(pyis["b"], "b")
    except Exception as e:  # pylint: disable=broad-except
      res.update(status="violation", transport=tr, kind="unparseable-stub", what=str(e)[:300])
      return res
    stubs_b[tr] = pyis["b"]
    n = 0
    for p in chain["probes"]:
      want, got = da.get("_p_" + p), db.get(p)
      if want is None:
        continue
      n += 1
      res["kinds"]["chain-inferred"] = res["kinds"].get("chain-inferred", 0) + 1
      if not same_def(want, got):
        res["issues"].append({"transport": tr, "kind": "type-differs", "name": p, "source": "a." + p,
                              "what": "chain %s (`%s`): a infers %s for `%s`, b sees %s" %
                              (chain.get("layout"), chain.get("import"), show(want[1]), p,
                               "<missing>" if got is None else "%s %s" % (got[0], show(got[1])))})
    res["n_expect"] = max(res["n_expect"], n)
  if res["issues"]:
    i0 = res["issues"][0]
    res.update(status="violation", **{k: i0[k] for k in ("transport", "kind", "name", "source", "what")})
    return res
  if len(set(stubs_b.values())) > 1:
    a0 = stubs_b[transports[0]]
    for tr in transports[1:]:
      if stubs_b[tr] != a0:
        res.update(status="violation", transport=tr, kind="transports-differ",
                   what="chain: b's stub through %s differs from the one through %s" % (tr, transports[0]),
                   stub_0=a0, stub_1=stubs_b[tr])
        return res
  return res
