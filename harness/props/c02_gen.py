"""C02 helpers: annotation / value grammars, rendering, the run-time membership ORACLE and the pytype runner.

Types (nested tuples):
  ('any',) | ('union', (t..)) | ('cls', name, (args..)) | ('ftuple', (t..)) | ('callable', None|(t..), ret)
  | ('type', t)
  name is a short key: builtin scalars/containers ('int', 'list', ...), typing ABCs ('Sequence', ...), or a user
  class / protocol of the generated hierarchy ('K0'.., 'P0'..).  ('cls','tuple',(X,)) is Tuple[X, ...].
Values:
  ('int',) ('bool',) ('float',) ('complex',) ('str',) ('bytes',) ('none',) ('bytearray',)
  ('list',(v..)) ('tuple',(v..)) ('set',(v..)) ('frozenset',(v..)) ('dict',((k,v)..)) ('tupleof',(v..))
  ('inst',K) ('class',K) ('func', n_mandatory, n_optional, has_star)
"""
import collections.abc as cabc

# ------------------------------------------------------------------------------------------------
# universe

SCALARS = ["int", "float", "complex", "bool", "str", "bytes", "none"]
FULLNAME = {
    "int": "builtins.int", "float": "builtins.float", "complex": "builtins.complex", "bool": "builtins.bool",
    "str": "builtins.str", "bytes": "builtins.bytes", "bytearray": "builtins.bytearray",
    "none": "builtins.NoneType", "object": "builtins.object", "list": "builtins.list",
    "tuple": "builtins.tuple", "set": "builtins.set", "frozenset": "builtins.frozenset",
    "dict": "builtins.dict", "type": "builtins.type", "function": "builtins.function",
    "Sequence": "typing.Sequence", "MutableSequence": "typing.MutableSequence", "Iterable": "typing.Iterable",
    "Collection": "typing.Collection", "Container": "typing.Container", "Mapping": "typing.Mapping",
    "MutableMapping": "typing.MutableMapping", "AbstractSet": "typing.AbstractSet",
    "MutableSet": "typing.MutableSet", "Sized": "typing.Sized", "Callable": "typing.Callable",
    "Hashable": "typing.Hashable", "Reversible": "typing.Reversible", "Iterator": "typing.Iterator",
    "Generic": "typing.Generic", "Protocol": "typing.Protocol",
    "List": "typing.List", "Dict": "typing.Dict", "Set": "typing.Set", "FrozenSet": "typing.FrozenSet",
    "Tuple": "typing.Tuple", "Type": "typing.Type",
    "SupportsInt": "typing.SupportsInt", "SupportsFloat": "typing.SupportsFloat",
    "SupportsAbs": "typing.SupportsAbs", "SupportsComplex": "typing.SupportsComplex",
}
# how a ('cls', name, args) annotation is spelled
SPELL = {"int": "int", "float": "float", "complex": "complex", "bool": "bool", "str": "str", "bytes": "bytes",
         "none": "None", "object": "object", "list": "List", "tuple": "Tuple", "set": "Set",
         "frozenset": "FrozenSet", "dict": "Dict", "type": "type", "bytearray": "bytearray"}
BARE_SPELL = {"list": "list", "tuple": "tuple", "set": "set", "frozenset": "frozenset", "dict": "dict"}
UNARY_GENERIC = ["list", "set", "frozenset", "tuple", "Sequence", "MutableSequence", "Iterable", "Collection",
                 "Container", "AbstractSet", "MutableSet"]
BINARY_GENERIC = ["dict", "Mapping", "MutableMapping"]
TYPING_IMPORTS = ("Any, Callable, Collection, Container, Dict, FrozenSet, Iterable, List, Mapping, "
                  "MutableMapping, MutableSequence, MutableSet, AbstractSet, Optional, Protocol, Sequence, Set, "
                  "Sized, Tuple, Type, Union")

NONE_T = ("cls", "none", ())
ANY_T = ("any",)


# ------------------------------------------------------------------------------------------------
# generated class hierarchy

class Hier:
  """A small generated hierarchy: classes K0..Kn-1 (bases among earlier ones, a subset of methods m0..) and
  protocols P0.. (each requiring a set of methods)."""

  METHODS = ["m0", "m1"]

  def __init__(self, classes, protos):
    self.classes = classes    # list of (name, [bases], [methods])
    self.protos = protos      # list of (name, [methods])
    self.ns = {}
    exec(self.runtime_source(), self.ns)   # pylint: disable=exec-used
    self.mro = {}
    self.attrs = {}
    for name, _, _ in classes:
      c = self.ns[name]
      self.mro[name] = [k.__name__ for k in c.__mro__ if k is not object]
      self.attrs[name] = sorted(m for m in self.METHODS if hasattr(c, m))
    self.proto_attrs = {n: sorted(ms) for n, ms in protos}
    self.own = {n: sorted(ms) for n, _, ms in classes}

  @classmethod
  def random(cls, r, n=6):
    while True:
      classes = []
      for i in range(n):
        k = r.choice([0, 0, 1, 1, 1, 2]) if i else 0
        bases = sorted(r.sample(range(i), min(k, i)), reverse=True)
        ms = [m for m in cls.METHODS if r.random() < 0.3]
        classes.append(("K%d" % i, ["K%d" % b for b in bases], ms))
      protos = [("P0", ["m0"]), ("P1", ["m1"]), ("P2", ["m0", "m1"])]
      try:
        return cls(classes, protos)
      except TypeError:     # inconsistent MRO: draw again
        continue

  @classmethod
  def default(cls):
    return cls([("K0", [], []), ("K1", ["K0"], []), ("K2", ["K1"], ["m0"]), ("K3", [], ["m0", "m1"]),
                ("K4", ["K3", "K0"], []), ("K5", ["K0"], ["m1"])],
               [("P0", ["m0"]), ("P1", ["m1"]), ("P2", ["m0", "m1"])])

  def class_names(self):
    return [n for n, _, _ in self.classes]

  def proto_names(self):
    return [n for n, _ in self.protos]

  def is_proto(self, n):
    return n in self.proto_attrs

  def _src(self, runtime):
    out = []
    for name, bases, ms in self.classes:
      head = "class %s(%s):" % (name, ", ".join(bases)) if bases else "class %s:" % name
      if not ms:
        out.append(head + " pass")
      else:
        out.append(head)
        for m in ms:
          out.append("  def %s(self): return 0" % m)
    for name, ms in self.protos:
      out.append("class %s(Protocol):" % name)
      for m in ms:
        out.append("  def %s(self) -> int: ..." % m)
    if runtime:
      out.insert(0, "from typing import Protocol")
    return "\n".join(out) + "\n"

  def runtime_source(self):
    return self._src(True)

  def analysed_source(self):
    return self._src(False)

  def key(self):
    return (tuple((n, tuple(b), tuple(m)) for n, b, m in self.classes),
            tuple((n, tuple(m)) for n, m in self.protos))

  def to_json(self):
    return {"classes": [[n, list(b), list(m)] for n, b, m in self.classes],
            "protos": [[n, list(m)] for n, m in self.protos]}

  @classmethod
  def from_json(cls, d):
    return cls([(n, list(b), list(m)) for n, b, m in d["classes"]], [(n, list(m)) for n, m in d["protos"]])


# ------------------------------------------------------------------------------------------------
# rendering

def render_ty(t):
  k = t[0]
  if k == "any":
    return "Any"
  if k == "union":
    opts = t[1]
    if len(opts) == 2 and opts[1] == NONE_T and opts[0] != NONE_T:
      return "Optional[%s]" % render_ty(opts[0])
    return "Union[%s]" % ", ".join(render_ty(o) for o in opts)
  if k == "cls":
    name, args = t[1], t[2]
    if not args:
      if name in BARE_SPELL:
        return BARE_SPELL[name]
      return SPELL.get(name, name)
    if name == "tuple":
      return "Tuple[%s, ...]" % render_ty(args[0])
    return "%s[%s]" % (SPELL.get(name, name), ", ".join(render_ty(a) for a in args))
  if k == "ftuple":
    if not t[1]:
      return "Tuple[()]"
    return "Tuple[%s]" % ", ".join(render_ty(a) for a in t[1])
  if k == "callable":
    if t[1] is None:
      return "Callable[..., %s]" % render_ty(t[2])
    return "Callable[[%s], %s]" % (", ".join(render_ty(a) for a in t[1]), render_ty(t[2]))
  if k == "type":
    return "Type[%s]" % render_ty(t[1])
  raise ValueError(t)


class _Ctr:
  def __init__(self):
    self.n = 0

  def next(self):
    self.n += 1
    return self.n


def render_val(v, ctr=None):
  """Source text of the value expression.  Scalars of one kind get distinct literals and literals of
  different kinds never compare equal (ints start at 2, floats are x.5) so that sets/dicts keep every element."""
  ctr = ctr or _Ctr()
  k = v[0]
  if k == "int":
    return str(ctr.next() + 1)
  if k == "bool":
    return "True" if ctr.next() % 2 else "False"
  if k == "float":
    return "%d.5" % (ctr.next() + 1)
  if k == "complex":
    return "%dj" % (ctr.next() + 1)
  if k == "str":
    return '"s%d"' % ctr.next()
  if k == "bytes":
    return 'b"b%d"' % ctr.next()
  if k == "none":
    return "None"
  if k == "bytearray":
    return 'bytearray(b"y%d")' % ctr.next()
  if k == "list":
    return "[%s]" % ", ".join(render_val(e, ctr) for e in v[1])
  if k == "tuple":
    es = [render_val(e, ctr) for e in v[1]]
    return "(%s,)" % es[0] if len(es) == 1 else "(%s)" % ", ".join(es)
  if k == "tupleof":
    return "tuple([%s])" % ", ".join(render_val(e, ctr) for e in v[1])
  if k == "set":
    return "{%s}" % ", ".join(render_val(e, ctr) for e in v[1]) if v[1] else "set()"
  if k == "frozenset":
    return "frozenset({%s})" % ", ".join(render_val(e, ctr) for e in v[1]) if v[1] else "frozenset()"
  if k == "dict":
    return "{%s}" % ", ".join("%s: %s" % (render_val(a, ctr), render_val(b, ctr)) for a, b in v[1])
  if k == "inst":
    return "%s()" % v[1]
  if k == "class":
    return SPELL.get(v[1], v[1])
  if k == "func":
    ps = ["a%d" % i for i in range(v[1])] + ["d%d=0" % i for i in range(v[2])] + (["*r"] if v[3] else [])
    return "(lambda %s: 0)" % ", ".join(ps) if ps else "(lambda: 0)"
  raise ValueError(v)


def hashable_val(v):
  k = v[0]
  if k in ("list", "set", "dict", "bytearray"):
    return False
  if k in ("tuple", "tupleof", "frozenset"):
    return all(hashable_val(e) for e in v[1])
  return True


def valid_val(v):
  """Whether the expression evaluates without error (set elements / dict keys hashable)."""
  k = v[0]
  if k in ("set", "frozenset"):
    return all(hashable_val(e) and valid_val(e) for e in v[1])
  if k == "dict":
    return all(hashable_val(a) and valid_val(a) and valid_val(b) for a, b in v[1])
  if k in ("list", "tuple", "tupleof"):
    return all(valid_val(e) for e in v[1])
  return True


def ty_depth(t):
  k = t[0]
  if k == "any":
    return 0
  if k == "union":
    return max(ty_depth(o) for o in t[1])       # unions do not add depth (they add width)
  if k == "cls":
    return 1 + max(ty_depth(a) for a in t[2]) if t[2] else 0
  if k == "ftuple":
    return 1 + max([ty_depth(a) for a in t[1]] or [0])
  if k == "callable":
    return 1 + max([ty_depth(a) for a in (t[1] or ())] + [ty_depth(t[2])])
  if k == "type":
    return 1 + ty_depth(t[1])
  raise ValueError(t)


def val_depth(v):
  k = v[0]
  if k in ("list", "tuple", "set", "frozenset", "tupleof"):
    return 1 + max([val_depth(e) for e in v[1]] or [0])
  if k == "dict":
    return 1 + max([max(val_depth(a), val_depth(b)) for a, b in v[1]] or [0])
  return 0


# ------------------------------------------------------------------------------------------------
# ORACLE: membership of the actual run-time value in the annotated type, PEP 484 rules as the property names
# them: nominal subclassing, int->float->complex promotion, Optional/Union, homogeneous and fixed-length tuples,
# covariant read-only views (element-wise), protocols by attribute presence, type[C], Any/object.
# Independent of the Coq model and of pytype.

_ABC = {"Sequence": cabc.Sequence, "MutableSequence": cabc.MutableSequence, "Iterable": cabc.Iterable,
        "Collection": cabc.Collection, "Container": cabc.Container, "Mapping": cabc.Mapping,
        "MutableMapping": cabc.MutableMapping, "AbstractSet": cabc.Set, "MutableSet": cabc.MutableSet,
        "Sized": cabc.Sized}
_BUILTIN_RT = {"int": int, "float": float, "complex": complex, "bool": bool, "str": str, "bytes": bytes,
               "bytearray": bytearray, "none": type(None), "object": object, "list": list, "tuple": tuple,
               "set": set, "frozenset": frozenset, "dict": dict, "type": type}
_PROMOTE = {"float": (int, float), "complex": (int, float, complex)}
# positional arities (min, max) the class objects used as values accept
_CLASS_ARITY = {int: (0, 2), str: (0, 3), list: (0, 1)}


def _arity(rv):
  """(min, max|None) positional arguments the run-time callable accepts."""
  if isinstance(rv, type):
    if rv in _CLASS_ARITY:
      return _CLASS_ARITY[rv]
    return (0, 0)                      # generated classes define no __init__
  code = rv.__code__
  n = code.co_argcount
  d = len(rv.__defaults__ or ())
  star = bool(code.co_flags & 0x04)
  return (n - d, None if star else n)


def inhabits(rv, t, hier):
  k = t[0]
  if k == "any":
    return True
  if k == "union":
    return any(inhabits(rv, o, hier) for o in t[1])
  if k == "ftuple":
    return (isinstance(rv, tuple) and len(rv) == len(t[1])
            and all(inhabits(e, a, hier) for e, a in zip(rv, t[1])))
  if k == "callable":
    if not callable(rv):
      return False
    if isinstance(rv, type):
      # a class object called with the given arguments returns an instance of itself
      if not _subclass_member(rv, t[2], hier):
        return False
    if t[1] is None:
      return True
    lo, hi = _arity(rv)
    n = len(t[1])
    return lo <= n and (hi is None or n <= hi)
  if k == "type":
    return isinstance(rv, type) and _subclass_member(rv, t[1], hier)
  name, args = t[1], t[2]
  if name == "object":
    return True
  if name == "Callable":
    return callable(rv)
  if name == "type":
    return isinstance(rv, type)
  if name in _PROMOTE:
    return isinstance(rv, _PROMOTE[name])
  if name in ("int", "bool", "str", "bytes", "bytearray", "none"):
    return isinstance(rv, _BUILTIN_RT[name])
  if hier.is_proto(name):
    return all(hasattr(rv, m) for m in hier.proto_attrs[name])
  if name in hier.ns and name not in _BUILTIN_RT and name not in _ABC:
    return isinstance(rv, hier.ns[name])
  rt = _BUILTIN_RT.get(name) or _ABC[name]
  if not isinstance(rv, rt):
    return False
  if not args:
    return True
  if name in ("dict", "Mapping", "MutableMapping"):
    return all(inhabits(a, args[0], hier) and inhabits(b, args[1], hier) for a, b in rv.items())
  return all(inhabits(e, args[0], hier) for e in rv)


_CLASS_REP = {int: 2, bool: True, float: 2.5, complex: 2j, str: "s", bytes: b"b", bytearray: bytearray(b"b"),
              type(None): None}


def _subclass_member(cls, t, hier):
  """Every instance of the class object `cls` is a member of t (used for Type[t] and class-as-callable): decided
  on a representative instance (a non-empty str / bytes, an empty container, cls() for a generated class)."""
  rep = _CLASS_REP[cls] if cls in _CLASS_REP else cls()
  return inhabits(rep, t, hier)


def eval_val(v, hier):
  return eval(render_val(v), dict(hier.ns))   # pylint: disable=eval-used


# ------------------------------------------------------------------------------------------------
# generators

def atom_types(hier, extra=True):
  ts = [("cls", s, ()) for s in SCALARS] + [("cls", "object", ()), ANY_T]
  ts += [("cls", n, ()) for n in hier.class_names()] + [("cls", n, ()) for n in hier.proto_names()]
  if extra:
    ts += [("cls", n, ()) for n in ("list", "tuple", "dict", "set", "frozenset", "type", "Callable", "Sized",
                                     "Sequence", "Iterable", "Mapping")]
    ts.append(("ftuple", ()))
  return ts


def gen_type(r, hier, depth):
  if depth == 0 or r.random() < 0.18:
    x = r.random()
    if x < 0.45:
      return ("cls", r.choice(SCALARS + ["complex", "bytes", "float"]), ())
    if x < 0.6:
      return ("cls", r.choice(hier.class_names()), ())
    if x < 0.68:
      return ("cls", r.choice(hier.proto_names()), ())
    if x < 0.76:
      return r.choice([ANY_T, ("cls", "object", ())])
    return r.choice(atom_types(hier))
  sub = lambda: gen_type(r, hier, depth - 1)
  x = r.random()
  if x < 0.12:
    return ("union", (sub(), NONE_T))
  if x < 0.24:
    return ("union", tuple(sub() for _ in range(r.choice([2, 2, 3]))))
  if x < 0.56:
    h = r.choice(UNARY_GENERIC)
    if h == "Collection" and r.random() < 0.6:
      h = "Sequence"
    return ("cls", h, (sub(),))
  if x < 0.68:
    h = r.choice(BINARY_GENERIC)
    if h == "MutableMapping" and r.random() < 0.7:
      h = "Mapping"
    return ("cls", h, (sub(), sub()))
  if x < 0.80:
    return ("ftuple", tuple(sub() for _ in range(r.choice([0, 1, 2, 2, 3]))))
  if x < 0.92:
    if r.random() < 0.25:
      return ("callable", None, sub())
    return ("callable", tuple(sub() for _ in range(r.choice([0, 1, 1, 2, 3]))), sub())
  return ("type", gen_type_arg(r, hier))


def gen_type_arg(r, hier):
  """Argument of Type[...]: a class, Any, object or a union of classes."""
  def cls():
    x = r.random()
    if x < 0.5:
      return ("cls", r.choice(hier.class_names()), ())
    if x < 0.85:
      return ("cls", r.choice(["int", "float", "complex", "bool", "str", "object"]), ())
    if x < 0.93:
      return ("cls", r.choice(hier.proto_names()), ())
    return ANY_T
  if r.random() < 0.2:
    return ("union", (cls(), cls()))
  return cls()


def atom_values(hier):
  vs = [(s,) for s in ("int", "bool", "float", "complex", "str", "bytes", "none", "bytearray")]
  vs += [("inst", n) for n in hier.class_names()] + [("class", n) for n in hier.class_names()]
  vs += [("class", "int"), ("class", "str")]
  vs += [("func", 0, 0, False), ("func", 1, 0, False), ("func", 1, 1, False), ("func", 2, 0, False),
         ("func", 0, 0, True), ("func", 1, 0, True), ("func", 0, 2, False)]
  vs += [("list", ()), ("tuple", ()), ("set", ()), ("frozenset", ()), ("dict", ()), ("tupleof", ())]
  return vs


def gen_value(r, hier, depth, want_hashable=False):
  for _ in range(50):
    v = _gen_value(r, hier, depth, want_hashable)
    if valid_val(v) and (not want_hashable or hashable_val(v)):
      return v
  return ("int",)


def _gen_value(r, hier, depth, want_hashable):
  if depth == 0 or r.random() < 0.2:
    x = r.random()
    if x < 0.5:
      return (r.choice(["int", "int", "bool", "float", "complex", "str", "str", "bytes", "bytearray", "none"]),)
    if x < 0.66:
      return ("inst", r.choice(hier.class_names()))
    if x < 0.76:
      return ("class", r.choice(hier.class_names() + ["int", "str"]))
    if x < 0.88:
      return ("func", r.choice([0, 1, 1, 2]), r.choice([0, 0, 1, 2]), r.random() < 0.25)
    return r.choice(atom_values(hier))
  def sub(h=False):
    return gen_value(r, hier, depth - 1, h or want_hashable)
  n = r.choice([0, 1, 1, 2, 2, 3])
  x = r.random()
  if x < 0.3 and not want_hashable:
    return ("list", _elems(r, sub, n))
  if x < 0.55:
    return ("tuple", _elems(r, sub, n))
  if x < 0.65 and not want_hashable:
    return ("set", _elems(r, lambda: sub(True), n))
  if x < 0.73:
    return ("frozenset", _elems(r, lambda: sub(True), n))
  if x < 0.92 and not want_hashable:
    return ("dict", tuple((sub(True), sub()) for _ in range(min(n, 2))))
  return ("tupleof", _elems(r, sub, n))


def _elems(r, sub, n):
  """n elements; with probability 1/2 all of the same shape as the first (homogeneous containers are the
  interesting positive cases)."""
  if n == 0:
    return ()
  first = sub()
  if r.random() < 0.5:
    return tuple([first] * n)
  return tuple([first] + [sub() for _ in range(n - 1)])


def val_matching_type(r, hier, t, depth):
  """A value built to inhabit t (best effort; used to get enough positive cases)."""
  k = t[0]
  if k == "any":
    return gen_value(r, hier, min(depth, 1))
  if k == "union":
    return val_matching_type(r, hier, r.choice(t[1]), depth)
  if k == "ftuple":
    return ("tuple", tuple(val_matching_type(r, hier, a, depth - 1) for a in t[1]))
  if k == "callable":
    n = 0 if t[1] is None else len(t[1])
    a = r.randint(0, n)
    return ("func", a, n - a + r.choice([0, 0, 1]), False) if r.random() < 0.8 else ("func", a, 0, True)
  if k == "type":
    u = t[1]
    while u[0] == "union":
      u = r.choice(u[1])
    if u[0] == "cls" and u[1] in hier.class_names():
      subs = [n for n in hier.class_names() if u[1] in hier.mro[n]]
      return ("class", r.choice(subs))
    if u[0] == "cls" and u[1] in ("int", "float", "complex", "object"):
      return ("class", "int")
    if u[0] == "cls" and u[1] == "str":
      return ("class", "str")
    return ("class", r.choice(hier.class_names()))
  name, args = t[1], t[2]
  if name in ("int", "bool", "str", "bytes", "none", "bytearray"):
    return (name,) if name != "int" or r.random() < 0.7 else ("bool",)
  if name == "float":
    return (r.choice(["float", "int", "bool"]),)
  if name == "complex":
    return (r.choice(["complex", "float", "int"]),)
  if name == "object":
    return gen_value(r, hier, min(depth, 1))
  if name in hier.class_names():
    return ("inst", r.choice([n for n in hier.class_names() if name in hier.mro[n]]))
  if hier.is_proto(name):
    ok = [n for n in hier.class_names() if set(hier.proto_attrs[name]) <= set(hier.attrs[n])]
    return ("inst", r.choice(ok)) if ok else ("none",)
  if name == "type":
    return ("class", r.choice(hier.class_names()))
  if name == "Callable":
    return ("func", r.choice([0, 1]), 0, False)
  n = r.choice([0, 1, 2, 2])
  el = lambda a: val_matching_type(r, hier, a, depth - 1) if args else gen_value(r, hier, 0)
  a0 = args[0] if args else None
  a1 = args[1] if len(args) > 1 else None
  if name in ("dict", "Mapping", "MutableMapping"):
    items = []
    for _ in range(min(n, 2)):
      kk = el(a0)
      if not hashable_val(kk) or not valid_val(kk):
        kk = ("int",)
      items.append((kk, el(a1)))
    return ("dict", tuple(items))
  kind = {"list": ["list"], "set": ["set"], "frozenset": ["frozenset"], "tuple": ["tuple", "tupleof"],
          "Sequence": ["list", "tuple", "tupleof"], "MutableSequence": ["list"],
          "Iterable": ["list", "tuple", "set", "frozenset"], "Collection": ["list", "tuple", "set"],
          "Container": ["list", "tuple", "set"], "AbstractSet": ["set", "frozenset"], "MutableSet": ["set"],
          "Sized": ["list", "tuple", "dict"]}.get(name, ["list"])
  kd = r.choice(kind)
  if kd == "dict":
    return ("dict", ())
  elems = tuple(el(a0) for _ in range(n))
  if kd in ("set", "frozenset"):
    elems = tuple(e for e in elems if hashable_val(e) and valid_val(e))
  return (kd, elems)


# ------------------------------------------------------------------------------------------------
# programs

SITES = ("arg", "ret", "assign")
SITE_ERROR = {"arg": "wrong-arg-types", "ret": "bad-return-type", "assign": "annotation-type-mismatch"}


def build_module(hier, pairs, sites=SITES):
  """pairs: list of (ty, val).  Returns (source, {line: (pair_index, site)}).  One site per line."""
  lines = ["from typing import " + TYPING_IMPORTS]
  lines += hier.analysed_source().rstrip("\n").split("\n")
  where = {}
  for i, (t, v) in enumerate(pairs):
    ts, vs = render_ty(t), render_val(v)
    if "arg" in sites:
      lines.append("def f%d(x: %s): ..." % (i, ts))
      lines.append("f%d(%s)" % (i, vs))
      where[len(lines)] = (i, "arg")
    if "ret" in sites:
      lines.append("def g%d() -> %s: return %s" % (i, ts, vs))
      where[len(lines)] = (i, "ret")
    if "assign" in sites:
      lines.append("x%d: %s = %s" % (i, ts, vs))
      where[len(lines)] = (i, "assign")
  return "\n".join(lines) + "\n", where


def run_pytype(src):
  """Returns list of (name, line, message) or raises."""
  from pytype import config, io   # pylint: disable=import-outside-toplevel
  opts = config.Options.create(python_version=(3, 12))
  ret, _ = io.generate_pyi(src, opts)
  return [(e.name, e.line, e.message) for e in ret.context.errorlog]


def analyse_pairs(hier, pairs, sites=SITES):
  """Runs one module.  Returns ({(i, site): bool error}, unexpected: list of error tuples)."""
  src, where = build_module(hier, pairs, sites)
  errs = run_pytype(src)
  res = {(i, s): False for i in range(len(pairs)) for s in sites}
  unexpected = []
  for name, line, msg in errs:
    if line in where and name == SITE_ERROR[where[line][1]]:
      res[where[line]] = True
    else:
      unexpected.append((name, line, msg.split("\n")[0]))
  return res, unexpected


def analyse_pairs_robust(hier, pairs):
  """Like analyse_pairs, but if pytype itself raises, isolates the crashing (pair, site): the verdict of such a
  site is the string "crash:<ExceptionType>"."""
  try:
    return analyse_pairs(hier, pairs)
  except Exception as e:   # pylint: disable=broad-except
    if "typeshed" in str(e):
      raise
  res, unexpected = {}, []
  suspects = [i for i, (t, _) in enumerate(pairs) if unsupported_heads(t)]
  rest = [i for i in range(len(pairs)) if i not in suspects]
  def single(i):
    for s in SITES:
      try:
        r1, u1 = analyse_pairs(hier, [pairs[i]], (s,))
        res[(i, s)] = r1[(0, s)]
        unexpected.extend(u1)
      except Exception as e:   # pylint: disable=broad-except
        res[(i, s)] = "crash:" + type(e).__name__
  for i in suspects:
    single(i)
  try:
    r2, u2 = analyse_pairs(hier, [pairs[i] for i in rest])
    for (j, s), val in r2.items():
      res[(rest[j], s)] = val
    unexpected.extend(u2)
  except Exception:   # pylint: disable=broad-except
    for i in rest:
      single(i)
  return res, unexpected


# ------------------------------------------------------------------------------------------------
# rendering to Coq (coq/Match/Model.v)

_COQ_B = {"int": "B_int", "float": "B_float", "complex": "B_complex", "bool": "B_bool", "str": "B_str",
          "bytes": "B_bytes", "bytearray": "B_bytearray", "none": "B_NoneType", "object": "B_object",
          "list": "B_list", "tuple": "B_tuple", "set": "B_set", "frozenset": "B_frozenset", "dict": "B_dict",
          "type": "B_type", "Sequence": "B_t_Sequence", "MutableSequence": "B_t_MutableSequence",
          "Iterable": "B_t_Iterable", "Collection": "B_t_Collection", "Container": "B_t_Container",
          "Mapping": "B_t_Mapping", "MutableMapping": "B_t_MutableMapping", "AbstractSet": "B_t_AbstractSet",
          "MutableSet": "B_t_MutableSet", "Sized": "B_t_Sized", "Callable": "B_t_Callable",
          "Hashable": "B_t_Hashable", "Reversible": "B_t_Reversible", "Iterator": "B_t_Iterator"}
_COQ_S = {"int": "SInt", "bool": "SBool", "float": "SFloat", "complex": "SComplex", "str": "SStr",
          "bytes": "SBytes", "none": "SNone", "bytearray": "SBytearray"}
_COQ_K = {"list": "KList", "set": "KSet", "frozenset": "KFrozenset", "tupleof": "KTupleOf"}


def user_ids(hier):
  ids = {}
  for n in hier.class_names() + hier.proto_names():
    ids[n] = len(ids)
  return ids


def coq_cid(name, ids):
  if name in ids:
    return "CU %d" % ids[name]
  return "CB " + _COQ_B[name]


def _lst(xs):
  return "[" + "; ".join(xs) + "]"


def coq_ty(t, ids):
  k = t[0]
  if k == "any":
    return "TAny"
  if k == "union":
    return "TUnion " + _lst(coq_ty(o, ids) for o in t[1])
  if k == "cls":
    return "TCls (%s) %s" % (coq_cid(t[1], ids), _lst(coq_ty(a, ids) for a in t[2]))
  if k == "ftuple":
    return "TTuple " + _lst(coq_ty(a, ids) for a in t[1])
  if k == "callable":
    if t[1] is None:
      return "TCallableAny (%s)" % coq_ty(t[2], ids)
    return "TCallable %s (%s)" % (_lst(coq_ty(a, ids) for a in t[1]), coq_ty(t[2], ids))
  if k == "type":
    return "TCls (CB B_type) [%s]" % coq_ty(t[1], ids)
  raise ValueError(t)


def coq_val(v, ids):
  k = v[0]
  if k in _COQ_S:
    return "VScalar " + _COQ_S[k]
  if k in _COQ_K:
    return "VColl %s %s" % (_COQ_K[k], _lst(coq_val(e, ids) for e in v[1]))
  if k == "tuple":
    return "VTuple " + _lst(coq_val(e, ids) for e in v[1])
  if k == "dict":
    return "VDict %s %s" % (_lst(coq_val(a, ids) for a, _ in v[1]), _lst(coq_val(b, ids) for _, b in v[1]))
  if k == "inst":
    return "VInst %d" % ids[v[1]]
  if k == "class":
    return "VClass (%s)" % coq_cid(v[1], ids)
  if k == "func":
    return "VFunc %d %d %s" % (v[1], v[2], "true" if v[3] else "false")
  raise ValueError(v)


def coq_utable(hier):
  ids = user_ids(hier)
  mid = {m: i for i, m in enumerate(hier.METHODS)}
  rows = []
  for n, _, ms in hier.classes:
    rows.append("{| u_mro := %s; u_own := %s; u_pbase := false; u_pattrs := [] |}" % (
        _lst(str(ids[k]) for k in hier.mro[n]), _lst(str(mid[m]) for m in ms)))
  for n, ms in hier.protos:
    rows.append("{| u_mro := [%d]; u_own := %s; u_pbase := true; u_pattrs := %s |}" % (
        ids[n], _lst(str(mid[m]) for m in ms), _lst(str(mid[m]) for m in ms)))
  return _lst(rows)


# ------------------------------------------------------------------------------------------------
# Classification of a disagreement between pytype and the run-time oracle: which of the NAMED deviations
# (each one reproduced on the unchanged tree, see known_findings.json) explain pytype's verdict?
# `inh_dev` is membership on the value AST with a set of deviation switches (it mirrors inhabitsF of Model.v);
# with no switch it must agree with the run-time oracle `inhabits` (checked on every pair).

LOCAL_DEVS = ["noniterable-str", "none-for-bool", "bytearray-for-bytes", "tuple-call-length",
              "class-as-callable-args", "classobj-protocol-inherited-attr"]
SITE_DEVS = ["union-split-views", "arg-any-view", "assign-none"]

_RT_REACH = {}
def _rt(c, hs, pm):
  for h in hs:
    _RT_REACH[(c, h)] = pm
for _c in ("int", "bool", "float", "complex", "str", "bytes", "bytearray", "none"):
  _rt(_c, [_c], [])
_rt("bool", ["int", "float", "complex"], [])
_rt("int", ["float", "complex"], [])
_rt("float", ["complex"], [])
_rt("list", ["list", "MutableSequence", "Sequence", "Iterable", "Container", "Collection"], [("idx", 0)])
_rt("tuple", ["tuple", "Sequence", "Iterable", "Container", "Collection"], [("idx", 0)])
_rt("set", ["set", "MutableSet", "AbstractSet", "Iterable", "Container", "Collection"], [("idx", 0)])
_rt("frozenset", ["frozenset", "AbstractSet", "Iterable", "Container", "Collection"], [("idx", 0)])
_rt("dict", ["dict", "Mapping", "MutableMapping"], [("idx", 0), ("idx", 1)])
_rt("dict", ["Iterable", "Container", "Collection"], [("idx", 0)])
_rt("str", ["Sequence", "Iterable", "Container", "Collection"], [("inst", "str")])
_rt("bytes", ["Sequence", "Iterable", "Container", "Collection"], [("inst", "int")])
_rt("bytearray", ["Sequence", "MutableSequence", "Iterable", "Container", "Collection"], [("inst", "int")])
for _c in ("list", "tuple", "set", "frozenset", "dict", "str", "bytes", "bytearray"):
  _rt(_c, ["Sized"], [])


def _vcls(v):
  k = v[0]
  return {"tupleof": "tuple", "inst": None, "class": "type", "func": "Callable"}.get(k, k)


def _vparam(v, i):
  k = v[0]
  if k in ("list", "set", "frozenset", "tupleof", "tuple"):
    return list(v[1]) if i == 0 else []
  if k == "dict":
    return [a for a, _ in v[1]] if i == 0 else [b for _, b in v[1]] if i == 1 else []
  return []


def _rep(c, hier):
  if c in hier.mro:
    return ("inst", c)
  if c in ("int", "bool", "float", "complex", "str", "bytes", "bytearray", "none"):
    return (c,)
  if c in ("list", "set", "frozenset"):
    return (c, ())
  if c == "tuple":
    return ("tupleof", ())
  if c == "dict":
    return ("dict", ())
  return None


def _class_arity_ok(c, n, hier):
  if c in hier.mro:
    return n == 0
  return n <= {"int": 2, "str": 3}.get(c, 1)


def inh_dev(F, t, v, hier):
  k = t[0]
  if k == "any":
    return True
  if k == "union":
    return any(inh_dev(F, o, v, hier) for o in t[1])
  if k == "ftuple":
    if v[0] == "tuple":
      return len(v[1]) == len(t[1]) and all(inh_dev(F, a, e, hier) for e, a in zip(v[1], t[1]))
    if v[0] == "tupleof":
      if "tuple-call-length" in F:
        return all(inh_dev(F, a, e, hier) for a in t[1] for e in v[1])
      return len(v[1]) == len(t[1]) and all(inh_dev(F, a, e, hier) for e, a in zip(v[1], t[1]))
    return False
  if k == "callable":
    if v[0] == "func":
      if t[1] is None:
        return True
      n = len(t[1])
      return v[1] <= n and (v[3] or n <= v[1] + v[2])
    if v[0] == "class":
      r = _rep(v[1], hier)
      if r is None or not inh_dev(F, t[2], r, hier):
        return False
      return t[1] is None or "class-as-callable-args" in F or _class_arity_ok(v[1], len(t[1]), hier)
    return False
  if k == "type":
    if v[0] != "class":
      return False
    r = _rep(v[1], hier)
    return r is not None and inh_dev(F, t[1], r, hier)
  name, args = t[1], t[2]
  if name in hier.mro or hier.is_proto(name):
    def structural(have):
      return hier.is_proto(name) and set(hier.proto_attrs[name]) <= set(have)
    if v[0] == "inst":
      return name in hier.mro[v[1]] or structural(hier.attrs[v[1]])
    if v[0] == "class" and v[1] in hier.mro:
      return structural(hier.own[v[1]] if "classobj-protocol-inherited-attr" in F else hier.attrs[v[1]])
    return structural([])
  if name == "object":
    return True
  if v[0] == "class":
    return name in ("type", "Callable")
  if v[0] == "func":
    return name == "Callable"
  if v[0] == "inst":
    return False
  c = _vcls(v)
  if ("noniterable-str" in F and c == "str" and name in ("Sequence", "Iterable", "Collection", "Container")
      and args and args[0][0] == "cls" and args[0][1] == "str"):
    return False
  pm = _RT_REACH.get((c, name))
  if pm is None:
    if "none-for-bool" in F and c == "none" and name == "bool":
      pm = []
    elif "bytearray-for-bytes" in F and c == "bytearray" and name == "bytes":
      pm = []
    else:
      return False
  for a, p in zip(args, pm):
    if p[0] == "idx":
      if not all(inh_dev(F, a, e, hier) for e in _vparam(v, p[1])):
        return False
    elif p[0] == "inst":
      if not inh_dev(F, a, _rep(p[1], hier), hier):
        return False
  return True


def py_slices(v):
  """Monomorphic slices (mirrors Model.v slices)."""
  import itertools   # pylint: disable=import-outside-toplevel
  k = v[0]
  if k in ("list", "set", "frozenset", "tupleof"):
    ss = [s for e in v[1] for s in py_slices(e)]
    return [(k, (s,)) for s in ss] if ss else [(k, ())]
  if k == "tuple":
    return [("tuple", tuple(c)) for c in itertools.product(*[py_slices(e) for e in v[1]])]
  if k == "dict":
    ks = [s for a, _ in v[1] for s in py_slices(a)]
    vs = [s for _, b in v[1] for s in py_slices(b)]
    if not ks:
      return [("dict", ())]
    return [("dict", ((a, b),)) for a in ks for b in vs]
  return [v]


def n_slices(v):
  k = v[0]
  if k in ("list", "set", "frozenset", "tupleof"):
    return max(1, sum(n_slices(e) for e in v[1]))
  if k == "tuple":
    n = 1
    for e in v[1]:
      n *= n_slices(e)
    return n
  if k == "dict":
    return max(1, sum(n_slices(a) for a, _ in v[1])) * max(1, sum(n_slices(b) for _, b in v[1]))
  return 1


def predicted_error(F, t, v, site, hier):
  """pytype's verdict at `site` if exactly the deviations in F were in force."""
  if site == "assign" and "assign-none" in F and v == ("none",):
    return False
  if site == "arg" and "arg-any-view" in F:
    return not any(inh_dev(F, t, s, hier) for s in py_slices(v))
  if "union-split-views" in F:
    return not all(inh_dev(F, t, s, hier) for s in py_slices(v))
  return not inh_dev(F, t, v, hier)


def explain(t, v, site, impl_err, hier, max_size=3):
  """Smallest set of named deviations under which the model of the deviations predicts impl_err; None if none."""
  import itertools   # pylint: disable=import-outside-toplevel
  names = LOCAL_DEVS + SITE_DEVS
  if n_slices(v) > 256:
    return None
  for size in range(0, max_size + 1):
    for F in itertools.combinations(names, size):
      if predicted_error(set(F), t, v, site, hier) == impl_err:
        return list(F)
  return None


def noniter_abc(t):
  """First ABC (alphabetically) occurring as ABC[str] in t, for the noniterable-str fingerprint family."""
  found = set()
  def walk(u):
    k = u[0]
    if k == "union":
      for o in u[1]: walk(o)
    elif k == "cls":
      if u[1] in ("Sequence", "Iterable", "Collection", "Container") and u[2] and u[2][0][:2] == ("cls", "str"):
        found.add(u[1])
      for a in u[2]: walk(a)
    elif k == "ftuple":
      for a in u[1]: walk(a)
    elif k == "callable":
      for a in (u[1] or ()): walk(a)
      walk(u[2])
    elif k == "type":
      walk(u[1])
  walk(t)
  return sorted(found)[0] if found else "?"


UNSUPPORTED_HEADS = ("Collection", "MutableMapping")


def unsupported_heads(t):
  found = set()
  def walk(u):
    k = u[0]
    if k == "union":
      for o in u[1]: walk(o)
    elif k == "cls":
      if u[1] in UNSUPPORTED_HEADS:
        found.add(u[1])
      for a in u[2]: walk(a)
    elif k == "ftuple":
      for a in u[1]: walk(a)
    elif k == "callable":
      for a in (u[1] or ()): walk(a)
      walk(u[2])
    elif k == "type":
      walk(u[1])
  walk(t)
  return sorted(found)


# ------------------------------------------------------------------------------------------------
# NEAR-MISS stream: annotation -> a value built to conform -> variants that differ from it in exactly one place.
# Conforming / almost-conforming pairs discriminate far better than independent random (T, V) pairs.

_NM_SCALARS = ["int", "float", "complex", "str", "bytes", "bool"]
_NM_CONTAINERS = ["list", "set", "frozenset", "dict", "tuple", "Sequence"]
_TUPLE_LIKE = ("tuple", "Sequence", "Iterable", "Container", "Collection")


def _nm_leaf(r, hier):
  x = r.random()
  if x < 0.65:
    return ("cls", r.choice(_NM_SCALARS), ())
  if x < 0.85:
    return ("cls", r.choice(hier.class_names()), ())
  if x < 0.93:
    return ("union", (("cls", r.choice(_NM_SCALARS), ()), NONE_T))
  return ("union", (("cls", "int", ()), ("cls", "str", ())))


def _nm_container(r, hier, hashable=False):
  """C[X] with C a parameterised builtin container and X a leaf."""
  c = r.choice(["frozenset", "tuple"] if hashable else _NM_CONTAINERS)
  if c == "dict":
    return ("cls", "dict", (("cls", r.choice(["str", "int"]), ()), _nm_leaf(r, hier)))
  return ("cls", c, (_nm_leaf(r, hier),))


def gen_near_miss_type(r, hier):
  """(form name, annotation), biased to depth-2 forms."""
  forms = ["Tuple[C[X], ...]", "Sequence[C[X]]", "Iterable[C[X]]", "Tuple[C[X], C[Y]]", "Dict[K, C[X]]",
           "List[Tuple[X, Y]]", "List[C[X]]", "Set[Tuple[X, Y]]", "Mapping[K, Tuple[X, ...]]", "C[X]",
           "Tuple[X, Y, Z]", "Optional[...]", "Union[...]", "Union[C[X], C[Y]]"]
  f = r.choice(forms)
  def base(g):
    if g == "Tuple[C[X], ...]":
      return ("cls", "tuple", (_nm_container(r, hier),))
    if g == "Sequence[C[X]]":
      return ("cls", "Sequence", (_nm_container(r, hier),))
    if g == "Iterable[C[X]]":
      return ("cls", r.choice(["Iterable", "Container"]), (_nm_container(r, hier),))
    if g == "Tuple[C[X], C[Y]]":
      return ("ftuple", (_nm_container(r, hier), _nm_container(r, hier)))
    if g == "Dict[K, C[X]]":
      return ("cls", r.choice(["dict", "Mapping"]), (("cls", r.choice(["str", "int"]), ()), _nm_container(r, hier)))
    if g == "List[Tuple[X, Y]]":
      return ("cls", r.choice(["list", "Sequence", "MutableSequence"]), (("ftuple", (_nm_leaf(r, hier), _nm_leaf(r, hier))),))
    if g == "List[C[X]]":
      return ("cls", r.choice(["list", "MutableSequence"]), (_nm_container(r, hier),))
    if g == "Set[Tuple[X, Y]]":
      return ("cls", r.choice(["set", "frozenset", "AbstractSet"]),
              (("ftuple", (("cls", r.choice(_NM_SCALARS), ()), ("cls", r.choice(_NM_SCALARS), ()))),))
    if g == "Mapping[K, Tuple[X, ...]]":
      return ("cls", "Mapping", (("cls", "str", ()), ("cls", "tuple", (_nm_leaf(r, hier),))))
    if g == "C[X]":
      return _nm_container(r, hier)
    return ("ftuple", (_nm_leaf(r, hier), _nm_leaf(r, hier), _nm_leaf(r, hier)))
  if f == "Union[C[X], C[Y]]":       # two options with the same head (same full name), different parameters
    c = r.choice(["list", "set", "tuple", "Sequence", "frozenset"])
    x, y = r.sample(_NM_SCALARS + hier.class_names()[:2], 2)
    return f, ("union", (("cls", c, (("cls", x, ()),)), ("cls", c, (("cls", y, ()),))))
  if f == "Optional[...]":
    return f, ("union", (base(r.choice(forms[:11])), NONE_T))
  if f == "Union[...]":
    return f, ("union", (base(r.choice(forms[:11])), ("cls", r.choice(_NM_SCALARS), ())))
  return f, base(f)


def gen_conforming(r, hier, t):
  """A value built to inhabit t, with 2-3 elements in every container; None if no such value is found.
  Tuple-like formals get a tuple DISPLAY most of the time."""
  k = t[0]
  if k == "any":
    return ("int",)
  if k == "union":
    opts = [o for o in t[1] if o != NONE_T] or list(t[1])
    return gen_conforming(r, hier, r.choice(opts if r.random() < 0.85 else list(t[1])))
  if k == "ftuple":
    es = [gen_conforming(r, hier, a) for a in t[1]]
    return None if any(e is None for e in es) else ("tuple", tuple(es))
  if k in ("callable", "type"):
    return val_matching_type(r, hier, t, 1)
  name, args = t[1], t[2]
  if name in ("int", "bool", "str", "bytes", "none", "bytearray"):
    return (name,)
  if name == "float":
    return (r.choice(["float", "float", "int"]),)
  if name == "complex":
    return (r.choice(["complex", "float", "int", "int", "bool"]),)
  if name in hier.class_names():
    return ("inst", r.choice([n for n in hier.class_names() if name in hier.mro[n]]))
  if hier.is_proto(name):
    ok = [n for n in hier.class_names() if set(hier.proto_attrs[name]) <= set(hier.attrs[n])]
    return ("inst", r.choice(ok)) if ok else None
  if not args:
    return val_matching_type(r, hier, t, 1)
  n = r.choice([2, 2, 3, 3, 1])
  if name in ("dict", "Mapping", "MutableMapping"):
    items = []
    for _ in range(min(n, 2)):
      a, b = gen_conforming(r, hier, args[0]), gen_conforming(r, hier, args[1])
      if a is None or b is None or not hashable_val(a):
        return None
      items.append((a, b))
    return ("dict", tuple(items))
  kinds = {"list": ["list"], "set": ["set"], "frozenset": ["frozenset"], "tuple": ["tuple", "tuple", "tuple", "tupleof"],
           "Sequence": ["tuple", "tuple", "list"], "MutableSequence": ["list"],
           "Iterable": ["tuple", "tuple", "list", "set"], "Collection": ["tuple", "list"],
           "Container": ["tuple", "tuple", "list"], "AbstractSet": ["set", "frozenset"], "MutableSet": ["set"]}
  kd = r.choice(kinds.get(name, ["list"]))
  es = [gen_conforming(r, hier, args[0]) for _ in range(n)]
  if any(e is None for e in es):
    return None
  if kd in ("set", "frozenset") and not all(hashable_val(e) for e in es):
    return None
  return (kd, tuple(es))


def _is_container(v):
  return v[0] in ("list", "tuple", "set", "frozenset", "tupleof", "dict")


def leaf_paths(v, pre=()):
  """Paths (index tuples; dict items are addressed (i, 0|1)) to every leaf: a non-container or an empty container."""
  k = v[0]
  if k in ("list", "tuple", "set", "frozenset", "tupleof") and v[1]:
    out = []
    for i, e in enumerate(v[1]):
      out += leaf_paths(e, pre + (i,))
    return out
  if k == "dict" and v[1]:
    out = []
    for i, (a, b) in enumerate(v[1]):
      out += leaf_paths(a, pre + ((i, 0),)) + leaf_paths(b, pre + ((i, 1),))
    return out
  return [pre]


def get_at(v, path):
  for p in path:
    v = v[1][p[0]][p[1]] if isinstance(p, tuple) else v[1][p]
  return v


def replace_at(v, path, new):
  if not path:
    return new
  p = path[0]
  if isinstance(p, tuple):
    i, j = p
    item = list(v[1][i])
    item[j] = replace_at(item[j], path[1:], new)
    return (v[0], v[1][:i] + (tuple(item),) + v[1][i + 1:])
  return (v[0], v[1][:p] + (replace_at(v[1][p], path[1:], new),) + v[1][p + 1:])


def container_paths(v, pre=()):
  """Paths to every container node (including the root)."""
  out = []
  if _is_container(v):
    out.append(pre)
    if v[0] == "dict":
      for i, (a, b) in enumerate(v[1]):
        out += container_paths(a, pre + ((i, 0),)) + container_paths(b, pre + ((i, 1),))
    else:
      for i, e in enumerate(v[1]):
        out += container_paths(e, pre + (i,))
  return out


def near_miss_variants(r, hier, v, cap=6):
  """Variants of v differing in exactly one place: [(mutation kind, position label, variant)].
  Positions: first / middle / LAST leaf (in display order), plus structural edits of one container."""
  leaves = leaf_paths(v)
  out = []
  picks = []
  if leaves:
    picks.append(("last", leaves[-1]))
    if len(leaves) > 1:
      picks.append(("first", leaves[0]))
    if len(leaves) > 2:
      picks.append(("middle", leaves[len(leaves) // 2]))
    if len(leaves) > 3:
      picks.append(("random", r.choice(leaves[1:-1])))
  for label, path in picks:
    old = get_at(v, path)
    cands = [(s,) for s in ("int", "float", "complex", "str", "bytes", "bytearray", "bool", "none") if (s,) != old]
    cands += [("inst", n) for n in hier.class_names()[:2] if ("inst", n) != old]
    r.shuffle(cands)
    for new in cands[:1 if label != "last" else 2]:
      w = replace_at(v, path, new)
      if valid_val(w):
        out.append(("swap-leaf", label, w))
  conts = container_paths(v)
  if conts:
    path = r.choice(conts)
    c = get_at(v, path)
    if c[0] != "dict" and c[1]:
      out.append(("drop-last-element", "container", replace_at(v, path, (c[0], c[1][:-1]))))
      other = {"list": "tuple", "tuple": "list", "set": "list", "frozenset": "set", "tupleof": "list"}[c[0]]
      w = replace_at(v, path, (other, c[1]))
      if valid_val(w):
        out.append(("change-container-class", "container", w))
    elif c[0] == "dict" and c[1]:
      (a, b) = c[1][-1]
      out.append(("swap-dict-item", "container", replace_at(v, path, ("dict", c[1][:-1] + ((b, a),)))))
  out = [(k, l, w) for k, l, w in out if valid_val(w) and w != v]
  # the LAST-leaf swaps first (they are the most discriminating), then the rest
  out.sort(key=lambda x: {"last": 0, "container": 1, "first": 2, "middle": 3}.get(x[1], 4))
  return out[:cap]


# ------------------------------------------------------------------------------------------------
# Shapes on which compute_one_match's HasCombination re-filter is known to discard a reachable failing view:
# a set display (also as the argument of frozenset(...)) in which an element with nested variables is followed
# by an element evaluated at a later CFG node (after a call).  Those pairs are outside the Coq fragment
# (the CFG solver's visibility answer is not modelled); a missed violation on them is attributed to the named
# deviation only if the root cause is confirmed on the real matcher (diagnose_refilter).

def _involves_call(v):
  """Evaluating the expression runs a call (and so moves to a later CFG node)."""
  k = v[0]
  if k in ("tupleof", "frozenset", "inst", "bytearray") or (k == "set" and not v[1]):
    return True
  if k in ("list", "tuple", "set"):
    return any(_involves_call(e) for e in v[1])
  if k == "dict":
    return any(_involves_call(a) or _involves_call(b) for a, b in v[1])
  return False


def _has_nested_vars(v):
  return v[0] in ("tupleof", "frozenset") or (v[0] == "tuple" and bool(v[1]))


def refilter_shape(v):
  """A set display (also as the argument of frozenset(...)) in which an element with nested variables (a tuple /
  tuple(...) / frozenset(...)) is followed by an element whose evaluation involves a call."""
  k = v[0]
  if k in ("set", "frozenset"):
    es = v[1]
    if any(_has_nested_vars(es[i]) and any(_involves_call(e) for e in es[i + 1:]) for i in range(len(es))):
      return True
  if k in ("list", "tuple", "set", "frozenset", "tupleof"):
    return any(refilter_shape(e) for e in v[1])
  if k == "dict":
    return any(refilter_shape(a) or refilter_shape(b) for a, b in v[1])
  return False


def diagnose_refilter(hier, t, v, site):
  """True iff, while pytype analyses the single (t, v, site) program, some compute_one_match call that must match
  all views reports success although a view that CanHaveCombination fails to match and HasCombination denies it."""
  from pytype import datatypes, matcher   # pylint: disable=import-outside-toplevel
  from pytype.abstract import abstract_utils   # pylint: disable=import-outside-toplevel
  hits = []
  orig = matcher.AbstractMatcher.compute_one_match
  def wrapped(self, var, other_type, name=None, match_all_views=True, keep_all_views=False, alias_map=None):
    res = orig(self, var, other_type, name, match_all_views, keep_all_views, alias_map)
    if res.success and match_all_views and res.good_matches and not hits:
      for view in abstract_utils.get_views([var], self._node):   # pylint: disable=protected-access
        vals = list(view.values())
        subst = datatypes.AliasingDict(aliases=alias_map)
        if (self.match_var_against_type(var, other_type, subst, view) is None
            and self._node.CanHaveCombination(vals) and not self._node.HasCombination(vals)):   # pylint: disable=protected-access
          hits.append(1)
          break
    return res
  matcher.AbstractMatcher.compute_one_match = wrapped
  try:
    analyse_pairs(hier, [(t, v)], (site,))
  except Exception:   # pylint: disable=broad-except
    return False
  finally:
    matcher.AbstractMatcher.compute_one_match = orig
  return bool(hits)


# ------------------------------------------------------------------------------------------------
# targeted pairs for a promotion (compat) pair: a value of the compatible class at top level and inside every
# container / Optional / Union position, against the target builtin

_COMPAT_VALUE = {"builtins.int": [("int",), ("bool",)], "builtins.float": [("float",)],
                 "builtins.bytearray": [("bytearray",)], "builtins.NoneType": [("none",)],
                 "builtins.complex": [("complex",)], "builtins.bool": [("bool",)], "builtins.bytes": [("bytes",)],
                 "builtins.str": [("str",)]}
_SHORT = {v: k for k, v in FULLNAME.items() if k in ("int", "float", "complex", "bool", "str", "bytes", "bytearray",
                                                      "none")}


def compat_targets(pair):
  """[(annotation, value)] exercising promotion pair (compatible class, target builtin); [] if the compatible
  class has no value expression in the grammar (memoryview)."""
  c, h = pair
  if c not in _COMPAT_VALUE or h not in _SHORT:
    return []
  H = ("cls", _SHORT[h], ())
  S = ("cls", "str", ())
  out = []
  for v in _COMPAT_VALUE[c]:
    out += [(H, v), (("union", (H, NONE_T)), v), (("union", (H, S)), v),
            (("cls", "list", (H,)), ("list", (v,))), (("cls", "Sequence", (H,)), ("list", (v, v))),
            (("cls", "tuple", (H,)), ("tuple", (v,))), (("ftuple", (H, S)), ("tuple", (v, ("str",)))),
            (("cls", "dict", (S, H)), ("dict", ((("str",), v),))), (("cls", "Mapping", (S, ("union", (H, NONE_T)))),
                                                                     ("dict", ((("str",), v),))),
            (("cls", "Iterable", (H,)), ("tuple", (v, v))), (("type", H), ("class", _SHORT[c]))
            if _SHORT.get(c) in ("int", "str") else (H, v)]
    if hashable_val(v):
      out += [(("cls", "set", (H,)), ("set", (v,))), (("cls", "frozenset", (H,)), ("frozenset", (v,)))]
  seen, uniq = set(), []
  for p in out:
    if p not in seen:
      seen.add(p)
      uniq.append(p)
  return uniq
