"""C03 — the error-log leg: records the operation history of the real ErrorLog (pytype/errors/errors.py: _add,
error(line=), set_error_filter, checkpoint/revert, copy_from) while the real code runs — whole programs through
io.generate_pyi, and synthetic histories driven through the real ErrorLog with the real Director's filter — and
turns each history into a case for the Coq model (coq/Directors/ErrorLog.v via Directors/LogCases.v), which
replays it under the MODEL Director built from the real parser's output and compares the final log.
Direct oracles on the implementation (independent of the model): every error appended after the filter was
installed must satisfy director.filter_error at its final line; before the filter is installed only
Director.__init__ may log (python-compiler-error excepted)."""
import collections

import c03_model as M

RETURN_OPS = ("RETURN_VALUE", "RETURN_CONST")


def _snap(e):
  return (e.filename, e.line, e.name, e.opcode_name in RETURN_OPS)


class Recorder:
  """Patches the live classes; records ops of every ErrorLog used while active (one log per run expected)."""

  def __init__(self):
    self.ops = []
    self.director = None
    self.in_copy = 0
    self.in_director_init = 0
    self.pending_line = None
    self.pre_ids = None          # ids of the errors in the log when the Director's filter was installed
    self.outside_pre = []        # errors logged before the filter exists, outside Director.__init__
    self.last_record = None
    self.log = None
    self.copy_arg_is_last_record = collections.Counter()

  def __enter__(self):
    from pytype.errors import errors
    from pytype.directors import directors
    R = self
    self._saved = [(errors.ErrorLog, n, errors.ErrorLog.__dict__[n]) for n in
                   ("_add", "error", "set_error_filter", "copy_from")]
    self._saved += [(errors.CheckPoint, n, errors.CheckPoint.__dict__[n]) for n in ("__init__", "revert")]
    self._saved.append((directors.Director, "__init__", directors.Director.__dict__["__init__"]))
    o_add, o_error, o_set, o_copy = (s[2] for s in self._saved[:4])
    o_cinit, o_crevert = self._saved[4][2], self._saved[5][2]
    o_dinit = self._saved[6][2]

    def _add(log, error):
      R.log = log
      if not R.in_copy:
        R.ops.append(("add", _snap(error), R.pending_line or 0))
        if log._filter is None and not R.in_director_init:    # pylint: disable=protected-access
          R.outside_pre.append(_snap(error))
      R.pending_line = None
      return o_add(log, error)

    def error(log, stack, message, details=None, keyword=None, bad_call=None, keyword_context=None, line=None):
      R.pending_line = line
      try:
        return o_error(log, stack, message, details, keyword, bad_call, keyword_context, line)
      finally:
        R.pending_line = None

    def set_error_filter(log, filt):
      R.log = log
      d = getattr(filt, "__self__", None)
      if filt is None:
        R.ops.append(("setfilter", "none"))
      elif isinstance(d, directors.Director) and getattr(filt, "__func__", None) is directors.Director.filter_error:
        R.director = d
        R.pre_ids = {id(e) for e in log._errors}    # pylint: disable=protected-access
        R.ops.append(("setfilter", "director"))
      else:
        R.ops.append(("setfilter", "other"))
      return o_set(log, filt)

    def copy_from(log, errs, stack):
      errs = list(errs)
      with errors._CURRENT_ERROR_NAME.bind("probe"):    # pylint: disable=protected-access
        probe = errors.Error.with_stack(stack, errors.SEVERITY_ERROR, "probe")
      same = R.last_record is not None and [(_snap(e)[1:3]) for e in errs] == [s[1:3] for s in R.last_record]
      R.copy_arg_is_last_record[bool(same)] += 1
      R.ops.append(("copy", [e.name for e in errs], _snap(probe), bool(same)))
      R.in_copy += 1
      try:
        return o_copy(log, errs, stack)
      finally:
        R.in_copy -= 1

    def c_init(cp, errs):
      R.ops.append(("cp",))
      return o_cinit(cp, errs)

    def c_revert(cp):
      r = o_crevert(cp)
      R.last_record = [_snap(e) for e in cp.errors]
      R.ops.append(("revert", list(R.last_record)))
      return r

    def d_init(d, *a, **k):
      R.in_director_init += 1
      try:
        return o_dinit(d, *a, **k)
      finally:
        R.in_director_init -= 1

    for (cls, n, _), fn in zip(self._saved, (_add, error, set_error_filter, copy_from, c_init, c_revert, d_init)):
      setattr(cls, n, fn)
    return self

  def __exit__(self, *a):
    for cls, n, fn in self._saved:
      setattr(cls, n, fn)
    return False

  def final(self):
    return [_snap(e) for e in self.log._errors] if self.log is not None else []    # pylint: disable=protected-access


def oracle(rec, filename):
  """Direct property oracle on the implementation.  Returns list of (fingerprint, detail)."""
  from pytype.errors import errors
  out = []
  bad_pre = [s for s in rec.outside_pre if s[2] != "python-compiler-error"]
  if bad_pre:
    out.append(("log-error-before-filter-outside-director",
                f"logged before set_error_filter and not by Director.__init__: {[s[1:3] for s in bad_pre][:3]}"))
  if rec.director is not None and rec.log is not None and rec.pre_ids is not None:
    d = rec.director
    unf = []
    for e in rec.log._errors:    # pylint: disable=protected-access
      if id(e) in rec.pre_ids or e.filename != filename:
        continue
      probe = errors.Error.for_test(errors.SEVERITY_ERROR, "m", e.name, filename=e.filename, line=e.line,
                                    opcode_name="LOAD_NAME")
      try:
        keep = d.filter_error(probe)
      except Exception:  # pylint: disable=broad-except
        continue
      if not keep:
        unf.append((e.line, e.name))
    if unf:
      out.append(("log-reported-error-fails-filter",
                  f"in the final log although director.filter_error rejects (line, class): {unf[:3]}"))
  return out


# ---------------------------------------------------------------------------------------------------- Coq case

def _b(x):
  return "true" if x else "false"


def coq_ops(ops, filename, ids):
  out = []
  for o in ops:
    k = o[0]
    if k == "add":
      (fn, line, name, ret), at = o[1], o[2]
      out.append("RAdd %s %s %d%%N %s %s" % (_b(fn == filename), M.z(line), ids.of(name), _b(ret), M.z(at or 0)))
    elif k == "setfilter":
      out.append({"director": "RSetDir", "none": "RSetNone"}.get(o[1], "RSetOther"))
    elif k == "cp":
      out.append("RCp")
    elif k == "revert":
      out.append("RRevert")
    elif k == "copy":
      names, (fn, line, _, ret), same = o[1], o[2], o[3]
      if same:
        out.append("RCopyRec %s %s %s" % (_b(fn == filename), M.z(line), _b(ret)))
      else:
        out.append("RCopyFrom [%s]%%N %s %s %s" % ("; ".join(str(ids.of(n)) for n in names), _b(fn == filename),
                                                   M.z(line), _b(ret)))
  return "[" + ";\n   ".join(out) + "]"


def case_text(idx, disable_ids, fr_items, ret_lines, groups, ids, ops, final, filename):
  exp = "; ".join("(%s, %s, %d%%N)" % (_b(fn == filename), M.z(line), ids.of(name)) for fn, line, name, _ in final)
  return ("Definition lcase_%d : list nat :=\n  log_case [%s]%%N %s %s\n  %s\n  %s\n  [%s].\n" %
          (idx, "; ".join(map(str, disable_ids)), M.coq_pairs(fr_items), M.coq_zlist(ret_lines),
           M.coq_groups(groups, ids), coq_ops(ops, filename, ids), exp))


HEADER = ("From Coq Require Import ZArith List NArith Bool.\n"
          "From PV Require Import Directors.Model Directors.ErrorLog Directors.LogCases.\n"
          "Import ListNotations.\nOpen Scope Z_scope.\n")


def cases_file(texts):
  body = HEADER + "".join(texts)
  body += "Eval vm_compute in [%s].\n" % "; ".join("lcase_%d" % i for i in range(len(texts)))
  return body


def parse_results(term):
  """`[[0; 1]; [3; 1]]` -> list of [code, foreign_ok]."""
  import re
  inner = term.strip()
  return [[int(x) for x in re.findall(r"\d+", m)] for m in re.findall(r"\[([^\[\]]*)\]", inner)]


CODES = {1: "the model Director raises", 2: "the model log raises", 3: "final logs differ",
         4: "history is not well bracketed", 5: "a filter other than the Director's was installed"}


# ---------------------------------------------------------------------------------------------------- synthetic

class _Code:
  def __init__(self, fn):
    self.filename = fn
    self.name = "<module>"

  def get_arg_count(self):
    return 0


def fake_stack(fn, line, ret):
  from pytype import state
  cls = type("RETURN_VALUE" if ret else "LOAD_NAME", (), {})
  op = cls()
  op.code = _Code(fn)
  op.line = op.endline = line
  op.col = op.endcol = 0
  return [state.SimpleFrame(op)]


def drive_synthetic(r, src, disable, names, n_ops):
  """Real Director on `src` (logs its own errors), real ErrorLog, then a random history.  Returns Recorder."""
  from pytype.errors import errors
  from pytype.directors import directors
  nl = src.count("\n") + 1
  hot = [i + 1 for i, l in enumerate(src.split("\n")) if "#" in l]
  with Recorder() as rec:
    st = directors.parse_src(src, (3, 12))
    log = errors.VmErrorLog(None, src)
    try:
      d = directors.Director(st, log, M.FILENAME, list(disable))
    except Exception:  # pylint: disable=broad-except
      return None
    log.set_error_filter(d.filter_error)
    open_cms = []
    records = []

    def pos():
      line = r.choice(hot) if hot and r.random() < 0.6 else r.randint(0, nl + 1)
      fn = M.FILENAME if r.random() < 0.8 else r.choice([None, "other.py"])
      return fn, line, r.random() < 0.15

    for _ in range(n_ops):
      k = r.random()
      if k < 0.45:
        fn, line, ret = pos()
        name = "bad-return-type" if ret and r.random() < 0.7 else r.choice(names)
        with errors._CURRENT_ERROR_NAME.bind(name):    # pylint: disable=protected-access
          if r.random() < 0.3:
            _, at, _ = pos()
            log.error(fake_stack(fn, line, ret), "m", line=at)
          else:
            log.error(fake_stack(fn, line, ret), "m")
      elif k < 0.55:
        name = r.choice(names)
        log._add(errors.Error.for_test(errors.SEVERITY_WARNING, "w", name, filename=r.choice([M.FILENAME, None]),    # pylint: disable=protected-access
                                       line=r.randint(0, nl + 1)))
      elif k < 0.70 and len(open_cms) < 3:
        cm = log.checkpoint()
        open_cms.append((cm, cm.__enter__()))
      elif k < 0.85 and open_cms:
        cm, record = open_cms.pop()
        cm.__exit__(None, None, None)
        records.append(record)
      elif k < 0.97 and records:
        fn, line, ret = pos()
        record = records[-1] if r.random() < 0.8 else r.choice(records)
        log.copy_from(record.errors, fake_stack(fn, line, ret) if r.random() < 0.9 else None)
    while open_cms:
      cm, record = open_cms.pop()
      cm.__exit__(None, None, None)
  return rec
