"""C13 helpers: signature / call-shape enumeration, program generation, and the three implementation-side
observers (CPython real call, inspect.Signature.bind, pytype).  Everything is canonicalised to the same
strings the extracted Coq models print (see harness/ocaml/bind_driver.ml):

   E:<kind>:<ids joined by .>      or      O:<v,v,...>   one value per parameter, in
   posonly + pos_or_kw + kwonly + [*args] + [**kwargs] order, v = Pi | Kid | D | Vi.j | Wid.id
"""
import collections
import hashlib
import inspect
import itertools
import os
import re
import shutil

P_NAMES = ["a", "b", "c"]
Q_NAMES = ["d", "e", "f"]
K_NAMES = ["g", "h", "i"]
VA, KW, FOREIGN = "va", "kw", "zz"
MAXPOS = 8          # classes P0..P8 exist in every generated module
# "_0".."_8": function.argname(i), the placeholder names the stub mapper gives to overflowing positionals
PLACEHOLDERS = ["_%d" % i for i in range(MAXPOS + 1)]
ALL = P_NAMES + Q_NAMES + K_NAMES + [VA, KW, FOREIGN, "self", "cls"] + PLACEHOLDERS
ID = {n: i for i, n in enumerate(ALL)}
assert ID["_0"] == 14       # harness/ocaml/bind_driver.ml: argname i = 14 + i
NAME = {i: n for n, i in ID.items()}
VARIANTS = ["func", "lambda", "method", "classmethod", "staticmethod", "init"]   # + CTOR_VARIANTS below
FIRST = {"method": "self", "init": "self", "classmethod": "cls"}

# P, Q, K, D: tuples of names; va, kw: bools
Sig = collections.namedtuple("Sig", "P Q K D va kw")


def enum_sigs(maxn):
  """Every def Python accepts with <= maxn parameters of each kind."""
  out = []
  for p in range(maxn + 1):
    for q in range(maxn + 1):
      pos = P_NAMES[:p] + Q_NAMES[:q]
      for nd in range(len(pos) + 1):
        dpos = pos[len(pos) - nd:]
        for k in range(maxn + 1):
          for r in range(k + 1):
            for dk in itertools.combinations(K_NAMES[:k], r):
              for va in (False, True):
                for kw in (False, True):
                  out.append(Sig(tuple(P_NAMES[:p]), tuple(Q_NAMES[:q]), tuple(K_NAMES[:k]),
                                 tuple(dpos) + dk, va, kw))
  return out


# Constructor layouts: "ctor:n<d>i<d><mode>".  n<d> / i<d>: a user-defined __new__ / __init__ on the class that is
# d levels above the instantiated class C (0 = C itself, 1 = its base, 2 = the base's base); absent = not defined
# anywhere in the user hierarchy.  When both are defined, mode says how their signatures relate:
#   s same signature          g __init__ is generic (self, *va, **kw)     G __new__ is generic (cls, *va, **kw)
#   d __init__ differs: the last positional parameter is dropped and **kwargs is toggled
# "ctor:none": a plain class hierarchy without any constructor (object's __new__/__init__).
# CPython's rule (typeobject.c object_new/object_init): C(...) passes the same arguments to __new__ and then, if
# an instance of C came back, to __init__; object.__new__ / object.__init__ tolerate excess arguments exactly
# when the other one is overridden somewhere on the MRO.  So the signatures bound are the user-defined ones.
CTOR_VARIANTS = ["ctor:i1", "ctor:i2", "ctor:n0", "ctor:n1", "ctor:n2",
                 "ctor:n0i0s", "ctor:n1i0s", "ctor:n0i1s", "ctor:n1i1s", "ctor:n2i1s",
                 "ctor:n0i0g", "ctor:n1i0g", "ctor:n0i0G", "ctor:n0i1G",
                 "ctor:n0i0d", "ctor:n1i0d", "ctor:n0i1d", "ctor:none"]
# Stub variants: the callee's signature comes from a generated .pyi (PyTDFunction, single signature); the CPython
# side is a real function / method with the same signature.  "pyi:typed": a module-level function whose *va and
# **kw are annotated with a class no argument is an instance of, so "something landed in *va / **kw" becomes
# observable as wrong-arg-types naming the first such argument.
PYI_VARIANTS = ["pyi:func", "pyi:method", "pyi:classmethod", "pyi:staticmethod", "pyi:init", "pyi:typed"]


def base_variant(variant):
  if variant.startswith("pyi:"):
    return "func" if variant == "pyi:typed" else variant[4:]
  return variant


_CTOR = re.compile(r"ctor:(?:n(\d))?(?:i(\d))?([sgGd])?$")
GENERIC = Sig((), (), (), (), True, True)
OBJECT_INIT = Sig(("self",), (), (), (), False, False)


def ctor_layout(variant):
  """(depth of __new__ or None, depth of __init__ or None, mode) for a ctor:... variant, else None."""
  if not variant.startswith("ctor:") or variant == "ctor:none":
    return None
  m = _CTOR.match(variant)
  dn, di, mode = m.groups()
  return (None if dn is None else int(dn), None if di is None else int(di), mode or "s")


def derived_sig(sig):
  """The 'different' second signature: last positional parameter dropped, **kwargs toggled."""
  if sig.Q:
    gone, s2 = sig.Q[-1], sig._replace(Q=sig.Q[:-1])
  elif sig.P:
    gone, s2 = sig.P[-1], sig._replace(P=sig.P[:-1])
  else:
    gone, s2 = None, sig
  return s2._replace(D=tuple(x for x in s2.D if x != gone), kw=not sig.kw)


def with_first(sig, first):
  if not first:
    return sig
  if sig.P:
    return sig._replace(P=(first,) + sig.P)
  return sig._replace(Q=(first,) + sig.Q)


def parts(sig, variant):
  """The signatures CPython binds for this callee, in call order: [(effective signature, first parameter)]."""
  if variant == "ctor:none":
    return [(OBJECT_INIT, "self")]
  lay = ctor_layout(variant)
  if lay is None:
    first = FIRST.get(base_variant(variant))
    return [(with_first(sig, first), first)]
  dn, di, mode = lay
  out = []
  if dn is not None:
    out.append((with_first(GENERIC if (mode == "G" and di is not None) else sig, "cls"), "cls"))
  if di is not None:
    if dn is None or mode in "sG":
      isig = sig
    elif mode == "g":
      isig = GENERIC
    else:
      isig = derived_sig(sig)
    out.append((with_first(isig, "self"), "self"))
  return out


def shift_of(variant):
  return 1 if (base_variant(variant) in FIRST or variant.startswith("ctor:")) else 0


def effective(sig, variant):
  """The (first) signature the mapper really sees: bound variants get self/cls as first positional parameter."""
  return parts(sig, variant)[0][0]


def all_names(esig):
  return list(esig.P) + list(esig.Q) + list(esig.K) + ([VA] if esig.va else []) + ([KW] if esig.kw else [])


def names_v(sig, variant):
  """[(parameter name, first parameter of its signature)] over all signatures bound by the call, in order."""
  if variant == "ctor:none":
    return []
  return [(n, first) for e, first in parts(sig, variant) for n in all_names(e)]


def kw_universe(sig, variant):
  """Names a call may use as keywords: every parameter (incl. self/cls, *args and **kwargs names) + one foreign."""
  seen = []
  for e, _ in parts(sig, variant):
    for n in all_names(e):
      if n not in seen:
        seen.append(n)
  if variant == "pyi:typed":
    # the placeholder name of the first overflowing positional argument, as a keyword
    k = len(sig.P) + len(sig.Q)
    if k <= MAXPOS:
      return seen + [FOREIGN, "_%d" % k]
  return seen + [FOREIGN]


def posonly_names(sig, variant):
  return [n for e, _ in parts(sig, variant) for n in e.P]


def enum_shapes(sig, variant, maxpos, maxkw):
  """(user positional count, keyword tuple) for every call with <= maxpos positional and <= maxkw keywords."""
  uni = kw_universe(sig, variant)
  out = []
  for npos in range(maxpos + 1):
    for r in range(maxkw + 1):
      for ks in itertools.combinations(uni, r):
        out.append((npos, ks))
  return out


def model_lines(sig, variant, shape):
  """One input line of the extracted model per signature bound by the call."""
  shift = shift_of(variant)
  f = lambda l: "%d %s" % (len(l), " ".join(str(ID[n]) for n in l))
  return ["%s %s %s %s %d %d %d %s %d" % (f(e.P), f(e.Q), f(e.K), f(e.D), ID[VA] if e.va else -1,
                                          ID[KW] if e.kw else -1, shape[0] + shift, f(shape[1]),
                                          1 if variant == "pyi:typed" else 0)
          for e, _ in parts(sig, variant)]


def combine(results, variant):
  """Result of the whole call from the per-signature results: the first error, else all bindings."""
  for r in results:
    if not r.startswith("O:"):
      return "E:any:" if variant == "ctor:none" and r.startswith("E:") else r
  if variant == "ctor:none":
    return "O:"
  return "O:" + ",".join(r[2:] for r in results if r != "O:")


# ------------------------------------------------------------------------------------------------
# program text

def header():
  s = []
  for i in range(MAXPOS + 1):
    s.append(f"class P{i}: pass\np{i} = P{i}()\n")
  for n in ALL:
    s.append(f"class K_{n}: pass\nk_{n} = K_{n}()\n" + ("" if n in PLACEHOLDERS else f"class D_{n}: pass\n"))
  return "".join(s)


HEADER = header()
HEADER_LINES = HEADER.count("\n")


def esig_text(e):
  d = lambda n: n + (f"=D_{n}()" if n in e.D else "")
  ps = [d(n) for n in e.P]
  if e.P:
    ps.append("/")
  ps += [d(n) for n in e.Q]
  if e.va:
    ps.append("*" + VA)
  elif e.K:
    ps.append("*")
  ps += [d(n) for n in e.K]
  if e.kw:
    ps.append("**" + KW)
  return ", ".join(ps)


def params_text(sig, variant):
  if variant == "ctor:none":
    return "<no constructor>"
  return " ; ".join(esig_text(e) for e, _ in parts(sig, variant))


def _tuple_text(e):
  return "(" + "".join(n + ", " for n in all_names(e)) + ")"


def ctor_text(sig, variant, j):
  """class C<j>B2 <- C<j>B1 <- C<j> with __new__ / __init__ at the depths the layout says."""
  bodies = {0: [], 1: [], 2: []}
  if variant != "ctor:none":
    dn, di, _ = ctor_layout(variant)
    ps = parts(sig, variant)
    both = dn is not None and di is not None
    if both:
      bodies[2].append("  rn = ()\n")
    if dn is not None:
      e = ps[0][0]
      bodies[dn].append(f"  def __new__({esig_text(e)}):\n    o = object.__new__(cls)\n"
                        f"    o.{'rn' if both else 'r'} = {_tuple_text(e)}\n    return o\n")
    if di is not None:
      e = ps[-1][0]
      bodies[di].append(f"  def __init__({esig_text(e)}):\n"
                        f"    self.r = {'self.rn + ' if both else ''}{_tuple_text(e)}\n")
  out = []
  for depth, name, base in ((2, f"C{j}B2", ""), (1, f"C{j}B1", f"(C{j}B2)"), (0, f"C{j}", f"(C{j}B1)")):
    out.append(f"class {name}{base}:\n" + ("".join(bodies[depth]) or "  pass\n"))
  return "".join(out)


def stub_sig_text(e, typed):
  """Parameter list as a .pyi writes it."""
  d = lambda n: n + ("=..." if n in e.D else "")
  ps = [d(n) for n in e.P]
  if e.P:
    ps.append("/")
  ps += [d(n) for n in e.Q]
  if e.va:
    ps.append("*" + VA + (": Z" if typed else ""))
  elif e.K:
    ps.append("*")
  ps += [d(n) for n in e.K]
  if e.kw:
    ps.append("**" + KW + (": Z" if typed else ""))
  return ", ".join(ps)


def stub_def_text(sig, variant, j):
  """The j-th callee as a stub declares it."""
  e = effective(sig, variant)
  pt = stub_sig_text(e, variant == "pyi:typed")
  b = base_variant(variant)
  if b == "func":
    return f"def f{j}({pt}) -> None: ...\n"
  if b == "method":
    return f"class C{j}:\n  def m({pt}) -> None: ...\n"
  if b == "classmethod":
    return f"class C{j}:\n  @classmethod\n  def m({pt}) -> None: ...\n"
  if b == "staticmethod":
    return f"class C{j}:\n  @staticmethod\n  def m({pt}) -> None: ...\n"
  if b == "init":
    return f"class C{j}:\n  def __init__({pt}) -> None: ...\n"
  raise ValueError(variant)


def def_text(sig, variant, j):
  """Definition of the j-th callee of a module (for a stub variant: the real Python twin)."""
  if variant.startswith("ctor:"):
    return ctor_text(sig, variant, j)
  variant = base_variant(variant)
  e = effective(sig, variant)
  pt, rt = esig_text(e), _tuple_text(e)
  if variant == "func":
    return f"def f{j}({pt}):\n  return {rt}\n"
  if variant == "lambda":
    return f"f{j} = lambda {pt}: {rt}\n"
  if variant == "method":
    return f"class C{j}:\n  def m({pt}):\n    return {rt}\nc{j} = C{j}()\n"
  if variant == "classmethod":
    return f"class C{j}:\n  @classmethod\n  def m({pt}):\n    return {rt}\n"
  if variant == "staticmethod":
    return f"class C{j}:\n  @staticmethod\n  def m({pt}):\n    return {rt}\n"
  if variant == "init":
    return f"class C{j}:\n  def __init__({pt}):\n    self.r = {rt}\n"
  raise ValueError(variant)


def call_text(sig, variant, j, shape, stub=""):
  """The call expression; for a stub variant under pytype, `stub` is the stub module's name."""
  shift = shift_of(variant)
  args = [f"p{i + shift}" for i in range(shape[0])] + [f"{k}=k_{k}" for k in shape[1]]
  a = ", ".join(args)
  if variant.startswith("pyi:"):
    b, q = base_variant(variant), (stub + "." if stub else "")
    if b == "func":
      return f"{q}f{j}({a})"
    if b == "method":
      return f"c{j}.m({a})"
    if b == "init":
      return f"{q}C{j}({a})"
    return f"{q}C{j}.m({a})"
  if variant in ("func", "lambda"):
    return f"f{j}({a})"
  if variant == "method":
    return f"c{j}.m({a})"
  if variant in ("classmethod", "staticmethod"):
    return f"C{j}.m({a})"
  if variant == "ctor:none":
    return f"C{j}({a})"
  return f"C{j}({a}).r"


def module_text(group):
  """group: list of (sig, variant, [shapes]).
  Returns (source with the definitions only, for CPython; source with one call per line, for pytype;
           {line: (group index, shape index)}; (stub module name, stub text) or None)."""
  cpy = [HEADER]
  py = [HEADER]
  stub = ["class Z: ...\n"]
  for j, (sig, variant, _) in enumerate(group):
    d = def_text(sig, variant, j)
    cpy.append(d)
    if variant.startswith("pyi:"):
      stub.append(stub_def_text(sig, variant, j))
    else:
      py.append(d)
  stub_text = "".join(stub)
  has_stub = len(stub) > 1
  modname = "c13stub_" + hashlib.sha256(stub_text.encode()).hexdigest()[:16] if has_stub else ""
  if has_stub:
    py.append(f"import {modname}\n")
    for j, (sig, variant, _) in enumerate(group):
      if variant == "pyi:method":
        py.append(f"c{j} = {modname}.C{j}()\n")
  src = "".join(py)
  line = src.count("\n")
  where = {}
  calls = []
  for j, (sig, variant, shapes) in enumerate(group):
    for k, sh in enumerate(shapes):
      line += 1
      where[line] = (j, k)
      if variant.startswith("pyi:"):
        calls.append(call_text(sig, variant, j, sh, modname) + "\n")
      else:
        calls.append(f"reveal_type({call_text(sig, variant, j, sh)})\n")
  return "".join(cpy), src + "".join(calls), where, ((modname, stub_text) if has_stub else None)


# ------------------------------------------------------------------------------------------------
# canonical forms

def _ikey(x):
  return (0, int(x), "") if x.isdigit() else (1, 0, x)


def canon(s):
  """Order-insensitive form of a result string: W lists and error name lists sorted."""
  if s.startswith("O:"):
    vals = []
    for v in s[2:].split(",") if s != "O:" else []:
      if v.startswith("W"):
        v = "W" + ".".join(sorted(filter(None, v[1:].split(".")), key=_ikey))
      vals.append(v)
    return "O:" + ",".join(vals)
  if s.startswith("E:"):
    _, kind, names = s.split(":", 2)
    return "E:%s:%s" % (kind, ".".join(sorted(filter(None, names.split(".")), key=_ikey)))
  return s


def same_py(model, impl):
  """pytype result vs bind_py model result.  duplicate-keyword: the code raises for one element of a set."""
  if model.startswith("E:dup:") and impl.startswith("E:dup:"):
    return impl[6:] in model[6:].split(".")
  if impl == "O:!self-rebound":
    return model.startswith("O:") and not model.startswith("O:P0")
  return canon(model) == canon(impl)


def stub_view(s, sig, variant):
  """What is observable of a result when the callee is a stub: an error as is; a success as "O:", or for
  pyi:typed as "T:<id>" naming the first argument that landed in *va (placeholder _<i>) or **kw (smallest
  keyword name, as sorted() orders them) and so violates the annotation."""
  if not s.startswith("O:") or s == "O:!self-rebound":
    return s
  if variant != "pyi:typed":
    return "O:"
  for v in s[2:].split(","):
    if v.startswith("V") and v != "V":
      return "T:%d" % ID["_%s" % v[1:].split(".")[0]]
  for v in s[2:].split(","):
    if v.startswith("W") and v != "W":
      return "T:%d" % ID[min(NAME[int(x)] for x in v[1:].split("."))]
  return "O:"


def outcome_only(s):
  """What the property statement compares: error-or-not and, on success, the bindings."""
  return "E" if s.startswith("E:") else s if s.startswith("T:") else canon(s)


# ------------------------------------------------------------------------------------------------
# CPython: the real call and inspect.Signature.bind

def _decode_obj(o, ns, first_name, pname):
  cn = type(o).__name__
  if isinstance(o, tuple):
    return "V" + ".".join(_decode_obj(x, ns, None, None)[1:] for x in o)
  if isinstance(o, dict):
    for k, v in o.items():
      if type(v).__name__ != "K_" + k:
        return "?dict"
    return "W" + ".".join(str(ID[k]) for k in o)
  if isinstance(o, type):
    return "P0" if pname == "cls" and first_name == "cls" else "?type"
  if re.fullmatch(r"P\d+", cn):
    return "P" + cn[1:]
  if cn.startswith("K_"):
    return "K%d" % ID[cn[2:]]
  if cn.startswith("D_"):
    return "D" if cn[2:] == pname else "?D_" + cn[2:]
  if re.fullmatch(r"C\d+", cn):
    return "P0" if pname == "self" and first_name == "self" else "?inst"
  return "?" + cn


_Q = re.compile(r"'([^']*)'")


def classify_typeerror(msg):
  names = _Q.findall(msg)
  ids = lambda l: ".".join(str(ID[n]) for n in l)
  if "multiple values for argument" in msg:
    return "E:multi:" + ids(names)
  if "unexpected keyword argument" in msg:
    return "E:unexp:" + ids(names[:1])      # 3.12 may append "Did you mean 'x'?"
  if "positional-only arguments passed as keyword" in msg:
    return "E:posonlykw:" + ids([x for n in names for x in n.split(", ")])
  if "positional argument" in msg and "but" in msg and "given" in msg:
    return "E:toomany:"
  if "required positional argument" in msg:
    return "E:misspos:" + ids(names)
  if "required keyword-only argument" in msg:
    return "E:misskw:" + ids(names)
  return "E:?:" + msg


def _mro_function(klass, name):
  for k in klass.__mro__:
    if name in k.__dict__ and k is not object:
      f = k.__dict__[name]
      return getattr(f, "__func__", f)
  return None


def _bind_one(fn, bargs, kwargs, ns, e, first):
  """inspect.signature(fn).bind(...) as a canonical result over the parameters of e."""
  try:
    ba = inspect.signature(fn).bind(*bargs, **kwargs)
  except TypeError as ex:
    return "E:bind:" + str(ex)
  vals = []
  for n in all_names(e):
    if n in ba.arguments:
      vals.append(_decode_obj(ba.arguments[n], ns, first, n))
    elif n == VA:
      vals.append("V")
    elif n == KW:
      vals.append("W")
    else:
      vals.append("D")
  return "O:" + ",".join(vals)


def cpython_results(group):
  """For every (sig, variant, shapes) and every shape: (real call result, Signature.bind result)."""
  src = module_text(group)[0]
  ns = {}
  exec(compile(src, "<c13>", "exec"), ns)     # our own generated text  # pylint: disable=exec-used
  out = []
  for j, (sig, variant, shapes) in enumerate(group):
    ps = parts(sig, variant)
    names = names_v(sig, variant)
    shift = shift_of(variant)
    is_ctor = variant.startswith("ctor:")
    variant = base_variant(variant)       # a stub variant's CPython side is its real twin
    # the callee, and for Signature.bind the underlying function(s) with their explicit first argument
    if variant in ("func", "lambda"):
      callee = ns[f"f{j}"]; fns = [(callee, None)]
    elif variant == "method":
      callee = ns[f"c{j}"].m; fns = [(ns[f"C{j}"].__dict__["m"], ns[f"c{j}"])]
    elif variant == "classmethod":
      callee = ns[f"C{j}"].m; fns = [(ns[f"C{j}"].__dict__["m"].__func__, ns[f"C{j}"])]
    elif variant == "staticmethod":
      callee = ns[f"C{j}"].m; fns = [(ns[f"C{j}"].__dict__["m"].__func__, None)]
    elif variant == "ctor:none":
      callee = ns[f"C{j}"]; fns = []
    else:
      callee = ns[f"C{j}"]
      fns = [(_mro_function(callee, "__new__" if first == "cls" else "__init__"),
              callee if first == "cls" else object.__new__(callee)) for _, first in ps]
    rows = []
    for (npos, ks) in shapes:
      args = [ns[f"p{i + shift}"] for i in range(npos)]
      kwargs = {k: ns["k_" + k] for k in ks}
      # (1) the real call
      try:
        r = callee(*args, **kwargs)
        if variant == "ctor:none":
          real = "O:" if type(r) is callee else "?" + type(r).__name__
        else:
          if variant == "init" or is_ctor:
            r = r.r
          real = "O:" + ",".join(_decode_obj(o, ns, first, n) for o, (n, first) in zip(r, names)) \
              if len(r) == len(names) else "?len"
      except TypeError as ex:
        real = "E:any:" if variant == "ctor:none" else classify_typeerror(str(ex))
      # (2) inspect.Signature.bind on the underlying function(s) (self/cls passed explicitly)
      if variant == "ctor:none":
        bound = real
      else:
        bound = combine([_bind_one(fn, ([a0] if first else []) + args, kwargs, ns, e, first)
                         for (fn, a0), (e, first) in zip(fns, ps)], variant)
      rows.append((real, bound))
    out.append(rows)
  return out


# ------------------------------------------------------------------------------------------------
# pytype

_STATE = {}


def stub_dir():
  """Where this process writes the generated .pyi files (on pytype's pythonpath)."""
  import common
  return os.path.join(common.BUILD, "c13", "stubs", str(os.getpid()))


def _pytype():
  if _STATE.get("pid") != os.getpid():
    import common
    common.bootstrap_pytype()
    from pytype import config, io, load_pytd      # pylint: disable=import-outside-toplevel
    d = stub_dir()
    shutil.rmtree(d, ignore_errors=True)
    os.makedirs(d, exist_ok=True)
    _STATE["pid"] = os.getpid()
    _STATE["io"] = io
    _STATE["opts"] = config.Options.create(python_version=(3, 12), pythonpath=d)
    _STATE["loader"] = load_pytd.create_loader(_STATE["opts"])
  return _STATE["io"], _STATE["opts"], _STATE["loader"]


def split_top(s):
  out, depth, cur = [], 0, []
  for ch in s:
    if ch == "[":
      depth += 1
    elif ch == "]":
      depth -= 1
    if ch == "," and depth == 0:
      out.append("".join(cur).strip()); cur = []
    else:
      cur.append(ch)
  if cur or out:
    out.append("".join(cur).strip())
  return out


def _decode_type(t, first, pname):
  if re.fullmatch(r"P\d+", t):
    return t
  if t.startswith("K_"):
    return "K%d" % ID[t[2:]] if t[2:] in ID else "?" + t
  if t.startswith("D_"):
    return "D" if t[2:] == pname else "?" + t
  if t == "tuple[()]":
    return "V"
  if t.startswith("tuple[") and pname == VA:
    return "V" + ".".join(_decode_type(x, None, None)[1:] for x in split_top(t[6:-1]))
  if t == "dict[nothing, nothing]":
    return "W"
  if t.startswith("dict[str, ") and pname == KW:
    v = t[10:-1]
    vs = split_top(v[6:-1]) if v.startswith("Union[") else [v]
    if all(x.startswith("K_") and x[2:] in ID for x in vs):
      return "W" + ".".join(str(ID[x[2:]]) for x in vs)
    return "?" + t
  if re.fullmatch(r"C\d+", t) and first == "self" and pname == "self":
    return "P0"
  if re.fullmatch(r"type\[C\d+\]", t) and first == "cls" and pname == "cls":
    return "P0"
  return "?" + t


_ERR_KIND = {"duplicate-keyword-argument": "dup", "wrong-keyword-args": "wkw",
             "missing-parameter": "miss", "wrong-arg-count": "cnt"}


def _decode_error(name, msg):
  first = msg.split("\n")[0]
  kind = _ERR_KIND.get(name)
  if kind == "dup":
    m = re.search(r"keyword argument '(\w+)'", first)
    return "E:dup:%d" % ID[m.group(1)] if m and m.group(1) in ID else "E:dup:?" + first
  if kind == "wkw":
    m = re.search(r"Invalid keyword arguments? \(?([\w, ]+?)\)? to ", first)
    names = m.group(1).split(", ") if m else []
    return "E:wkw:" + ".".join(str(ID[n]) for n in names) if names and all(n in ID for n in names) \
        else "E:wkw:?" + first
  if kind == "miss":
    m = re.search(r"Missing parameter '(\w+)'", first)
    return "E:miss:%d" % ID[m.group(1)] if m and m.group(1) in ID else "E:miss:?" + first
  if kind == "cnt":
    return "E:cnt:"
  return "E:other:%s:%s" % (name, first)


def pytype_results(group):
  """For every (sig, variant, shapes) and every shape: the canonical result string observed from pytype
  (errors at the call's line, else the revealed type of the returned parameter tuple); plus the errors
  pytype reported anywhere else in the module (none are expected)."""
  io, opts, loader = _pytype()
  _, src, where, stub = module_text(group)
  if stub:
    path = os.path.join(stub_dir(), stub[0] + ".pyi")
    if not os.path.exists(path):
      with open(path, "w") as f:
        f.write(stub[1])
  try:
    ret, _ = io.generate_pyi(src, opts, loader)
  except Exception as ex:   # pylint: disable=broad-except
    return [["X:%s:%s" % (type(ex).__name__, str(ex)[:200])] * len(shapes) for _, _, shapes in group], []
  errs = collections.defaultdict(list)
  reveals = {}
  stray = []
  for e in ret.context.errorlog:
    if e.line in where:
      if e.name == "reveal-type":
        reveals[e.line] = e.message
      else:
        errs[e.line].append((e.name, e.message))
    else:
      stray.append("%s@%s:%s" % (e.name, e.line, e.message.split("\n")[0]))
  out = [[None] * len(shapes) for _, _, shapes in group]
  for line, (j, k) in where.items():
    sig, variant, _ = group[j]
    names = names_v(sig, variant)
    is_ctor = variant.startswith("ctor:")
    if variant.startswith("pyi:"):
      # a stub has no body: only the errors at the call are observable
      if not errs[line]:
        r = "O:"
      elif len(errs[line]) > 1:
        r = "E:multiple:" + ";".join(n for n, _ in errs[line])
      elif errs[line][0][0] == "wrong-arg-types":
        m = re.search(r"Expected: \(.*?(\w+): [\w.]*\bZ\b", errs[line][0][1])
        r = "T:%d" % ID[m.group(1)] if m and m.group(1) in ID else "T:?" + errs[line][0][1].replace("\n", " | ")
      else:
        r = _decode_error(*errs[line][0])
    elif errs[line]:
      if len(errs[line]) > 1:
        r = "E:multiple:" + ";".join(n for n, _ in errs[line])
      elif ((variant == "init" or is_ctor) and errs[line][0][0] == "attribute-error"
            and re.match(r"No attribute 'r' on C\d+", errs[line][0][1])):
        # __init__ ran with `self` bound to something other than the new instance, so `self.r = ...` landed
        # elsewhere: the call was accepted and the first parameter is not the instance
        r = "O:!self-rebound"
      elif variant == "ctor:none" and errs[line][0][0] in _ERR_KIND:
        r = "E:any:"
      else:
        r = _decode_error(*errs[line][0])
    elif line not in reveals:
      r = "?no-reveal"
    elif variant == "ctor:none":
      r = "O:" if re.fullmatch(r"C\d+", reveals[line]) else "?" + reveals[line]
    else:
      t = reveals[line]
      if t == "tuple[()]":
        elems = []
      elif t.startswith("tuple[") and t.endswith("]"):
        elems = split_top(t[6:-1])
      else:
        elems = None
      if elems is None or len(elems) != len(names):
        r = "?" + t
      else:
        r = "O:" + ",".join(_decode_type(x, first, n) for x, (n, first) in zip(elems, names))
    out[j][k] = r
  return out, stray


def run_group(group):
  """Worker entry point: everything observed from the implementations for one module."""
  pres, stray = pytype_results(group)
  return cpython_results(group), pres, stray
