"""C03 — glue between the real pytype director and the Coq model (coq/Directors/Model.v):
conversion of the real parser's output into the model's input, the query set, the real Director's answers,
and the cases.v text that makes Coq compare the model's answers with them."""
import re

import common

FILENAME = "c03_input.py"


class Real:
  """Everything obtained from the real code for one source text (+ disable option)."""
  pass


def real_parse(src):
  """(groups, function_range items, return lines, raw comments) from a FRESH parse with the real parser."""
  from pytype.directors import directors, parser
  st = directors.parse_src(src, (3, 12))
  raw = {k: list(v) for k, v in st.structured_comments.items()}
  v = parser.visit_src_tree(st)
  groups = []
  for lr, cs in v.structured_comment_groups.items():
    groups.append((isinstance(lr, parser.Call), lr.start_line, lr.end_line,
                   [(c.line, c.tool, c.data, bool(c.open_ended)) for c in cs]))
  return groups, list(v.function_ranges.items()), sorted(v.block_returns.all_returns()), raw


def real_director(src, disable=()):
  """Builds the real Director the way vm.VirtualMachine.run_program does.  Returns (director | None, exc name)."""
  from pytype.directors import directors
  from pytype.errors import errors
  st = directors.parse_src(src, (3, 12))
  log = errors.VmErrorLog(None, src)   # what context.Context creates (pretty printer unused here)
  try:
    return directors.Director(st, log, FILENAME, list(disable)), None, log
  except Exception as e:  # pylint: disable=broad-except
    return None, type(e).__name__, log


def real_filter(d, line, name, ret_op, table, same_file=True):
  """(code, line') as the model's Cases.enc encodes them."""
  from pytype.errors import errors
  e = errors.Error.for_test(errors.SEVERITY_ERROR, "m", name,
                            filename=FILENAME if same_file else "other.py", line=line,
                            opcode_name=(table["return_opcodes"][0] if ret_op else "LOAD_NAME"))
  try:
    keep = d.filter_error(e)
  except Exception as ex:  # pylint: disable=broad-except
    return ({"ValueError": -1, "IndexError": -2, "KeyError": -3}.get(type(ex).__name__, -9), 0)
  return (1 if keep else 0, e.line)


# ----------------------------------------------------------------------------------------------------
# tokenising a comment's data the way _process_pytype does (str.split only) and classifying each option

class Ids:
  def __init__(self, table):
    self.table = table
    self.ids = dict(table["ids"])
    self.next = table["first_unknown"]

  def of(self, name):
    if name not in self.ids:
      self.ids[name] = self.next
      self.next += 1
    return self.ids[name]


def tokenise(tool, data, ids):
  from pytype.directors import directors, parser
  if tool == "type":
    return "TypeIgnore" if parser.IGNORE_RE.match(data) else "TypeOther"
  assert tool == "pytype"
  if not data:
    return "(Pytype [CRaise])"
  out = []
  for option in data.split():
    try:
      command, values = option.split("=", 1)
      values = values.split(",")
    except ValueError:
      out.append("CRaise")
      break
    if command in ("disable", "enable"):
      names = "; ".join(str(ids.of(v)) for v in values)
      out.append(("CDisable" if command == "disable" else "CEnable") + " [" + names + "]%N")
    elif command == "pragma":
      out.append("CNoop" if not (set(values) - directors._PRAGMAS) else "CRaise")   # pylint: disable=protected-access
    elif command == "features":
      out.append("CNoop" if not (set(values) - directors._ALLOWED_FEATURES) else "CRaise")   # pylint: disable=protected-access
    else:
      out.append("CRaise")
    if out[-1] == "CRaise":
      break
  return "(Pytype [" + "; ".join(out) + "])"


def z(n):
  return str(n) if n >= 0 else f"({n})"


def coq_groups(groups, ids):
  gs = []
  for is_call, s, e, cs in groups:
    cc = "; ".join("mkC %s %s %s" % (z(l), tokenise(tool, data, ids), "true" if op else "false")
                   for l, tool, data, op in cs)
    gs.append("mkG %s %s %s [%s]" % ("true" if is_call else "false", z(s), z(e), cc))
  return "[" + ";\n   ".join(gs) + "]"


def coq_pairs(items):
  return "[" + "; ".join("(%s, %s)" % (z(a), z(b)) for a, b in items) + "]"


def coq_zlist(xs):
  return "[" + "; ".join(z(x) for x in xs) + "]"


def case_text(idx, disable_ids, fr_items, ret_lines, groups, ids, build_code, queries):
  """queries: list of (line, name_id, ret_op, same_file, code, line')."""
  qs = ";\n   ".join("((%s, %d%%N, %s, %s), (%s, %s))" % (z(l), n, "true" if r else "false",
                                                         "true" if sf else "false", z(c), z(l2))
                     for l, n, r, sf, c, l2 in queries)
  return ("Definition case_%d : list nat :=\n  run_case [%s]%%N %s %s\n  %s\n  %s\n  [%s].\n" %
          (idx, "; ".join(map(str, disable_ids)), coq_pairs(fr_items), coq_zlist(ret_lines),
           coq_groups(groups, ids), z(build_code), qs))


def case_text_grid(idx, disable_ids, fr_items, ret_lines, groups, ids, build_code, nl, name_ids, exc, extra):
  """Compact case: the query grid is enumerated inside Coq (Cases.enum_queries); `exc` lists (index, code, line')
  for the answers that differ from the default (1, line); `extra` are explicit queries (other-file errors)."""
  ex = "; ".join("(%d%%nat, (%s, %s))" % (i, z(c), z(l2)) for i, c, l2 in exc)
  qs = "; ".join("((%s, %d%%N, %s, %s), (%s, %s))" % (z(l), n, "true" if r else "false",
                                                      "true" if sf else "false", z(c), z(l2))
                 for l, n, r, sf, c, l2 in extra)
  return ("Definition case_%d : list nat :=\n  run_grid [%s]%%N %s %s\n  %s\n  %s %d%%nat [%s]%%N\n  [%s]\n  [%s].\n" %
          (idx, "; ".join(map(str, disable_ids)), coq_pairs(fr_items), coq_zlist(ret_lines),
           coq_groups(groups, ids), z(build_code), nl, "; ".join(map(str, name_ids)), ex, qs))


HEADER = ("From Coq Require Import ZArith List NArith Bool.\n"
          "From PV Require Import Directors.Model Directors.Cases.\n"
          "Import ListNotations.\nOpen Scope Z_scope.\n")


def cases_file(case_texts):
  """One cases.v: prints the list of (case index, mismatching query indices) — [] when all agree."""
  body = HEADER + "".join(case_texts)
  n = len(case_texts)
  body += ("Eval vm_compute in (bad_cases [%s]).\n" %
           "; ".join("(%dn, case_%d)" % (i, i) for i in range(n))).replace("n,", "%nat,")
  return body


def parse_bad_cases(out):
  """Parses `= [(3, [0; 5]); ...] : list (nat * list nat)`; returns dict idx -> list of query indices, or None."""
  terms = common.parse_coq_eval(out)
  if len(terms) != 1:
    return None
  t = terms[0]
  res = {}
  for m in re.finditer(r"\((\d+)(?:%nat)?,\s*\[([^\]]*)\]\)", t):
    res[int(m.group(1))] = [int(x.replace("%nat", "")) for x in m.group(2).split(";") if x.strip()]
  if t.strip() not in ("[]", "nil") and not res:
    return None
  return res
