"""C04 subprocess runner: analyses a batch of programs in ONE process under the PYTHONHASHSEED the parent
chose, and prints one JSON line per program with digests of the three observable outputs:

  pyi     sha256 of the stub text                     (io.generate_pyi)
  errors  sha256 of the ordered tuples (name, filename, line, message) of unique_sorted_errors()
  pickle  sha256 of the bytes written by io.write_pickle (PrepareForExport -> SerializeAst -> msgpack)

usage: c04_runner.py <job.json>      job = {"programs": [{"id":..,"src":..}..], "order": [ids..],
                                            "loader": "fresh"|"reused", "warmup": [src..], "full": bool,
                                            "scratch": dir}
Also evaluates, in-process, the per-run oracle (errors unique and sorted by position) and the monitors of the
theorems' hypotheses (keys_separate / sets_normal on the input and the output of CanonicalOrdering).
"""
import collections
import hashlib
import json
import os
import sys
import time
import traceback

import common

common.bootstrap_pytype()

# pylint: disable=wrong-import-position
from pytype import config  # noqa: E402
from pytype import io  # noqa: E402
from pytype import load_pytd  # noqa: E402
from pytype import utils  # noqa: E402
from pytype.pytd import pytd_utils  # noqa: E402
from pytype.pytd import pytd_visitors  # noqa: E402

import c04_units  # noqa: E402


# what the error MESSAGES print (the pretty-printer surface) and what the stub contains
MSG_FEATURES = {
    "msg:Literal[": "Literal[", "msg:Union[": "Union[", "msg:Optional[": "Optional[", "msg:Expected-signature": "Expected: (",
    "msg:signature-default(= ...)": "= ...", "msg:attr-on-union(In Union/Optional)": "\nIn ", "msg:traceback": "Called from (traceback):",
    "msg:nested-traceback": "\n  line", "msg:dict-display": "dict[", "msg:set-display": "set[", "msg:Callable": "Callable[",
    "msg:TypedDict": "TypedDict", "msg:protocol": "protocol",
}
STUB_FEATURES = {
    "stub:internal-NewType-name": "_NewType_Internal_Class_Name_", "stub:NamedTuple": "(NamedTuple)", "stub:TypedDict": "(TypedDict",
    "stub:Protocol": "(Protocol)", "stub:@overload": "@overload", "stub:Generic": "Generic[", "stub:Literal": "Literal[",
    "stub:attr.s": "@attr.s", "stub:TypeVar": "TypeVar(",
}


def sha(b):
  return hashlib.sha256(b).hexdigest()[:20]


_captured = []
_orig_canonical = pytd_utils.CanonicalOrdering


def _hooked(n):
  # harness-side observation point (nothing in /repo is modified).  Everything is evaluated NOW: the lookup
  # caches (_name2item) of the returned classes are filled lazily by later Lookup() calls and are part of repr/keys.
  from pytype.pytd import pytd  # pylint: disable=import-outside-toplevel
  out = _orig_canonical(n)
  is_unit = isinstance(n, pytd.TypeDeclUnit)
  if is_unit or len(_captured) < 300:
    names = set(pytd_visitors.CanonicalOrderingVisitor().visit_class_names)
    probs, stats = c04_units.monitor(n, out, names)
    if is_unit:
      again = _orig_canonical(out)
      if c04_units.proj(again) != c04_units.proj(out):
        probs.append(("not-idempotent", "", ""))
    _captured.append((is_unit, probs, stats))
  return out


def error_oracle(errs):
  """Independent of errors.py: report sorted by (filename or '', line); nothing reported twice; two reports
  with the same (position, message, details, name) have tracebacks of which neither is a suffix of the other."""
  problems = []
  keys = [((e.filename or ""), e.line) for e in errs]
  for a, b in zip(keys, keys[1:]):
    if b < a:
      problems.append("not-sorted: %r after %r" % (b, a))
      break
  marker = "Called from (traceback):"
  strip = lambda t: t[len(marker):] if t else ""
  seen = {}
  for e in errs:
    rep = (e.filename, e.line, getattr(e, "_col", None), e.methodname, getattr(e, "_message", None), e.details, e.name)
    tb = e.traceback
    for other in seen.get(rep, []):
      if tb == other or strip(tb).endswith(strip(other)) or strip(other).endswith(strip(tb)):
        problems.append("not-unique: %r reported with comparable tracebacks %r / %r" % (rep, tb, other))
    seen.setdefault(rep, []).append(tb)
  full = [(e.name, e.filename, e.line, e.message) for e in errs]
  if len(set(full)) != len(full):
    problems.append("duplicate-report")
  return problems


def analyse(src, loader, out_path, full):
  res = {}
  t0 = time.time()
  opts = config.Options.create("prog.py", python_version=(3, 12), module_name="prog",
                               output=out_path, pickle_output=True, typeshed=False)
  if loader is None:
    loader = load_pytd.create_loader(opts)
  _captured.clear()
  try:
    ret, pyi = io.generate_pyi(src, opts, loader)
  except utils.UsageError as e:
    return {"status": "unexplorable", "detail": str(e)[:200]}, loader
  except Exception as e:  # pylint: disable=broad-except
    # C15's business, not C04's - but the *same* outcome must be produced under every configuration
    res["status"] = "exception"
    res["pyi"] = sha(("EXC:" + type(e).__name__).encode())
    res["errors"] = res["pickle"] = res["pyi"]
    res["detail"] = type(e).__name__ + ": " + str(e)[:200]
    return res, loader
  res["t_analyse"] = round(time.time() - t0, 3)
  errs = ret.context.errorlog.unique_sorted_errors()
  tuples = [(e.name, e.filename, e.line, e.message) for e in errs]
  res["status"] = "ok"
  res["error_names"] = dict(collections.Counter(t[0] for t in tuples))
  msgs = [t[3] for t in tuples]
  res["msg_features"] = {k: sum(1 for m in msgs if pat in m) for k, pat in MSG_FEATURES.items()}
  res["msg_features"]["lines-with>=2-errors"] = sum(1 for v in collections.Counter(t[2] for t in tuples).values() if v >= 2)
  res["stub_features"] = {k: int(pat in pyi) for k, pat in STUB_FEATURES.items()}
  res["pyi"] = sha(pyi.encode())
  res["errors"] = sha(repr(tuples).encode())
  res["n_errors"] = len(tuples)
  res["n_logged"] = len(ret.context.errorlog)
  res["oracle"] = error_oracle(errs)
  # hypotheses of the theorems, on what the pipeline really fed to / got from CanonicalOrdering
  mon = []
  stats = {}
  units = [c for c in _captured if c[0]]
  for is_unit, probs, st in _captured:
    mon += [("unit" if is_unit else "message-type",) + tuple(p) for p in probs]
    if is_unit:
      stats = st
  res["monitor"] = [list(m)[:4] for m in mon[:5]]
  res["monitor_stats"] = stats
  res["captured"] = len(_captured)
  res["captured_units"] = len(units)
  try:
    io.write_pickle(ret.ast, opts, ret.context.loader)
    with open(out_path, "rb") as f:
      data = f.read()
    res["pickle"] = sha(data)
    res["pickle_len"] = len(data)
  except Exception as e:  # pylint: disable=broad-except
    res["pickle"] = sha(("EXC:" + type(e).__name__ + str(e)[:100]).encode())
    res["pickle_detail"] = traceback.format_exc()[-400:]
  res["t_total"] = round(time.time() - t0, 3)
  if full:
    res["pyi_text"] = pyi
    res["error_tuples"] = tuples
  return res, loader


def main():
  job = json.load(open(sys.argv[1]))
  pytd_utils.CanonicalOrdering = _hooked
  scratch = job.get("scratch") or os.path.join(common.BUILD, "c04")
  os.makedirs(scratch, exist_ok=True)
  out_path = sys.argv[1] + ".pickled"      # next to the job file; the parent removes it with the job
  progs = {p["id"]: p["src"] for p in job["programs"]}
  shared = None
  for w in job.get("warmup", []):
    _, l = analyse(w, shared if job["loader"] == "reused" else None, out_path, False)
    if job["loader"] == "reused":
      shared = l
  for k, pid in enumerate(job["order"]):
    res, l = analyse(progs[pid], shared if job["loader"] == "reused" else None, out_path, job.get("full", False))
    if job["loader"] == "reused":
      shared = l
    res["id"] = pid
    res["position"] = k
    print("RESULT " + json.dumps(res), flush=True)
  try:
    os.unlink(out_path)
  except OSError:
    pass


if __name__ == "__main__":
  main()
