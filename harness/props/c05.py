"""C05 — every stub pytype emits is a valid stub that pytype reads back unchanged.

Proof: coq/Props/C05.v over the token-level model coq/Print/Model.v (print_ty/print_sig, parse_ty/parse_sig, norm).
Tie: the extracted model and the real printer/parser (pytd_utils.Print, pyi.parser.parse_string from $VERIF_REPO)
run on the same generated types, signatures and expression texts; tokens (real text tokenised with `tokenize`),
parse results (canonical dump) and the model's fixed-point prediction are compared.
Direct oracle (the property itself, on the implementation only): for every stub emitted for a generated program and
every independently generated dialect stub: parse, VerifyVisitor, re-print, compare text exactly, compare the
declarations structurally.  Replay = the stub text (and the program that produced it).
"""
import collections
import difflib
import json
import os
import re
import subprocess
import textwrap
import time

import common
import c05_gen as g
import c05_prog
import c05_decl
import c05_imports

PYVER = (3, 12)

# fingerprints of the findings on the unchanged tree (see known_findings.json)
FP_LIT = "literal-bool-int-collapse"
FP_CALLABLE = "callable-single-nothing-arg"
FP_SELF = "self-generic-implicit-mutation"
FP_COMPAT = "param-compat-union-elided"
FP_SINGLE = "singleton-union-collapsed"
FP_EQHASH = "pytd-eq-nested-union-order"
FP_IMPORT = "unused-typing-import-after-elided-annotation"
FP_MUTIMPORT = "mutated-type-typing-name-not-imported"
FP_CLASSEQ = "pytd-class-eq-lookup-cache"
FP_CONCAT = "callable-concatenate-substring-in-argument"
FP_TYPEDDICT = "typeddict-functional-form-renamed"
FP_SELFTYPE = "typing-self-rewritten-to-typevar"


# ---------------------------------------------------------------------------------------------------
# the implementation side

class Impl:
  def __init__(self):
    from pytype.pyi import parser
    from pytype.pytd import pytd, pytd_utils, visitors
    self.parser, self.pytd, self.pytd_utils, self.visitors = parser, pytd, pytd_utils, visitors
    self.opt = parser.PyiOptions(python_version=PYVER)

  def print(self, node):
    return self.pytd_utils.Print(node)

  def parse(self, text):
    return self.parser.parse_string(text, options=self.opt)

  def verify(self, ast):
    ast.Visit(self.visitors.VerifyVisitor())

  def unit(self, tvars, **kw):
    tps = tuple(self.pytd.TypeParameter(n) for n in tvars)
    return self.pytd_utils.CreateModule("m", type_params=tps, **kw)


def oracle_text(impl, text):
  """The property, evaluated on one stub text.  Returns a dict; `ok` iff parse, verify and text fixed point hold."""
  out = {"parse": False, "verify": False, "fix": False, "text2": None, "ast": None, "err": None}
  try:
    b = impl.parse(text)
    out["parse"] = True
    out["ast"] = b
  except Exception as e:  # pylint: disable=broad-except
    msg = str(e)
    out["err"] = "%s: %s" % (type(e).__name__, msg if len(msg) <= 600 else msg[:300] + " ... " + msg[-300:])
    return out
  try:
    impl.verify(b)
    out["verify"] = True
  except Exception as e:  # pylint: disable=broad-except
    out["err"] = "verify %s: %s" % (type(e).__name__, str(e)[:300])
  try:
    t2 = impl.print(b)
    out["text2"] = t2
    out["fix"] = t2.rstrip("\n") == text.rstrip("\n")
  except Exception as e:  # pylint: disable=broad-except
    out["err"] = "print %s: %s" % (type(e).__name__, str(e)[:300])
  out["ok"] = out["parse"] and out["verify"] and out["fix"]
  return out


# ---- explaining a failed text fixed point by the known defects (line by line) ----

def _split_atoms(s):
  atoms, cur, q, i = [], "", None, 0
  while i < len(s):
    ch = s[i]
    if q:
      cur += ch
      if ch == "\\":
        cur += s[i + 1]
        i += 1
      elif ch == q:
        q = None
    elif ch in "'\"":
      q = ch
      cur += ch
    elif ch == ",":
      atoms.append(cur.strip())
      cur = ""
    else:
      cur += ch
    i += 1
  if cur.strip():
    atoms.append(cur.strip())
  return atoms


def collapse_literals(line):
  """What the reader's Literal handling does to a line: within one Literal[...], drop members that Python's ==
  identifies with an earlier one (True == 1, False == 0)."""
  out, i = "", 0
  while True:
    j = line.find("Literal[", i)
    if j < 0:
      return out + line[i:]
    k = j + len("Literal[")
    depth, q, m = 1, None, k
    while m < len(line) and depth:
      ch = line[m]
      if q:
        if ch == "\\":
          m += 1
        elif ch == q:
          q = None
      elif ch in "'\"":
        q = ch
      elif ch == "[":
        depth += 1
      elif ch == "]":
        depth -= 1
      m += 1
    inner = line[k:m - 1]
    seen, kept = [], []
    for a in _split_atoms(inner):
      key = {"True": 1, "False": 0}.get(a)
      if key is None:
        key = int(a) if re.fullmatch(r"-?\d+", a) else ("s", a)
      if key not in seen:
        seen.append(key)
        kept.append(a)
    out += line[i:k] + ", ".join(kept) + "]"
    i = m


def _split_top(s):
  """Splits a parameter list at top-level commas."""
  out, cur, depth, q = [], "", 0, None
  for i, ch in enumerate(s):
    if q:
      cur += ch
      if ch == q and s[i - 1] != "\\":
        q = None
    elif ch in "'\"":
      q = ch
      cur += ch
    elif ch in "[(":
      depth += 1
      cur += ch
    elif ch in "])":
      depth -= 1
      cur += ch
    elif ch == "," and depth == 0:
      out.append(cur.strip())
      cur = ""
    else:
      cur += ch
  if cur.strip():
    out.append(cur.strip())
  return out


def apply_self_mutation(lines):
  """What NameAndSig.from_function does to a def whose first parameter is `self: <subscripted annotation>`: the
  signature gets (or has replaced) the body line `self = <annotation>`."""
  out = []
  i = 0
  changed = False
  while i < len(lines):
    l = lines[i]
    m = re.match(r"^(\s*)def \w+\((.*)\) -> (.*):( \.\.\.)?$", l)
    if not m:
      out.append(l)
      i += 1
      continue
    indent = m.group(1)
    body = []
    j = i + 1
    if not m.group(4):
      while j < len(lines) and lines[j].startswith(indent + "    ") and lines[j].strip():
        body.append(lines[j])
        j += 1
    params = [x for x in _split_top(m.group(2)) if not x.startswith("*") and x != "/"]
    ann = None
    if params and params[0].startswith("self: "):
      ann = params[0][len("self: "):]
      if " = ..." in ann or "[" not in ann or ann.startswith(("Literal[", "Annotated[", "Any[")):
        ann = None
    if ann is None:
      out.append(l)
      out.extend(body)
    else:
      want = indent + "    self = " + ann
      nb = [want] + [x for x in body if not x.startswith(indent + "    self = ")]
      if nb != body:
        changed = True
      out.append(l[:-4] if m.group(4) else l)
      out.extend(nb)
    i = j
  return out, changed


def explain_diff(text, text2):
  """Returns (set of known fingerprints that together turn `text` into `text2`, unexplained hunks)."""
  a = text.rstrip("\n").split("\n")
  b = text2.rstrip("\n").split("\n")
  fps = set()
  cur = []
  for l in a:
    c = l
    if "[[nothing]," in c:
      c = c.replace("[[nothing],", "[[],")
      fps.add(FP_CALLABLE)
    c2 = collapse_literals(c)
    if c2 != c:
      c = c2
      fps.add(FP_LIT)
    cur.append(c)
  cur, ch = apply_self_mutation(cur)
  if ch:
    fps.add(FP_SELF)
  # a parameter printed `x: Any`: AnythingType is never printed on a parameter, so the type was a one-member union of
  # Any (printed as its member); the reader sees Any and the second printing leaves the annotation out
  cur2 = []
  for l in cur:
    if re.match(r"^\s*def \w+\(", l) and ": Any" in l:
      pd = _parse_def(l)
      if pd:
        ps = [re.sub(r"^(\*{0,2}\w+): Any( = \.\.\.)?$", r"\1\2", x) for x in pd[1]]
        if ps != pd[1]:
          fps.add(FP_SINGLE)
          l = re.match(r"^(\s*def \w+\()", l).group(1) + ", ".join(ps) + ") -> " + pd[2] + ":" + (" ..." if pd[3] else "")
    cur2.append(l)
  cur = cur2
  # an unused name in the `from typing import ...` line (left behind by an elided self/cls annotation)
  def imports(ls):
    for i, l in enumerate(ls):
      if l.startswith("from typing import "):
        return i, [x.strip() for x in l[len("from typing import "):].split(",")]
    return None, []
  ia, na = imports(cur)
  ib, nb = imports(b)
  if na != nb:
    rest = "\n".join(l for k, l in enumerate(cur) if k != ia)
    dropped = [x for x in na if x not in nb]
    if all(x in na for x in nb) and dropped and all(not re.search(r"\b%s\b" % re.escape(x), rest) for x in dropped):
      rest0 = "\n".join(l for l in a if not l.startswith("from typing import "))
      if any(not re.search(r"\b%s\b" % re.escape(x), rest0) for x in dropped):
        fps.add(FP_IMPORT)          # unused already in the emitted text
      if nb:
        cur[ia] = "from typing import " + ", ".join(nb)
      else:
        cur = [l for k, l in enumerate(cur) if k != ia]
        while cur and not cur[0].strip():
          cur.pop(0)
  if cur == b:
    return fps, []
  # functional-form TypedDict (keys that are not identifiers): X = TypedDict('X', {...}) is re-read as a generated class
  # typeddict_X_0 plus the alias X = typeddict_X_0, and every reference is renamed; each further round wraps once more
  tds = [m.group(1) for l in cur for m in [re.match(r"^(\w+) = TypedDict\('(\w+)', \{", l)] if m and m.group(1) == m.group(2)]
  if tds:
    cand = list(cur)
    for nm in tds:
      new_nm = "typeddict_%s_0" % nm
      cand = [re.sub(r"\b%s\b" % re.escape(nm), new_nm, l) for l in cand] + ["%s = %s" % (nm, new_nm)]
    def norm_lines(ls):
      out = []
      for l in ls:
        if not l.strip():
          continue
        if l.startswith("from typing import "):
          continue                               # the unused Literal import of total=... disappears as well
        out.append(l)
      return sorted(out)
    if norm_lines(cand) == norm_lines(b):
      return (fps - {FP_IMPORT}) | {FP_TYPEDDICT}, []     # the unused Literal import belongs to the dropped total=...
  # typing.Self: Definitions._adjust_self_var replaces Self by a TypeVar _Self<Class> bound to the class and annotates
  # the first parameter with it; the re-printed stub spells that out (and declares the TypeVar)
  if any(re.search(r"\bSelf\b", l) for l in cur) and any(re.match(r"^_Self\w+ = TypeVar\(", l) for l in b):
    cand, stack, tvs, prev = [], [], {}, ""
    for l in cur:
      mc = re.match(r"^(\s*)class (\w+)", l)
      if mc:
        while stack and stack[-1][0] >= len(mc.group(1)):
          stack.pop()
        stack.append((len(mc.group(1)), mc.group(2)))
      elif l.strip() and stack:
        ind = len(l) - len(l.lstrip())
        while stack and stack[-1][0] >= ind:
          stack.pop()
      pd = _parse_def(l) if stack else None
      if pd and pd[1] and (re.search(r"\bSelf\b", pd[2]) or any(re.search(r"\bSelf\b", x) for x in pd[1][1:])):
        qual = ".".join(n for _, n in stack)
        tv = "_Self" + qual.replace(".", "")
        tvs[tv] = qual
        ps = [re.sub(r"\bSelf\b", tv, x) for x in pd[1]]
        first = re.match(r"^(\w+)", ps[0]).group(1) if re.match(r"^\w+", ps[0]) else None
        if first:
          is_cm = prev.strip() == "@classmethod" or pd[0] == "__new__"
          ps[0] = "%s: %s" % (first, "type[%s]" % tv if is_cm else tv)
        l = re.match(r"^(\s*def \w+\()", l).group(1) + ", ".join(ps) + ") -> " + re.sub(r"\bSelf\b", tv, pd[2]) + ":" + \
            (" ..." if pd[3] else "")
      cand.append(l)
      if l.strip():
        prev = l
    cand += ["%s = TypeVar('%s', bound=%s)" % (tv, tv, q) for tv, q in tvs.items()]
    def norm_self(ls):
      return sorted(l for l in ls if l.strip() and not l.startswith("from typing import "))
    if norm_self(cand) == norm_self(b):
      return fps | {FP_SELFTYPE}, []
  unexplained = []
  sm = difflib.SequenceMatcher(None, cur, b, autojunk=False)
  for tag, i1, i2, j1, j2 in sm.get_opcodes():
    if tag != "equal":
      unexplained.append({"old": cur[i1:i2], "new": b[j1:j2]})
  return set(), unexplained


# ---- root-cause classification of differences that the known defects do not explain ----
# The fingerprints below form a small closed set: they name the declaration kind, the place and the kind of change,
# never the content, so that one root cause has one fingerprint under every seed.

def line_kind(l):
  s = l.strip()
  if not s:
    return "blank"
  if s.startswith(("from ", "import ")):
    return "import"
  if s.startswith("@"):
    return "decorator"
  if s.startswith("class "):
    return "class"
  if s.startswith("def "):
    return "def"
  if re.match(r"\w+ = (\w+\.)?TypeVar\(", s):
    return "typevar"
  if "TypedDict(" in s:
    return "typeddict"
  if re.match(r"[\w.]+ = ", s):
    return "mutation" if l.startswith("    ") and not re.match(r"\s+[A-Z]", l) else "alias"
  if re.match(r"[\w.]+: ", s):
    return "constant"
  return "other"


def type_change(a, b):
  ta = re.findall(r"[\w.]+|'[^']*'|\"[^\"]*\"|\S", a)
  tb = re.findall(r"[\w.]+|'[^']*'|\"[^\"]*\"|\S", b)
  ca, cb = collections.Counter(t for t in ta if t not in "[],"), collections.Counter(t for t in tb if t not in "[],")
  if ca == cb:
    return "reordered"
  if not (cb - ca):
    return "member-dropped"
  if not (ca - cb):
    return "member-added"
  return "rewritten"


def _parse_def(l):
  m = re.match(r"^\s*def (\w+)\((.*)\) -> (.*?):( \.\.\.)?$", l)
  if not m:
    return None
  return m.group(1), _split_top(m.group(2)), m.group(3), bool(m.group(4))


def _parse_param(p):
  m = re.match(r"^(\*{0,2})(\w*)(?:: (.*?))?( = \.\.\.)?$", p)
  if not m:
    return ("?", p, None, False)
  return (m.group(1), m.group(2), m.group(3), bool(m.group(4)))


def pair_causes(o, n):
  ko, kn = line_kind(o), line_kind(n)
  if ko != kn:
    return ["line-kind:%s->%s" % (ko, kn)]
  if ko == "def":
    po, pn = _parse_def(o), _parse_def(n)
    if not po or not pn:
      return ["def:unparsed"]
    out = []
    if po[0] != pn[0]:
      out.append("def:name")
    if len(po[1]) != len(pn[1]):
      out.append("def:param-count")
    else:
      for a, b in zip(po[1], pn[1]):
        if a == b:
          continue
        pa, pb = _parse_param(a), _parse_param(b)
        if pa[0] != pb[0] or (a in ("/", "*")) != (b in ("/", "*")):
          out.append("def:param-marker")
        elif pa[1] != pb[1]:
          out.append("def:param-name")
        elif pa[2] != pb[2]:
          if pb[2] is None:
            out.append("def:param-annotation-elided" + (":Any" if pa[2] == "Any" else ""))
          elif pa[2] is None:
            out.append("def:param-annotation-added")
          else:
            out.append("def:param-annotation:" + type_change(pa[2], pb[2]))
        elif pa[3] != pb[3]:
          out.append("def:param-default")
    if po[2] != pn[2]:
      out.append("def:return:" + type_change(po[2], pn[2]))
    if po[3] != pn[3]:
      out.append("def:body")
    return out or ["def:other"]
  if ko in ("constant", "alias", "mutation"):
    sep_ = ": " if ko == "constant" else " = "
    a, b = o.strip().split(sep_, 1), n.strip().split(sep_, 1)
    if a[0] != b[0]:
      return [ko + ":name"]
    return [ko + ":" + type_change(a[1], b[1])]
  return [ko + "-line"]


def diff_causes(unexplained):
  causes = []
  for h in unexplained:
    old = [l for l in h["old"] if l.strip()]
    new = [l for l in h["new"] if l.strip()]
    if len(old) == len(new):
      for o, n in zip(old, new):
        causes += pair_causes(o, n)
    else:
      sm = difflib.SequenceMatcher(None, old, new, autojunk=False)
      for tag, i1, i2, j1, j2 in sm.get_opcodes():
        if tag == "equal":
          continue
        if tag == "replace" and i2 - i1 == j2 - j1:
          for o, n in zip(old[i1:i2], new[j1:j2]):
            causes += pair_causes(o, n)
          continue
        causes += ["line-removed:" + line_kind(l) for l in old[i1:i2]]
        causes += ["line-added:" + line_kind(l) for l in new[j1:j2]]
    if not old and not new:
      causes.append("blank-lines")
  return sorted(set(causes)) or ["none"]


def err_cause(err):
  """The template of an error message: quoted text, numbers and the position lines removed."""
  first = (err or "").split(":", 1)[0].strip().split(" ")[-1]
  ms = re.findall(r"(?m)^\s*\w*(?:Error|Exception): (.*)$", err or "")
  msg = ms[-1] if ms else (err or "").strip().split("\n")[-1]
  msg = re.sub(r"'[^']*'|\"[^\"]*\"|`[^`]*`", "#", msg)
  msg = re.sub(r"\d+", "#", msg)
  msg = re.sub(r"\{[^}]*\}", "#", msg)
  words = re.findall(r"[A-Za-z#]+", msg)
  return (first + ":" + "-".join(words[:7]))[:80]


def decl_cause(path, a, b):
  last = path[-1]
  if isinstance(last, str):
    kind = ("param" if re.match(r"p\d+:", last) else "shape" if last.startswith("shape") else
            "mutation" if last.startswith("mut:") else {"*": "star", "**": "starstar"}.get(last, last))
  else:
    kind = str(path[-2]) if len(path) > 1 else "decl"
  shape = "%s->%s" % (a[0], b[0])
  if a[0] == "U" and b[0] == "U":
    d = len(b[1]) - len(a[1])
    shape += ":members" + ("-dropped" if d < 0 else "-added" if d > 0 else "-changed")
  return "%s:%s" % (kind, shape)


# ---- structural comparison of declarations (types by path) ----

def strip_mod(ids, t, mod):
  if not mod:
    return t
  pre = mod + "."
  k = t[0]
  def nm(i):
    s = ids.s(i)
    return ids.id(s[len(pre):]) if s.startswith(pre) else i
  if k == "N":
    return ("N", t[1], nm(t[2])) if t[1] == "p" else t
  if k in ("G", "Tu", "Ca"):
    b = (t[1][0], nm(t[1][1])) if t[1][0] == "p" else t[1]
    return (k, b, [strip_mod(ids, p, mod) for p in t[2]])
  if k == "U":
    return ("U", [strip_mod(ids, p, mod) for p in t[1]])
  if k == "An":
    return ("An", strip_mod(ids, t[1], mod), t[2])
  if k == "L" and t[1] == "e":
    return ("L", "e", nm(t[2]))
  return t


def type_map(impl, ids, ast):
  """path -> canonical model type for every declared type of the unit (resolution-insensitive view)."""
  pytd = impl.pytd
  mod = ast.name
  m = {}
  def conv(t):
    try:
      return strip_mod(ids, g.unqual(g.from_pytd(ids, t)), mod)
    except g.Unsupported as e:
      return ("?", str(e))
  def base(n):
    return n.split(".")[-1]
  def do_fn(prefix, f):
    for i, s in enumerate(f.signatures):
      for j, p in enumerate(s.params):
        m[prefix + (base(f.name), i, "p%d:%s" % (j, p.name))] = conv(p.type)
        # parameter kind and optionality, encoded as a pseudo type so that they take part in the comparison
        m[prefix + (base(f.name), i, "shape%d" % j)] = ("N", "p", ids.id("<%s,%s,%s>" % (p.name, p.kind.name, p.optional)))
        if p.mutated_type is not None:
          m[prefix + (base(f.name), i, "mut:" + p.name)] = conv(p.mutated_type)
      m[prefix + (base(f.name), i, "arity")] = ("N", "p", ids.id("<%d,%s,%s>" % (
          len(s.params), s.starargs.name if s.starargs else None, s.starstarargs.name if s.starstarargs else None)))
      if s.starargs:
        m[prefix + (base(f.name), i, "*")] = conv(s.starargs.type)
      if s.starstarargs:
        m[prefix + (base(f.name), i, "**")] = conv(s.starstarargs.type)
      m[prefix + (base(f.name), i, "ret")] = conv(s.return_type)
  def pseudo(x):
    return ("N", "p", ids.id("<%s>" % (x,)))
  def do_cls(prefix, c):
    pre = prefix + (base(c.name),)
    # layout-level facts of the class, encoded as pseudo types so that they take part in the structural comparison
    m[pre + ("slots",)] = pseudo(None if c.slots is None else list(c.slots))
    m[pre + ("decorators",)] = pseudo(sorted(base(d.name) for d in c.decorators))
    m[pre + ("keywords",)] = pseudo(sorted(k for k, _ in c.keywords))
    # flags through the is_* properties: MethodFlag.NONE is a real bit (enum.auto() == 1), output.py builds ABSTRACT
    # and the reader NONE|ABSTRACT, which differ as values but not as flags
    m[pre + ("members",)] = pseudo((sorted("%s:%s:%d%d%d" % (base(f.name), f.kind.name, f.is_abstract, f.is_final, f.is_coroutine)
                                           for f in c.methods),
                                    sorted(base(cc.name) for cc in c.classes)))
    for kw, v in c.keywords:
      if isinstance(v, pytd.Type):
        m[pre + ("keyword", kw)] = conv(v)
    for k in c.constants:
      m[pre + ("const", k.name)] = conv(k.type)
    for f in c.methods:
      do_fn(pre, f)
    for cc in c.classes:
      do_cls(pre, cc)
    for i, b in enumerate(c.bases):
      if isinstance(b, pytd.Type):
        m[pre + ("base", i)] = conv(b)
  for k in ast.constants:
    m[("const", base(k.name))] = conv(k.type)
  for f in ast.functions:
    do_fn((), f)
  for c in ast.classes:
    do_cls((), c)
  for a in ast.aliases:
    if isinstance(a.type, pytd.Type):
      m[("alias", base(a.name))] = conv(a.type)
  return m


def drop_compat(t):
  """Union members removed by the parameter-only rule of _FormSetTypeList (documented, by design)."""
  k = t[0]
  if k in ("G", "Tu", "Ca"):
    return (k, t[1], [drop_compat(p) for p in t[2]])
  if k == "An":
    return ("An", drop_compat(t[1]), t[2])
  if k == "U":
    ms = [drop_compat(p) for p in t[1]]
    ids_ = [m[2] if m[0] == "N" else None for m in ms]
    for a, b in g.COMPAT:
      if a in ids_ and b in ids_:
        ms = [m for m in ms if not (m[0] == "N" and m[2] == a)]
        ids_ = [m[2] if m[0] == "N" else None for m in ms]
    return ("U", ms)
  return t


def collapse_single(t):
  k = t[0]
  if k in ("G", "Tu", "Ca"):
    return (k, t[1], [collapse_single(p) for p in t[2]])
  if k == "An":
    return ("An", collapse_single(t[1]), t[2])
  if k == "U":
    ms = [collapse_single(p) for p in t[1]]
    return ms[0] if len(ms) == 1 else ("U", ms)
  return t


def dedup_lits(t):
  k = t[0]
  if k in ("G", "Tu", "Ca"):
    return (k, t[1], [dedup_lits(p) for p in t[2]])
  if k == "An":
    return ("An", dedup_lits(t[1]), t[2])
  if k == "U":
    out = []
    for m in (dedup_lits(p) for p in t[1]):
      if not any(g.struct_eq(m, x) for x in out):
        out.append(m)
    return ("U", out)
  return t


def callable_nothing(t):
  k = t[0]
  if k in ("G", "Tu", "Ca"):
    ps = [callable_nothing(p) for p in t[2]]
    if k == "Ca" and len(ps) == 2 and ps[0] == ("Z",):
      ps = ps[1:]
    return (k, t[1], ps)
  if k == "An":
    return ("An", callable_nothing(t[1]), t[2])
  if k == "U":
    return ("U", [callable_nothing(p) for p in t[1]])
  return t


NEVER = ("N", "t", 7)
ANY = ("A",)


def compare_decl(path, a, b):
  """a: type that was printed, b: type that was re-read.  Returns (equal, set of known fingerprints, by_design)."""
  if a[0] == "?" or b[0] == "?":
    return True, set(), False
  if g.struct_eq(a, b):
    return True, set(), False
  last = path[-1]
  is_param = isinstance(last, str) and (last.startswith("p") and ":" in last or last in ("*", "**"))
  # documented elisions that name resolution / the loader re-derive
  if isinstance(last, str) and last.startswith("p0:") and last[3:] in ("self", "cls") and b == ANY:
    return True, set(), True
  if last == "ret" and a == ("Z",) and b == NEVER:
    return True, set(), True
  if last in ("*", "**") and a[0] == "G" and a[2] and a[2][-1] == ANY and b[0] == "N":
    return True, set(), True
  fps = set()
  cur = a
  if is_param:
    c2 = drop_compat(cur)
    if c2 != cur:
      cur = c2
      fps.add(FP_COMPAT)
  for fn, fp in ((callable_nothing, FP_CALLABLE), (dedup_lits, FP_LIT), (collapse_single, FP_SINGLE)):
    c2 = fn(cur)
    if c2 != cur:
      if g.struct_eq(cur, b):
        break
      cur = c2
      fps.add(fp)
  if g.struct_eq(cur, b):
    return False, fps, False
  if last in ("*", "**") and cur[0] == "G" and b[0] == "G" and g.struct_eq(cur[2][-1], b[2][-1]):
    return False, fps, False
  return False, None, False


# ---------------------------------------------------------------------------------------------------
# model runner

class Model:
  def __init__(self, exe):
    self.exe = exe

  def run(self, lines):
    if not lines:
      return []
    p = subprocess.run([self.exe], input="\n".join(lines) + "\n", capture_output=True, text=True)
    if p.returncode != 0:
      raise common.BuildError("model driver failed: " + p.stderr[-2000:])
    out = p.stdout.split("\n")
    return out[:len(lines)]


def env_words(env):
  return [str(len(env))] + [str(e) for e in env]


# ---------------------------------------------------------------------------------------------------
# expression texts for the reader-only correspondence (not produced by the printer)

class ExprGen:
  """Random annotation texts in the syntax the reader accepts, including forms the printer never produces
  (nested Union/Optional, Literal with duplicates, None anywhere, too many Optional arguments)."""

  def __init__(self, r, tvars):
    self.r = r
    self.tvars = tvars
    self.names = ["int", "str", "float", "bool", "Foo", "Bar", "list", "dict", "object", "type", "Sequence", "Iterable",
                  "Callable", "tuple", "Any", "nothing", "Type"]
    self.lits = ["1", "0", "-1", "True", "False", "'a'", "b'x'", "''", "Color.RED", "None", "2"]

  def e(self, d):
    r = self.r
    if d <= 0 or r.random() < 0.25:
      k = r.random()
      if k < 0.15:
        return "None"
      if k < 0.25 and self.tvars:
        return r.choice(self.tvars)
      return r.choice(self.names)
    s = lambda: self.e(d - 1)
    k = r.random()
    if k < 0.15:
      return "Optional[%s]" % (s() if r.random() < 0.93 else s() + ", " + s())
    if k < 0.35:
      return "Union[%s]" % ", ".join(s() for _ in range(r.choice([1, 2, 2, 3, 4])))
    if k < 0.50:
      return "Literal[%s]" % ", ".join(r.choice(self.lits) for _ in range(r.choice([1, 2, 3, 4])))
    if k < 0.58:
      return "tuple[%s, ...]" % s()
    if k < 0.66:
      n = r.choice([0, 1, 2, 3])
      return "tuple[()]" if n == 0 else "tuple[%s]" % ", ".join(s() for _ in range(n))
    if k < 0.76:
      args = r.choice([[], ["nothing"], None, None])
      if args is None:
        args = [s() for _ in range(r.choice([1, 2, 3]))]
      return "Callable[[%s], %s]" % (", ".join(args), s())
    if k < 0.81:
      return "Callable[%s, %s]" % (r.choice(["...", "...", "Any", "int"]), s())
    if k < 0.86:
      return "Annotated[%s, %s]" % (s(), ", ".join(r.choice(["'property'", "'x'"]) for _ in range(r.choice([1, 2]))))
    if k < 0.90:
      return "type[%s]" % s()
    base = r.choice(["list", "Foo", "dict", "Sequence", "Bar", "set"])
    return "%s[%s]" % (base, ", ".join(s() for _ in range(r.choice([1, 1, 2]))))


# ---------------------------------------------------------------------------------------------------
# the check

def sigtext(text, fname="f"):
  ls = text.split("\n")
  k = [i for i, l in enumerate(ls) if l.strip().startswith("def %s(" % fname)][0]
  return textwrap.dedent("\n".join(ls[k:]))


def type_features(t):
  f = set()
  if g.feature_bool_int_clash(t):
    f.add(FP_LIT)
  if g.feature_callable_nothing(t):
    f.add(FP_CALLABLE)
  if g.feature_singleton_union(t):
    f.add(FP_SINGLE)
  return f


def sig_types(s):
  ps, star, sstar, ret = s
  out = [p[3] for p in ps] + [p[4] for p in ps if p[4] is not None] + [ret]
  for st in (star, sstar):
    if st is not None:
      out.append(st[1])
  return out


def pick_convention(r, t):
  """Rewrites a generated type into one naming convention: the one output.py emits (builtins.X, bool literals as
  constants) or the one the reader builds (X, Python bools)."""
  emitted = r.random() < 0.5
  def go(t):
    k = t[0]
    if k == "N":
      if t[1] == "t":
        return t
      return ("N", "b" if emitted and "." not in ids_global.s(t[2]) else "p", t[2])
    if k == "L" and t[1] == "b":
      return ("L", "b", emitted, t[3])
    if k in ("G", "Tu", "Ca"):
      b = t[1] if t[1][0] == "t" else ("b" if emitted and "." not in ids_global.s(t[1][1]) else "p", t[1][1])
      return (k, b, [go(p) for p in t[2]])
    if k == "U":
      return ("U", [go(p) for p in t[1]])
    if k == "An":
      return ("An", go(t[1]), t[2])
    return t
  return go(t)


ids_global = None


def run(res):
  global ids_global
  res.rule = (
      "(1) random pytd types (depth<=3: names in both naming conventions, Any, nothing, TypeVars, Literal values, generics, "
      "tuple[X, ...], tuple[()], heterogeneous tuples, Callable[..., R], Callable[[..], R], unions with None/literals/"
      "compat pairs, Annotated; every 4th case from an edge stream with one-member unions, Callable[[nothing], R], "
      "bool/int literal clashes) printed as a module constant; (2) random annotation texts in the reader's syntax that "
      "the printer never produces; (3) random signatures (positional-only, defaults, *args, keyword-only, **kwargs, "
      "self/cls in and out of a class, mutated parameters) printed as a function or method; (4) stubs emitted by "
      "io.generate_pyi for generated programs; (5) whole stubs built from (1)+(3) (constants, overloads, classes with "
      "bases/methods/nested classes, aliases, TypeVars); (6) DECLARATIONS AND UNITS against the Coq model of coq/Print/Decl.v: "
      "random units (TypeVars with constraints/bounds in any order, every 5th unit TypeVar-only with typing constructs that occur "
      "nowhere else; aliases; constants with and without `= ...`; functions with 1-3 signatures, explicit/duplicated decorators, "
      "final/abstract/coroutine flags, mutated parameters and raise lines; classes with object/Generic/Protocol/multiple bases, "
      "metaclass=/total= keywords, decorators, __slots__, nested classes to depth 2, Annotated property constants, methods of "
      "every kind incl. __new__/__init_subclass__/__init__): printed lines, re-read declarations, canonical form, re-printed "
      "lines and the re-read of the re-printed stub are each compared with the model. A case is non-trivial if its "
      "type/signature has a subscript or union, a unit if it has a class or function; distinct by its printed text.")
  res.assumptions = [
      "characters and Python's tokenizer/ast.parse are not modelled: the model works on tokens; the harness tokenises the real "
      "text with `tokenize` (dotted names and signed numbers merged) — exercised on every case",
      "the import block is modelled in coq/Print/Imports.v (counts, every recording/decrement site, module guess, rendering) except collision renaming (_NameCollision), `from typing import X as Y`, aliased imports that are a prefix of a used name, names resolving inside the unit; ParamSpec/Concatenate/TypeVar defaults, typing.Self, "
      "NamedTuple/TypedDict forms, aliases in class bodies, alias expansion through Definitions.type_map and _maybe_resolve_alias, "
      "last-definition-wins for repeated names, setter/deleter decorators, the dotted Outer.Inner spelling of an annotated self "
      "in nested classes, the substring heuristics of the printer (`Concatenate` in args) are outside the model; they are exercised "
      "only by the end-to-end fixed-point oracle on emitted and generated stubs (imports additionally by the direct oracle "
      "`every typing name used in a generated unit is imported by it`)",
      "declarations: the block structure (indentation -> suites) is CPython's tokenizer; the harness rebuilds it from the "
      "indentation of the real text; keywords are name tokens with reserved ids; the ids of TypeVar names are allocated in string "
      "order (the printer sorts the TypeVar lines as strings, the model by id); the string argument of TypeVar('T') is an opaque "
      "literal id (the reader's check name == literal is character level)",
      "extraction via ExtrOcamlBasic; generator, tokeniser and differ in harness/props/c05*.py",
      "class and module layout is in the Coq model (coq/Print/Decl.v) for the dialect above; NamedTuple/TypedDict classes, class "
      "aliases, typing.Self, ParamSpec go through the direct oracle only (emitted/generated stub parses, passes VerifyVisitor, is a "
      "fixed point of parse-then-print, declarations structurally equal incl. slots/decorators/keywords/method kinds and flags)",
  ]
  phase = {}
  tp = time.time()
  common.coq_obligations(res, "C05")
  phase["coq"] = round(time.time() - tp, 1); tp = time.time()
  common.bootstrap_pytype()
  exe = common.build_extracted("print", "Extract/ExtractPrint.v",
                               os.path.join(common.VERIF, "harness", "ocaml", "print_driver.ml"), ["print_model"])
  res.trusted_base += ["Coq extraction (ExtrOcamlBasic only) + OCaml ocamlopt + harness/ocaml/print_driver.ml",
                       "CPython's tokenize/ast.parse (the stub reader's front end)"]
  phase["extract+bootstrap"] = round(time.time() - tp, 1); tp = time.time()
  exe_decl = common.build_extracted("decl", "Extract/ExtractDecl.v",
                                    os.path.join(common.VERIF, "harness", "ocaml", "decl_driver.ml"), ["decl_model"])
  res.trusted_base += ["harness/ocaml/decl_driver.ml + harness/props/c05_decl.py (statement trees from indentation, id table)"]
  model = Model(exe)
  model_decl = Model(exe_decl)
  impl = Impl()
  pytd = impl.pytd
  thorough = res.tier == "thorough"
  ids = g.Ids()
  ids_global = ids
  r = common.rng(res.seed, "c05")
  gen = g.Gen(r, ids)
  for x in sorted(gen.tvars):          # ids of TypeVar names in string order (coq/Print/Decl.v sort_tps)
    ids.id(x)
  tvars = gen.tvars
  env = [ids.id(x) for x in tvars]
  hist = collections.Counter()
  mism = []            # correspondence disagreements (first few kept)
  n_mism = 0
  viol_budget = [8]          # distinct fingerprints reported per run

  reported = set()

  def report(fp, what, replay):
    if fp in reported and fp not in res.known:
      return                                   # one replay per fingerprint
    reported.add(fp)
    if fp in res.known or viol_budget[0] > 0:
      if res.violation(fp, what, replay) and fp not in res.known:
        viol_budget[0] -= 1

  def unknown_violation(kind, what, replay):
    # `kind` is a root-cause fingerprint (declaration kind / place / kind of change), never a hash of the content
    report(kind, what, replay)

  def disagree(kind, detail):
    nonlocal n_mism
    n_mism += 1
    if len(mism) < 5 or (kind.startswith(("unit-", "decl-")) and len(mism) < 9):
      mism.append("%s: %s" % (kind, detail[:600]))

  # ---------------- corpus first ----------------
  cdir = os.path.join(common.CORPUS, "C05")
  corpus = []
  for f in sorted(os.listdir(cdir)) if os.path.isdir(cdir) else []:
    corpus.append((f, json.load(open(os.path.join(cdir, f)))))
  corpus_crashes = []
  for name, c in corpus:
    # an entry that reproduces a finding is exercised once that finding is listed (before that it would only repeat
    # the proposal as a VIOLATION on every run)
    if c.get("requires_known") and c["requires_known"] not in res.known:
      hist["corpus:skipped-until-listed"] += 1
      continue
    if c.get("kind") == "stub":
      check_stub_text(res, impl, ids, c["text"], "corpus:" + name, hist, report, unknown_violation)
    elif c.get("kind") == "program":
      from pytype import config as _config, io as _io
      try:
        _, pyi = _io.generate_pyi(c["program"], _config.Options.create(python_version=PYVER))
      except Exception as e:  # pylint: disable=broad-except
        hist["corpus:pytype-crash:" + type(e).__name__] += 1
        if type(e).__name__ != "UsageError":
          # every corpus program is one for which the unchanged tree emits a stub: no stub at all is the property's
          # first clause failing (the exception and the program are the replay)
          corpus_crashes.append((name, "%s: %s" % (type(e).__name__, str(e)[:300]), c["program"]))
        continue
      check_stub_text(res, impl, ids, pyi, {"program": c["program"]}, hist, report, unknown_violation)
  for name, what, prog in corpus_crashes[:2]:
    res.violation("no-stub-emitted:corpus:" + name, "pytype emits no stub for corpus program %s: %s" % (name, what),
                  {"program": prog})

  # ---------------- (1) types ----------------
  n_ty = 12000 if thorough else 1500
  cases = []
  for i in range(n_ty):
    edge = i % 4 == 0
    t = pick_convention(r, gen.ty(3, env, edge))
    try:
      a = g.to_pytd(ids, t)
    except AssertionError:
      continue
    cases.append((g.from_pytd(ids, a), a))
  lines = [" ".join(["T", "0", "-"] + env_words(env) + g.ser_ty(t, [])) for t, _ in cases]
  t0 = time.time()
  outs = model.run(lines)
  for (t, a), mo in zip(cases, outs):
    if mo.startswith("ERROR"):
      disagree("model-error", mo + " " + repr(t))
      continue
    mtoks, mparse, mnorm, flags, mtoks2, meq = [p.strip() for p in mo.split("|")]
    wf, stb, eqs, ver = flags.split()
    unit = impl.unit(tvars, constants=(pytd.Constant("x0", a),))
    try:
      text = impl.print(unit)
    except Exception as e:  # pylint: disable=broad-except
      disagree("print-exception", "%r %r" % (e, t))
      continue
    last = text.split("\n")[-1]
    rtoks = " ".join(g.tokenise(ids, last)[2:])
    nontrivial = any(x[0] in ("G", "Tu", "Ca", "U", "An") for x in g.subterms(t))
    res.count(last if nontrivial else None)
    hist["type:" + t[0]] += 1
    if len(res.samples) < 2 and t[0] == "U" and len(last) < 120:
      res.sample({"type_printed": last, "model_tokens": mtoks})
    if rtoks != mtoks:
      disagree("tokens", "real=%s model=%s t=%r" % (last, mtoks, t))
    o = oracle_text(impl, text)
    try:
      tb = g.from_pytd(ids, o["ast"].constants[0].type) if o["parse"] else None
    except g.Unsupported:
      tb = "?"
    mp = g.parse_ty_words(mparse)
    if tb != mp and rtoks == mtoks:
      disagree("parse", "text=%s real=%r model=%r" % (last, tb, mp))
    if wf == "1":
      hist["wf"] += 1
      if g.parse_ty_words(mnorm) != mp:
        disagree("norm", "text=%s parse=%r norm=%r" % (last, mp, g.parse_ty_words(mnorm)))
      if ver != "1":
        disagree("verify-model", last)
      # the model's fixed-point prediction against the implementation (monitors the hypotheses of the _partial theorems)
      if o["parse"] and o["text2"] is not None and (mtoks2 == mtoks) != o["fix"]:
        disagree("fixpoint-prediction", "text=%s real_fix=%s model_fix=%s" % (last, o["fix"], mtoks2 == mtoks))
      if stb == "1" and mtoks2 != mtoks:
        disagree("stable-not-sufficient", last)
      if stb == "1" and eqs == "1" and meq != "1":
        disagree("eq_stable-not-sufficient", last)
      hist["stable" if stb == "1" else "unstable"] += 1
    # ---- direct oracle on the implementation ----
    if not o["parse"]:
      if wf == "1":
        unknown_violation("stub-does-not-parse:" + err_cause(o["err"]), "a printed dialect type is rejected by the reader: " + str(o["err"]),
                          {"kind": "stub", "text": text})
      continue
    feats = type_features(t)
    if not o["verify"]:
      unknown_violation("stub-verify:" + err_cause(o["err"]), "VerifyVisitor rejects the re-read stub: " + str(o["err"]), {"kind": "stub", "text": text})
    if not o["fix"]:
      fps, unexpl = explain_diff(text, o["text2"] or "")
      if unexpl or not fps:
        for cause in diff_causes(unexpl)[:2]:
          unknown_violation("stub-diff:" + cause, "re-printing the re-read stub changes it", {"kind": "stub", "text": text, "reprinted": o["text2"]})
      for fp in fps:
        report(fp, "re-printing the re-read stub changes it", {"kind": "stub", "text": text, "reprinted": o["text2"]})
    if tb not in (None, "?"):
      eq, fps, _ = compare_decl(("const", "x0"), g.unqual(t), tb)
      if not eq:
        if fps is None:
          unknown_violation("decl-diff:" + decl_cause(("const", "x0"), g.unqual(t), tb), "re-read type differs structurally from the printed one",
                            {"kind": "stub", "text": text, "printed": repr(g.unqual(t)), "reread": repr(tb)})
        else:
          for fp in fps:
            report(fp, "re-read type differs structurally from the printed one", {"kind": "stub", "text": text})
      else:
        # pytd's own == on the same pair (hash-order sensitive inside frozenset comparison)
        try:
          same = g.to_pytd(ids, g.unqual(t)) == o["ast"].constants[0].type
        except Exception:  # pylint: disable=broad-except
          same = True
        if not same:
          hist["pytd-eq-false-but-structurally-equal"] += 1
          report(FP_EQHASH, "pytd == says the re-read type differs although every member is pairwise ==",
                 {"kind": "stub", "text": text})
  phase["types"] = round(time.time() - tp, 1); tp = time.time()
  res.extra["type_cases"] = len(cases)

  # ---------------- (2) reader-only texts ----------------
  n_ex = 6000 if thorough else 800
  eg = ExprGen(r, tvars)
  texts = ["Union[list[Union[int, str]], list[Union[str, int]]]", "Union[list[Optional[int]], list[Union[None, int]], str]",
           "Optional[Optional[int]]", "Union[int, Union[str, Union[None, int]]]", "Literal[1, True, 0, False, 1]",
           "Union[Literal[1], Literal[True], None]", "Callable[[nothing], int]", "Callable[[], int]", "tuple[()]",
           "tuple[int, ...]", "tuple[int]", "Optional[int, str]", "Union[int]", "Literal[None, 1]", "Callable[Any, int]",
           "Annotated[int, 'x']", "type[Foo]", "Type[Foo]"]
  texts += [eg.e(3) for _ in range(n_ex)]
  header = "from typing import Annotated, Any, Callable, Iterable, Literal, Optional, Sequence, Type, Union, TypeVar\n" + \
           "".join("%s = TypeVar('%s')\n" % (v, v) for v in tvars)
  lines = []
  for s in texts:
    lines.append(" ".join(["X"] + env_words(env) + g.tokenise(ids, s)))
  outs = model.run(lines)
  n_rej = 0
  for s, mo in zip(texts, outs):
    try:
      b = impl.parse(header + "x0: " + s + "\n")
      tb = g.from_pytd(ids, [c for c in b.constants if c.name == "x0"][0].type)
    except g.Unsupported:
      continue
    except Exception:  # pylint: disable=broad-except
      tb = None
    mp = g.parse_ty_words(mo)
    res.count(("expr", s))
    if tb is None:
      n_rej += 1
    if tb != mp:
      disagree("reader", "text=%s real=%r model=%r" % (s, tb, mp))
  res.extra["reader_texts"] = {"cases": len(texts), "rejected_by_both": n_rej}
  phase["reader"] = round(time.time() - tp, 1); tp = time.time()

  # ---------------- (3) signatures ----------------
  n_sig = 8000 if thorough else 900
  K = ids.id("K")
  scases = []
  for i in range(n_sig):
    edge = i % 4 == 0
    cls = K if i % 2 else None
    s = gen.sig(env, cls, edge)
    try:
      a = g.sig_to_pytd(ids, s)
    except AssertionError:
      continue
    scases.append((cls, g.sig_from_pytd(ids, a), a))
  lines = [" ".join(["S", "-" if cls is None else str(cls)] + env_words(env) + g.ser_sig(s, [])) for cls, s, _ in scases]
  outs = model.run(lines)
  for (cls, s, a), mo in zip(scases, outs):
    if mo.startswith("ERROR"):
      disagree("model-error", mo)
      continue
    mtoks, mparse, mnorm, mtoks2, flags = [p.strip() for p in mo.split("|")]
    wf, stb = flags.split()
    f = pytd.Function("f", (a,), pytd.MethodKind.METHOD)
    if cls is None:
      unit = impl.unit(tvars, functions=(f,))
    else:
      c = pytd.Class(name="K", keywords=(), bases=(), methods=(f,), constants=(), classes=(), decorators=(),
                     slots=None, template=())
      unit = impl.unit(tvars, classes=(c,))
    try:
      text = impl.print(unit)
    except Exception as e:  # pylint: disable=broad-except
      disagree("print-exception", "%r %r" % (e, s))
      continue
    st = sigtext(text)
    rtoks = " ".join(g.tokenise(ids, st)[2:])
    res.count(("sig", st))
    hist["sig:params=%d" % min(len(s[0]), 4)] += 1
    if len(res.samples) < 4 and len(st) < 140 and (s[1] or s[2]):
      res.sample({"signature_printed": st})
    if rtoks != mtoks:
      disagree("sig-tokens", "real=%s model=%s" % (st, mtoks))
      continue
    # names of typing members that occur only in a `x = T` mutation line are not imported by the printer (the line is
    # printed by a copy of the visitor whose import bookkeeping is thrown away): the reader then sees an unknown name
    imp = [l for l in text.split("\n") if l.startswith("from typing import ")]
    imported = set(x.strip() for x in imp[0][len("from typing import "):].split(",")) if imp else set()
    body_names = set()
    for l in st.split("\n")[1:]:
      body_names |= set(re.findall(r"[A-Za-z_]\w*", l.split("=", 1)[-1]))
    missing = sorted(n for n in body_names if n in ids.s2i and g.is_typing_id(ids.s2i[n]) and n not in imported)
    if missing:
      hist["sig:mutation-import-missing"] += 1
      report(FP_MUTIMPORT, "typing names used only in a mutated-parameter type are missing from the import line: %s" % missing,
             {"kind": "stub", "text": text})
      continue
    o = oracle_text(impl, text)
    sb = None
    if o["parse"]:
      try:
        fb = o["ast"].functions[0] if cls is None else o["ast"].classes[0].methods[0]
        sb = g.sig_from_pytd(ids, fb.signatures[0])
      except g.Unsupported:
        sb = "?"
    mp = g.parse_sig_words(mparse)
    if sb != mp:
      disagree("sig-parse", "text=%s real=%r model=%r err=%s" % (st, sb, mp, o["err"]))
      continue
    if wf == "1":
      hist["sig-wf"] += 1
      if g.parse_sig_words(mnorm) != mp:
        disagree("sig-norm", st)
      if o["parse"] and o["text2"] is not None:
        real_fix = sigtext(o["text2"]) == st
        if real_fix != (mtoks2 == mtoks):
          disagree("sig-fixpoint-prediction", "text=%s real=%s model=%s" % (st, real_fix, mtoks2 == mtoks))
        if stb == "1" and not real_fix:
          disagree("stable_sig-not-sufficient", st)
    # direct oracle
    if not o["parse"]:
      if wf == "1":
        unknown_violation("stub-does-not-parse:" + err_cause(o["err"]), "a printed dialect signature is rejected: " + str(o["err"]), {"kind": "stub", "text": text})
      continue
    if not o["verify"]:
      unknown_violation("stub-verify:" + err_cause(o["err"]), "VerifyVisitor rejects the re-read stub", {"kind": "stub", "text": text})
    if not o["fix"]:
      fps, unexpl = explain_diff(text, o["text2"] or "")
      single_any = any(x == ("U", [("A",)]) for t in sig_types(s) for x in g.subterms(t))
      if single_any:
        fps = fps | {FP_SINGLE}
        unexpl = []
      if unexpl or not fps:
        for cause in diff_causes(unexpl)[:2]:
          unknown_violation("stub-diff:" + cause, "re-printing the re-read stub changes it", {"kind": "stub", "text": text, "reprinted": o["text2"]})
      for fp in fps:
        report(fp, "re-printing the re-read stub changes it", {"kind": "stub", "text": text, "reprinted": o["text2"]})
  res.extra["sig_cases"] = len(scases)
  phase["sigs"] = round(time.time() - tp, 1); tp = time.time()

  res.obligation("correspondence:model-vs-printer-and-reader", n_mism == 0,
                 "%d disagreements; first: %s" % (n_mism, " || ".join(mism)))

  # ---------------- (6) declarations and whole units against coq/Print/Decl.v ----------------
  n_before = n_mism
  mism_before = len(mism)
  rd = common.rng(res.seed, "c05decl")
  decl_fixed = c05_decl.probe_fixed(impl)
  res.extra["decl_variant"] = "fixed" if decl_fixed else "as-written"
  dg = c05_decl.DeclGen(rd, ids, g.Gen(rd, ids), tvars, res.known, decl_fixed)
  n_units, n_wf_units = c05_decl.check_units(res, model_decl, impl, ids, dg, 2500 if thorough else 260, hist, report,
                                             unknown_violation, disagree, (oracle_text, explain_diff, diff_causes, err_cause))
  res.extra["decl_units"] = {"cases": n_units, "wf": n_wf_units}
  res.obligation("correspondence:declarations-and-units-vs-printer-and-reader", n_mism == n_before,
                 "%d disagreements; first: %s" % (n_mism - n_before, " || ".join(mism[mism_before:])))
  phase["decl-units"] = round(time.time() - tp, 1); tp = time.time()

  # ---------------- (6b) the import block against coq/Print/Imports.v ----------------
  n_before = n_mism
  mism_before = len(mism)
  ri = common.rng(res.seed, "c05imp")
  n_imp, n_imp_exact = c05_imports.check_imports(res, model_decl, impl, ids, ri, g.Gen(ri, ids), tvars, 3000 if thorough else 320,
                                                 hist, report, unknown_violation, disagree, decl_fixed)
  n_guard = c05_imports.check_reader_guard(res, model_decl, impl, ids, ri, g.Gen(ri, ids), tvars, 300 if thorough else 40,
                                           hist, disagree, decl_fixed)
  res.extra["import_block"] = {"cases": n_imp, "block_equal": n_imp_exact, "reader_guard_cases": n_guard}
  res.obligation("correspondence:import-block-vs-printer-and-reader", n_mism == n_before and n_imp > 0,
                 "%d disagreements in %d units; first: %s" % (n_mism - n_before, n_imp, " || ".join(mism[mism_before:])))
  phase["import-block"] = round(time.time() - tp, 1); tp = time.time()

  # ---------------- (4) stubs emitted for generated programs ----------------
  from pytype import config, io, load_pytd, utils
  n_prog = 400 if thorough else 36
  opts = config.Options.create(python_version=PYVER)
  loader = load_pytd.create_loader(opts)
  n_emitted = n_crash = 0
  t0 = time.process_time()   # CPU time of this process: coverage must not depend on machine load
  budget = 600 if thorough else 30
  for i in range(n_prog):
    if time.process_time() - t0 > budget:
      break
    pr = common.rng(res.seed, "c05prog", i)
    src = c05_prog.gen_program(pr, allow_self=FP_SELFTYPE in res.known)
    try:
      ret, pyi = io.generate_pyi(src, opts, loader)
    except utils.UsageError:
      hist["prog:not-explorable"] += 1
      continue
    except Exception as e:  # pylint: disable=broad-except
      n_crash += 1
      hist["prog:pytype-crash:" + type(e).__name__] += 1
      continue
    n_emitted += 1
    res.count(("stub", pyi))
    check_stub_text(res, impl, ids, pyi, {"program": src}, hist, report, unknown_violation, printed_ast=ret.ast)
  phase["programs"] = round(time.time() - tp, 1); tp = time.time()
  res.extra["program_stream"] = {"generated": i + 1, "stubs_emitted": n_emitted, "pytype_crashed_before_emitting": n_crash,
                           "wall_s": round(time.process_time() - t0, 1)}

  # ---------------- (5) whole stubs in the emitted dialect, built independently of any program ----------------
  n_stub = 1500 if thorough else 150
  for i in range(n_stub):
    unit = build_stub(r, gen, impl, ids, tvars, env)
    if unit is None:
      continue
    try:
      text = impl.print(unit)
    except Exception:  # pylint: disable=broad-except
      hist["stub:print-exception"] += 1
      continue
    res.count(("stub", text))
    check_stub_text(res, impl, ids, text, "generated-stub", hist, report, unknown_violation, printed_ast=unit)
  res.extra["generated_stubs"] = n_stub
  phase["stubs"] = round(time.time() - tp, 1)
  res.extra["phase_s"] = phase
  res.extra["histogram"] = dict(sorted(hist.items()))
  if thorough:
    ok, out = common_coqchk("C05")
    res.obligation("coqchk", ok, out[-1500:])
  return "proof"


def shrink_stub(impl, text, budget_s=15.0, mode="fix"):
  """Greedy removal of declarations (then of single class members) while the stub still parses and still is not a
  fixed point of parse-then-print.  Time-bounded."""
  deadline = time.time() + budget_s
  def noimp(t):
    return [l for l in t.rstrip("\n").split("\n") if l.strip() and not l.startswith(("from ", "import "))]
  target = err_cause(oracle_text(impl, text)["err"]) if mode == "parse" else None
  def bad(t):
    o = oracle_text(impl, t)
    if mode == "parse":
      return not o["parse"] and err_cause(o["err"]) == target
    return o["parse"] and o["text2"] is not None and noimp(o["text2"]) != noimp(t)
  lines = text.rstrip("\n").split("\n")
  def blocks(ls):
    out = []
    for l in ls:
      if l and not l.startswith((" ", "\t")) or not out:
        out.append([l])
      else:
        out[-1].append(l)
    return out
  bl = blocks(lines)
  changed = True
  while changed and time.time() < deadline:
    changed = False
    for i in range(len(bl) - 1, -1, -1):
      if time.time() > deadline:
        break
      if bl[i][0].startswith(("from ", "import ")) or " = TypeVar(" in bl[i][0]:
        continue
      cand = bl[:i] + bl[i + 1:]
      t = "\n".join("\n".join(b) for b in cand)
      try:
        if cand and bad(t):
          bl = cand
          changed = True
      except Exception:  # pylint: disable=broad-except
        pass
  # members of the remaining classes
  for bi in range(len(bl)):
    b = bl[bi]
    if not b[0].startswith("class "):
      continue
    j = len(b) - 1
    while j >= 1 and time.time() < deadline:
      cand_b = b[:j] + b[j + 1:]
      if len(cand_b) > 1:
        t = "\n".join("\n".join(x) for x in (bl[:bi] + [cand_b] + bl[bi + 1:]))
        try:
          if bad(t):
            b = cand_b
            bl[bi] = b
        except Exception:  # pylint: disable=broad-except
          pass
      j -= 1
  return "\n".join("\n".join(b) for b in bl) + "\n"


def check_stub_text(res, impl, ids, text, origin, hist, report, unknown_violation, printed_ast=None):
  """The direct oracle on one stub."""
  o = oracle_text(impl, text)
  replay = {"kind": "stub", "text": text}
  if isinstance(origin, dict):
    replay.update(origin)
  if not o["parse"]:
    # VisitCallableType tests `"Concatenate" in node.args[0]` on the printed string: a first argument whose NAME contains
    # Concatenate is printed without the argument brackets, Callable[ConcatenateJob, int, str], which the reader rejects
    if "parameters to Callable" in str(o["err"]) and re.search(r"Callable\[[\w.]*Concatenate[\w.]*(\[[^\]]*\])?, ", text):
      report(FP_CONCAT, "the emitted stub is rejected by pytype's own reader: " + str(o["err"]).strip().split("\n")[-1], replay)
    else:
      cause = err_cause(o["err"])
      if len(res.violations) < 3:
        try:
          small = shrink_stub(impl, text, mode="parse")
          if small.strip() and small.strip() != text.strip():
            replay = dict(replay, shrunk_from=text, text=small)
            replay.pop("program", None)
        except Exception:  # pylint: disable=broad-except
          pass
      unknown_violation("stub-does-not-parse:" + cause,
                        "the emitted stub is rejected by pytype's own reader: " + str(o["err"]), replay)
    return
  if not o["verify"]:
    unknown_violation("stub-verify:" + err_cause(o["err"]), "VerifyVisitor rejects the re-read stub: " + str(o["err"]), replay)
  if not o["fix"]:
    hist["stub:not-fixpoint"] += 1
    fps, unexpl = explain_diff(text, o["text2"] or "")
    replay2 = dict(replay, reprinted=o["text2"])
    if unexpl or not fps:
      replay2["unexplained"] = unexpl[:3]
      if len(res.violations) < 3:
        try:
          small = shrink_stub(impl, text)
          fps_s, unexpl_s = explain_diff(small, oracle_text(impl, small)["text2"] or "")
          if unexpl_s or not fps_s:          # the shrunk stub still shows an unexplained difference
            replay2["shrunk_from"] = replay2.pop("text")
            replay2["text"] = small
            replay2.pop("program", None)
            if unexpl_s:
              replay2["unexplained"] = unexpl_s[:3]
        except Exception:  # pylint: disable=broad-except
          pass
      for cause in diff_causes(replay2.get("unexplained") or unexpl)[:2]:
        unknown_violation("stub-diff:" + cause, "re-printing the re-read stub changes it: %r" % (unexpl[:1],), replay2)
    for fp in fps:
      report(fp, "re-printing the re-read stub changes it", replay2)
  else:
    hist["stub:fixpoint"] += 1
    # second generation: parse(print(parse(text))) is structurally equal to parse(text)
    try:
      b2 = impl.parse(o["text2"])
      if not impl.pytd_utils.ASTeq(o["ast"], b2):
        # pytd.Class.__eq__ also compares the _name2item lookup cache, which printing fills (LookupItemRecursive on a
        # dotted reference to a nested class): the printed AST is then != an identical, freshly parsed one
        if impl.pytd_utils.ASTeq(impl.parse(text), b2):
          hist["stub:asteq-false-by-lookup-cache"] += 1
          report(FP_CLASSEQ, "ASTeq(parse(text), parse(print(parse(text)))) is false only because printing filled "
                 "Class._name2item", replay)
        else:
          unknown_violation("stub-asteq", "ASTeq(parse(text), parse(print(parse(text)))) is false", replay)
    except Exception as e:  # pylint: disable=broad-except
      unknown_violation("stub-reparse:" + err_cause("%s: %s" % (type(e).__name__, e)), "re-printed stub does not parse: %r" % (e,), replay)
  if printed_ast is not None:
    try:
      a0 = printed_ast.Visit(impl.visitors.ClassTypeToNamedType())
    except Exception:  # pylint: disable=broad-except
      a0 = printed_ast
    ma = type_map(impl, ids, a0)
    mb = type_map(impl, ids, o["ast"])
    # signatures that mention typing.Self: the reader replaces Self by its own TypeVar and annotates self/cls
    def has_self(t):
      return any(x[0] == "V" and ids.s(x[1]).split(".")[-1] == "Self" for x in g.subterms(t)) if t[0] != "?" else False
    self_sigs = {path[:-1] for path, t in ma.items() if has_self(t)}
    for path in ma:
      if path not in mb:
        hist["decl:only-in-printed"] += 1
        continue
      eq, fps, by_design = compare_decl(path, ma[path], mb[path])
      if not eq and path[:-1] in self_sigs:
        hist["decl:different"] += 1
        report(FP_SELFTYPE, "declaration re-read with the reader's _Self TypeVar instead of typing.Self", dict(replay, path=repr(path)))
        continue
      if eq:
        hist["decl:by-design-elision" if by_design else "decl:equal"] += 1
        continue
      hist["decl:different"] += 1
      if fps is None:
        def show(t):
          return ids.s(t[2]) if t[0] == "N" and ids.s(t[2]).startswith("<") else repr(t)
        unknown_violation("decl-diff:" + decl_cause(path, ma[path], mb[path]), "declaration %r re-read with a different type" % (path,),
                          dict(replay, path=repr(path), printed=show(ma[path]), reread=show(mb[path])))
      else:
        for fp in fps:
          report(fp, "declaration re-read with a different type", dict(replay, path=repr(path)))


def build_stub(r, gen, impl, ids, tvars, env):
  """A TypeDeclUnit in the reader's conventions: constants, functions (1-2 signatures), classes (bases, methods of
  every kind, Annotated property constants, nested class), aliases, TypeVars."""
  pytd = impl.pytd
  def clean(t):
    # stay inside the emitted dialect: what a union of duplicates collapses to at construction (through pytd and
    # back), and no one-member unions (JoinTypes never builds one; they are the C11-rooted finding of streams 1 and 3)
    t = conv_p(t)
    try:
      t = g.from_pytd(ids, g.to_pytd(ids, t))
    except AssertionError:
      pass
    return collapse_single(t)
  def ty(d=2):
    return clean(gen.ty(d, env))
  def conv_p(t):
    # reader convention
    k = t[0]
    if k == "N":
      return ("N", "p" if t[1] == "b" else t[1], t[2])
    if k == "L" and t[1] == "b":
      return ("L", "b", False, t[3])
    if k in ("G", "Tu", "Ca"):
      return (k, ("p" if t[1][0] == "b" else t[1][0], t[1][1]), [conv_p(p) for p in t[2]])
    if k == "U":
      return ("U", [conv_p(p) for p in t[1]])
    if k == "An":
      return ("An", conv_p(t[1]), t[2])
    return t
  def sig(cls=None, first=None):
    s = gen.sig(env, cls)
    ps, star, sstar, ret = s
    ps = [(nm, kind, opt, clean(t), None) for (nm, kind, opt, t, mut) in ps if ids.s(nm) not in ("self", "cls")]
    if first:
      kind0 = 0 if ps and ps[0][1] == 0 else 1
      ps = [(ids.id(first), kind0, 0, ("A",), None)] + ps
    star = None if star is None else (star[0], clean(star[1]))
    sstar = None if sstar is None else (sstar[0], clean(sstar[1]))
    return g.sig_to_pytd(ids, (ps, star, sstar, clean(ret)))
  n = [0]
  def fresh(p):
    n[0] += 1
    return "%s%d" % (p, n[0])
  def func(cls=None, kind=None):
    kind = kind or pytd.MethodKind.METHOD
    first = None
    if cls is not None:
      first = {pytd.MethodKind.METHOD: "self", pytd.MethodKind.CLASSMETHOD: "cls"}.get(kind)
    sigs = tuple(sig(cls, first) for _ in range(r.choice([1, 1, 1, 2])))
    return pytd.Function(fresh("f"), sigs, kind)
  need_meta = [False]
  def klass(depth=0):
    name = fresh("C")
    bases = []
    keywords = []
    k = r.random()
    if k < 0.15:
      bases.append(pytd.GenericType(pytd.NamedType("typing.Generic"), (pytd.TypeParameter(r.choice(tvars)),)))
    elif k < 0.25:
      tv = r.sample(tvars, 2)
      bases.append(pytd.GenericType(pytd.NamedType("typing.Generic"), tuple(pytd.TypeParameter(t) for t in tv)))
    elif k < 0.33:
      bases.append(pytd.GenericType(pytd.NamedType("typing.Generic"), (pytd.TypeParameter(r.choice(tvars)),)))
      bases.append(pytd.NamedType("typing.Protocol"))
    elif k < 0.55:
      bases.append(g.to_pytd(ids, ("G", ("p", ids.id("list")), [("N", "p", 10)])))
    elif k < 0.62:
      bases.append(pytd.NamedType("Foo"))
      bases.append(pytd.NamedType("Bar"))
    if r.random() < 0.12:
      keywords.append(("metaclass", pytd.NamedType("Meta")))
      need_meta[0] = True
    decorators = ()
    if r.random() < 0.15:
      decorators = (pytd.Alias("final", pytd.NamedType("typing.final")),)
    # __slots__: absent, empty, one, several
    slots = r.choice([None, None, None, None, None, (), (), ("x",), ("a", "b", "c")])
    shape = r.random()
    methods, consts, classes = [], [], ()
    if shape < 0.12:
      pass                                   # nothing but the header (and possibly __slots__)
    else:
      for _ in range(r.choice([0, 1, 2, 3])):
        kind = r.choice([pytd.MethodKind.METHOD, pytd.MethodKind.METHOD, pytd.MethodKind.CLASSMETHOD,
                         pytd.MethodKind.STATICMETHOD])
        f = func(name, kind)
        q = r.random()
        if q < 0.12:
          f = f.Replace(flags=pytd.MethodFlag.ABSTRACT)
        elif q < 0.22:
          f = f.Replace(flags=pytd.MethodFlag.FINAL)
        methods.append(f)
      consts = [pytd.Constant(fresh("v"), g.to_pytd(ids, ty()), pytd.AnythingType() if r.random() < 0.3 else None)
                for _ in range(r.choice([0, 1, 2]))]
      if r.random() < 0.4:
        consts.append(pytd.Constant(fresh("p"), pytd.Annotated(g.to_pytd(ids, ty(1)), ("'property'",))))
      classes = (klass(depth + 1),) if depth < 2 and r.random() < 0.3 else ()
      if classes and r.random() < 0.5:
        # an alias to the nested class is emitted as a constant of type[Outer.Nested]
        consts.append(pytd.Constant(fresh("al"), pytd.GenericType(
            pytd.NamedType("type"), (pytd.NamedType(name + "." + classes[0].name),))))
    return pytd.Class(name=name, keywords=tuple(keywords), bases=tuple(bases), methods=tuple(methods),
                      constants=tuple(consts), classes=classes, decorators=decorators, slots=slots, template=())
  try:
    consts = tuple(pytd.Constant(fresh("k"), g.to_pytd(ids, ty())) for _ in range(r.choice([0, 1, 2, 3])))
    funcs = tuple(func() for _ in range(r.choice([0, 1, 2, 3])))
    classes = tuple(klass() for _ in range(r.choice([0, 1, 1, 2, 3])))
    if classes and r.random() < 0.3:
      # an alias to a class is emitted as a constant of type[C]
      consts += (pytd.Constant(fresh("Al"), pytd.GenericType(pytd.NamedType("type"), (pytd.NamedType(classes[0].name),))),)
    if need_meta[0]:
      classes += (pytd.Class(name="Meta", keywords=(), bases=(pytd.NamedType("type"),), methods=(), constants=(),
                             classes=(), decorators=(), slots=None, template=()),)
    aliases = tuple(pytd.Alias(fresh("A"), g.to_pytd(ids, ("G", ("p", ids.id("list")), [ty()])))
                    for _ in range(r.choice([0, 0, 1])))
  except AssertionError:
    return None
  return impl.unit(tvars, constants=consts, functions=funcs, classes=classes, aliases=aliases)


def common_coqchk(pid):
  r = subprocess.run(["timeout", "1500", "coqchk", "-silent", "-o", "-Q", common.COQ, "PV", f"PV.Props.{pid}"],
                     capture_output=True, text=True, cwd=common.COQ)
  return r.returncode == 0, r.stdout + r.stderr


def replay(res, path):
  """Re-runs the direct oracle on the recorded stub (regenerated from the recorded program when there is one)."""
  common.bootstrap_pytype()
  impl = Impl()
  ids = g.Ids()
  d = json.load(open(path))
  rp = d.get("replay", d)
  text = rp["text"]
  printed_ast = None
  if "program" in rp:
    from pytype import config, io
    print("program:\n" + rp["program"])
    ret, text = io.generate_pyi(rp["program"], config.Options.create(python_version=PYVER))
    printed_ast = ret.ast
  print("stub:\n" + text)
  o = oracle_text(impl, text)
  print("parse=%s verify=%s fixed_point=%s %s" % (o["parse"], o["verify"], o["fix"], o["err"] or ""))
  if o["text2"] is not None and not o["fix"]:
    print("\n".join(difflib.unified_diff(text.rstrip("\n").split("\n"), o["text2"].split("\n"), "emitted", "re-printed", lineterm="")))
  found = []
  check_stub_text(res, impl, ids, text, "replay", collections.Counter(),
                  lambda fp, what, r: found.append((fp, what)),
                  lambda kind, what, r: found.append((kind, what)), printed_ast=printed_ast)
  # a stub whose mutation lines use typing names that its import line lacks
  imp = [l for l in text.split("\n") if l.startswith("from typing import ")]
  imported = set(x.strip() for x in imp[0][len("from typing import "):].split(",")) if imp else set()
  for l in text.split("\n"):
    if re.match(r"^\s+\w+ = ", l):
      for n in re.findall(r"[A-Za-z_]\w*", l.split("=", 1)[-1]):
        if n in ("Union", "Optional", "Callable", "Literal", "Annotated", "Any") and n not in imported:
          found.append((FP_MUTIMPORT, "%s is used in `%s` but not imported" % (n, l.strip())))
  if "path" in rp and not found:
    found.append(("recorded-declaration-difference", "%s: printed %s, re-read %s" % (rp["path"], rp.get("printed"), rp.get("reread"))))
  for fp, what in found:
    print("still violated: %s: %s" % (fp, what))
  return 1 if found else 0
