"""C20, process level: what could outlive one merge inside one Python process (coq/Merge/Ctx.v).

Leg 1 "context": trees of >= 3 files in which an earlier file (os.walk order) has a stub that needs imports its source
lacks (typing names, other modules, a dotted module annotation, a TypeVar) and a later file receives annotations.
  real merge_tree  vs  real merge_sources per file (a context of its own each)  vs  the model merge_seq share=false;
  libcst driven with ONE CodemodContext over the same sequence  vs  the model merge_seq share=true (this ties the model
  of the pending-imports queue to libcst);  the tree under test must follow share=false on cases that tell the two apart.
  Direct oracle (independent of the model): every import a file gained is one its OWN stub mentions; the property oracle
  of c20.py on the file w.r.t. its own stub.
Leg 2 "histories": merge_files / merge_tree / main calls interleaved with outside writes (the stub at the same path is
rewritten, the source is put back) in ONE process, against the model run_history memo=false (= a new process per call,
theorem history_is_stateless) and memo=true (stub text remembered per path string).  Direct oracle: every merge step must
produce merge_sources(source text now on disk, stub text now on disk).
"""
import contextlib
import io
import os
import re
import shutil

import common
import c20_files as ff
import c20_proj as proj

CTX_ROOT = os.path.join(common.BUILD, "c20", "ctx")

HEADER = ("From Coq Require Import List NArith Bool.\nFrom PV Require Import Merge.Model Merge.Ctx.\n"
          "Import ListNotations.\nOpen Scope N_scope.\nSet Printing Depth 10000000.\nSet Printing Width 2000.\n")

# (source, stub): stubs that need imports the source lacks / sources that gain annotations but need nothing
CTX_PAIRS = [
    ("import os\ndef price(x):\n  return x\n", "from fractions import Fraction\ndef price(x: int) -> Fraction: ...\n"),
    ("def count(n):\n  return n\n", "def count(n: int) -> int: ...\n"),
    ("v = f()\ndef amount(a, b=1):\n  return a\n",
     "from decimal import Decimal\nv: Decimal\ndef amount(a: Decimal, b: int = ...) -> Decimal: ...\n"),
    ("class K:\n  def m(self, q):\n    return q\n",
     "from typing import Sequence\nclass K:\n  def m(self, q: Sequence[int]) -> Sequence[int]: ...\n"),
    ("def f(a):\n  return a\n", "from typing import Sequence, Optional\ndef f(a: Sequence[int]) -> Optional[int]: ...\n"),
    ("def ident(v):\n  return v\n", "from typing import TypeVar\nT = TypeVar('T')\ndef ident(v: T) -> T: ...\n"),
    ("from typing import List\ndef h(z: List[int]):\n  return z\n",
     "from typing import Dict, List\ndef h(z: List[int]) -> Dict[str, int]: ...\n"),
    ("def nop():\n  pass\n", "def other() -> int: ...\n"),
    ("\"\"\"Doc.\"\"\"\nfrom collections import OrderedDict\ndef od(k):\n  return OrderedDict()\n",
     "from collections import OrderedDict, defaultdict\ndef od(k: defaultdict) -> OrderedDict: ...\n"),
    ("def size(xs):\n  return len(xs)\n", "def size(xs: list[int]) -> int: ...\n"),
]
NAMES = ["a.py", "b.py", "m.py", "z.py", os.path.join("sub", "c.py"), os.path.join("sub", "d.py"),
         os.path.join("pkg", "e.py"), "k.py"]


def hash_tokens(toks):
  """Model.hash_tokens."""
  h = 7
  for t in toks:
    h = (h * 1000003 + t + 1) % 2305843009213693951
  return h


# ---------------------------------------------------------------------------------------------
# leg 1

def merge_with_context(ctx, py, pyi):
  """pytype's merge_sources with the CodemodContext handed in (libcst driven directly, pytype's transformers and flags)."""
  import libcst as cst
  from libcst.codemod import visitors
  from pytype.tools.merge_pyi import merge_pyi
  py_cst = cst.parse_module(py)
  pyi_cst = (cst.parse_module(pyi).visit(merge_pyi.RemoveAnyNeverTransformer())
             .visit(merge_pyi.RemoveTrivialTypesTransformer()))
  vis = visitors.ApplyTypeAnnotationsVisitor
  vis.store_stub_in_context(ctx, pyi_cst)
  return vis(ctx, overwrite_existing_annotations=False, strict_posargs_matching=False,
             strict_annotation_matching=True).transform_module(py_cst).code


def _imports(text):
  import ast
  out = set()
  for st in ast.parse(text).body:
    if isinstance(st, ast.ImportFrom):
      out.update((st.module, a.name) for a in st.names)
    elif isinstance(st, ast.Import):
      out.update((a.name, None) for a in st.names)
  return out


def foreign_imports(py, pyi, got):
  """Imports the merged file gained that its own stub does not mention (a dotted annotation m.X of the stub counts as
  mentioning (m, X): libcst turns it into `from m import X`, a listed finding of its own)."""
  import ast
  gained = _imports(got) - _imports(py)
  own = _imports(pyi)
  for n in ast.walk(ast.parse(pyi)):
    if isinstance(n, ast.Attribute):
      try:
        own.add((ast.unparse(n.value), n.attr))
      except Exception:  # pylint: disable=broad-except
        pass
  return sorted(x for x in gained if x not in own)


def gen_sequence(r, extra_pairs):
  # two stubs that need DIFFERENT imports and both give annotations (whichever os.walk lists second shows a shared
  # context), a file that gains annotations without needing any import, and one to three others
  importers = r.sample([CTX_PAIRS[0], CTX_PAIRS[2], CTX_PAIRS[4], CTX_PAIRS[8]], 2)
  plain = r.choice([CTX_PAIRS[1], CTX_PAIRS[9]])
  rest = [p for p in list(CTX_PAIRS) + list(extra_pairs) if p not in importers and p != plain]
  seq = importers + [plain] + r.sample(rest, min(r.randint(0, 2), len(rest)))
  r.shuffle(seq)
  names = r.sample(NAMES, len(seq))
  return {"pairs": [list(p) for p in seq], "names": names, "backup": r.choice([None, None, "bak"])}


def run_sequence_real(spec, w):
  """Lays the pairs out as a tree, runs merge_tree, the per-file merges and libcst under one context (walk order)."""
  import libcst.codemod as codemod
  from pytype.tools.merge_pyi import merge_pyi
  shutil.rmtree(w, ignore_errors=True)
  src, stubs = os.path.join(w, "src"), os.path.join(w, "stubs")
  for (py, pyi), rel in zip(spec["pairs"], spec["names"]):
    for base, text, ext in ((src, py, ""), (stubs, pyi, "i")):
      path = os.path.join(base, rel + ext)
      os.makedirs(os.path.dirname(path), exist_ok=True)
      with open(path, "w") as f:
        f.write(text)
  by_rel = {rel: tuple(p) for p, rel in zip(spec["pairs"], spec["names"])}
  order = [os.path.relpath(os.path.join(root, f), src) for root, _, files in os.walk(src) for f in files if f.endswith(".py")]
  out = {"order": order, "fresh": [], "shared": [], "tree": []}
  ctx = codemod.CodemodContext()
  for rel in order:
    py, pyi = by_rel[rel]
    try:
      out["fresh"].append(merge_pyi.merge_sources(py=py, pyi=pyi))
    except merge_pyi.MergeError:
      out["fresh"].append(None)
    try:
      out["shared"].append(merge_with_context(ctx, py, pyi))
    except Exception:  # pylint: disable=broad-except
      out["shared"].append(None)
  try:
    changed, errors = merge_pyi.merge_tree(py_path=src, pyi_path=stubs, backup=spec["backup"])
    out["errors"] = [os.path.relpath(p, src) for p, _ in errors]
    out["raised"] = None
  except Exception as e:  # pylint: disable=broad-except
    out["raised"] = repr(e)
    out["errors"] = []
  for rel in order:
    with open(os.path.join(src, rel)) as f:
      out["tree"].append(f.read())
  shutil.rmtree(w, ignore_errors=True)
  return out


def sequence_case(spec, real):
  """Coq text of the sequence (walk order) and the token hashes of the three real outputs per file; None when some
  text is outside the model's domain."""
  by_rel = {rel: tuple(p) for p, rel in zip(spec["pairs"], spec["names"])}
  trees = []
  try:
    per = []
    for k, rel in enumerate(real["order"]):
      py, pyi = by_rel[rel]
      p, s = proj.project(py), proj.project(pyi, stub=True)
      outs = []
      for key in ("fresh", "shared", "tree"):
        t = real[key][k]
        outs.append(None if t is None else proj.project(t, strict=False))
      per.append((p, s, outs))
      trees += [p, s] + [o for o in outs if o is not None]
    it = proj.Interner(trees)
    items, hashes = [], []
    for p, s, outs in per:
      items.append("(%s,\n %s)" % (proj.coq(it.tree(p)), proj.coq(it.tree(s))))
      hashes.append([hash_tokens([999] if o is None else proj.ser_module(it.tree(o))) for o in outs])
  except (proj.NotExplorable, SyntaxError):
    return None
  return "[" + ";\n".join(items) + "]", hashes


def run_context_leg(res, r, extra_pairs, thorough, prop_oracle, variant="fixed"):
  import time
  t0 = time.time()
  n_seq = 20 if thorough else 5
  root = os.path.join(CTX_ROOT, "%d" % os.getpid())
  specs = [gen_sequence(r, extra_pairs) for _ in range(n_seq)]
  # the reduced seeded demo first: importing stub, then two files that only gain annotations
  specs.insert(0, {"pairs": [list(CTX_PAIRS[0]), list(CTX_PAIRS[1]), list(CTX_PAIRS[9]), list(CTX_PAIRS[2])],
                   "names": ["a.py", "b.py", "c.py", "sub/d.py"], "backup": None})
  reals = [run_sequence_real(s, os.path.join(root, "s%d" % k)) for k, s in enumerate(specs)]
  shutil.rmtree(root, ignore_errors=True)
  cases = [sequence_case(s, x) for s, x in zip(specs, reals)]
  idx = [k for k, c in enumerate(cases) if c is not None]
  vname = "AsWritten" if variant == "as-written" else "Fixed"
  body = HEADER + "".join("Eval vm_compute in (run_seq %s %s).\n" % (vname, cases[k][0]) for k in idx)
  t1 = time.time()
  ok, txt = common.run_cases_v("c20ctx_%d" % os.getpid(), body)
  t_model = time.time() - t1
  ev = common.parse_coq_eval(txt) if ok else []
  if len(ev) != len(idx):
    res.obligation("context-model-run", False, txt[-1500:])
    return
  n_files = n_dist = n_later = 0
  mism_fresh, mism_shared, follows_shared, direct_bad = [], [], [], []
  votes = {0: 0, 1: 0}
  parsed = {}
  for e, k in zip(ev, idx):
    nums = [int(x) for x in re.findall(r"\d+", e)]
    n = len(reals[k]["order"])
    if len(nums) != 2 * n:
      res.obligation("context-model-run", False, "sequence %d: %d numbers for %d files" % (k, len(nums), n))
      return
    parsed[k] = [[(nums[2 * i], nums[2 * i + 1]) for i in range(n)]]
  v = 0
  for k in idx:
    spec, real = specs[k], reals[k]
    by_rel = {rel: tuple(p) for p, rel in zip(spec["pairs"], spec["names"])}
    differs = False
    for i, rel in enumerate(real["order"]):
      hf, hs = parsed[k][v][i]
      rf, rs, rt = cases[k][1][i]
      n_files += 1
      if hf != hs:
        differs = True
        n_later += 1
      if rf != hf:
        mism_fresh.append((k, rel))
      if rs != hs:
        mism_shared.append((k, rel))
      if rt != hf and rt == hs:
        follows_shared.append((k, rel))
    n_dist += differs
    res.count(("ctxseq", repr(spec["pairs"]), tuple(real["order"])) if differs else None)
  # ---- direct oracle on every sequence (also those outside the model's domain)
  for k, (spec, real) in enumerate(zip(specs, reals)):
    by_rel = {rel: tuple(p) for p, rel in zip(spec["pairs"], spec["names"])}
    for i, rel in enumerate(real["order"]):
      py, pyi = by_rel[rel]
      got, ref = real["tree"][i], real["fresh"][i]
      if real["raised"] is not None:
        direct_bad.append((k, rel, "merge-tree-raised", "merge_tree raised %s" % real["raised"]))
        break
      if ref is None:
        continue
      if got == ref:
        continue
      what = "%s (file %d of %d in walk order %s) after merge_tree differs from merge_sources on that file alone" % (
          rel, i + 1, len(real["order"]), real["order"])
      fp = "merge-tree-differs-from-per-file-merge"
      try:
        compile(got, rel, "exec", dont_inherit=True)
        foreign = foreign_imports(py, pyi, got)
        if foreign and not foreign_imports(py, pyi, ref):
          fp = "merge-tree-import-not-from-own-stub"
          what += "; it gained imports its own stub never mentions: %s" % foreign
        ks = sorted({f.kind for f in prop_oracle(py, pyi, got)} - {f.kind for f in prop_oracle(py, pyi, ref)})
        if ks:
          what += "; w.r.t. its own stub the file violates: %s" % ks
      except (SyntaxError, ValueError) as e:
        what += "; the file does not compile: %s" % e
      direct_bad.append((k, rel, fp, what))
  seen = set()
  for k, rel, fp, what in direct_bad:
    if fp in seen or len(seen) >= 2:
      continue
    seen.add(fp)
    res.violation(fp, what, {"ctxseq": specs[k], "file": rel})
  res.obligation("oracle:merge_tree file = merge_sources(file, own stub); gained imports are the own stub's (context trees)",
                 not direct_bad, "%d files fail; first: %s" % (len(direct_bad), direct_bad[0][3][:600] if direct_bad else ""))
  res.obligation("correspondence:merge_tree / merge_sources = model with a context per file (merge_seq share=false)",
                 not mism_fresh and not follows_shared and bool(idx),
                 "%d sequences, %d files; merge_sources differs from the model on %s; merge_tree follows the ONE-context variant on %s" % (
                     len(idx), n_files, mism_fresh[:4], follows_shared[:4]))
  res.obligation("correspondence:libcst under one CodemodContext = model merge_seq share=true (pending-imports queue)",
                 not mism_shared and bool(idx), "%d files differ: %s" % (len(mism_shared), mism_shared[:4]))
  res.obligation("correspondence:context-variants-distinguished", n_dist >= 2,
                 "%d of %d sequences (%d later files) tell a context per file and one context per tree apart" % (n_dist, len(idx), n_later))
  res.extra["context_leg"] = {"sequences": len(specs), "explorable": len(idx), "files": n_files, "distinguishing_sequences": n_dist,
                              "files_changed_by_sharing": n_later, "model_variant": variant,
                              "seconds_model": round(t_model, 1), "seconds": round(time.time() - t0, 1)}


def replay_ctxseq(d, prop_oracle):
  spec = d["ctxseq"]
  real = run_sequence_real(spec, os.path.join(CTX_ROOT, "replay"))
  by_rel = {rel: tuple(p) for p, rel in zip(spec["pairs"], spec["names"])}
  bad = 0
  print("---- merge order: %s" % real["order"])
  for i, rel in enumerate(real["order"]):
    py, pyi = by_rel[rel]
    got, ref = real["tree"][i], real["fresh"][i]
    if ref is not None and got != ref:
      bad = 1
      print("FINDING %s: after merge_tree\n%s---- merge_sources(py, own stub)\n%s---- own stub\n%s---- gained imports not in the own stub: %s"
            % (rel, got, ref, pyi, foreign_imports(py, pyi, got)))
  return bad


# ---------------------------------------------------------------------------------------------
# leg 2: histories

def gen_history(r, pool):
  """pool: (py, pyi) text pairs.  Two or three sources with stubs; ops rewrite stubs in place between merges."""
  k = r.randint(2, 3)
  pairs = r.sample(pool, min(k, len(pool)))
  names = r.sample(["a.py", "b.py", "sub/c.py", "my mod.py"], len(pairs))
  files = [["src", "d", ""], ["stubs", "d", ""]]
  for (py, pyi), n in zip(pairs, names):
    files.append(["src/" + n, "f", ff._enc(py, r.choice(["LF", "LF", "CRLF"]))])
    files.append(["stubs/" + n + "i", "f", ff._enc(pyi, "LF")])
  other_stubs = [p[1] for p in pool]
  ops = []
  def merge_op(n):
    x = r.random()
    py, pyi = "src/" + n, "stubs/" + n + "i"
    if x < 0.45:
      return {"op": "files", "py": py, "pyi": pyi, "mode": r.choice([1, 2, 3, 3, 3]), "backup": r.choice([None, None, "bak", ""])}
    if x < 0.7:
      ip, df = r.choice([(True, False), (True, False), (False, True), (False, False)])
      bk = r.choice([None, None, "bak", ""]) if ip else r.choice([None, None, None, "bak", ""])
      return {"op": "main", "in_place": ip, "diff": df, "backup": bk, "py": py, "pyi": pyi}
    return {"op": "tree", "top": "src", "P": r.choice(["stubs", "./stubs/"]), "backup": r.choice([None, "bak"])}
  n0 = r.choice(names)
  orig = dict(zip(names, pairs))
  ops.append(merge_op(n0))
  for _ in range(r.randint(1, 3)):
    n = r.choice([n0, n0, r.choice(names)])
    if r.random() < 0.7:      # put the source back (otherwise the already merged file is merged again)
      # ... sometimes edited: the same definitions plus a new statement at the end
      ops.append({"op": "write", "rel": "src/" + n,
                  "data": ff._enc(orig[n][0] + ("edited_%d = 0\n" % len(ops) if r.random() < 0.35 else ""), "LF")})
    new_stub = r.choice([s for s in other_stubs if s != orig[n][1]] or other_stubs)
    # the same definitions with other annotations: the own stub with its types swapped around
    own = orig[n][1]
    swapped = own.replace("int", "\0").replace("str", "int").replace("\0", "str")
    if swapped != own and r.random() < 0.6:
      new_stub = swapped
    ops.append({"op": "write", "rel": "stubs/" + n + "i", "data": ff._enc(new_stub, "LF")})
    ops.append(merge_op(n))
  return {"case_dir": "c", "cwd": "case", "files": files, "ops": ops, "backup": None}


def run_history_real(spec, w):
  from pytype.tools.merge_pyi import main as merge_main
  from pytype.tools.merge_pyi import merge_pyi
  w = os.path.realpath(w)
  base = ff.build(spec, w)
  pre = ff.listing(w)
  out = {"w": w, "pre": pre, "steps": [], "snap": []}
  old = os.getcwd()
  os.chdir(base)
  modes = {1: merge_pyi.Mode.PRINT, 2: merge_pyi.Mode.DIFF, 3: merge_pyi.Mode.OVERWRITE}
  def text(rel):
    try:
      with open(rel, "rb") as f:
        return ff.decode_text(f.read())
    except OSError:
      return None
  try:
    out["cwd"] = os.getcwd()
    for o in spec["ops"]:
      # what is on disk right now (the direct oracle and the table need it)
      pys = {}
      for root, _, files in os.walk("src"):
        for f in files:
          if f.endswith(".py"):
            pys[os.path.join(root, f)] = text(os.path.join(root, f))
      out["snap"].append(pys)
      buf = io.StringIO()
      st = {"op": o["op"]}
      if o["op"] == "write":
        with open(o["rel"], "wb") as f:
          f.write(o["data"].encode("latin-1"))
      elif o["op"] == "tree":
        try:
          changed, errors = merge_pyi.merge_tree(py_path=o["top"], pyi_path=o["P"], backup=o["backup"])
          st.update(changed=list(changed), errors=[p for p, _ in errors], raised=False)
        except Exception as e:  # pylint: disable=broad-except
          st.update(changed=None, errors=None, raised=True, exc=repr(e)[:200])
      else:
        st["p"], st["s"] = text(o["py"]), text(o["pyi"])
        try:
          with contextlib.redirect_stdout(buf), contextlib.redirect_stderr(io.StringIO()):
            if o["op"] == "files":
              ch = merge_pyi.merge_files(py_path=o["py"], pyi_path=o["pyi"], mode=modes[o["mode"]], backup=o["backup"])
              code = 1 if ch else 0
            else:
              argv = ["merge-pyi"] + (["-i"] if o["in_place"] else []) + (["--diff"] if o["diff"] else [])
              if o["backup"] is not None:
                argv += ["-b", o["backup"]]
              merge_main.main(argv + [o["py"], o["pyi"]])
              code = -1
          st["stdout"] = buf.getvalue()
          if o["op"] == "main" and o["in_place"] and not o["diff"]:
            if st["stdout"] == "Merged types to %s from %s\n" % (o["py"], o["pyi"]):
              code, st["stdout"] = 1, ""
            elif st["stdout"] == "No new types for %s in %s\n" % (o["py"], o["pyi"]):
              code, st["stdout"] = 0, ""
        except SystemExit as e:
          code = 4 if e.code == 2 else 3
          st["stdout"] = buf.getvalue()
        except merge_pyi.MergeError:
          code = 2
          st["stdout"] = buf.getvalue()
        except Exception as e:  # pylint: disable=broad-except
          code = 3
          st["stdout"] = buf.getvalue()
          st["exc"] = repr(e)[:200]
        st["code"] = code
        st["after"] = text(o["py"])
      out["steps"].append(st)
  finally:
    os.chdir(old)
  out["post"] = ff.listing(w)
  return out


def _hist_worker(job):
  spec, w = job
  try:
    return run_history_real(spec, w)
  except Exception as e:  # pylint: disable=broad-except
    import traceback
    return {"crash": repr(e) + "\n" + traceback.format_exc()[-1500:]}
  finally:
    shutil.rmtree(w, ignore_errors=True)


def history_texts(spec, real):
  pys, pyis = set(), set()
  for rel, kind, data in spec["files"]:
    if kind == "f" and rel.endswith(".pyi"):
      pyis.add(ff.decode_text(data.encode("latin-1")))
  for o in spec["ops"]:
    if o["op"] == "write":
      t = ff.decode_text(o["data"].encode("latin-1"))
      (pyis if o["rel"].endswith(".pyi") else pys).add(t)
  for snap in real.get("snap", []):
    pys.update(t for t in snap.values() if t is not None)
  pys.discard(None)
  pyis.discard(None)
  return [(p, s) for p in sorted(pys) for s in sorted(pyis)]


def history_v(k, spec, real, cache, it):
  cwd_comps = ff.abs_comps(real["cwd"])
  ops = []
  for o in spec["ops"]:
    if o["op"] == "files":
      ops.append("OpFiles %s %s (mode_of %d) %s" % (it.pth(o["py"]), it.pth(o["pyi"]), o["mode"], it.backup(o["backup"])))
    elif o["op"] == "tree":
      ops.append("OpTree %s %s %s" % (it.pth(o["top"]), it.pth(o["P"]), it.backup(o["backup"])))
    elif o["op"] == "main":
      ops.append("OpMain %s %s %s %s %s" % ("true" if o["in_place"] else "false", "true" if o["diff"] else "false",
                                            it.backup(o["backup"]), it.pth(o["py"]), it.pth(o["pyi"])))
    else:
      ops.append("OpWrite %s %s" % (it.loc(cwd_comps + o["rel"].split("/")), it.bytes(o["data"].encode("latin-1"))))
  tbl = ff.coq_table([(p, s, cache[(p, s)]) for p, s in history_texts(spec, real)], it)
  return ("Definition tree_%d : tnode := %s.\nDefinition tbl_%d : table := %s.\nDefinition ops_%d : list (op (list N)) := [%s].\n"
          "Eval vm_compute in (run_hist tbl_%d false true %s tree_%d ops_%d).\n"
          "Eval vm_compute in (run_hist tbl_%d true true %s tree_%d ops_%d).\n" % (
              k, ff.embed(real["w"], real["pre"], it), k, tbl, k, ";\n".join(ops),
              k, it.loc(cwd_comps), k, k, k, it.loc(cwd_comps), k, k))


def decode_hist_answer(term):
  s = ff.Stream(ff.nums_of(term))
  files = s.files()
  outs = []
  def printed():
    kind = s.get()
    if kind == 1:
      return ("text", s.codepoints())
    if kind == 2:
      return ("diff", s.codepoints(), s.codepoints())
    return None
  for _ in range(s.get()):
    tag = s.get()
    if tag == 1:
      outs.append({"op": "files", "code": s.get(), "printed": printed()})
    elif tag == 2:
      ch = [s.pth() for _ in range(s.get())]
      er = [s.pth() for _ in range(s.get())]
      outs.append({"op": "tree", "changed": ch, "errors": er, "raised": bool(s.get())})
    elif tag == 3:
      code = s.get()
      pr = printed()
      outs.append({"op": "main", "code": code, "printed": pr, "msg": s.get()})
    elif tag == 4:
      outs.append({"op": "main", "code": 4, "printed": None, "msg": 0})
    else:
      outs.append({"op": "write"})
  if not s.done():
    raise ValueError("trailing numbers in a run_hist answer")
  return {"files": files, "outs": outs}


def compare_history(spec, real, model):
  out = ff.state_diffs(real, model["files"])
  if len(model["outs"]) != len(real["steps"]):
    return out + ["%d model outcomes for %d steps" % (len(model["outs"]), len(real["steps"]))]
  for i, (o, st, m) in enumerate(zip(spec["ops"], real["steps"], model["outs"])):
    if o["op"] == "write":
      continue
    if o["op"] == "tree":
      if bool(st["raised"]) != m["raised"]:
        out.append("step %d merge_tree raised: model %s, real %s" % (i, m["raised"], st.get("exc")))
      elif not st["raised"] and (st["changed"] != m["changed"] or st["errors"] != m["errors"]):
        out.append("step %d merge_tree: model changed=%r errors=%r, real changed=%r errors=%r" % (
            i, m["changed"], m["errors"], st["changed"], st["errors"]))
      continue
    if st["code"] == -1:
      if m["code"] not in (0, 1):
        out.append("step %d main: model result %d, real returned normally" % (i, m["code"]))
    elif st["code"] != m["code"]:
      out.append("step %d %s: model result %d, real %d %s" % (i, o["op"], m["code"], st["code"], st.get("exc", "")))
    pr = m["printed"]
    want = "" if pr is None else pr[1] + "\n" if pr[0] == "text" else ff.get_diff(pr[1], pr[2]) + "\n"
    if st["code"] != 4 and want != st.get("stdout", ""):
      out.append("step %d %s printed: model %r, real %r" % (i, o["op"], want[:200], st.get("stdout", "")[:200]))
  return out


def history_oracle(spec, real, merged, prop_oracle):
  """Independent of the model: each merge_files / main step must act on what is on disk at that moment."""
  out = []
  for i, (o, st) in enumerate(zip(spec["ops"], real["steps"])):
    if o["op"] not in ("files", "main") or st["code"] in (3, 4) or st["p"] is None or st["s"] is None:
      continue
    ref = merged(st["p"], st["s"])
    mode = o["mode"] if o["op"] == "files" else (2 if o["diff"] else 3 if o["in_place"] else 1)
    if mode != 3 and st["after"] != st["p"]:
      out.append((i, "step %d (%s without in-place mode: %s) modified the source file" % (
          i, o["op"], {1: "PRINT", 2: "DIFF"}[mode]), st, ref))
      continue
    if ref is None:
      if st["code"] != 2:
        out.append((i, "merge_sources raises MergeError on the texts on disk, the step returned %d" % st["code"], st, None))
      continue
    if st["code"] == 2:
      out.append((i, "MergeError, but merge_sources succeeds on the texts on disk", st, ref))
      continue
    if mode == 3:
      got = st["after"]
    elif mode == 1:
      got = st["stdout"][:-1] if st["stdout"].endswith("\n") else st["stdout"]
    else:                     # DIFF: the printed diff must be the one between the source on disk and the fresh merge
      want = ff.get_diff(st["p"], ref) + "\n" if ref != st["p"] else ""
      got, ref = (st["stdout"], want)
    if got != ref:
      what = "step %d (%s, mode %d, in one process after %d earlier operations): the result is not merge_sources(source on disk, stub on disk)" % (
          i, o["op"], mode, i)
      try:
        ks = [] if mode == 2 else sorted({f.kind for f in prop_oracle(st["p"], st["s"], got)} -
                                         {f.kind for f in prop_oracle(st["p"], st["s"], ref)})
        if ks:
          what += "; w.r.t. the stub on disk the result violates: %s" % ks
      except Exception as e:  # pylint: disable=broad-except
        what += "; (property oracle: %r)" % e
      out.append((i, what, st, ref))
  return out


def run_history_leg(res, r, pool_pairs, pool, thorough, prop_oracle):
  import time
  t0 = time.time()
  n_hist = 30 if thorough else 6
  root = os.path.realpath(os.path.join(CTX_ROOT, "h%d" % os.getpid()))
  small = [p for p in pool_pairs if len(p[0]) + len(p[1]) < 400]
  hp = list(CTX_PAIRS[:4]) + [CTX_PAIRS[9]] + r.sample(small, min(len(small), 4))
  specs = [gen_history(r, hp) for _ in range(n_hist)]
  # the seeded demo, reduced: merge, put the source back, rewrite the stub at the same path, merge again
  py, s1, s2 = "def size(xs):\n  return len(xs)\n", "def size(xs) -> int: ...\n", "def size(xs) -> float: ...\n"
  specs.insert(0, {"case_dir": "c", "cwd": "case", "backup": None,
                   "files": [["src", "d", ""], ["stubs", "d", ""], ["src/m.py", "f", py], ["stubs/m.pyi", "f", s1]],
                   "ops": [{"op": "files", "py": "src/m.py", "pyi": "stubs/m.pyi", "mode": 3, "backup": None},
                           {"op": "write", "rel": "src/m.py", "data": py},
                           {"op": "write", "rel": "stubs/m.pyi", "data": s2},
                           {"op": "files", "py": "src/m.py", "pyi": "stubs/m.pyi", "mode": 3, "backup": None},
                           {"op": "write", "rel": "src/m.py", "data": py},
                           {"op": "tree", "top": "src", "P": "stubs", "backup": None}]})
  # every history runs in ONE worker process from start to end; different histories use different directories
  reals = pool.map(_hist_worker, [(s, os.path.join(root, "h%d" % k)) for k, s in enumerate(specs)], chunksize=1)
  shutil.rmtree(root, ignore_errors=True)
  crashes = [x["crash"] for x in reals if "crash" in x]
  res.obligation("history-runs", not crashes, "%d crashed; first: %s" % (len(crashes), crashes[0] if crashes else ""))
  okk = [k for k, x in enumerate(reals) if "crash" not in x]
  need = set()
  for k in okk:
    need.update(history_texts(specs[k], reals[k]))
  cache = dict(pool.map(ff._merge_pair, sorted(need), chunksize=8))
  def merged(p, s):
    if (p, s) not in cache:
      cache[(p, s)] = ff._merge_pair((p, s))[1]
    return cache[(p, s)]
  it = ff.Interner()
  bodies = [history_v(k, specs[k], reals[k], cache, it) for k in okk]
  body = (it.header() + "From PV Require Import Merge.Ctx.\n" + "".join(bodies))
  t1 = time.time()
  ok, txt = common.run_cases_v("c20hist_%d" % os.getpid(), body)
  t_model = time.time() - t1
  ev = common.parse_coq_eval(txt) if ok else []
  if len(ev) != 2 * len(okk):
    res.obligation("history-model-run", False, txt[-1500:])
    return
  bad, dist, steps, follows_memo = [], 0, 0, []
  for j, k in enumerate(okk):
    try:
      m0, m1 = decode_hist_answer(ev[2 * j]), decode_hist_answer(ev[2 * j + 1])
    except (ValueError, IndexError) as e:
      res.obligation("history-model-run", False, "history %d: %s" % (k, e))
      return
    d0 = compare_history(specs[k], reals[k], m0)
    d1 = compare_history(specs[k], reals[k], m1)
    differ = m0 != m1
    dist += differ
    steps += len(specs[k]["ops"])
    if d0:
      bad.append((k, d0))
      if not d1 and differ:
        follows_memo.append(k)
    res.count(("hist", repr(specs[k]["files"]), repr(specs[k]["ops"])) if differ else None)
  obad = []
  for k in okk:
    fs = history_oracle(specs[k], reals[k], merged, prop_oracle)
    if fs:
      obad.append((k, fs))
  for k, fs in obad[:2]:
    i, what, st, ref = fs[0]
    res.violation("merge-depends-on-earlier-calls-in-the-process",
                  "%s [%d operations: %s]" % (what, len(specs[k]["ops"]), [o["op"] for o in specs[k]["ops"]]),
                  {"history": specs[k], "step": i, "py": st["p"], "pyi": st["s"]})
  detail = "%d histories, %d operations" % (len(okk), steps)
  if bad:
    k, d = bad[0]
    detail = "%d of %d histories disagree with the model (memo=false); %d of them follow the model that remembers stub texts per path; first: %s | ops: %s" % (
        len(bad), len(okk), len(follows_memo), "; ".join(d[:4])[:1200], [o["op"] for o in specs[k]["ops"]])
  res.obligation("correspondence:history in one process = model run_history (nothing remembered between calls)", not bad and bool(okk), detail)
  res.obligation("oracle:every merge step = merge_sources(texts on disk at that moment)", not obad,
                 "%d histories fail; first: %s" % (len(obad), obad[0][1][0][1][:500] if obad else ""))
  res.obligation("correspondence:history-variants-distinguished", dist >= 2,
                 "%d of %d histories tell 'stub opened on every call' and 'stub text remembered per path' apart" % (dist, len(okk)))
  hist = {}
  for s in specs:
    for o in s["ops"]:
      key = o["op"] + (":" + {1: "PRINT", 2: "DIFF", 3: "OVERWRITE"}[o["mode"]] if o["op"] == "files" else "")
      hist[key] = hist.get(key, 0) + 1
  res.extra["history_leg"] = {"histories": len(okk), "operations": steps, "operation_histogram": dict(sorted(hist.items())),
                              "distinguishing_histories": dist, "table_size": len(cache), "v_bytes": len(body),
                              "seconds_model": round(t_model, 1), "seconds": round(time.time() - t0, 1)}


def replay_history(d, prop_oracle):
  spec = d["history"]
  real = run_history_real(spec, os.path.join(CTX_ROOT, "replay"))
  shutil.rmtree(os.path.join(CTX_ROOT, "replay"), ignore_errors=True)
  fs = history_oracle(spec, real, lambda p, s: ff._merge_pair((p, s))[1], prop_oracle)
  print("---- operations: %s" % [o if o["op"] != "write" else {"op": "write", "rel": o["rel"]} for o in spec["ops"]])
  for i, what, st, ref in fs:
    print("FINDING %s\n---- source on disk before the step\n%s---- stub on disk before the step\n%s---- result\n%s---- merge_sources(source, stub)\n%s" % (
        what, st["p"], st["s"], st["after"] if st.get("after") is not None else st.get("stdout"), ref))
  return 1 if fs else 0
