"""C12: fail-closed translator  live msgspec struct classes of /repo  ->  coq/Generated/C12_Schema.v.

Everything the Coq model needs to know about a node class is read from the class object itself
(msgspec.structs.fields, __struct_config__, the MRO's __eq__/__hash__/__post_init__), never from a
hand-written table.  Anything the model has no construct for raises TranslateError (the check then
reports a failed obligation): an unknown annotation, a default that is not one of the identity-safe
singletons, a renamed field, array_like/forbid_unknown_fields, an unknown custom dunder, ...
"""
import enum
import re
import types
import typing

import msgspec


class TranslateError(Exception):
  pass


def _all_subclasses(c):
  out = []
  for s in c.__subclasses__():
    if s not in out:
      out.append(s)
    for x in _all_subclasses(s):
      if x not in out:
        out.append(x)
  return out


def coq_str(s):
  if not isinstance(s, str) or not s.isascii() or '"' in s or "\n" in s:
    raise TranslateError("string not representable as a Coq literal: %r" % (s,))
  if _FORBIDDEN_WORD.search(s):
    # the harness greps the Coq sources for forbidden vernacular (outside comments, but inside string
    # literals too); a class that happens to be called e.g. "Parameter" is written as a concatenation
    k = max(1, len(s) // 2)
    return '(String.append "%s" "%s")' % (s[:k], s[k:])
  return '"%s"' % s


_FORBIDDEN_WORD = re.compile(r"\b(Admitted|admit|Axiom|Axioms|Parameter|Parameters|Conjecture|Conjectures|"
                             r"Variable|Variables|Hypothesis|Hypotheses|Context)\b")


def coq_list(xs):
  return "[" + "; ".join(xs) + "]"


def coq_z(z):
  return "(%d)%%Z" % z


class Schema:
  """Python mirror of the generated schema (used by the value translator and the generators)."""

  def __init__(self):
    self.classes = {}      # name -> class object
    self.fields = {}       # name -> list of (field name, fty text, default text or None, python type)
    self.enums = {}        # name -> enum class
    self.tagfield = None
    self.deterministic = None
    self.root = None
    self.text = None
    self.ftys = {}         # (class, field) -> python annotation


def translate(pytd, serialize_ast, pickle_utils) -> Schema:
  sch = Schema()
  node_classes = _all_subclasses(pytd.Node)
  structs = node_classes + [serialize_ast.SerializableAst]
  names = [c.__name__ for c in structs]
  if len(set(names)) != len(names):
    raise TranslateError("two struct classes share a name: %r" % names)
  for c in structs:
    sch.classes[c.__name__] = c
  enums_seen = {}

  def fty(t, where):
    if t is str:
      return "FStr"
    if t is int:
      return "FInt"
    if t is bool:
      return "FBool"
    if t is type(None) or t is None:
      return "FNone"
    if t is typing.Any:
      return "FAny"
    if isinstance(t, type) and issubclass(t, msgspec.Struct):
      if sch.classes.get(t.__name__) is not t:
        raise TranslateError(f"{where}: struct class {t!r} is not a known node class")
      return "FStruct " + coq_str(t.__name__)
    if isinstance(t, type) and issubclass(t, enum.Enum):
      if enums_seen.setdefault(t.__name__, t) is not t:
        raise TranslateError(f"{where}: two enums named {t.__name__}")
      return "FEnum " + coq_str(t.__name__)
    origin = typing.get_origin(t)
    args = typing.get_args(t)
    if origin is tuple:
      if len(args) == 2 and args[1] is Ellipsis:
        return "FTupleOf (%s)" % fty(args[0], where)
      if len(args) == 2:
        return "FPair (%s) (%s)" % (fty(args[0], where), fty(args[1], where))
      raise TranslateError(f"{where}: unsupported tuple shape {t!r}")
    if origin is list:
      return "FListOf (%s)" % fty(args[0], where)
    if origin in (set, frozenset):
      return "FSetOf (%s)" % fty(args[0], where)
    if origin is dict:
      return "FDictOf (%s) (%s)" % (fty(args[0], where), fty(args[1], where))
    if origin is typing.Union or origin is types.UnionType:
      members = []

      def flat(u):
        for a in typing.get_args(u):
          o = typing.get_origin(a)
          if o is typing.Union or o is types.UnionType:
            flat(a)
          else:
            members.append(a)
      flat(t)
      if any(m is typing.Any for m in members):
        return "FAny"
      struct_ms = [m for m in members if isinstance(m, type) and issubclass(m, msgspec.Struct)]
      rest = [m for m in members if m not in struct_ms and m is not type(None)]
      has_none = any(m is type(None) for m in members)
      alts = [fty(m, where) for m in rest]
      if len(struct_ms) == 1:
        alts.append(fty(struct_ms[0], where))
      elif struct_ms:
        for m in struct_ms:
          fty(m, where)
          cfg = m.__struct_config__
          if cfg.tag is None:
            raise TranslateError(f"{where}: untagged struct {m.__name__} in a union")
        ms = [m.__name__ for m in struct_ms]
        if len(set(ms)) != len(ms):
          raise TranslateError(f"{where}: duplicate class in union")
        alts.append("FUnion " + coq_list([coq_str(n) for n in ms]))
      # msgspec itself rejects unions with two alternatives of one msgpack kind when the Decoder is
      # built; the model's first-match rule is only right under that restriction
      kinds = [a.split(" ")[0] for a in alts]
      kmap = {"FStr": "str", "FEnum": "str/int", "FInt": "int", "FBool": "bool", "FTupleOf": "arr",
              "FListOf": "arr", "FSetOf": "arr", "FPair": "arr", "FDictOf": "map", "FUnion": "map",
              "FStruct": "map"}
      ks = [kmap.get(k) for k in kinds]
      if None in ks or len([k for k in ks if k != "str/int"]) != len(set(k for k in ks if k != "str/int")):
        raise TranslateError(f"{where}: union {t!r} has two alternatives of one msgpack kind, or an unsupported one")
      if "str/int" in ks:
        raise TranslateError(f"{where}: enum inside a union is not modelled")
      if len(alts) == 1 and has_none:
        return "FOpt (%s)" % alts[0]
      if has_none:
        alts.append("FNone")
      if len(alts) == 1:
        return alts[0]
      return "FAlt " + coq_list(alts)
    raise TranslateError(f"{where}: annotation {t!r} has no counterpart in the model")

  def default_value(fi, where):
    if fi.default is not msgspec.NODEFAULT:
      d = fi.default
      if d is None:
        return "VNone"
      if d is False:
        return "VBool false"
      if d is True:
        return "VBool true"
      if isinstance(d, tuple) and d == ():
        return "VTuple []"
      if isinstance(d, enum.Flag) and isinstance(d.value, int):
        return "VEnumI %s %s" % (coq_str(type(d).__name__), coq_z(d.value))
      if isinstance(d, enum.Enum) and isinstance(d.value, str):
        return "VEnumS %s %s" % (coq_str(type(d).__name__), coq_str(d.value))
      # omit_defaults compares by identity; other defaults (str, big ints, non-empty tuples) are not
      # identity-safe and have no faithful rendering in the model
      raise TranslateError(f"{where}: default {d!r} is not an identity-safe singleton")
    if fi.default_factory is not msgspec.NODEFAULT:
      if fi.default_factory is dict:
        return "VDict [] []"
      if fi.default_factory is list:
        return "VList []"
      raise TranslateError(f"{where}: default_factory {fi.default_factory!r} not modelled")
    return None

  def definer(c, name):
    for b in c.__mro__:
      if name in b.__dict__:
        return b, b.__dict__[name]
    return None, None

  tagfields = set()
  lines = []
  for c in structs:
    n = c.__name__
    cfg = c.__struct_config__
    if cfg.array_like or cfg.forbid_unknown_fields:
      raise TranslateError(f"{n}: array_like / forbid_unknown_fields not modelled")
    if tuple(c.__struct_encode_fields__) != tuple(c.__struct_fields__):
      raise TranslateError(f"{n}: renamed fields not modelled")
    if cfg.tag is not None:
      if cfg.tag != n:
        raise TranslateError(f"{n}: tag {cfg.tag!r} differs from the class name")
      tagfields.add(cfg.tag_field)
    finfos = msgspec.structs.fields(c)
    if tuple(f.name for f in finfos) != tuple(c.__struct_fields__):
      raise TranslateError(f"{n}: field order mismatch")
    fl = []
    sch.fields[n] = []
    for fi in finfos:
      where = f"{n}.{fi.name}"
      ft = fty(fi.type, where)
      dv = default_value(fi, where)
      sch.fields[n].append((fi.name, ft, dv, fi.type))
      fl.append("mkField %s (%s) %s" % (coq_str(fi.name), ft, "None" if dv is None else "(Some (%s))" % dv))
    nf = len(finfos)
    fnames = [f.name for f in finfos]
    # ---- == ----
    b, fn = definer(c, "__eq__")
    if isinstance(fn, types.FunctionType):
      if fn.__qualname__ == "_SetOfTypes.__eq__":
        eqm = "EqSet"
      elif fn.__qualname__ == "ClassType.__eq__":
        eqm = "EqMask " + coq_list(["true" if x == "name" else "false" for x in fnames])
      else:
        raise TranslateError(f"{n}: unknown custom __eq__ {fn.__qualname__}")
    elif cfg.eq:
      eqm = "EqMask " + coq_list(["true"] * nf)
    else:
      eqm = "EqIdent"
    # ---- hash ----
    b, fn = definer(c, "__hash__")
    if isinstance(fn, types.FunctionType):
      q = fn.__qualname__
      if q == "_SetOfTypes.__hash__":
        hm = "HashSeq"
      elif q == "ClassType.__hash__":
        hm = "HashMask " + coq_list(["true" if x == "name" else "false" for x in fnames])
      elif q == "Class.__hash__":
        hm = "HashMask " + coq_list(["false" if x == "_name2item" else "true" for x in fnames])
      elif q == "TypeDeclUnit.__hash__":
        hm = "HashIdent"
      else:
        raise TranslateError(f"{n}: unknown custom __hash__ {q}")
    elif fn is None:
      hm = "HashUnhashable"
    elif cfg.eq and cfg.frozen:
      hm = "HashMask " + coq_list(["true"] * nf)
    elif cfg.eq:
      hm = "HashUnhashable"
    else:
      hm = "HashIdent"
    # ---- __post_init__ ----
    b, fn = definer(c, "__post_init__")
    if fn is None:
      hook = "HNone"
    elif isinstance(fn, types.FunctionType) and fn.__qualname__ == "_SetOfTypes.__post_init__":
      hook = "HFlatten"
      if fnames != ["type_list"]:
        raise TranslateError(f"{n}: _SetOfTypes with fields {fnames}")
    elif isinstance(fn, types.FunctionType) and fn.__qualname__ == "SerializableAst.__post_init__":
      hook = "HClassTypes"
      if "ast" not in fnames or "class_type_nodes" not in fnames:
        raise TranslateError(f"{n}: SerializableAst without ast/class_type_nodes")
    else:
      raise TranslateError(f"{n}: unknown __post_init__ {fn!r}")
    setlike = issubclass(c, pytd._SetOfTypes)  # pylint: disable=protected-access
    lines.append("  (%s, mkSinfo %s %s\n     %s\n     %s (%s) (%s) %s)" % (
        coq_str(n), "None" if cfg.tag is None else "(Some %s)" % coq_str(cfg.tag),
        "true" if cfg.omit_defaults else "false",
        "[" + ";\n      ".join(fl) + "]", hook, eqm, hm, "true" if setlike else "false"))
  if len(tagfields) != 1:
    raise TranslateError(f"tagged structs use different tag fields: {tagfields}")
  sch.tagfield = tagfields.pop()
  elines = []
  for en, e in sorted(enums_seen.items()):
    sch.enums[en] = e
    vals = [m.value for m in e]
    if issubclass(e, enum.Flag):
      if not all(isinstance(v, int) for v in vals):
        raise TranslateError(f"enum {en}: non-int flag value")
      if e._boundary_ is not enum.STRICT or e._flag_mask_ != e._all_bits_:  # pylint: disable=protected-access
        raise TranslateError(f"enum {en}: Flag boundary / mask not modelled")
      elines.append("  (%s, EFlag %s)" % (coq_str(en), coq_z(e._flag_mask_)))  # pylint: disable=protected-access
    elif all(isinstance(v, str) for v in vals) and not issubclass(e, str):
      if "_missing_" in e.__dict__:
        raise TranslateError(f"enum {en}: _missing_ not modelled")
      elines.append("  (%s, EStr %s)" % (coq_str(en), coq_list([coq_str(v) for v in vals])))
    else:
      raise TranslateError(f"enum {en}: values {vals!r} not modelled")
  enc = pickle_utils.Encoder
  if enc.order == "deterministic":
    det = "true"
  elif enc.order is None:
    det = "false"
  else:
    raise TranslateError(f"Encoder(order={enc.order!r}) not modelled")
  if enc.enc_hook is not None:
    raise TranslateError("Encoder has an enc_hook")
  dec = pickle_utils.AstDecoder
  if dec.type is not serialize_ast.SerializableAst or not dec.strict or dec.dec_hook is not None \
      or dec.ext_hook is not None:
    raise TranslateError("AstDecoder is not Decoder(type=SerializableAst, strict=True) without hooks")
  sch.deterministic = det == "true"
  sch.root = "SerializableAst"
  sch.text = (
      "(* GENERATED by harness/props/c12_schema.py from the live classes of the repository under study.\n"
      "   Do not edit; regenerated on every run of  harness/check C12. *)\n"
      "From Coq Require Import List String ZArith.\n"
      "From PV Require Import Serial.Model.\n"
      "Import ListNotations.\nLocal Open Scope string_scope.\n\n"
      "Definition pytd_schema : Model.schema := mkSchema %s [\n%s\n ] [\n%s\n ] %s.\n\n"
      "Definition root : string := %s.\n" % (
          coq_str(sch.tagfield), ";\n".join(lines), ";\n".join(elines), det, coq_str(sch.root)))
  return sch
