"""C02 -- annotations are enforced exactly: error iff the value is outside the annotated type.  (PARTIAL)

Proof: coq/Props/C02.v over coq/Match/Model.v (the ground, type-variable-free fragment of matcher.py + the three
enforcement sites) and coq/Generated/C02_Builtins.v (builtin class table, regenerated from pytype's loaded stubs
on every run by c02_table.py, fail-closed).
Tie + search in one pass: for (annotation T, value expression V) pairs three-site programs are analysed by the
real pytype; the presence of the error at each site is compared
  * with err_arg / err_ret / err_assign evaluated in Coq (correspondence, on the pairs inside the fragment), and
  * with an independent run-time oracle inhabits(eval(V), T) (the property itself, on every pair).
A disagreement with the oracle is classified by the smallest set of NAMED deviations (c02_gen.explain) that
reproduces pytype's verdict; every name is a separate fingerprint; anything unexplained is a VIOLATION.
"""
import json
import multiprocessing
import os
import time

import common
import c02_ext as X
import c02_proto as P
import c02_lit as L
import c02_gen as G
import c02_table

BATCH = 50
GEN_V = os.path.join(common.COQ, "Generated", "C02_Builtins.v")
VIEW_LIMIT = 1024      # cfg_utils.DEEP_VARIABLE_LIMIT: not modelled; pairs at or above it are outside the fragment


# ---------------------------------------------------------------------------------------------------
# workers (real pytype)

def _init_worker():
  common.bootstrap_pytype()


def _work(job):
  hj, pairs = job
  hier = G.Hier.from_json(hj)
  try:
    res, unexpected = G.analyse_pairs_robust(hier, pairs)
  except Exception as e:   # pylint: disable=broad-except
    return ("exc", type(e).__name__ + ": " + str(e)[:400], None)
  return ("ok", {"%d:%s" % k: v for k, v in res.items()}, unexpected)


def _reveal_work(job):
  hj, vals = job
  hier = G.Hier.from_json(hj)
  lines = ["from typing import " + G.TYPING_IMPORTS] + hier.analysed_source().rstrip("\n").split("\n")
  where = {}
  for i, v in enumerate(vals):
    lines.append("reveal_type(%s)" % G.render_val(v))
    where[len(lines)] = i
  try:
    errs = G.run_pytype("\n".join(lines) + "\n")
  except Exception as e:   # pylint: disable=broad-except
    return ("exc", repr(e)[:300])
  out = {}
  for name, line, msg in errs:
    if name == "reveal-type" and line in where:
      out[where[line]] = msg
  return ("ok", out)


# ---------------------------------------------------------------------------------------------------
# rendering of abs(V) the way reveal_type prints it (validation of `abs`)

_SC = {"int": "int", "bool": "bool", "float": "float", "complex": "complex", "str": "str", "bytes": "bytes",
       "none": "None", "bytearray": "bytearray"}


def _union(parts):
  parts = sorted(set(parts))
  if not parts:
    return "nothing"
  return parts[0] if len(parts) == 1 else "Union[%s]" % ", ".join(parts)


def render_abs(v):
  k = v[0]
  if k in _SC:
    return _SC[k]
  if k in ("list", "set", "frozenset"):
    return "%s[%s]" % (k, _union(render_abs(e) for e in v[1]))
  if k == "tupleof":
    return "tuple[%s, ...]" % _union(render_abs(e) for e in v[1])
  if k == "tuple":
    return "tuple[%s]" % ", ".join(render_abs(e) for e in v[1]) if v[1] else "tuple[()]"
  if k == "dict":
    return "dict[%s, %s]" % (_union(render_abs(a) for a, _ in v[1]), _union(render_abs(b) for _, b in v[1]))
  if k == "inst":
    return v[1]
  if k == "class":
    return "type[%s]" % v[1]
  if k == "func":
    if v[3]:
      return None       # *args lambdas print as Callable[..., Any]; skipped in the reveal sample
    return "Callable[[%s], Any]" % ", ".join(["Any"] * (v[1] + v[2]))
  raise ValueError(v)


def canon_type(txt):
  """Printed type -> canonical nested tuple (unions as sorted sets, Optional[X] = Union[X, None])."""
  if txt is None:
    return None
  pos = [0]
  def parse():
    j = pos[0]
    while pos[0] < len(txt) and txt[pos[0]] not in "[],":
      pos[0] += 1
    name = txt[j:pos[0]].strip()
    args = []
    if pos[0] < len(txt) and txt[pos[0]] == "[":
      pos[0] += 1
      while True:
        if txt[pos[0]] == "]":
          pos[0] += 1
          break
        if txt[pos[0]] == "[":        # Callable's parameter list
          pos[0] += 1
          inner = []
          while txt[pos[0]] != "]":
            inner.append(parse())
            if txt[pos[0]] == ",":
              pos[0] += 1
          pos[0] += 1
          args.append(("params", tuple(inner)))
        else:
          args.append(parse())
        if pos[0] < len(txt) and txt[pos[0]] == ",":
          pos[0] += 1
    if name == "Optional":
      name, args = "Union", args + [("None", ())]
    if name == "Union":
      flat = []
      for a in args:
        flat.extend(a[1] if a[0] == "Union" else [a])
      return ("Union", tuple(sorted(set(flat))))
    return (name, tuple(args))
  try:
    return parse()
  except IndexError:
    return ("?", txt)


def reveal_ok(v):
  """Values whose printed type needs no pytd-level merging of sibling generics (see render_abs)."""
  k = v[0]
  if k in ("list", "set", "frozenset", "tupleof", "tuple", "dict"):
    elems = list(v[1]) if k != "dict" else [x for ab in v[1] for x in ab]
    if not all(reveal_ok(e) for e in elems):
      return False
    if k == "tuple":
      return True
    groups = [[a for a, _ in v[1]], [b for _, b in v[1]]] if k == "dict" else [elems]
    for g in groups:
      heads = {}
      for e in g:
        if e[0] in ("list", "set", "frozenset", "tupleof", "tuple", "dict", "func", "class"):
          hk = "tuple" if e[0] == "tupleof" else e[0]
          if hk in heads and heads[hk] != e:
            return False
          heads[hk] = e
      # bool and int are merged by the printer (bool <: int)
      if any(e == ("bool",) for e in g) and any(e == ("int",) for e in g):
        return False
    return True
  if k == "func":
    return not v[3]
  return True


# ---------------------------------------------------------------------------------------------------
# cases

def gen_pairs(r, hier, n, td, vd):
  pairs = []
  while len(pairs) < n:
    t = G.gen_type(r, hier, td)
    v = G.val_matching_type(r, hier, t, vd) if r.random() < 0.45 else G.gen_value(r, hier, vd)
    if not G.valid_val(v) or G.n_slices(v) >= 200:
      continue
    pairs.append((t, v))
  return pairs


def gen_near_miss_pairs(r, hier, n, stats):
  """Conforming value + single-place variants per sampled annotation (see c02_gen: NEAR-MISS stream)."""
  pairs = []
  def bump(key, sub):
    d = stats.setdefault(key, {})
    d[sub] = d.get(sub, 0) + 1
  while len(pairs) < n:
    form, t = G.gen_near_miss_type(r, hier)
    v = G.gen_conforming(r, hier, t)
    if v is None or not G.valid_val(v) or G.n_slices(v) >= 200 or not G.inh_dev(set(), t, v, hier):
      stats["rejected_candidates"] = stats.get("rejected_candidates", 0) + 1
      continue
    bump("annotation_forms", form)
    stats["conforming_values"] = stats.get("conforming_values", 0) + 1
    if v[0] == "tuple" and len(v[1]) >= 2 and all(G._is_container(e) and e[0] == v[1][0][0] for e in v[1]):   # pylint: disable=protected-access
      stats["tuple_displays_of_>=2_same_class_containers"] = \
          stats.get("tuple_displays_of_>=2_same_class_containers", 0) + 1
    pairs.append((t, v))
    for kind, label, w in G.near_miss_variants(r, hier, v):
      if G.n_slices(w) >= 200:
        continue
      bump("mutation_kinds", kind)
      bump("mutated_position", label)
      conf = G.inh_dev(set(), t, w, hier)
      bump("variants", "still_conforming" if conf else "non_conforming")
      pairs.append((t, w))
  return pairs[:n]


def small_types(hier):
  """Every annotation of depth <= 1 over a reduced atom set (thorough tier)."""
  atoms = [("cls", s, ()) for s in ("int", "float", "bool", "str", "bytes", "none", "object")] + [G.ANY_T]
  atoms += [("cls", n, ()) for n in hier.class_names()[:3]] + [("cls", hier.proto_names()[0], ())]
  ts = list(atoms) + [("cls", n, ()) for n in ("complex", "list", "tuple", "dict", "set", "frozenset", "type",
                                                "Callable", "Sized", "Sequence", "Iterable", "Mapping")]
  ts.append(("ftuple", ()))
  for a in atoms:
    ts.append(("union", (a, G.NONE_T)))
    for h in G.UNARY_GENERIC:
      ts.append(("cls", h, (a,)))
    ts.append(("ftuple", (a,)))
    ts.append(("callable", None, a))
    ts.append(("callable", (), a))
    ts.append(("callable", (a,), a))
    if a[0] == "cls" and a[1] not in ("none",):
      ts.append(("type", a))
  small = [("cls", s, ()) for s in ("int", "str", "float")] + [("cls", hier.class_names()[0], ())]
  for a in small:
    for b in small:
      ts.append(("union", (a, b))) if a != b else None
      ts.append(("ftuple", (a, b)))
      for h in G.BINARY_GENERIC:
        ts.append(("cls", h, (a, b)))
      ts.append(("callable", (a, b), a))
  return ts


def small_values(hier):
  """Every value expression of depth <= 1 over a reduced atom set (thorough tier)."""
  atoms = [(s,) for s in ("int", "bool", "float", "str", "bytes", "none")]
  atoms += [("inst", n) for n in hier.class_names()[:3]]
  vs = list(G.atom_values(hier))
  for a in atoms:
    vs += [("list", (a,)), ("tuple", (a,)), ("tupleof", (a,))]
    if G.hashable_val(a):
      vs += [("set", (a,)), ("frozenset", (a,)), ("dict", ((a, a),))]
  small = [("int",), ("str",), ("float",), ("none",), ("inst", hier.class_names()[1])]
  for a in small:
    for b in small:
      vs += [("list", (a, b)), ("tuple", (a, b)), ("tupleof", (a, b)), ("dict", ((("int",), a), (("str",), b)))]
      if a != b:
        vs.append(("set", (a, b)))
  return [v for v in vs if G.valid_val(v)]


# ---------------------------------------------------------------------------------------------------
# Coq evaluation

def cases_v(batches):
  """batches: list of (hier, pairs).  One Eval per batch: table_ok as 0/1 followed by one nat per case:
     1 wf, 2 err_arg, 4 err_ret, 8 err_assign, 16 inhabits."""
  out = ["From Coq Require Import List Arith Bool.", "From PV Require Import Match.Model Generated.C02_Builtins.",
         "Import ListNotations.",
         "Definition code (tb : table) (p : ty * value) : nat :=",
         "  let t := fst p in let v := snd p in",
         "  (if wf_ty tb t && wf_val tb v then 1 else 0) + (if err_arg tb v t then 2 else 0) +",
         "  (if err_ret tb v t then 4 else 0) + (if err_assign tb v t then 8 else 0) +",
         "  (if inhabits tb v t then 16 else 0)."]
  for i, (hier, pairs) in enumerate(batches):
    ids = G.user_ids(hier)
    out.append("Definition tb%d : table := {| t_b := gen_builtins; t_u := %s |}." % (i, G.coq_utable(hier)))
    out.append("Definition cs%d : list (ty * value) := [" % i)
    out.append(";\n".join("  (%s, %s)" % (G.coq_ty(t, ids), G.coq_val(v, ids)) for t, v in pairs))
    out.append("].")
    out.append("Eval vm_compute in ((if table_ok tb%d then 1 else 0) :: map (code tb%d) cs%d)." % (i, i, i))
  return "\n".join(out) + "\n"


def in_fragment(t, v):
  return not G.unsupported_heads(t) and G.n_slices(v) < VIEW_LIMIT and not G.refilter_shape(v)


# ---------------------------------------------------------------------------------------------------

def load_corpus():
  d = os.path.join(common.CORPUS, "C02")
  out = []
  for f in sorted(os.listdir(d)) if os.path.isdir(d) else []:
    j = json.load(open(os.path.join(d, f)))
    out.append((f, G.Hier.from_json(j["hier"]), [(_tup(c["ty"]), _tup(c["val"])) for c in j["cases"]]))
  return out


def _tup(x):
  if isinstance(x, list):
    return tuple(_tup(e) for e in x)
  return x


def fingerprints(t, v, site, impl_err, hier):
  """Named deviations explaining pytype's verdict, as fingerprints; [] if the verdict is the oracle's;
  None if nothing explains it."""
  if G.n_slices(v) >= VIEW_LIMIT and not impl_err:
    return ["view-limit-1024"]
  F = G.explain(t, v, site, impl_err, hier)
  if F is None and not impl_err and site != "arg" and G.refilter_shape(v) and G.diagnose_refilter(hier, t, v, site):
    return ["hascombination-drops-bad-view"]
  if F is None:
    return None
  return [("noniterable-str:" + G.noniter_abc(t)) if f == "noniterable-str" else f for f in F]


def shrink(t, v, site, hier, still_bad, budget_s=20.0):
  """Greedy structural shrinking of (t, v) while still_bad(t, v) holds; time-bounded."""
  deadline = time.time() + budget_s
  def sub_types(u):
    k = u[0]
    if k == "union":
      for o in u[1]:
        yield o
      for i in range(len(u[1])):
        if len(u[1]) > 2:
          yield ("union", u[1][:i] + u[1][i + 1:])
        for s in sub_types(u[1][i]):
          yield ("union", u[1][:i] + (s,) + u[1][i + 1:])
    elif k == "cls" and u[2]:
      yield ("cls", u[1], ())
      for i in range(len(u[2])):
        for s in [G.ANY_T] + list(sub_types(u[2][i])):
          yield ("cls", u[1], u[2][:i] + (s,) + u[2][i + 1:])
    elif k == "ftuple":
      for i in range(len(u[1])):
        yield ("ftuple", u[1][:i] + u[1][i + 1:])
        for s in sub_types(u[1][i]):
          yield ("ftuple", u[1][:i] + (s,) + u[1][i + 1:])
    elif k == "callable":
      for s in sub_types(u[2]):
        yield ("callable", u[1], s)
      if u[1]:
        yield ("callable", u[1][1:], u[2])
    elif k == "type":
      for s in sub_types(u[1]):
        yield ("type", s)
  def sub_vals(w):
    k = w[0]
    if k in ("list", "tuple", "set", "frozenset", "tupleof"):
      for i in range(len(w[1])):
        yield (k, w[1][:i] + w[1][i + 1:])
        for s in sub_vals(w[1][i]):
          yield (k, w[1][:i] + (s,) + w[1][i + 1:])
    elif k == "dict":
      for i in range(len(w[1])):
        yield ("dict", w[1][:i] + w[1][i + 1:])
        a, b = w[1][i]
        for s in sub_vals(b):
          yield ("dict", w[1][:i] + ((a, s),) + w[1][i + 1:])
  changed = True
  while changed and time.time() < deadline:
    changed = False
    for cand_t in sub_types(t):
      if time.time() > deadline:
        break
      if still_bad(cand_t, v):
        t, changed = cand_t, True
        break
    for cand_v in sub_vals(v):
      if time.time() > deadline:
        break
      if G.valid_val(cand_v) and still_bad(t, cand_v):
        v, changed = cand_v, True
        break
  return t, v


def run(res):
  thorough = res.tier == "thorough"
  res.rule = ("pairs (annotation T, ground value expression V): T from a depth-bounded grammar over builtin "
              "scalars, Any/object, Optional/Union, list/set/frozenset/dict/tuple (homogeneous and fixed), typing "
              "ABCs, Callable, Type[C], classes and method protocols of a randomly generated 6-class hierarchy; V "
              "from literals, displays, tuple()/frozenset() calls, instances, class objects, lambdas; 45% of the "
              "values are built to inhabit T.  Each pair is checked at three sites (argument, return, annotated "
              "assignment), 50 pairs per analysed module.  A case is non-trivial if T is not Any/object; distinct "
              "by (rendered T, rendered V, hierarchy).  quick: corpus + 500 NEAR-MISS pairs (for a sampled annotation "
              "biased to depth-2 forms a value generated to conform, then variants differing from it in exactly "
              "one place: first/middle/LAST leaf swapped for another type, one element dropped, one container "
              "class changed) + 500 independently sampled pairs (1/3 of depth<=1, 2/3 of depth 2); thorough: 1500 "
              "near-miss + 2500 sampled pairs + a uniform sample (default 8000, VERIF_C02_EXHAUSTIVE_CAP) "
              "of the full product of every depth<=1 annotation x every depth<=1 value over a reduced atom set "
              "(319 x 209 pairs).")
  res.assumptions = [
      "CPython compiles the generated one-line statements as written (C16's subject)",
      "abs (the abstract value built for a literal expression) is modelled after convert.py/vm.py and checked "
      "only by correspondence and by the reveal_type sample",
      "cfg_utils.DEEP_VARIABLE_LIMIT (1024 views) is not modelled; pairs at or above it are outside the fragment",
      "set displays with two elements containing tuple(...)/frozenset(...) call results are outside the Coq "
      "fragment (the CFG solver's HasCombination answer used by compute_one_match's re-filter is not modelled)",
      "formals Collection[...]/MutableMapping[...] (reached through _match_against_protocol with signature "
      "matching over type variables) are outside the Coq fragment: oracle differential only",
      "return types of un-annotated lambdas are not part of the oracle (callables are compared by arity)",
      "generator, differ and the run-time oracle in harness/props/c02*.py",
  ]
  # --- regenerate the builtin class table from pytype's loaded stubs (fail closed)
  t_start = time.time()
  drift = []
  common.bootstrap_pytype()
  try:
    tbl = c02_table.build()
    common.write_if_changed(GEN_V, c02_table.render_coq(tbl))
    res.obligation("translate:builtins.pytd/typing.pytd->Generated/C02_Builtins.v", not tbl.get("compat_error"),
                   tbl.get("compat_error") or "")
    drift = c02_table.compat_drift(tbl)
  except c02_table.TranslateError as e:
    res.obligation("translate:builtins.pytd/typing.pytd->Generated/C02_Builtins.v", False, str(e))
    if not os.path.exists(GEN_V):
      return "proof"
  t_translate = time.time() - t_start
  common.coq_obligations(res, "C02")
  t_coq_build = time.time() - t_start - t_translate
  res.trusted_base += ["out-of-tree g++ build of /repo/pytype/typegraph/*.cc (harness/common.py build_cfg)",
                       "harness/props/c02_table.py (stub -> Coq table translator; reads pytype's loaded classes)",
                       "CPython 3.12 eval() of the value expressions + collections.abc for the oracle"]
  r = common.rng(res.seed, "c02")
  # --- cases: corpus first
  batches = []          # (name, hier, pairs)
  for name, hier, pairs in load_corpus():
    batches.append(("corpus:" + name, hier, pairs))
  if drift:
    # the compat (promotion) pairs of the live matcher differ from the ones the model was proved against:
    # look for a concrete failing input at exactly those promotions, before anything else
    tp = []
    for pair in drift:
      tp += G.compat_targets(pair)
    hier0 = G.Hier.default()
    for i in range(0, len(tp), BATCH):
      batches.append(("compat-drift%d" % (i // BATCH), hier0, tp[i:i + BATCH]))
    res.extra["compat_drift"] = {"pairs": [list(p) for p in drift], "targeted_pairs": len(tp)}
  n_rand = 2500 if thorough else 500
  n_near = 1500 if thorough else 500
  nm_stats = {}
  for b in range(n_near // BATCH):
    hier = G.Hier.random(r)
    batches.append(("near%d" % b, hier, gen_near_miss_pairs(r, hier, BATCH, nm_stats)))
  res.extra["near_miss_stream"] = nm_stats
  for b in range(n_rand // BATCH):
    hier = G.Hier.random(r)
    if b % 3 == 0:
      pairs = gen_pairs(r, hier, BATCH, 1, 1)
    else:
      pairs = gen_pairs(r, hier, BATCH, 2, 2)
    batches.append(("rand%d" % b, hier, pairs))
  if thorough:
    hier = G.Hier.default()
    ts, vs = small_types(hier), small_values(hier)
    allp = [(t, v) for t in ts for v in vs]
    r.shuffle(allp)
    cap = int(os.environ.get("VERIF_C02_EXHAUSTIVE_CAP", "8000"))
    res.extra["exhaustive_scope"] = ("%d depth<=1 annotations x %d depth<=1 values = %d pairs%s" % (
        len(ts), len(vs), len(allp), "" if len(allp) <= cap else " (uniform sample of %d)" % cap))
    allp = allp[:cap]
    for i in range(0, len(allp), BATCH):
      batches.append(("ex%d" % (i // BATCH), hier, allp[i:i + BATCH]))
  # --- extension legs (c) argument-site binding, (d) assignment-site stores: own PRNG stream
  xr = common.rng(res.seed, "c02ext")
  x_arg = X.argsite_cases(xr, 900 if thorough else 160)
  x_st = X.store_cases(xr, 900 if thorough else 160)
  x_progs = X.build_programs(x_arg, x_st)
  # --- extension leg (a) structural protocols: builtin world regenerated from the loaded stubs (fail closed)
  pr = common.rng(res.seed, "c02proto")
  p_batches, p_progs, p_bw = [], [], None
  try:
    p_bw = P.build_builtin_world()
    res.obligation("translate:loaded stubs->protocol world (Match/Proto.v)", True)
  except Exception as e:   # pylint: disable=broad-except
    res.obligation("translate:loaded stubs->protocol world (Match/Proto.v)", False, repr(e)[:400])
  if p_bw:
    for b in range(20 if thorough else 3):
      uw = P.UserWorld.random(pr)
      p_batches.append((uw, P.gen_pairs(pr, uw, 40)))
    p_progs = [("proto%d" % i,) + P.build_program(uw, pairs) for i, (uw, pairs) in enumerate(p_batches)]
  # --- extension leg (e) Literal types + return statements with multi-binding variables: own PRNG stream
  lr = common.rng(res.seed, "c02lit")
  l_batches = [L.gen_cases(lr, 60, 15) for _ in range(24 if thorough else 5)]
  l_progs = [("lit%d" % i,) + L.build_program(p, rs) for i, (p, rs) in enumerate(l_batches)]
  # --- real pytype
  t0 = time.time()
  nproc = 4
  ctx = multiprocessing.get_context("fork")
  with ctx.Pool(nproc, initializer=_init_worker) as pool:
    jobs = [(h.to_json(), p) for _, h, p in batches]
    async_ext = pool.map_async(X.work, x_progs, chunksize=1)
    async_proto = pool.map_async(P.work, [(t, src) for t, src, _ in p_progs], chunksize=1)
    async_lit = pool.map_async(L.work, [(t, src) for t, src, _ in l_progs], chunksize=1)
    async_impl = pool.map_async(_work, jobs, chunksize=1)
    # reveal_type sample for abs
    rv_hier = G.Hier.default()
    rv_vals = [v for v in small_values(rv_hier) if reveal_ok(v) and render_abs(v)]
    for _ in range(60):
      v = G.gen_value(r, rv_hier, 2)
      if reveal_ok(v) and render_abs(v):
        rv_vals.append(v)
    rv_vals = rv_vals[:400] if thorough else r.sample(rv_vals, min(120, len(rv_vals)))
    async_rv = pool.map_async(_reveal_work, [(rv_hier.to_json(), rv_vals[i:i + 60])
                                              for i in range(0, len(rv_vals), 60)], chunksize=1)
    # --- Coq evaluation meanwhile
    t1 = time.time()
    files = []
    per_file = 8
    for i in range(0, len(batches), per_file):
      files.append(("c02_cases_%d" % (i // per_file), cases_v([(h, p) for _, h, p in batches[i:i + per_file]])))
    x_files = [("c02_ext", X.coq_body(x_arg, x_st))]
    if p_batches:
      x_files.append(("c02_proto", P.coq_body(p_bw, p_batches)))
    x_files.append(("c02_lit", L.coq_body(l_batches)))
    coq_out = common.run_cases_parallel(x_files + files, timeout=1200)
    t_coq = time.time() - t1
    x_impl = async_ext.get()
    p_impl = async_proto.get()
    impl = async_impl.get()
    l_impl = async_lit.get()
    rv_out = async_rv.get()
  t_impl = time.time() - t0
  codes = []
  coq_ok = True
  for fi, (name, _) in enumerate(files):
    ok, out = coq_out[name]
    nb = batches[fi * per_file:(fi + 1) * per_file]
    if not ok:
      coq_ok = False
      res.obligation("model-run:" + name, False, out[-1500:])
      codes.extend([None] * len(nb))
      continue
    terms = common.parse_coq_eval(out)
    if len(terms) != len(nb):
      coq_ok = False
      res.obligation("model-run:" + name, False, "expected %d Eval outputs, got %d" % (len(nb), len(terms)))
      codes.extend([None] * len(nb))
      continue
    for term in terms:
      nums = [int(x) for x in term.strip("[] ").split(";") if x.strip()]
      codes.append([c + 32 * nums[0] for c in nums[1:]])
  # --- compare
  n_corr = n_corr_bad = n_orc_bad = n_unexp = n_outside = 0
  n_oracle_self = 0
  n_wf_bad = 0
  hist_site_err = {s: 0 for s in G.SITES}
  hist_head = {}
  explained = {}
  seen_fp = set()
  reported = 0
  for bi, ((bname, hier, pairs), out) in enumerate(zip(batches, impl)):
    if out[0] != "ok":
      if "typeshed" in (out[1] or ""):
        continue      # not explorable
      res.obligation("impl-run:" + bname, False, out[1])
      continue
    resmap, unexpected = out[1], out[2]
    if unexpected:
      n_unexp += len(unexpected)
      if n_unexp <= 3:
        res.obligation("generated-program-clean:" + bname, False, json.dumps(unexpected[:5]))
    cs = codes[bi] if bi < len(codes) else None
    for i, (t, v) in enumerate(pairs):
      head = t[0] if t[0] != "cls" else t[1]
      hist_head[head] = hist_head.get(head, 0) + 1
      trivial = t == G.ANY_T or t == ("cls", "object", ())
      res.count(None if trivial else (G.render_ty(t), G.render_val(v), hier.key()))
      try:
        rv = G.eval_val(v, hier)
        orc = G.inhabits(rv, t, hier)
      except Exception as e:   # pylint: disable=broad-except
        res.obligation("oracle-eval", False, "%s: %r" % (G.render_val(v), e))
        continue
      if G.inh_dev(set(), t, v, hier) != orc:
        n_oracle_self += 1
        if n_oracle_self <= 3:
          res.obligation("oracle-selfcheck", False, "run-time oracle %s but AST oracle %s on (%s, %s)" % (
              orc, not orc, G.render_ty(t), G.render_val(v)))
      frag = in_fragment(t, v)
      code = cs[i] if cs and i < len(cs) else None
      if frag and code is not None:
        if not code & 1 or not code & 32:
          n_wf_bad += 1
          if n_wf_bad <= 2:
            res.obligation("fragment-wf", False, "wf_ty/wf_val (bit 1) or table_ok (bit 32) false in Coq: code %d "
                           "for (%s, %s)" % (code, G.render_ty(t), G.render_val(v)))
        if bool(code & 16) != orc:
          n_corr_bad += 1
          if n_corr_bad <= 3:
            res.obligation("oracle-agreement:coq-inhabits-vs-runtime", False, "(%s, %s): Coq %s, run time %s" % (
                G.render_ty(t), G.render_val(v), bool(code & 16), orc))
      else:
        n_outside += 1
      for s, bit in zip(G.SITES, (2, 4, 8)):
        e = resmap["%d:%s" % (i, s)]
        if isinstance(e, str):          # pytype itself raised while analysing this site
          fp = "%s:%s" % (e, (G.unsupported_heads(t) or [head])[0])
          explained[fp] = explained.get(fp, 0) + 1
          if fp not in seen_fp:
            seen_fp.add(fp)
            res.violation(fp, "pytype raises %s instead of reporting at the %s site: T=%s V=%s" % (
                e.split(":")[1], s, G.render_ty(t), G.render_val(v)),
                          {"hier": hier.to_json(), "ty": t, "val": v, "site": s,
                           "source": G.build_module(hier, [(t, v)], (s,))[0]})
          continue
        hist_site_err[s] += int(e)
        if frag and code is not None:
          n_corr += 1
          if bool(code & bit) != e:
            n_corr_bad += 1
            if n_corr_bad <= 3:
              res.obligation("correspondence:%s:%s" % (bname, s), False,
                             "model err=%s, pytype err=%s for T=%s V=%s" % (
                                 bool(code & bit), e, G.render_ty(t), G.render_val(v)))
        if e != (not orc):
          fps = fingerprints(t, v, s, e, hier)
          if fps is None and not frag:
            fps = ["protocol-fallback:" + (G.unsupported_heads(t) or ["?"])[0]]
          what = "%s at %s site: T=%s V=%s" % ("error on a conforming value" if e else "missed violation", s,
                                               G.render_ty(t), G.render_val(v))
          if fps is None:
            n_orc_bad += 1
            if reported < 3:
              reported += 1
              def still_bad(t2, v2, s=s, hier=hier):
                try:
                  r2, un2 = G.analyse_pairs(hier, [(t2, v2)])
                  if un2:
                    return False
                  e2 = r2[(0, s)]
                  o2 = G.inhabits(G.eval_val(v2, hier), t2, hier)
                  return e2 != (not o2) and fingerprints(t2, v2, s, e2, hier) is None
                except Exception:   # pylint: disable=broad-except
                  return False
              t2, v2 = shrink(t, v, s, hier, still_bad)
              ufp = "unexplained:%s:%s:%s" % (s, "false-error" if e else "missed", G.render_ty(t2)[:60])
              while ufp in res.known:      # an unexplained disagreement can never be silenced by a listed entry
                ufp += ":unlisted"
              res.violation(ufp,
                            "%s at %s site: T=%s V=%s" % ("error on a conforming value" if e else
                                                          "missed violation", s, G.render_ty(t2), G.render_val(v2)),
                            {"hier": hier.to_json(), "ty": t2, "val": v2, "site": s,
                             "source": G.build_module(hier, [(t2, v2)])[0]})
          else:
            for fp in fps:
              explained[fp] = explained.get(fp, 0) + 1
              if fp not in seen_fp:
                seen_fp.add(fp)
                res.violation(fp, what, {"hier": hier.to_json(), "ty": t, "val": v, "site": s,
                                         "source": G.build_module(hier, [(t, v)], (s,))[0]})
      if len(res.samples) < 4 and not trivial and frag and G.ty_depth(t) >= 1:
        res.sample({"T": G.render_ty(t), "V": G.render_val(v),
                    "pytype_errors": {s: resmap["%d:%s" % (i, s)] for s in G.SITES}, "inhabits": orc})
  res.obligation("correspondence:model-vs-pytype(3 sites)", coq_ok and n_corr_bad == 0,
                 "%d of %d site verdicts disagree" % (n_corr_bad, n_corr))
  res.obligation("oracle:unexplained-disagreements", n_orc_bad == 0,
                 "%d site verdicts differ from run-time membership and no named deviation explains them" % n_orc_bad)
  res.obligation("generated-programs-clean", n_unexp == 0, "%d unexpected errors" % n_unexp)
  res.obligation("fragment-wf(all pairs inside the fragment are wf, table_ok holds)", n_wf_bad == 0,
                 "%d pairs" % n_wf_bad)
  # --- extension legs: three-way comparison
  x_ok, x_out = coq_out["c02_ext"]
  if not x_ok:
    res.obligation("model-run:c02_ext", False, x_out[-1500:])
  arg_fixed, probe_ok, probe_detail = X.probe_variant()
  res.obligation("argsite:variant-probe (Signature.iter_args is entirely the fixed or entirely the old code)", probe_ok,
                 "probe verdicts %r" % (probe_detail,))
  res.extra["argsite_variant"] = "fixed (fixes/C02-iter-args-keyword-binding.patch)" if arg_fixed else "before-fix"
  X.evaluate(res, x_arg, x_st, x_progs, x_impl, common.parse_coq_eval(x_out) if x_ok else [], arg_fixed)
  if p_batches:
    p_ok, p_out = coq_out["c02_proto"]
    if not p_ok:
      res.obligation("model-run:c02_proto", False, p_out[-1500:])
    P.evaluate(res, p_bw, p_batches, p_progs, p_impl, common.parse_coq_eval(p_out) if p_ok else [])
  l_ok, l_out = coq_out["c02_lit"]
  if not l_ok:
    res.obligation("model-run:c02_lit", False, l_out[-1500:])
  L.evaluate(res, l_batches, l_progs, l_impl, common.parse_coq_eval(l_out) if l_ok else [])
  # --- abs vs reveal_type
  n_rv = n_rv_bad = 0
  k = 0
  for chunk in rv_out:
    if chunk[0] != "ok":
      res.obligation("reveal-run", False, chunk[1])
      k += 60
      continue
    for j in range(60):
      if k + j >= len(rv_vals):
        break
      v = rv_vals[k + j]
      got = chunk[1].get(j)
      want = render_abs(v)
      n_rv += 1
      if canon_type(got) != canon_type(want):
        n_rv_bad += 1
        if n_rv_bad <= 3:
          res.obligation("abs-vs-reveal_type", False, "%s: reveal_type %r, abs renders %r" % (
              G.render_val(v), got, want))
    k += 60
  res.obligation("abs-vs-reveal_type(sample)", n_rv_bad == 0, "%d of %d differ" % (n_rv_bad, n_rv))
  res.extra.update({
      "pairs": sum(len(p) for _, _, p in batches), "site_verdicts_compared_with_model": n_corr,
      "pairs_outside_fragment(oracle only)": n_outside, "errors_by_site": hist_site_err,
      "annotation_head_histogram": dict(sorted(hist_head.items(), key=lambda kv: -kv[1])),
      "explained_deviation_hits": explained, "reveal_type_sample": n_rv,
      "wall_translate_s": round(t_translate, 1), "wall_coq_build_and_props_s(incl. waiting for the shared lock)":
      round(t_coq_build, 1), "wall_pytype_s": round(t_impl, 1), "wall_coq_cases_s": round(t_coq, 1)})
  if thorough:
    ok, out = common_coqchk("C02")
    res.obligation("coqchk", ok, out[-1500:])
  return "proof"


def common_coqchk(pid):
  import subprocess   # pylint: disable=import-outside-toplevel
  r = subprocess.run(["timeout", "1500", "coqchk", "-silent", "-o", "-Q", common.COQ, "PV", f"PV.Props.{pid}"],
                     capture_output=True, text=True, cwd=common.COQ)
  return r.returncode == 0, r.stdout + r.stderr


def replay(res, path):
  common.bootstrap_pytype()
  d = json.load(open(path))["replay"]
  if d.get("leg") in ("lit", "lit-ret"):
    return L.replay(d)
  if d.get("leg") in ("argsite", "store", "proto"):
    return X.replay(d)
  hier = G.Hier.from_json(d["hier"])
  t, v, s = _tup(d["ty"]), _tup(d["val"]), d["site"]
  resmap, unexpected = G.analyse_pairs_robust(hier, [(t, v)])
  e = resmap[(0, s)]
  orc = G.inhabits(G.eval_val(v, hier), t, hier)
  if isinstance(e, str):
    print("T      :", G.render_ty(t))
    print("V      :", G.render_val(v))
    print("pytype :", e)
    return 1
  print("T      :", G.render_ty(t))
  print("V      :", G.render_val(v))
  print("site   :", s)
  print("pytype : error reported =", e, unexpected or "")
  print("oracle : value inhabits T =", orc)
  fps = fingerprints(t, v, s, e, hier) if e != (not orc) else []
  print("explained by:", fps)
  return 1 if e != (not orc) else 0


def generate():
  """Called by harness/setup.py before the Coq build (coq/Generated is not committed)."""
  common.bootstrap_pytype()
  common.write_if_changed(GEN_V, c02_table.render_coq(c02_table.build()))
