"""C16 — every compiled code object becomes a well-formed ordered block graph.

Proof: coq/Props/C16.v over coq/Blocks/Model.v (+ Generated/C16_OpcodeFlags.v, regenerated from
pytype/pyc/opcodes.py on every run by a fail-closed translator).
Tie: for every code object of the corpus, of generated programs and of CPython 3.12 standard-library sources the
real pipeline (pyc.compile_src -> blocks.process_code) is observed; the opcode table / opcode list it builds are
abstracted and fed to the extracted model; opcode list, blocks, edges, order, rewritten targets and
compute_predecessors are compared; the model of add_pop_block_targets is run on every real opcode list (with the real
push_exc_block marks) and its block_targets compared with the real ones.  wf_ops and apbt_okb are monitored on every real
opcode list.  A stream of synthetic opcode lists / offset tables exercises the error paths of compute_order /
_make_opcode_list / add_pop_block_targets (pre-3.8 and pre-3.11 block opcodes, marked jumps) against the model.
Oracle: the clauses of the property evaluated directly on the real objects (c16_impl.oracle).
"""
import ast
import collections
import glob
import json
import os
import subprocess
import textwrap
import time
import warnings

import common
import c16_flags
import c16_gen
import c16_impl

STDLIB = "/root/.pyenv/versions/3.12.1/lib/python3.12"
# always part of the quick sample: async for / await / yield from / with / try-heavy files
CORE_FILES = ["asyncio/streams.py", "asyncio/taskgroups.py", "contextlib.py", "test/test_coroutines.py",
              "test/test_asyncgen.py", "test/test_grammar.py", "test/test_patma.py"]


# ---------------------------------------------------------------------------------------------------
# model runner

class Model:
  def __init__(self, exe):
    self.exe = exe

  def run(self, lines):
    if not lines:
      return []
    try:
      pr = subprocess.run([self.exe], input="\n".join(lines) + "\n", capture_output=True, text=True, timeout=2400)
    except subprocess.TimeoutExpired:
      raise common.BuildError("model driver did not finish %d cases in 2400 s" % len(lines))
    if pr.returncode != 0:
      raise common.BuildError("model driver failed: " + pr.stderr[-1500:])
    out = pr.stdout.split("\n")
    if out and out[-1] == "":
      out.pop()
    if len(out) != len(lines):
      raise common.BuildError("model driver printed %d lines for %d cases" % (len(out), len(lines)))
    return out


def parse_model(line):
  """-> (wf, anext_ok, plain, err or None, parts dict); parts["simple"] = merge_simpleb"""
  flags, rest = line.split(" ", 1)
  wf, an, pl = flags[1] == "1", flags[2] == "1", flags[3] == "1"
  simple = flags[4] == "1"
  if rest.startswith("E"):
    return wf, an, pl, rest, {"simple": simple}
  parts = rest.split(" |")
  d = {"simple": simple}
  for p in parts:
    d[p[0]] = p
  return wf, an, pl, None, d


# ---------------------------------------------------------------------------------------------------
# sources

def stdlib_files():
  return sorted(glob.glob(STDLIB + "/**/*.py", recursive=True))


def read_source(path):
  try:
    return open(path, "rb").read().decode("utf-8")
  except (UnicodeDecodeError, OSError):
    return None


def fingerprint(v):
  """Stable identity of a violation class: the clause plus the opcode names involved."""
  kind = v[0]
  names = [str(x) for x in v[1:] if isinstance(x, str)]
  return kind + (":" + "+".join(names) if names else "")


# ---------------------------------------------------------------------------------------------------
# shrinking a failing source (time-bounded)

def violates(src, fp):
  obs, err = c16_impl.observe_source(src, "shrunk.py")
  if err and err.startswith("process_code raised"):
    return fp.startswith("process_code-raises") and fp.split(":")[1] in err
  from pytype.pyc import opcodes  # pylint: disable=import-outside-toplevel
  for ob in obs:
    for v in all_clauses(ob, opcodes):
      if fingerprint(v) == fp:
        return True
  return False


def all_clauses(ob, opcodes):
  vs = c16_impl.oracle(ob.ops, ob.blocks, ob.order, opcodes)
  vs += list(ob.apbt_v)
  vs += c16_impl.predecessor_oracle(ob.blocks, c16_impl.install_hooks()["cfg_utils"])
  try:
    vs += c16_impl.exception_table_oracle(ob.host_code, ob.items, ob.ops, ob.blocks, ob.order, opcodes, ob.ops_line)
  except Exception as e:  # pylint: disable=broad-except
    vs.append(("exception-table-oracle-crashed", type(e).__name__))
  return vs


def shrink_source(src, firstlineno, fp, budget_s=20.0):
  """Cut the source down to the enclosing top-level definition, then drop statements while it still fails."""
  deadline = time.time() + budget_s
  try:
    tree = ast.parse(src)
  except SyntaxError:
    return src
  best = src
  # 1. innermost def/class containing the line, tried from the innermost outwards
  chain = []

  def find(node):
    for ch in ast.iter_child_nodes(node):
      lo, hi = getattr(ch, "lineno", None), getattr(ch, "end_lineno", None)
      if lo is not None and lo <= firstlineno <= (hi or lo):
        if isinstance(ch, (ast.FunctionDef, ast.AsyncFunctionDef, ast.ClassDef)):
          chain.append(ch)
        find(ch)
        return
  find(tree)
  for node in reversed(chain):
    if time.time() > deadline:
      return best
    try:
      node.decorator_list = []
      cand = ast.unparse(node) + "\n"
      if violates(cand, fp):
        best = cand
        break
    except Exception:  # pylint: disable=broad-except
      continue
  # 2. chunked statement removal (halves, quarters, ... single statements), outermost bodies first
  def bodies_of(tree):
    out = []
    for node in ast.walk(tree):
      for field in ("body", "orelse", "finalbody"):
        b = getattr(node, field, None)
        if isinstance(b, list) and b and isinstance(b[0], ast.stmt):
          out.append(b)
    return out

  changed = True
  while changed and time.time() < deadline:
    changed = False
    try:
      tree = ast.parse(best)
    except SyntaxError:
      break
    n_bodies = len(bodies_of(tree))
    for bi in range(n_bodies):
      if time.time() > deadline:
        return best
      bs = bodies_of(tree)
      if bi >= len(bs):
        break
      b = bs[bi]
      size = max(1, len(b) // 2)
      while size >= 1 and time.time() < deadline:
        i = 0
        progressed = False
        while i < len(b) and time.time() < deadline:
          saved = b[i:i + size]
          if len(saved) == len(b):
            if len(b) == 1 and isinstance(b[0], ast.Pass):
              break
            b[:] = [ast.Pass()]
          else:
            del b[i:i + size]
          try:
            cand = ast.unparse(tree) + "\n"
            ok = violates(cand, fp)
          except Exception:  # pylint: disable=broad-except
            ok = False
          if ok:
            best = cand
            changed = progressed = True
          else:
            if len(b) == 1 and isinstance(b[0], ast.Pass) and len(saved) >= 1 and not (
                len(saved) == 1 and isinstance(saved[0], ast.Pass)):
              b[:] = saved
            else:
              b[i:i] = saved
            i += size
        if size == 1 and not progressed:
          break
        size = size // 2 if not progressed or size > 1 else 1
        if size == 0:
          break
  return best


# ---------------------------------------------------------------------------------------------------
# synthetic opcode lists against the real compute_order (error paths and odd shapes included)

PLAIN_OPS = ["NOP", "POP_TOP", "LOAD_FAST", "YIELD_VALUE", "RESUME", "END_FOR"]
JUMP_OPS = ["JUMP_FORWARD", "POP_JUMP_IF_FALSE", "FOR_ITER", "JUMP_BACKWARD", "JUMP_BACKWARD_NO_INTERRUPT", "SEND",
            "SETUP_EXCEPT_311"]
END_OPS = ["RETURN_VALUE", "RAISE_VARARGS", "RERAISE", "RETURN_CONST"]
SPECIAL_OPS = ["POP_BLOCK", "CLEANUP_THROW", "END_SEND", "GET_ANEXT", "END_ASYNC_FOR"]


def synth_random(r):
  n = r.randint(1, 14)
  spec = []
  for _ in range(n):
    k = r.random()
    name = r.choice(PLAIN_OPS) if k < 0.35 else r.choice(JUMP_OPS) if k < 0.65 else \
        r.choice(END_OPS) if k < 0.75 else r.choice(SPECIAL_OPS)
    tgt = r.randrange(n) if (name in JUMP_OPS or r.random() < 0.05) else -1
    bt = r.randrange(n) if (name == "POP_BLOCK" and r.random() < 0.7) or r.random() < 0.03 else -1
    ea = r.randrange(n) if (name == "JUMP_BACKWARD" and r.random() < 0.4) or r.random() < 0.02 else -1
    spec.append([name, tgt, bt, ea])
  return spec


def synth_template(r):
  """Well-shaped fragments (if / loop / try / await window / async for skeleton), labels resolved at the end."""
  spec = []          # [name, target label, block_target label, eaft label]
  labels = {}
  tail = []          # cold blocks appended after the final return
  nlab = [0]

  def lab():
    nlab[0] += 1
    return "L%d" % nlab[0]

  def here(l):
    labels[l] = len(spec)

  def emit(name, t=None, bt=None, ea=None):
    spec.append([name, t, bt, ea])

  def plain(k=None):
    for _ in range(k if k is not None else r.randint(0, 2)):
      emit(r.choice(["NOP", "POP_TOP", "LOAD_FAST"]))

  def send_window():
    s, e, ct = lab(), lab(), lab()
    here(s)
    emit("SEND", e)
    emit("YIELD_VALUE")
    if r.random() < 0.7:
      emit("RESUME")
    emit("JUMP_BACKWARD_NO_INTERRUPT", s)
    if r.random() < 0.25:
      emit("CLEANUP_THROW")
    else:
      tail.append([["CLEANUP_THROW", None, None, None], ["JUMP_BACKWARD", e, None, None]])
    here(e)
    emit("END_SEND")

  def frag(depth):
    k = r.random()
    if depth > 2 or k < 0.2:
      plain(r.randint(1, 2))
    elif k < 0.35:
      l = lab()
      emit("POP_JUMP_IF_FALSE", l)
      body(depth + 1)
      here(l)
      plain(1)
    elif k < 0.5:
      top, out = lab(), lab()
      here(top)
      emit("FOR_ITER", out)
      body(depth + 1)
      emit("JUMP_BACKWARD", top)
      here(out)
      emit("END_FOR")
    elif k < 0.65:
      h, after = lab(), lab()
      emit("SETUP_EXCEPT_311", h)
      body(depth + 1)
      emit("POP_BLOCK", None, h)
      emit("JUMP_FORWARD", after)
      here(h)
      plain(1)
      if r.random() < 0.5:
        emit("RERAISE")
      here(after)
      plain(1)
    elif k < 0.8:
      plain(1)
      send_window()
    else:
      # async for skeleton
      top, eaf = lab(), lab()
      emit("NOP")
      here(top)
      emit("GET_ANEXT")
      emit("LOAD_FAST")
      send_window()
      n_back = r.choice([1, 1, 2])
      for j in range(n_back):
        if j + 1 < n_back:
          l = lab()
          emit("POP_JUMP_IF_FALSE", l)
          emit("JUMP_BACKWARD", top, None, eaf if r.random() < 0.9 else None)
          here(l)
        body(depth + 1)
      emit("JUMP_BACKWARD", top, None, eaf if r.random() < 0.9 else None)
      blk = [["END_ASYNC_FOR", None, None, None, eaf]]
      if r.random() < 0.5:
        blk.append(["NOP", None, None, None])
      tail.append(blk)

  def body(depth):
    for _ in range(r.randint(1, 2)):
      frag(depth)

  plain(1)
  for _ in range(r.randint(1, 3)):
    frag(0)
  emit(r.choice(["RETURN_VALUE", "RETURN_CONST"]))
  r.shuffle(tail)
  for blk in tail:
    for o in blk:
      if len(o) == 5:
        here(o[4])
      spec.append(o[:4])
    if r.random() < 0.6:
      emit(r.choice(["RETURN_CONST", "RERAISE"]))
  if not spec[-1][0] in END_OPS + ["JUMP_BACKWARD"]:
    emit("RETURN_CONST")
  res = [[nm, labels.get(t, -1) if t else -1, labels.get(bt, -1) if bt else -1, labels.get(ea, -1) if ea else -1]
         for nm, t, bt, ea in spec]
  # occasional perturbation of one field
  if r.random() < 0.3 and res:
    o = r.choice(res)
    f = r.randint(1, 3)
    o[f] = r.randrange(len(res)) if r.random() < 0.8 else -1
  return res


# ---------------------------------------------------------------------------------------------------
# synthetic opcode lists against the real add_pop_block_targets (every opcode class it special-cases, incl. the
# pre-3.8 / pre-3.11 block opcodes, push_exc_block marks, and the assertion / AttributeError paths)

APBT_ERR = {41: "AssertionError", 42: "AssertionError", 43: "AssertionError", 46: "AssertionError",
            44: "AttributeError", 45: "AttributeError"}
A_PLAIN = ["NOP", "POP_TOP", "LOAD_FAST"]
A_JUMPS = ["JUMP_FORWARD", "POP_JUMP_IF_FALSE", "POP_JUMP_IF_TRUE", "JUMP_BACKWARD", "JUMP_ABSOLUTE", "FOR_ITER",
           "CONTINUE_LOOP"]
A_SETUPS = ["SETUP_EXCEPT_311", "SETUP_FINALLY", "SETUP_LOOP", "SETUP_WITH", "SETUP_EXCEPT", "SETUP_ASYNC_WITH"]
A_ENDS = ["RETURN_VALUE", "RERAISE", "RETURN_CONST", "RAISE_VARARGS", "BREAK_LOOP"]


def synth_apbt_random(r):
  n = r.randint(1, 16)
  spec, pxb = [], []
  for i in range(n):
    k = r.random()
    if k < 0.3:
      name = r.choice(A_PLAIN)
    elif k < 0.5:
      name = r.choice(A_JUMPS)
    elif k < 0.68:
      name = r.choice(A_SETUPS)
    elif k < 0.82:
      name = "POP_BLOCK"
    elif k < 0.9:
      name = r.choice(["RAISE_VARARGS", "BREAK_LOOP"])
    else:
      name = r.choice(A_ENDS)
    tgt = -1
    if name in A_JUMPS or name in A_SETUPS:
      tgt = r.randrange(n) if r.random() < 0.93 else -1
    elif r.random() < 0.03:
      tgt = r.randrange(n)
    if name in A_JUMPS and r.random() < 0.25:
      pxb.append(i)
    elif r.random() < 0.02:
      pxb.append(i)
    spec.append([name, tgt, r.randrange(n) if r.random() < 0.2 else -1, -1])
  if r.random() < 0.85:
    spec[-1][0] = r.choice(["RETURN_VALUE", "RETURN_CONST", "RERAISE"])
    spec[-1][1] = -1
  return spec, pxb


def synth_apbt_template(r):
  """Nested pre-3.8 loops, pre-3.11 and 3.11+ try blocks, with blocks, raise / break inside them, marked jumps into
  3.11 ranges; labels resolved at the end; one field perturbed now and then."""
  spec = []            # [name, label or None]
  marked = []
  labels = {}
  inner = []           # labels inside SETUP_EXCEPT_311 ranges
  nlab = [0]

  def lab():
    nlab[0] += 1
    return "L%d" % nlab[0]

  def here(l):
    labels[l] = len(spec)

  def emit(name, t=None, px=False):
    if px:
      marked.append(len(spec))
    spec.append([name, t])

  def plain():
    emit(r.choice(A_PLAIN))

  def body(depth, in_loop):
    for _ in range(r.randint(1, 2)):
      frag(depth, in_loop)

  def frag(depth, in_loop):
    k = r.random()
    if depth > 3 or k < 0.18:
      plain()
    elif k < 0.28:
      l = lab()
      emit(r.choice(["POP_JUMP_IF_FALSE", "POP_JUMP_IF_TRUE"]), l)
      body(depth + 1, in_loop)
      here(l)
      plain()
    elif k < 0.4:
      out, top, end = lab(), lab(), lab()
      emit("SETUP_LOOP", out)
      here(top)
      emit("FOR_ITER", end)
      body(depth + 1, True)
      emit(r.choice(["JUMP_ABSOLUTE", "CONTINUE_LOOP"]), top)
      here(end)
      emit("POP_BLOCK")
      here(out)
      plain()
    elif k < 0.52:
      h, after = lab(), lab()
      emit(r.choice(["SETUP_FINALLY", "SETUP_FINALLY", "SETUP_EXCEPT"]), h)
      body(depth + 1, in_loop)
      emit("POP_BLOCK")
      emit("JUMP_FORWARD", after)
      here(h)
      plain()
      if r.random() < 0.4:
        emit("RERAISE")
      here(after)
      plain()
    elif k < 0.7:
      h, after, mid = lab(), lab(), lab()
      emit("SETUP_EXCEPT_311", h)
      plain()
      here(mid)
      inner.append(mid)
      body(depth + 1, in_loop)
      emit("POP_BLOCK")
      emit("JUMP_FORWARD", after)
      here(h)
      emit("PUSH_EXC_INFO")
      plain()
      if r.random() < 0.4:
        emit("RERAISE")
      here(after)
      plain()
    elif k < 0.77:
      h = lab()
      emit(r.choice(["SETUP_WITH", "SETUP_ASYNC_WITH"]), h)
      body(depth + 1, in_loop)
      emit("POP_BLOCK")
      here(h)
      plain()
    elif k < 0.86:
      l = lab()
      emit("POP_JUMP_IF_FALSE", l)
      emit("RAISE_VARARGS")
      here(l)
      plain()
    elif k < 0.92 and in_loop:
      l = lab()
      emit("POP_JUMP_IF_FALSE", l)
      emit("BREAK_LOOP")
      here(l)
      plain()
    else:
      emit(r.choice(["POP_JUMP_IF_TRUE", "JUMP_FORWARD", "JUMP_BACKWARD"]), "INNER", px=r.random() < 0.85)
      plain()

  plain()
  for _ in range(r.randint(1, 3)):
    frag(0, False)
  emit(r.choice(["RETURN_VALUE", "RETURN_CONST"]))
  out = []
  for name, t in spec:
    if t == "INNER":
      t = r.choice(inner) if inner else None
      if t is None:
        name = "NOP"
    out.append([name, labels.get(t, -1) if t else -1, r.randrange(len(spec)) if r.random() < 0.1 else -1, -1])
  pxb = [k for k in marked if out[k][0] != "NOP"]
  if r.random() < 0.25:
    k = r.randrange(len(out))
    what = r.random()
    if what < 0.4:
      out[k][1] = r.randrange(len(out)) if r.random() < 0.7 else -1
    elif what < 0.7:
      if k in pxb:
        pxb.remove(k)
      else:
        pxb.append(k)
    elif what < 0.85:
      out[-1][0] = "NOP"
    else:
      out[k][0] = r.choice(["POP_BLOCK", "NOP", "RAISE_VARARGS"])
  return out, sorted(pxb)


def run_real_apbt(spec, pxb, hooks):
  """-> (model input, real block_targets as text or None, exception class name or None, ops)"""
  opcodes = hooks["opcodes"]
  ops = make_real_ops(spec, opcodes)
  for k in pxb:
    ops[k].push_exc_block = True
  line = c16_impl.abstract_ops(ops)
  try:
    hooks["orig"][1](ops)            # the real (unhooked) blocks.add_pop_block_targets
  except Exception as e:  # pylint: disable=broad-except
    return line, None, type(e).__name__, ops
  return line, ",".join(str(c16_impl._i(o.block_target)) for o in ops), None, ops   # pylint: disable=protected-access


def apbt_direct_oracle(spec, pxb, real_bt, exc, hooks):
  """The property of add_pop_block_targets evaluated on the real result, without the model: the block-stack walk
  re-derived declaratively (c16_impl.reference_block_targets) and the block_target clauses."""
  opcodes = hooks["opcodes"]
  ops = make_real_ops(spec, opcodes)
  for o in ops:
    o.block_target = None
  want = c16_impl.reference_block_targets(ops, pxb, opcodes)
  if isinstance(want, str):
    return None if exc == want else "must raise %s, real %s" % (want, exc or "returned " + str(real_bt))
  want_s = ",".join(map(str, want))
  if exc is not None:
    return "must return %s, real raised %s" % (want_s, exc)
  if want_s != real_bt:
    return "block_targets must be %s, real %s" % (want_s, real_bt)
  return None


def make_real_ops(spec, opcodes):
  ops = []
  for i, (name, _, _, _) in enumerate(spec):
    cls = getattr(opcodes, name)
    if cls.has_argument():
      op = cls(i, 1, 1, 0, 0, 0, 0)
    else:
      op = cls(i, 1, 1, 0, 0)
    ops.append(op)
  for i, (_, t, bt, ea) in enumerate(spec):
    op = ops[i]
    op.prev = ops[i - 1] if i > 0 else None
    op.next = ops[i + 1] if i + 1 < len(ops) else None
    op.target = ops[t] if t >= 0 else None
    op.block_target = ops[bt] if bt >= 0 else None
    op.end_async_for_target = ops[ea] if ea >= 0 else None
  return ops


def run_real_compute_order(spec, minor, hooks):
  opcodes, blocks, cfg_utils = hooks["opcodes"], hooks["blocks"], hooks["cfg_utils"]
  ops = make_real_ops(spec, opcodes)
  line = c16_impl.abstract_ops(ops)
  log = hooks["log"]
  del log["order"][:]
  try:
    order = blocks.compute_order(ops, (3, minor))
  except Exception as e:  # pylint: disable=broad-except
    return line, None, type(e).__name__
  nodes = log["order"][-1][0] if log["order"] else []
  b, e, o = c16_impl.real_result(nodes, order, ops, cfg_utils)
  return line, (b, e, o, c16_impl.real_preds(nodes, cfg_utils), c16_impl.final_targets(ops)), None


def synth_table(r, minor, opcodes):
  """A random offset_to_op table for _make_opcode_list/_add_jump_targets.  Returns (offset_to_op, ok) ."""
  n = r.randint(1, 10)
  offs = [2 * i for i in range(n)]
  table = {}
  for off in offs:
    k = r.random()
    name = r.choice(PLAIN_OPS + END_OPS) if k < 0.5 else r.choice(["JUMP_FORWARD", "POP_JUMP_IF_FALSE", "JUMP_BACKWARD",
                                                                  "JUMP_BACKWARD", "FOR_ITER"]) if k < 0.85 else "END_ASYNC_FOR"
    cls = getattr(opcodes, name)
    if cls.has_argument():
      argval = r.choice(offs) if r.random() < 0.93 else 2 * n + 2
      op = cls(0, 1, 1, 0, 0, argval // 2, argval)
    else:
      op = cls(0, 1, 1, 0, 0)
    table[off] = op
  # synthetic SETUP_EXCEPT_311 / POP_BLOCK at half offsets
  for _ in range(r.choice([0, 0, 1, 2])):
    s = r.choice(offs)
    t = r.choice(offs)
    tgt = table[t]
    nxt = table.get(t + 2)
    if minor == 11 and isinstance(tgt, opcodes.JUMP_BACKWARD) and isinstance(nxt, opcodes.END_ASYNC_FOR):
      continue   # preset target would be elided: outside the model (cannot happen: handlers never start at a loop jump)
    if s - 0.5 in table or s == 0:
      continue
    su = opcodes.SETUP_EXCEPT_311(-1, 1, 1, 0, 0, -1, -1)
    su.target = tgt
    table[s - 0.5] = su
    e = r.choice(offs)
    if e + 0.5 not in table:
      table[e + 0.5] = opcodes.POP_BLOCK(-1, 1, 1, 0, 0)
  return table


def synth_exc_case(r, opcodes):
  """A random offset table with a random exception table, run through the real _add_setup_except."""
  import pycnite.types  # pylint: disable=import-outside-toplevel
  n = r.randint(2, 12)
  offs = []
  o = 0
  for _ in range(n):
    offs.append(o)
    o += 2 * r.choice([1, 1, 1, 2, 5, 10])          # inline caches / EXTENDED_ARG leave gaps
  table = {}
  for off in offs:
    name = r.choice(["NOP", "POP_TOP", "LOAD_ATTR", "CALL", "STORE_FAST", "RETURN_VALUE", "JUMP_FORWARD", "PUSH_EXC_INFO",
                     "END_ASYNC_FOR", "CLEANUP_THROW", "SWAP", "RERAISE"])
    cls = getattr(opcodes, name)
    line = r.choice([None, 1, 1, 2, 3, 4, 5])
    if cls.has_argument():
      av = r.choice(offs)
      op = cls(0, line, line, 0, 0, av // 2, av)
    else:
      op = cls(0, line, line, 0, 0)
    table[off] = op
  entries = []
  pos = 0
  for _ in range(r.randint(1, 5)):
    # the last instruction is never protected: the unmodelled jump-marking half of _add_setup_except needs an
    # integral max(offset_to_op)
    if pos >= len(offs) - 1:
      break
    a = r.randrange(pos, len(offs) - 1)
    b = r.randrange(a, len(offs) - 1)
    start = offs[a]
    # pycnite's inclusive end: (exclusive end) - 2; the exclusive end is the start of the following instruction
    excl = offs[b + 1] if b + 1 < len(offs) else o
    end = excl - 2 if r.random() < 0.9 else r.choice(offs[:-1])
    target = r.choice(offs) if r.random() < 0.95 else o + 4
    if r.random() < 0.05:
      start += 1
    entries.append(pycnite.types.ExceptionTableEntry(start, end, target, r.randint(0, 3), r.random() < 0.3))
    pos = b + 1 if r.random() < 0.85 else a          # mostly disjoint, sometimes overlapping
  before = c16_impl.abstract_xitems(sorted(table.items()))
  ent = ["%d %d %d %d" % (e.start, e.end, e.target, 1 if e.lasti else 0) for e in entries]
  inp = "X %d %d %s %s" % (len(ent), len(before), " ".join(ent), " ".join(b.replace(",", " ") for b in before))
  hooks = c16_impl.install_hooks()
  try:
    hooks["orig_ase"](table, pycnite.types.ExceptionTable(entries))
  except Exception as e:  # pylint: disable=broad-except
    return inp, None, type(e).__name__
  return inp, ";".join(c16_impl.abstract_xitems(sorted(table.items()))), None


def run_real_table(table, minor, opcodes):
  items_line = c16_impl.abstract_items(sorted(table.items()))
  n = len(table)
  try:
    ops, o2i = opcodes._make_opcode_list(table, (3, minor))   # pylint: disable=protected-access
    opcodes._add_jump_targets(ops, o2i)                        # pylint: disable=protected-access
  except Exception as e:  # pylint: disable=broad-except
    return items_line, n, None, type(e).__name__
  return items_line, n, c16_impl.real_ops_line(ops), None


# ---------------------------------------------------------------------------------------------------

def compare_object(ob_real, model_line, ops_line):
  """-> list of human-readable differences (empty = agree)"""
  wf, an, pl, err, d = parse_model(model_line)
  diffs = []
  if ob_real is None:
    if err is None:
      diffs.append("real raised, model returned " + model_line[:200])
    return diffs
  if err is not None:
    return ["model " + err + " but the real compute_order returned"]
  b, e, o, p, ft = ob_real
  # edges: only those with an endpoint among the final blocks are observable on the real objects
  final = {x.split(":")[0] for x in d.get("B", "B")[1:].split(";")} if d.get("B", "B") != "B" else set()
  if "E" in d:
    d["E"] = "E" + ",".join(x for x in d["E"][1:].split(",") if x and (x.split("-")[0] in final or x.split("-")[1] in final))
  for key, real in (("B", b), ("E", e), ("O", o), ("P", p)):
    if d.get(key) != real:
      diffs.append("%s: model %s / real %s" % (key, (d.get(key) or "")[:300], real[:300]))
  mft = c16_impl.model_final_targets(ops_line, d.get("R", "R")[1:])
  if mft != ft:
    k = next((i for i, (x, y) in enumerate(zip(mft, ft)) if x != y), -1)
    diffs.append("final target of op %d: model %s / real %s" % (k, mft[k] if k >= 0 else "?", ft[k] if k >= 0 else "?"))
  return diffs


def run(res):
  thorough = res.tier == "thorough"
  phase = {}
  t_phase = [time.time()]

  def mark(name):
    phase[name] = round(time.time() - t_phase[0], 1)
    t_phase[0] = time.time()
  res.rule = ("code objects (module, functions, lambdas, comprehensions, class bodies, generators, coroutines, async "
              "generators; recursively) of: corpus reproducers, generated programs (c16_gen: nested if/while/for/"
              "try/except*/finally/with/match/async for/async with/await/yield from/comprehensions/lambdas), and "
              "large generated code objects (c16_gen.big_program: >300 names/attributes/constants/locals so "
              "that EXTENDED_ARG occurs on every operand kind and on jumps, with each cached instruction kind at the "
              "END of try/with/loop/match ranges, small and >=256 opargs; SETUP_EXCEPT-first blocks ending in a "
              "jump), CPython 3.12 standard-library sources (quick: a fixed async-heavy core + a seeded sample; "
              "thorough: all files); plus synthetic opcode lists / offset tables (random and template-shaped, incl. malformed "
              "ones and python_version 3.10/3.11) run through the real compute_order / _make_opcode_list, and synthetic "
              "opcode lists with block opcodes of every era (SETUP_LOOP/BREAK_LOOP, SETUP_FINALLY/SETUP_WITH, "
              "SETUP_EXCEPT_311, POP_BLOCK, RAISE_VARARGS; random and nested-template shaped, with push_exc_block "
              "marks, stale block_targets and the assertion / AttributeError paths) run through the real "
              "add_pop_block_targets. A code "
              "object is non-trivial if it has more than one block; distinct by its abstracted opcode list.")
  res.assumptions = [
      "pycnite disassembly and the CPython compiler (inputs of the model are what build_opcodes really produced)",
      "the jump-marking half of _add_setup_except (push_exc_block / pop_exc_block) is not modelled: the marks are an "
      "INPUT of the add_pop_block_targets model; apbt_okb (bracketing + marks) and wf_ops are monitored on every real list",
      "Python set iteration order does not influence compute_predecessors/order_nodes (the model iterates "
      "outgoing edges in insertion order; the results are compared on every case)",
      "Opcode/Block objects are identified by index/id (translator fails if Opcode defines __eq__/__hash__/__bool__)",
      "extraction via ExtrOcamlBasic; N/positive/nat kept inductive",
  ]
  # ---- 1. regenerate the flag table (fail closed) -------------------------------------------------
  try:
    table = c16_flags.regenerate()
    res.obligation("translator:opcodes.py->Generated/C16_OpcodeFlags.v", True,
                   "%d opcode classes" % len(table["classes"]))
  except (c16_flags.TranslateError, OSError, SyntaxError) as e:
    res.obligation("translator:opcodes.py->Generated/C16_OpcodeFlags.v", False, "fail-closed: %s" % e)
    return "proof"
  res.extra["generated_files"] = ["coq/Generated/C16_OpcodeFlags.v"]
  mark("translate")
  c16_impl.set_class_ids(table["ids"])
  c16_impl.IGNORED_HANDLER_OPS = tuple(table["ignored_exception_targets"])
  # ---- 2. Coq --------------------------------------------------------------------------------------
  coq_ok = common.coq_obligations(res, "C16")
  mark("coq")
  common.bootstrap_pytype()
  bad = c16_flags.cross_check(table)
  res.obligation("translator:cross-check-with-imported-module", not bad, "; ".join(bad[:8]))
  if not coq_ok:
    # the model may not build any more; still run the oracle below without the model
    exe = None
  else:
    exe = common.build_extracted("blocks", "Extract/ExtractBlocks.v",
                                 os.path.join(common.VERIF, "harness", "ocaml", "blocks_driver.ml"), ["blocks_model"])
  res.trusted_base += ["Coq extraction (ExtrOcamlBasic only) + OCaml ocamlopt + harness/ocaml/blocks_driver.ml",
                       "harness/props/c16_flags.py (translator), c16_impl.py (observation hooks, abstraction, oracle)",
                       "CPython 3.12.1 compile() + pycnite (produce the inputs)"]
  model = Model(exe) if exe else None
  mark("extract+bootstrap")
  hooks = c16_impl.install_hooks()
  from pytype.pyc import opcodes  # pylint: disable=import-outside-toplevel
  warnings.simplefilter("ignore")
  r = common.rng(res.seed, "c16")

  # ---- 3. sources -----------------------------------------------------------------------------------
  sources = []   # (label, src, path or None)
  cdir = os.path.join(common.CORPUS, "C16")
  for f in sorted(os.listdir(cdir)) if os.path.isdir(cdir) else []:
    d = json.load(open(os.path.join(cdir, f)))
    if "source" in d:
      sources.append(("corpus:" + f, d["source"], None))
  n_gen = 1200 if thorough else 80
  for i in range(n_gen):
    sources.append(("gen%d" % i, c16_gen.program(common.rng(res.seed, "c16gen", i)), None))
  # large code objects: EXTENDED_ARG on names/attributes/constants/locals/jumps, cached instructions at range ends
  n_big = 60 if thorough else 6
  for i in range(n_big):
    sources.append(("big%d" % i, c16_gen.big_program(common.rng(res.seed, "c16big", i), big=(i % 4 != 3)), None))
  # adjacent / nested exception ranges
  n_adj = 400 if thorough else 40
  for i in range(n_adj):
    sources.append(("adj%d" % i, c16_gen.adjacent_ranges_program(common.rng(res.seed, "c16adj", i)), None))
  files = stdlib_files()
  if thorough:
    chosen = files
  else:
    core = [os.path.join(STDLIB, f) for f in CORE_FILES if os.path.exists(os.path.join(STDLIB, f))]
    rest = [f for f in files if f not in core]
    r.shuffle(rest)
    chosen = core + rest[:40]
  for f in chosen:
    sources.append(("stdlib:" + os.path.relpath(f, STDLIB), None, f))

  stats = collections.Counter()
  kinds = collections.Counter()
  size_hist = collections.Counter()
  mism = []
  viol_seen = {}     # fingerprint -> (label, path, src, ob info, v)
  n_objects = 0
  n_wf_bad = 0
  n_anext_bad = 0
  t_impl = t_model = 0.0
  n_wfx_bad = [0]
  apbt_mism = []
  n_apbt_okb_bad = [0]
  budget_objects = None if thorough else 3200

  def flush(batch):
    nonlocal t_model, n_wf_bad, n_anext_bad
    if not batch or model is None:
      del batch[:]
      return
    t0 = time.time()
    lines = []
    for it in batch:
      lines.append("O 1 %d %s" % (it["n_ops"], it["ops_line"]))
      lines.append("M 12 %d %s" % (len(it["items_line"].split()) // 4, it["items_line"]))
      lines.append(it["xleg"][0] if it["xleg"] else "X 0 0")
      lines.append(it["cleg"][0] if it["cleg"] else "C 12 0 0")
      lines.append("A %d %d %s %s" % (it["n_ops"], len(it["pxb"]), it["ops_line"], " ".join(map(str, it["pxb"]))))
    out = model.run(lines)
    t_model += time.time() - t0
    for k, it in enumerate(batch):
      mo, mm, mx, mc, ma = out[5 * k], out[5 * k + 1], out[5 * k + 2], out[5 * k + 3], out[5 * k + 4]
      # add_pop_block_targets: the model's block_targets against the real ones (field 2 of every op of ops_line)
      aok, ma = ma[1] == "1", ma.split(" ", 1)[1] if " " in ma else ""
      stats["apbt_okb" if aok else "apbt_okb-false"] += 1
      f7 = it["ops_line"].split()
      real_bt = ",".join(f7[7 * j + 2] for j in range(len(f7) // 7))
      stats["objects_with_block_targets"] += 1 if any(f7[7 * j + 2] != "-1" for j in range(len(f7) // 7)) else 0
      stats["objects_with_push_exc_block"] += 1 if it["pxb"] else 0
      if ma != real_bt:
        apbt_mism.append((it["where"], ma, real_bt, it))
      if not aok:
        # the hypothesis of apbt_total_on_bracketed_input (bracketing, marks on every jump into a protected range)
        n_apbt_okb_bad[0] += 1
        if n_apbt_okb_bad[0] <= 3:
          res.obligation("monitor:apbt_okb:" + it["where"], False,
                         "apbt_okb is false on a real opcode list (marks %s)" % it["pxb"][:20])
      wfx, mx = mx[1] == "1", mx.split(" ", 1)[1] if " " in mx else ""
      wfc, mc = mc[1] == "1", mc.split(" ", 1)[1] if " " in mc else ""
      wf, an, pl, err, md = parse_model(mo)
      stats["plain" if pl else "send/async-surgery"] += 1
      if not pl:
        stats["surgery:merge_simple" if md["simple"] else "surgery:merge_not_simple"] += 1
      if md["simple"] and wf and it["dup"]:
        # partition_partial says this cannot happen when the model corresponds
        res.obligation("monitor:partition_partial:" + it["where"], False,
                       "merge_simpleb holds but the real blocks contain an instruction twice")
      if not wf:
        n_wf_bad += 1
        if n_wf_bad <= 3:
          res.obligation("monitor:wf_ops:" + it["where"], False, "wf_opsb is false on a real opcode list")
      if pl and not an:
        n_anext_bad += 1
        if n_anext_bad <= 3:
          res.obligation("monitor:anext_ok:" + it["where"], False,
                         "a GET_ANEXT jump target is glued to its predecessor in SEND-free code")
      diffs = compare_object(it["real"], mo, it["ops_line"])
      if ma != real_bt:
        a, b = ma.split(","), real_bt.split(",")
        k0 = next((i for i, (x, y) in enumerate(zip(a, b)) if x != y), min(len(a), len(b)))
        diffs.append("add_pop_block_targets: block_target of op %d: model %s / real %s" % (
            k0, a[k0] if k0 < len(a) else ma[:40], b[k0] if k0 < len(b) else "?"))
      if mm != it["real_ops_line"]:
        diffs.append("opcode list: model %s / real %s" % (mm[:300], it["real_ops_line"][:300]))
      if it["cleg"] is None:
        diffs.append("CPython instruction without a pytype opcode class")
      else:
        if not wfc:
          n_wfx_bad[0] += 1
          if n_wfx_bad[0] <= 3:
            res.obligation("monitor:wf_exc:" + it["where"], False,
                           "wf_excb is false on CPython's instructions + exception table")
        if mc != it["cleg"][1]:
          a, b = mc.split(";"), it["cleg"][1].split(";")
          k0 = next((i for i, (x, y) in enumerate(zip(a, b)) if x != y), min(len(a), len(b)))
          diffs.append("raw instructions + exception table -> opcode list: differs at op %d: model %s / real %s" % (
              k0, ";".join(a[max(k0 - 1, 0):k0 + 3])[:200], ";".join(b[max(k0 - 1, 0):k0 + 3])[:200]))
      if it["xleg"]:
        stats["objects_with_exception_table"] += 1
        if not wfx:
          n_wfx_bad[0] += 1
          if n_wfx_bad[0] <= 3:
            res.obligation("monitor:wf_exc(pycnite):" + it["where"], False,
                           "wf_excb is false on pycnite's offset table + exception table")
        if mx != it["xleg"][1]:
          k0 = next((i for i, (a, b) in enumerate(zip(mx.split(";"), it["xleg"][1].split(";"))) if a != b), -1)
          diffs.append("_add_setup_except: model and real offset tables differ at item %d: model %s / real %s" % (
              k0, ";".join(mx.split(";")[max(k0 - 1, 0):k0 + 3]), ";".join(it["xleg"][1].split(";")[max(k0 - 1, 0):k0 + 3])))
      if diffs:
        mism.append((it["where"], diffs))
        if len(mism) <= 3:
          res.obligation("correspondence:" + it["where"], False, " || ".join(diffs)[:1500])
    del batch[:]

  batch = []
  for label, src, path in sources:
    if budget_objects is not None and n_objects >= budget_objects and label.startswith("stdlib:"):
      stats["stdlib_files_skipped_budget"] += 1
      continue
    if src is None:
      src = read_source(path)
      if src is None:
        stats["undecodable"] += 1
        continue
    t0 = time.time()
    obs, err = c16_impl.observe_source(src, path or (label + ".py"))
    t_impl += time.time() - t0
    if err:
      if err.startswith("compile:"):
        stats["rejected_by_compiler"] += 1
        continue
      if err.startswith("process_code raised"):
        exc = err.split()[2].rstrip(":")
        fp = "process_code-raises:" + exc
        stats["process_code_raised"] += 1
        if fp not in viol_seen:
          viol_seen[fp] = (label, path, src, None, err)
        continue
      res.obligation("observation:" + label, False, err)
      continue
    stats["sources_" + label.split(":")[0].rstrip("0123456789")] += 1
    for ob in obs:
      n_objects += 1
      kinds[ob.kind] += 1
      size_hist["ops<=10" if ob.n_ops <= 10 else "ops<=50" if ob.n_ops <= 50 else "ops<=200" if ob.n_ops <= 200
                else "ops<=1000" if ob.n_ops <= 1000 else "ops>1000"] += 1
      nb = len(ob.blocks)
      res.count(hash(ob.ops_line) if nb > 1 else None)
      if any(isinstance(o, opcodes.SEND) for o in ob.ops):
        stats["objects_with_SEND"] += 1
      if any(o.end_async_for_target is not None for o in ob.ops):
        stats["objects_with_async_for"] += 1
      where = "%s:%s@%d" % (label, ob.qualname, ob.firstlineno)
      if len(res.samples) < 3 and 2 <= nb <= 5 and ob.kind != "module":
        res.sample({"where": where, "kind": ob.kind, "blocks": [[b.id, [o.index for o in b.code]] for b in ob.blocks],
                    "edges": sorted((b.id, s.id) for b in ob.blocks for s in b.outgoing),
                    "order": [b.id for b in ob.order]})
      b, e, o = c16_impl.real_result(ob.blocks, ob.order, ob.ops, hooks["cfg_utils"])
      real = (b, e, o, c16_impl.real_preds(ob.blocks, hooks["cfg_utils"]), c16_impl.final_targets(ob.ops))
      has_dup = False
      vs = c16_impl.oracle(ob.ops, ob.blocks, ob.order, opcodes)
      vs += list(ob.apbt_v)
      vs += c16_impl.predecessor_oracle(ob.blocks, hooks["cfg_utils"])
      try:
        vs += c16_impl.exception_table_oracle(ob.host_code, ob.items, ob.ops, ob.blocks, ob.order, opcodes, ob.ops_line)
      except Exception as e:  # pylint: disable=broad-except
        vs.append(("exception-table-oracle-crashed", type(e).__name__))
      for v in vs:
        if v[0].startswith("note:") and fingerprint(v) not in res.known:
          # candidate finding, only reported once the integrator lists its fingerprint
          stats[fingerprint(v)] += 1
          continue
        fp = fingerprint(v)
        has_dup = has_dup or v[0] == "instruction-in-several-blocks"
        stats["oracle:" + fp] += 1
        if fp not in viol_seen:
          viol_seen[fp] = (label, path, src, (ob.qualname, ob.firstlineno), v)
      batch.append({"where": where, "n_ops": ob.n_ops, "ops_line": ob.ops_line, "items_line": ob.items_line, "pxb": ob.pxb,
                    "real": real, "real_ops_line": ob.real_ops_line, "dup": has_dup, "xleg": ob.xleg,
                    "cleg": c16_impl.composite_case(ob)})
    if len(batch) >= 4000:
      flush(batch)
  flush(batch)
  mark("sources(impl+model+oracle)")

  # ---- 4. synthetic opcode lists / offset tables ---------------------------------------------------
  n_syn = 30000 if thorough else 4000
  syn = []
  syn_stats = collections.Counter()
  for i in range(n_syn):
    spec = synth_template(r) if i % 2 else synth_random(r)
    minor = 12 if r.random() < 0.8 else r.choice([10, 11])
    line, real, exc = run_real_compute_order(spec, minor, hooks)
    syn.append(("O %d %d %s" % (1 if minor >= 12 else 0, len(spec), line), real, exc, line, spec, minor))
    syn_stats["raises:" + exc if exc else "returns"] += 1
  n_tab = 6000 if thorough else 1200
  tabs = []
  for i in range(n_tab):
    minor = r.choice([11, 12, 12])
    tb = synth_table(r, minor, opcodes)
    items_line, n, real_line, exc = run_real_table(tb, minor, opcodes)
    tabs.append(("M %d %d %s" % (minor, n, items_line), real_line, exc))
    syn_stats["table-raises:" + exc if exc else "table-returns"] += 1
  n_exc = 5000 if thorough else 1000
  excs = [synth_exc_case(r, opcodes) for _ in range(n_exc)]
  for _, real_line, exc in excs:
    syn_stats["exc-table-raises:" + exc if exc else "exc-table-returns"] += 1
  n_syn_mism = 0
  if model is not None:
    out_x = model.run([x[0] for x in excs])
    for (inp, real_line, exc), mo in zip(excs, out_x):
      wfx, mo = mo[1] == "1", mo.split(" ", 1)[1] if " " in mo else ""
      syn_stats["exc-table-wf" if wfx else "exc-table-not-wf(still compared)"] += 1
      if wfx and exc is not None:
        # exception_ops_total: a well-formed table cannot take a KeyError path
        res.obligation("monitor:exception_ops_total", False, "wf_excb holds but the real _add_setup_except raised " + exc)
      ok = (mo.startswith("E") and exc is not None) or (exc is None and mo == real_line)
      res.count(("exc", inp) if exc is None else None)
      if not ok:
        n_syn_mism += 1
        if n_syn_mism <= 3:
          res.obligation("correspondence:synthetic-exception-table", False,
                         "%s :: model %s / real %s" % (inp[:500], mo[:300], (exc or real_line)[:300]))
    out = model.run([s[0] for s in syn] + [t[0] for t in tabs])
    for (inp, real, exc, line, spec, minor), mo in zip(syn, out):
      wf, _, _, _, _ = parse_model(mo)
      syn_stats["wf_ops" if wf else "not-wf_ops(still compared)"] += 1
      diffs = compare_object(real, mo, line)
      res.count(("syn", inp) if real is not None else None)
      if diffs:
        n_syn_mism += 1
        if n_syn_mism <= 3:
          res.obligation("correspondence:synthetic-compute_order", False,
                         "python 3.%d spec=%s real=%s :: %s" % (minor, json.dumps(spec), exc or "returned",
                                                              " || ".join(diffs)[:1200]))
    for (inp, real_line, exc), mo in zip(tabs, out[len(syn):]):
      ok = (mo.startswith("E") and exc is not None) or (mo == real_line)
      res.count(("tab", inp) if exc is None else None)
      if not ok:
        n_syn_mism += 1
        if n_syn_mism <= 3:
          res.obligation("correspondence:synthetic-opcode-table", False,
                         "%s :: model %s / real %s" % (inp[:400], mo[:300], (exc or real_line)[:300]))
  # ---- 4b. synthetic lists against the real add_pop_block_targets ------------------------------------
  n_apbt = 40000 if thorough else 5000
  acases = []
  names_ok = lambda spec: all(hasattr(opcodes, o[0]) for o in spec)
  for i in range(n_apbt):
    spec, pxb = synth_apbt_template(r) if i % 2 else synth_apbt_random(r)
    if not names_ok(spec):
      res.obligation("generator:apbt-opcode-classes-exist", False, str([o[0] for o in spec if not hasattr(opcodes, o[0])]))
      break
    line, real_bt, exc, _ = run_real_apbt(spec, pxb, hooks)
    acases.append((spec, pxb, line, real_bt, exc))
    syn_stats["apbt-raises:" + exc if exc else "apbt-returns"] += 1
  n_apbt_mism = 0
  n_apbt_total_bad = 0
  apbt_viol = []
  for spec, pxb, line, real_bt, exc in acases:
    why = apbt_direct_oracle(spec, pxb, real_bt, exc, hooks)
    if why and len(apbt_viol) < 3:
      apbt_viol.append((spec, pxb, why))
  if model is not None and acases:
    out_a = model.run(["A %d %d %s %s" % (len(spec), len(pxb), line, " ".join(map(str, pxb)))
                       for spec, pxb, line, _, _ in acases])
    for (spec, pxb, line, real_bt, exc), mo in zip(acases, out_a):
      aok, mo = mo[1] == "1", mo.split(" ", 1)[1] if " " in mo else ""
      syn_stats["apbt_okb" if aok else "apbt_okb-false(still compared)"] += 1
      if mo.startswith("E"):
        syn_stats["apbt-model-" + mo] += 1
        ok = exc is not None and APBT_ERR.get(int(mo[1:])) == exc
      else:
        ok = exc is None and mo == real_bt
      res.count(("apbt", line, tuple(pxb)) if (exc is None and any(x != "-1" for x in real_bt.split(","))) else None)
      if aok and exc is not None:
        n_apbt_total_bad += 1
        if n_apbt_total_bad <= 3:
          res.obligation("monitor:apbt_total", False,
                         "apbt_okb holds but the real add_pop_block_targets raised %s: %s pxb=%s" % (exc, json.dumps(spec), pxb))
      if not ok:
        n_apbt_mism += 1
        if n_apbt_mism <= 3:
          res.obligation("correspondence:synthetic-add_pop_block_targets", False,
                         "spec=%s pxb=%s :: model %s / real %s" % (json.dumps(spec), pxb, mo[:300], (exc or real_bt)[:300]))
    res.obligation("correspondence:model-vs-add_pop_block_targets(synthetic)", n_apbt_mism == 0,
                   "%d of %d synthetic lists disagree" % (n_apbt_mism, len(acases)))
    res.obligation("monitor:apbt_total-on-synthetic-lists", n_apbt_total_bad == 0, "%d lists" % n_apbt_total_bad)
    res.obligation("correspondence:model-vs-add_pop_block_targets(code objects)", not apbt_mism,
                   "%d of %d code objects disagree" % (len(apbt_mism), n_objects))
    res.obligation("monitor:apbt_okb-on-every-real-opcode-list", n_apbt_okb_bad[0] == 0,
                   "%d of %d lists are not properly bracketed / marked" % (n_apbt_okb_bad[0], n_objects))
  for spec, pxb, why in apbt_viol:
    names = sorted({o[0] for o in spec if o[0] in ("POP_BLOCK", "RAISE_VARARGS", "BREAK_LOOP")})
    res.violation("add_pop_block_targets-differs-from-the-block-stack-walk:" + "+".join(names), why,
                  {"kind": "apbt", "fingerprint": "add_pop_block_targets-differs-from-the-block-stack-walk",
                   "spec": spec, "pxb": pxb, "why": why})
  c16_impl.uninstall_hooks()
  mark("synthetic")

  if model is not None:
    res.obligation("correspondence:model-vs-process_code", not mism,
                   "%d of %d code objects disagree" % (len(mism), n_objects))
    res.obligation("correspondence:model-vs-synthetic", n_syn_mism == 0,
                   "%d of %d synthetic cases disagree" % (n_syn_mism, len(syn) + len(tabs) + len(excs)))
    res.obligation("monitor:wf_ops-on-every-real-opcode-list", n_wf_bad == 0, "%d lists are not wf_ops" % n_wf_bad)
    res.obligation("monitor:anext_ok-on-SEND-free-lists", n_anext_bad == 0, "%d lists" % n_anext_bad)
    res.obligation("monitor:wf_exc-on-every-real-offset-table-and-exception-table", n_wfx_bad[0] == 0,
                   "%d code objects" % n_wfx_bad[0])
  res.obligation("coverage:enough-code-objects", n_objects >= (50000 if thorough else 1500),
                 "%d code objects" % n_objects)

  # ---- 5. violations found by the oracle ------------------------------------------------------------
  reported = 0
  for fp, (label, path, src, info, v) in sorted(viol_seen.items()):
    if fp in res.known:
      res.violation(fp, str(v), {})
      continue
    if reported >= 3:
      continue
    reported += 1
    small = src
    try:
      small = shrink_source(src, info[1] if info is not None else 0, fp, budget_s=20.0 if reported == 1 else 5.0)
    except Exception:  # pylint: disable=broad-except
      small = src
    res.violation(fp, "%s in %s %s" % (v, label, info),
                  {"fingerprint": fp, "file": path, "label": label, "code_object": info,
                   "source": small if (len(small) < 200000 or path is None) else None, "violation": list(v) if not isinstance(v, str) else v})

  res.extra["code_objects"] = n_objects
  res.extra["code_object_kinds"] = dict(kinds)
  res.extra["size_histogram"] = dict(size_hist)
  res.extra["stats"] = dict(stats)
  res.extra["synthetic"] = dict(syn_stats)
  res.extra["time_impl_s"] = round(t_impl, 1)
  res.extra["time_model_s"] = round(t_model, 1)
  mark("shrink+report")
  res.extra["phase_s"] = phase
  if thorough:
    ok, out = common_coqchk("C16")
    res.obligation("coqchk", ok, out[-1500:])
  return "proof"


def common_coqchk(pid):
  r = subprocess.run(["timeout", "1500", "coqchk", "-silent", "-o", "-Q", common.COQ, "PV", f"PV.Props.{pid}"],
                     capture_output=True, text=True, cwd=common.COQ)
  return r.returncode == 0, r.stdout + r.stderr


def replay(res, path):
  common.bootstrap_pytype()
  table = c16_flags.translate()[1]
  c16_impl.set_class_ids(table["ids"])
  c16_impl.IGNORED_HANDLER_OPS = tuple(table["ignored_exception_targets"])
  from pytype.pyc import opcodes  # pylint: disable=import-outside-toplevel
  warnings.simplefilter("ignore")
  d = json.load(open(path))["replay"]
  if d.get("kind") == "apbt":
    hooks = c16_impl.install_hooks()
    line, real_bt, exc, _ = run_real_apbt(d["spec"], d["pxb"], hooks)
    why = apbt_direct_oracle(d["spec"], d["pxb"], real_bt, exc, hooks)
    print("opcode list (name, target, stale block_target, -):", d["spec"])
    print("push_exc_block marks:", d["pxb"])
    print("real add_pop_block_targets:", "raised " + exc if exc else "block_targets " + real_bt)
    print("oracle:", why or "agrees with the block-stack walk")
    c16_impl.uninstall_hooks()
    return 1 if why else 0
  src = d.get("source") or read_source(d["file"])
  fp = d["fingerprint"]
  obs, err = c16_impl.observe_source(src, d.get("file") or "replay.py")
  print("source:\n" + textwrap.indent(src if len(src) < 3000 else src[:3000] + "...", "  "))
  if err:
    print("process_code:", err)
    return 1 if err.startswith("process_code raised") and fp.startswith("process_code-raises") else 0
  still = 0
  for ob in obs:
    vs = all_clauses(ob, opcodes)
    print("code object %s@%d: %d ops, blocks %s, order %s" % (
        ob.qualname, ob.firstlineno, ob.n_ops, [[b.id, [o.index for o in b.code]] for b in ob.blocks][:40],
        [b.id for b in ob.order][:60]))
    print("  oracle:", vs or "all clauses hold")
    if any(fingerprint(v) == fp for v in vs):
      still = 1
  return still


def generate():
  """Called by harness/setup.py before the Coq build (coq/Generated is not committed)."""
  c16_flags.regenerate()
