"""C06 — the DECLARATION legs: functions (signatures, defaults, *args/**kwargs, keyword-only, overloads), classes
(attributes, methods, properties, class-level constants, inheritance, generic classes with instantiated parameters)
and class / function re-exports, each driven through the real convert -> output path by a downstream module that
imports a generated upstream STUB, and compared

  (1) with the Gallina model coq/Conv/Decl.v (exactly: the definition handed to optimize.Optimize, member order
      included, and whether the call was accepted), and
  (2) with a direct oracle that is independent of the model: the declared type read off the stub with the
      instance's parameters substituted (Python code below) must be the type B's final stub shows.

The matcher is not modelled: its answers for (argument type, formal type) pairs are measured on the real code in the
same downstream module (one-parameter probe functions) and handed to the model as a table; the diagonal (a value of
type T is accepted for a parameter of type T) is monitored."""
import os
import shutil
import time

import common
import c06_lib as L

WORK = os.path.join(common.BUILD, "c06", "decl")
TVARS = ["T", "S", "R"]                  # TypeVar names -> numbers 1..3
GEN0 = 4                                 # generic user classes are C4.. (ids 36..); C0..C3 are plain
ANY_FORMAL = L.ANY

KNOWN_COLLISION = "typevar-name-collision-base-attribute"
KNOWN_OVERRIDE = "generic-base-attribute-overridden-in-subclass"
KNOWN_AMBIG = "overload-called-with-Any-argument-is-Any"
KNOWN_CALLABLE_TV = "typevar-in-Callable-attribute-read-as-Any"
KNOWN_TYPE_TV = "type-of-typevar-attribute-read-as-Any"


# ---------------------------------------------------------------------------------------------
# Python side of the declaration language

def P(i):
  return ("param", i)


def G(t):
  return ("ground", t)


def d_mentions(d):
  k = d[0]
  if k == "param":
    return True
  if k == "ground":
    return False
  return any(d_mentions(x) for x in (d[2] if k == "dgen" else d[1]))


def d_text(d, template):
  k = d[0]
  if k == "param":
    return template[d[1]]
  if k == "ground":
    return L.to_text(d[1])
  if k == "dgen":
    if d[1] == L.TUPLE_ID and len(d[2]) == 1:
      return "tuple[%s, ...]" % d_text(d[2][0], template)
    return "%s[%s]" % (L.cls_name(d[1]), ", ".join(d_text(x, template) for x in d[2]))
  if k == "dtup":
    return "tuple[%s]" % (", ".join(d_text(x, template) for x in d[1]) if d[1] else "()")
  return "Union[%s]" % ", ".join(d_text(x, template) for x in d[1])


def d_coq(d):
  k = d[0]
  if k == "param":
    return "(DParam %d)" % d[1]
  if k == "ground":
    return "(DGround %s)" % L.to_coq(d[1])
  lst = lambda xs: "[" + "; ".join(d_coq(x) for x in xs) + "]"
  if k == "dgen":
    return "(DGeneric %d %s)" % (d[1], lst(d[2]))
  if k == "dtup":
    return "(DTuple %s)" % lst(d[1])
  return "(DUnion %s)" % lst(d[1])


def d_subst(d, ps):
  """the declared type with the template entries replaced (independent Python implementation of the spec)."""
  k = d[0]
  if k == "param":
    return ps[d[1]] if d[1] < len(ps) else L.ANY
  if k == "ground":
    return d[1]
  if k == "dgen":
    return ("gen", d[1], tuple(d_subst(x, ps) for x in d[2]))
  if k == "dtup":
    return ("tup", tuple(d_subst(x, ps) for x in d[1]))
  ms = []
  for x in d[1]:
    t = d_subst(x, ps)
    ms.extend(t[1] if t[0] == "union" else [t])
  return ("union", tuple(ms))


def d_param_union(d):
  """a type parameter directly below a Union (the proved theorem on attributes excludes it)."""
  k = d[0]
  if k == "dunion":
    return any(x[0] == "param" or d_param_union(x) for x in d[1])
  if k in ("dgen", "dtup"):
    return any(d_param_union(x) for x in (d[2] if k == "dgen" else d[1]))
  return False


NAME_ID = {}


def nid(name):
  """names -> numbers, in lexicographic order for the keyword names (sorted(extra_kwargs))."""
  if name not in NAME_ID:
    if name[0] == "a":
      NAME_ID[name] = 10 + int(name[1:])
    elif name[0] == "k":
      NAME_ID[name] = 50 + int(name[1:])
    elif name[0] == "m":
      NAME_ID[name] = 100 + int(name[1:])
    else:
      raise ValueError(name)
  return NAME_ID[name]


KIND_COQ = {"posonly": "PosOnly", "pos": "PosOrKw", "kwonly": "KwOnly"}


def sig_coq(s, ret_ground=True):
  ps = "; ".join("(mkParam %d %s %s %s)" % (nid(n), KIND_COQ[k], "true" if o else "false", L.to_coq(t))
                 for n, k, o, t in s["params"])
  opt = lambda t: "None" if t is None else "(Some %s)" % L.to_coq(t)
  ret = L.to_coq(s["ret"]) if ret_ground else "TAny"
  return "(mkSig [%s] %s %s %s)" % (ps, opt(s["star"]), opt(s["starstar"]), ret)


def call_coq(c):
  return "(mkCall [%s] [%s])" % ("; ".join(L.to_coq(t) for t in c["pos"]),
                                 "; ".join("(%d, %s)" % (nid(n), L.to_coq(t)) for n, t in c["named"]))


def sig_text(name, s, ret_text, first=None, deco=""):
  parts = [first] if first else []
  ps = s["params"]
  n_posonly = len([p for p in ps if p[1] == "posonly"])
  seen_kw = False
  for i, (n, k, o, t) in enumerate(ps):
    if k == "kwonly" and not seen_kw:
      seen_kw = True
      parts.append("*args: %s" % L.to_text(s["star"]) if s["star"] is not None else "*")
    parts.append("%s: %s%s" % (n, L.to_text(t), " = ..." if o else ""))
    if k == "posonly" and i == n_posonly - 1:
      parts.append("/")
  if not seen_kw and s["star"] is not None:
    parts.append("*args: %s" % L.to_text(s["star"]))
  if s["starstar"] is not None:
    parts.append("**kw: %s" % L.to_text(s["starstar"]))
  return "%sdef %s(%s) -> %s: ..." % (deco, name, ", ".join(parts), ret_text)


# ---------------------------------------------------------------------------------------------
# generators

def gen_ret(r):
  for _ in range(30):
    t = L.gen_type(r, r.choice([0, 1, 1, 2, 3]), True)
    if t not in (L.NOTHING,) and not contains_gen_class(t):
      return t
  return ("cls", 10)


def contains_gen_class(t):
  return False


def gen_pool(r):
  """argument / formal types: pairwise different; plain classes with a subclass pair, containers, Any, a union."""
  fixed = [("cls", 10), ("cls", 11), ("cls", 32), ("cls", 33), L.ANY]
  pool = list(fixed)
  tries = 0
  while len(pool) < 8 and tries < 50:
    tries += 1
    t = L.gen_type(r, r.choice([1, 1, 2]), True)
    if t in pool or t == L.NOTHING or L.size(t) > 6:
      continue
    pool.append(t)
  return pool


def gen_sig(r, pool, ret):
  n = r.choice([0, 1, 1, 2, 2, 3])
  kinds = []
  n_posonly = r.choice([0, 0, 0, 1]) if n else 0
  n_kwonly = r.choice([0, 0, 1]) if n - n_posonly > 0 else 0
  params = []
  opt_from = r.choice([n, n, n - 1, 0]) if n else 0          # defaults on a suffix of the positional parameters
  npos = n - n_kwonly
  for i in range(n):
    if i < n_posonly:
      k = "posonly"
    elif i < npos:
      k = "pos"
    else:
      k = "kwonly"
    o = (i >= opt_from) if k != "kwonly" else (r.random() < 0.4)
    params.append(("a%d" % i, k, o, r.choice(pool)))
  x = r.random()
  star = r.choice(pool) if x < 0.25 else None
  starstar = r.choice(pool) if 0.15 < x < 0.4 else None
  return {"params": params, "star": star, "starstar": starstar, "ret": ret}


def gen_calls(r, s, pool):
  """the own-types call plus variations (valid ones and invalid ones)."""
  ps = s["params"]
  own = {"pos": [t for n, k, o, t in ps if k != "kwonly"], "named": [(n, t) for n, k, o, t in ps if k == "kwonly"],
         "valid": True, "own": True}
  calls = [own]
  if own["pos"] and r.random() < 0.6:
    # one positional argument too few (a missing required parameter unless the last one has a default)
    calls.append({"pos": own["pos"][:-1], "named": list(own["named"]), "valid": None, "own": False})
  if own["named"] and r.random() < 0.5:
    calls.append({"pos": list(own["pos"]), "named": own["named"][:-1], "valid": None, "own": False})
  for _ in range(r.choice([1, 2, 3])):
    pos, named, valid = [], [], True
    mode = r.random()
    for n, k, o, t in ps:
      a = t if r.random() < 0.8 else r.choice(pool)
      if a != t:
        valid = None                       # the matcher decides
      if o and r.random() < 0.4:
        continue                           # omit an optional parameter
      if k == "kwonly" or (k == "pos" and (named or r.random() < 0.25)):
        named.append((n, a))
      elif named:
        valid = False if not o else valid  # a required positional parameter after keywords: omitted
      else:
        pos.append(a)
    if mode < 0.2:
      pos.append(s["star"] if s["star"] is not None and r.random() < 0.7 else r.choice(pool))   # one positional too many
      if s["star"] is None:
        valid = False
      elif pos[-1] != s["star"]:
        valid = None
    elif mode < 0.4:
      kn = r.choice(["k0", "k1", "k2"])
      named.append((kn, s["starstar"] if s["starstar"] is not None and r.random() < 0.7 else r.choice(pool)))
      if s["starstar"] is None:
        valid = False
      elif named[-1][1] != s["starstar"]:
        valid = None
      if r.random() < 0.3:
        kn2 = r.choice(["k0", "k1", "k2"])
        if kn2 != kn:
          named.insert(0, (kn2, s["starstar"] if s["starstar"] is not None else r.choice(pool)))
    elif mode < 0.5 and ps:
      n0, k0, _, t0 = ps[0]
      if all(n0 != nn for nn, _ in named):
        named.append((n0, t0))             # duplicate / positional-only by keyword
        valid = None
    # positional arguments must stay a prefix: drop later positionals that would follow a gap
    given = {n for n, _ in named}
    need = [p for p in ps if p[1] != "kwonly"]
    if len(pos) < len([p for p in need if not p[2]]) and not any(p[0] in given for p in need):
      valid = False if valid is not None else None
    calls.append({"pos": pos, "named": named, "valid": None, "own": False})
  return calls


def call_text(fn, c):
  args = ["A.p%d" % c["pool"].index(t) for t in c["pos"]] + ["%s=A.p%d" % (n, c["pool"].index(t)) for n, t in c["named"]]
  return "%s(%s)" % (fn, ", ".join(args))


MEMBER_SHAPES = [
    lambda i, g: P(i), lambda i, g: ("dgen", 6, (P(i),)), lambda i, g: ("dgen", 7, (G(("cls", 11)), P(i))),
    lambda i, g: ("dtup", (P(i), G(("cls", 10)))), lambda i, g: ("dgen", 6, (("dgen", 8, (P(i),)),)),
    lambda i, g: ("dunion", (P(i), G(("cls", L.NONE_ID)))), lambda i, g: ("dgen", 6, (("dunion", (P(i), G(("cls", 14)))),)),
    lambda i, g: ("dgen", L.TUPLE_ID, (P(i),)), lambda i, g: G(g), lambda i, g: G(g),
]


def gen_dty(r, n_template):
  g = gen_ret(r)
  if n_template == 0 or r.random() < 0.3:
    return G(g)
  d = r.choice(MEMBER_SHAPES)(r.randrange(n_template), g)
  if n_template >= 2 and r.random() < 0.3 and d[0] != "ground":
    d = ("dtup", (d, P(r.randrange(n_template))))
  return d


def gen_classes(r, pool):
  """2-3 classes C4.. in one inheritance chain or side by side; TypeVar names may collide between a class and its base."""
  classes = []
  n_cls = r.choice([2, 3, 3])
  for ci in range(n_cls):
    cid = L.USER_BASE + GEN0 + ci
    nt = r.choice([0, 1, 1, 2, 2])
    template = r.sample(TVARS, nt)
    base = None
    if classes and r.random() < 0.75:
      b = r.choice(classes)
      args = []
      for _ in b["template"]:
        x = r.random()
        if template and x < 0.55:
          args.append(P(r.randrange(len(template))))
        elif x < 0.85:
          args.append(G(r.choice([("cls", 10), ("cls", 11), ("cls", 32), ("cls", 14)])))
        else:
          args.append(G(r.choice([t for t in pool if t not in (L.ANY,) and t[0] != "union"])))
      base = (b["id"], tuple(args))
    members = []
    for mi in range(r.choice([2, 3, 4])):
      # member names are shared between the classes so that overriding happens
      name = "m%d" % r.randrange(6)
      if any(name == n for n, _ in members):
        continue
      x = r.random()
      if x < 0.5:
        members.append((name, ("const", gen_dty(r, nt))))
      elif x < 0.7:
        members.append((name, ("method", "property", [({"params": [], "star": None, "starstar": None, "ret": None},
                                                       gen_dty(r, nt))])))
      else:
        kind = r.choice(["method", "method", "method", "static", "classmethod"])
        nsig = r.choice([1, 1, 1, 2])
        sigs = []
        for _ in range(nsig):
          s = gen_sig(r, pool, None)
          if nsig > 1 and not s["params"]:
            s["params"] = [("a0", "pos", False, r.choice(pool))]
          sigs.append((s, gen_dty(r, nt if kind == "method" else 0)))
        members.append((name, ("method", kind, sigs)))
    classes.append({"id": cid, "template": template, "base": base, "members": members})
  return classes


def class_text(c):
  t = c["template"]
  bases = []
  if c["base"]:
    b, args = c["base"]
    bt = L.cls_name(b)
    if args:
      bt += "[%s]" % ", ".join(d_text(a, t) for a in args)
    bases.append(bt)
  # Generic[...] is needed whenever the template is not determined by the base's arguments in this order
  if t:
    bases.append("Generic[%s]" % ", ".join(t))
  out = ["class %s%s:" % (L.cls_name(c["id"]), "(%s)" % ", ".join(bases) if bases else "")]
  self_t = L.cls_name(c["id"]) + ("[%s]" % ", ".join(t) if t else "")
  for name, m in c["members"]:
    if m[0] == "const":
      out.append("    %s: %s" % (name, d_text(m[1], t)))
    else:
      _, kind, sigs = m
      for s, dret in sigs:
        deco = ""
        if len(sigs) > 1:
          deco += "    @overload\n"
        first = "self"
        if kind == "static":
          deco += "    @staticmethod\n"
          first = None
        elif kind == "classmethod":
          deco += "    @classmethod\n"
          first = "cls"
        elif kind == "property":
          deco += "    @property\n"
        out.append(deco + "    " + sig_text(name, s, d_text(dret, t), first=first))
  if len(out) == 1:
    out.append("    pass")
  return "\n".join(out)


MKIND_COQ = {"method": "KMethod", "static": "KStatic", "classmethod": "KClassmethod", "property": "KProperty"}


def class_coq(c):
  tv = "[%s]" % "; ".join(str(TVARS.index(x) + 1) for x in c["template"])
  base = "None"
  if c["base"]:
    base = "(Some (%d%%N, [%s]))" % (c["base"][0], "; ".join(d_coq(a) for a in c["base"][1]))
  ms = []
  for name, m in c["members"]:
    if m[0] == "const":
      ms.append("(%d, MConst %s)" % (nid(name), d_coq(m[1])))
    else:
      ms.append("(%d, MMethod %s [%s])" % (nid(name), MKIND_COQ[m[1]],
                                           "; ".join("(%s, %s)" % (sig_coq(s, False), d_coq(dr)) for s, dr in m[2])))
  return "(mkC %d %s %s [%s])" % (c["id"], tv, base, "; ".join(ms))


def py_chain(classes, cid, ps):
  """[(class, parameters of that class)] up the single-base chain (independent of the Coq model)."""
  by_id = {c["id"]: c for c in classes}
  out = []
  while cid in by_id and len(out) < 8:
    c = by_id[cid]
    out.append((c, ps))
    if not c["base"]:
      break
    cid, args = c["base"]
    ps = [d_subst(a, ps) for a in args]
  return out


# ---------------------------------------------------------------------------------------------
# one batch: stub, downstream module, real run, model run, oracle

class Probe:
  def __init__(self, name, expr, kind, coq, expected=None, thm=False, info=None, expect_ok=None):
    self.name, self.expr, self.kind, self.coq = name, expr, kind, coq
    self.expected, self.thm, self.info, self.expect_ok = expected, thm, info or {}, expect_ok


def build_batch(r, n_funcs, fixed=False):
  pool = gen_pool(r)
  lines = ["from typing import Any, Callable, Generic, TypeVar, Union, overload"]
  lines += ["%s = TypeVar('%s')" % (t, t) for t in TVARS]
  lines += ["class C0: ...", "class C1(C0): ...", "class C2: ...", "class C3: ..."]
  classes = gen_classes(r, pool)
  lines += [class_text(c) for c in classes]
  lines += ["p%d: %s" % (i, L.to_text(t)) for i, t in enumerate(pool)]
  lines += ["def q%d(a: %s) -> int: ..." % (j, L.to_text(t)) for j, t in enumerate(pool)]
  probes = []
  # acceptance matrix probes
  for i in range(len(pool)):
    for j in range(len(pool)):
      probes.append(Probe("acc_%d_%d" % (i, j), "A.q%d(A.p%d)" % (j, i), "acc", None))
  # functions
  funcs = []
  fdefs = []
  for fi in range(n_funcs):
    nsig = r.choice([1, 1, 1, 2, 2, 3])
    sigs = []
    for k in range(nsig):
      s = gen_sig(r, pool, gen_ret(r))
      if nsig > 1 and not s["params"]:
        s["params"] = [("a0", "pos", False, r.choice(pool))]
      sigs.append(s)
    if nsig > 1:
      # Optimize inside _combine_multiple_returns is not modelled: the return types of one overloaded function have
      # pairwise different base classes (CombineContainers is then the identity on their union) or are equal
      used = set()
      for s in sigs:
        for _t in range(40):
          if L.base(s["ret"]) not in used and s["ret"][0] != "union" and s["ret"] != L.ANY:
            break
          s["ret"] = gen_ret(r)
        else:
          s["ret"] = ("cls", 10 + len(used))
        used.add(L.base(s["ret"]))
      if r.random() < 0.3:
        sigs[-1]["ret"] = sigs[0]["ret"]
    funcs.append(sigs)
    for s in sigs:
      lines.append(("@overload\n" if nsig > 1 else "") + sig_text("f%d" % fi, s, L.to_text(s["ret"])))
    fdefs.append("Definition fn%d : list sig := [%s].\n" % (fi, "; ".join(sig_coq(s) for s in sigs)))
    fcoq = "fn%d" % fi
    ci = 0
    for k, s in enumerate(sigs):
      for c in gen_calls(r, s, pool):
        c["pool"] = pool
        exp, thm = None, False
        amb = any(ambiguous(t) for t in c["pos"]) or any(ambiguous(t) for _, t in c["named"])
        if c["own"] and nsig == 1:
          exp, thm = s["ret"], True
        probes.append(Probe("r%d_%d" % (fi, ci), call_text("A.f%d" % fi, c), "call",
                            "call_emitted A acc %s %s" % (fcoq, call_coq(c)), exp, thm,
                            {"own": c["own"], "k": k, "nsig": nsig, "amb": amb, "sigs": sigs, "call": c},
                            expect_ok=True if (c["own"] and nsig == 1) else None))
        ci += 1
    probes.append(Probe("F%d" % fi, "A.f%d" % fi, "reexport-func", None, info={"fname": "f%d" % fi}))
  # instances and member reads
  tbl = "[%s]" % "; ".join(class_coq(c) for c in classes)
  arity_map = {c["id"]: len(c["template"]) for c in classes}
  gi = 0
  for c in classes:
    for _ in range(r.choice([1, 2])):
      nt = len(c["template"])
      bare = nt > 0 and r.random() < 0.15
      ps = []
      for _k in range(nt):
        for _t in range(30):
          t = L.gen_type(r, r.choice([0, 1, 1, 2]), True)
          if t not in (L.NOTHING, L.ANY) and L.size(t) <= 6:
            break
        else:
          t = ("cls", 10)
        ps.append(t)
      if bare:
        ps = [L.ANY] * nt
      gname = "g%d" % gi
      gi += 1
      lines.append("%s: %s" % (gname, L.cls_name(c["id"]) + ("[%s]" % ", ".join(L.to_text(p) for p in ps) if ps and not bare else "")))
      ch = py_chain(classes, c["id"], ps)
      names = []
      for k_, _ in ch:
        for n, _m in k_["members"]:
          if n not in names:
            names.append(n)
      ps_coq = "[%s]" % "; ".join(L.to_coq(p) for p in ps)
      for n in names:
        owners = [(k_, kps, dict(k_["members"])[n]) for k_, kps in ch if n in dict(k_["members"])]
        k0, kps0, m0 = owners[0]
        info = {"cls": c, "ps": ps, "member": n, "owners": owners, "classes": classes}
        simple_chain = all(a[0] == "param" or (a[1][0] == "cls" and L.arity(a[1][1]) == 0 and a[1][1] != L.TYPE_ID)
                           for k_, _ in ch if k_["base"] for a in k_["base"][1])
        if m0[0] == "const" or m0[1] == "property":
          d = m0[1] if m0[0] == "const" else m0[2][0][1]
          exp = d_subst(d, kps0)
          # the theorem's hypotheses: the first declaration is also the one pytype preloads (no shadowing by a
          # parametric constant further up), no short-name collision, no parameter directly below a Union on the
          # attribute path, base arguments simple
          shadow = any(mm[0] == "const" and d_mentions(mm[1]) for _, _, mm in owners[1:]) and \
              not (m0[0] == "const" and d_mentions(m0[1]))
          collide = m0[0] == "const" and d_mentions(d) and k0 is not c and \
              any(k0["template"][i] in c["template"] and
                  not (kps0[i] == ps[c["template"].index(k0["template"][i])]) for i in params_of(d))
          # exactly the proved theorems: attr_ground_read (ground constant / property) and attr_typevar_read (x: T)
          if fixed:
            # attr_typevar_read (variant after the fix) has no hypothesis on TypeVar names; it asks for base-class
            # arguments that are type parameters or plain classes
            thm = not shadow and (not d_mentions(d) or (m0[0] == "const" and d[0] == "param" and simple_chain))
          else:
            thm = not shadow and not collide and (not d_mentions(d) or (m0[0] == "const" and d[0] == "param"))
          single = all(t[0] != "union" and t != L.NOTHING for t in kps0)
          if d_mentions(d) and not shadow and simple_chain:
            if m0[0] == "const" and d[0] in ("dgen", "dtup") and not d_param_union(d):
              thm = True               # attr_nested_typevar_read (both variants, colliding names included)
            if m0[0] != "const" and single:
              thm = True               # property_typevar_read (one view)
          info.update(shadow=shadow, collide=collide)
          probes.append(Probe("x%s_%s" % (gname, n), "A.%s.%s" % (gname, n), "attr",
                              "read_emitted A %%FIXED%% 8 tbl %d %s %d" % (c["id"], ps_coq, nid(n)), exp, thm, info, True))
        else:
          _, kind, sigs = m0
          shadowed = any(mm[0] == "const" and d_mentions(mm[1]) for _, _, mm in owners)
          ci = 0
          for k, (s, dret) in enumerate(sigs):
            for cl in gen_calls(r, s, pool)[:2]:
              cl["pool"] = pool
              exp, thm = None, False
              if cl["own"] and len(sigs) == 1 and not shadowed:
                # method_call_result: one signature, own-types call, one view, base arguments simple
                exp = d_subst(dret, kps0)
                thm = kind == "method" and simple_chain and all(t[0] != "union" and t != L.NOTHING for t in kps0)
              info2 = dict(info, call=cl, nsig=len(sigs), amb=any(ambiguous(t) for t in cl["pos"] + [t for _, t in cl["named"]]))
              probes.append(Probe("c%s_%s_%d" % (gname, n, ci), call_text("A.%s.%s" % (gname, n), cl), "mcall",
                                  "mcall_emitted A acc 8 tbl %d %s %d %s" % (c["id"], ps_coq, nid(n), call_coq(cl)),
                                  exp, thm, info2, True if exp is not None else None))
              ci += 1
    # reads on the class itself
    ch = py_chain(classes, c["id"], [L.ANY] * len(c["template"]))
    seen = set()
    for k_, kps in ch:
      for n, m in k_["members"]:
        if n in seen:
          continue
        seen.add(n)
        cn = L.cls_name(c["id"])
        if m[0] == "const" and not d_mentions(m[1]):
          probes.append(Probe("K%s_%s" % (cn, n), "A.%s.%s" % (cn, n), "cattr",
                              "cread_emitted A 8 tbl %d %d" % (c["id"], nid(n)), m[1][1], False,
                              {"cls": c, "member": n}, True))
        elif m[0] == "method" and m[1] in ("static", "classmethod") and len(m[2]) == 1 and not d_mentions(m[2][0][1]):
          s, dret = m[2][0]
          cl = gen_calls(r, s, pool)[0]
          cl["pool"] = pool
          probes.append(Probe("K%s_%s" % (cn, n), call_text("A.%s.%s" % (cn, n), cl), "ccall",
                              "ccall_emitted A acc 8 tbl %d %d %s" % (c["id"], nid(n), call_coq(cl)), dret[1], False,
                              {"cls": c, "member": n, "call": cl}, True))
    probes.append(Probe("E%d" % c["id"], None, "reexport-class", "(reexport_class A %d, true)" % c["id"],
                        ("gen", L.TYPE_ID, (("cls", c["id"]),)), True, {"cls": c, "form": r.choice(["from", "assign", "alias"])}, True))
  return {"fixed": fixed, "pool": pool, "stub": "\n".join(lines) + "\n", "probes": probes, "tbl": tbl, "arity": arity_map, "fdefs": fdefs,
          "classes": classes, "funcs": funcs}


def params_of(d):
  k = d[0]
  if k == "param":
    return [d[1]]
  if k == "ground":
    return []
  out = []
  for x in (d[2] if k == "dgen" else d[1]):
    out.extend(params_of(x))
  return out


def ambiguous(t):
  """the variable conv_var t holds an Unsolvable (Any, bare `type`, a union with one of them)."""
  if t == L.ANY or t == ("cls", L.TYPE_ID):
    return True
  if t[0] == "union":
    return any(m == L.ANY or m == ("cls", L.TYPE_ID) for m in t[1])
  return False


def downstream_source(batch):
  out = ["import A"]
  for p in batch["probes"]:
    if p.kind == "reexport-class":
      cn = L.cls_name(p.info["cls"]["id"])
      form = p.info["form"]
      if form == "from":
        out.append("from A import %s as %s" % (cn, p.name))
      elif form == "assign":
        out.append("%s = A.%s" % (p.name, cn))
      else:
        out.append("from A import %s\n%s = %s" % (cn, p.name, cn))
    elif p.kind == "reexport-func":
      out.append("from A import %s as %s" % (p.info["fname"], p.name))
    else:
      out.append("%s = %s" % (p.name, p.expr))
  return "\n".join(out) + "\n"


def real_run(batch, workdir):
  from pytype import config, io
  shutil.rmtree(workdir, ignore_errors=True)
  os.makedirs(workdir)
  with open(os.path.join(workdir, "A.pyi"), "w") as f:
    f.write(batch["stub"])
  src = downstream_source(batch)
  opts = config.Options.create(python_version=(3, 12), pythonpath=workdir, module_name="B")
  with L.Recorder() as rec:
    ret = io.generate_pyi_ast(src, opts)
    pre_ast = rec.last
  names = {p.name for p in batch["probes"]}
  pre = L.defs_of(pre_ast, names)
  post = L.defs_of(ret.ast, names)
  src_lines = src.split("\n")
  errs = {}
  for e in ret.context.errorlog:
    if 0 < (e.line or 0) <= len(src_lines):
      n = src_lines[e.line - 1].split(" = ")[0].split(" as ")[-1].strip()
      errs.setdefault(n, []).append((e.name, str(e.message)[:160]))
  # re-exported functions: signatures of B's definition against A's
  a_ast = ret.context.loader.import_name("A")
  fsame = {}
  from pytype.pytd import pytd_utils
  def tkey(t):
    try:
      return L.py_canon(L.from_pytd(t))
    except L.Untranslatable:
      return pytd_utils.Print(t).replace("A.", "")
  def sig_key(s):
    return (tuple((p.name, tkey(p.type), str(p.kind), bool(p.optional)) for p in s.params),
            s.starargs and tkey(s.starargs.type), s.starstarargs and tkey(s.starstarargs.type), tkey(s.return_type))
  for p in batch["probes"]:
    if p.kind == "reexport-func":
      try:
        fa = a_ast.Lookup("A." + p.info["fname"])
        fb = [f for f in ret.ast.functions if f.name.rsplit(".", 1)[-1] == p.name]
        fsame[p.name] = bool(fb) and [sig_key(s) for s in fb[0].signatures] == [sig_key(s) for s in fa.signatures]
        if not fsame[p.name]:
          fsame[p.name + ":detail"] = (fb and pytd_utils.Print(fb[0]), pytd_utils.Print(fa))
      except Exception as e:  # pylint: disable=broad-except
        fsame[p.name] = False
        fsame[p.name + ":detail"] = repr(e)
  return pre, post, errs, fsame, src


CALL_ERRORS = ("wrong-arg-types", "wrong-arg-count", "wrong-keyword-args", "missing-parameter", "duplicate-keyword-argument",
               "invalid-function-call")


PRELUDE_V = ("From Coq Require Import List NArith Bool.\nFrom PV Require Import Conv.Model Conv.Decl.\n"
             "Import ListNotations.\nOpen Scope N_scope.\n"
             "Definition teq (x y : ty) := match ty_cmp x y with Eq => true | _ => false end.\n"
             "Definition deq (a b : tydef) := match a, b with DConst x, DConst y | DAlias x, DAlias y => teq x y "
             "| _, _ => false end.\n"
             "Fixpoint idx (t : ty) (l : list ty) : option nat := match l with [] => None | x :: l' => "
             "if teq x t then Some O else option_map S (idx t l') end.\n")
N_EVALS = 5


def header(batch, accm):
  """the definitions of one batch (they live in a Coq Module of their own: all batches share ONE coqc start)."""
  ar = " ".join("| %d%%N => %d%%nat" % (c, n) for c, n in sorted(batch["arity"].items()))
  h = "Definition A (c : cid) : nat := match c with %s | _ => builtin_arity c end.\n" % ar
  h += "Definition pool : list ty := [%s].\n" % "; ".join(L.to_coq(t) for t in batch["pool"])
  h += "Definition accm : list (list bool) := [%s].\n" % "; ".join(
      "[%s]" % "; ".join("true" if b else "false" for b in row) for row in accm)
  h += ("Definition acc (a f : ty) : bool := match idx a pool, idx f pool with Some i, Some j => "
        "nth j (nth i accm []) false | _, _ => false end.\n")
  h += "Definition tbl : ctable := %s.\n" % batch["tbl"]
  h += "".join(batch["fdefs"])
  return h


def run_batch(res, r, bi, n_funcs, stats, report, fixed=False, batch=None):
  batch = batch or build_batch(r, n_funcs, fixed)
  wd = os.path.join(WORK, "b")
  t0 = time.time()
  try:
    pre, post, errs, fsame, src = real_run(batch, wd)
  except Exception as e:  # pylint: disable=broad-except
    import traceback
    report(res, "decl-crash:" + type(e).__name__, "analysing the downstream module of a generated declaration stub raised %s: %s"
           % (type(e).__name__, str(e)[:200]), {"kind": "decl", "stub": batch["stub"], "src": downstream_source(batch),
                                                "trace": traceback.format_exc()[-800:]})
    stats["crash"] = stats.get("crash", 0) + 1
    return None
  stats["impl_s"] = stats.get("impl_s", 0.0) + time.time() - t0
  fatal = [(n, e) for n, es in errs.items() for e in es if e[0] in ("import-error", "pyi-error")]
  if fatal:
    report(res, "decl-downstream-error:" + fatal[0][1][0], "downstream module reports %r" % (fatal[0],),
           {"kind": "decl", "stub": batch["stub"], "src": src})
    return None
  n = len(batch["pool"])
  accm = [[not any(e[0] in CALL_ERRORS for e in errs.get("acc_%d_%d" % (i, j), [])) for j in range(n)] for i in range(n)]
  for i in range(n):
    if not accm[i][i]:
      report(res, "own-type-rejected:" + L.shape(batch["pool"][i], 1),
             "a constant of type %s is rejected for a parameter of the same type" % L.to_text(batch["pool"][i]),
             {"kind": "decl", "stub": batch["stub"], "src": "import A\ny = A.q%d(A.p%d)\n" % (i, i)})
  cases = []
  for p in batch["probes"]:
    if p.coq is None:
      continue
    pr, po = pre.get(p.name), post.get(p.name)
    if not pr or not po or pr[0] not in ("const", "alias") or po[0] not in ("const", "alias"):
      stats["unreadable"] = stats.get("unreadable", 0) + 1
      stats.setdefault("unreadable_examples", []).append((p.name, p.expr, pr, po))
      continue
    ok = not errs.get(p.name)
    cases.append((p, pr, po, ok))
  vthis, vother = ("true", "false") if batch["fixed"] else ("false", "true")
  body = "Module B%d.\n" % bi + header(batch, accm)
  body += "Definition cases := [\n" + ";\n".join(
      "(%s, %s, (%s, %s), (%s, %s), %s)" % (p.coq.replace("%FIXED%", vthis), p.coq.replace("%FIXED%", vother),
                                          L.def_to_coq(pr), "true" if ok else "false", L.def_to_coq(po),
                                          L.to_coq(p.expected) if p.expected is not None else "TError",
                                          "true" if p.thm else "false")
      for p, pr, po, ok in cases) + "].\n"
  # 1 model (the variant the tree was probed to implement) = real (pre-Optimize definition and accepted flag);
  # 2 wf_top of the expected type; 3 oracle on the real final stub; 4 theorem instance: model's emitted type = expected;
  # 5 the OTHER variant of the model = real (which cases separate the two variants)
  body += ("Eval vm_compute in map (fun c => match c with (m, _, (pr, ok), _, _) => deq (fst m) pr && Bool.eqb (snd m) ok end) cases.\n"
           "Eval vm_compute in map (fun c => match c with (_, _, _, (_, e), _) => wf_top A e end) cases.\n"
           "Eval vm_compute in map (fun c => match c with (_, _, _, (po, e), _) => teq (canon (def_ty po)) (canon e) end) cases.\n"
           "Eval vm_compute in map (fun c => match c with (m, _, _, (_, e), _) => teq (canon (def_ty (fst m))) (canon e) && snd m end) cases.\n"
           "Eval vm_compute in map (fun c => match c with (_, m2, (pr, ok), _, _) => deq (fst m2) pr && Bool.eqb (snd m2) ok end) cases.\n")
  body += "End B%d.\n" % bi
  return batch, cases, body, errs, fsame, src


def classify(p, ok_real, errs, fixed=False):
  i = p.info
  if p.kind == "attr":
    if i.get("collide") and not fixed:
      return KNOWN_COLLISION           # on a tree with the fix a collision that still fails is an unlisted violation
    if i.get("shadow"):
      return KNOWN_OVERRIDE
  if p.kind in ("call", "mcall") and i.get("amb") and i.get("nsig", 1) > 1:
    return KNOWN_AMBIG
  if p.expected is not None and contains_bare_type(p.expected):
    return "bare-type-read-as-Any"
  return None


def contains_bare_type(t):
  k = t[0]
  if k == "cls":
    return t[1] == L.TYPE_ID
  if k == "gen":
    return (t[1] == L.TYPE_ID and t[2] == (L.ANY,)) or any(contains_bare_type(x) for x in t[2])
  if k in ("tup", "union"):
    return any(contains_bare_type(x) for x in t[1])
  if k == "call":
    return any(contains_bare_type(x) for x in t[1]) or contains_bare_type(t[2])
  return False


def in_opt_domain(t):
  """Optimize passes the model does not cover are the identity (no object, no bool next to int, <= 7 members)."""
  import c06
  return c06.in_corr_domain(t)


FIXED_FINDINGS_STUB = """from typing import Any, Callable, Generic, TypeVar
T = TypeVar('T')
class C4(Generic[T]):
    m0: Callable[[T], int]
    m1: type[T]
    m2: list[T]
g0: C4[str]
"""


def fixed_findings(res, report):
  """type parameters in class-level positions of an attribute's type (outside the modelled dialect): the two
  deliberate widenings are reproduced on every run and reported under their own fingerprints."""
  from pytype import config, io
  wd = os.path.join(WORK, "fixed")
  shutil.rmtree(wd, ignore_errors=True)
  os.makedirs(wd)
  open(os.path.join(wd, "A.pyi"), "w").write(FIXED_FINDINGS_STUB)
  src = "import A\ny0 = A.g0.m0\ny1 = A.g0.m1\ny2 = A.g0.m2\n"
  ret = io.generate_pyi_ast(src, config.Options.create(python_version=(3, 12), pythonpath=wd, module_name="B"))
  got = L.defs_of(ret.ast, {"y0", "y1", "y2"})
  want = {"y0": ("const", ("call", (("cls", 11),), ("cls", 10))), "y1": ("const", ("gen", L.TYPE_ID, (("cls", 11),))),
          "y2": ("const", ("gen", 6, (("cls", 11),)))}
  fps = {"y0": KNOWN_CALLABLE_TV, "y1": KNOWN_TYPE_TV, "y2": "decl-type-not-preserved:attr:fixed-list-T"}
  n = 0
  for y in ("y0", "y1", "y2"):
    g = got.get(y)
    alias_ok = y == "y1" and g == ("alias", ("cls", 11))
    if g != want[y] and not alias_ok:
      n += 1
      report(res, fps[y], "attribute %s of g0: C4[str] is declared %s and read downstream as %s" %
             (FIXED_FINDINGS_STUB.split("\n")[3 + int(y[1])].strip(), L.to_text(want[y][1]),
              g and (g[0], L.to_text(g[1]) if g[0] in ("const", "alias") else g[1])),
             {"kind": "decl", "stub": FIXED_FINDINGS_STUB, "src": src, "names": [y]})
  return n


COLLISION_STUB = """from typing import Generic, TypeVar
T = TypeVar('T')
S = TypeVar('S')
class C4(Generic[T, S]):
    m0: T
class C5(C4[int, T], Generic[T]): ...
g0: C5[bytes]
"""
COLLISION_SRC = "import A\ny0 = A.g0.m0\n"


def collision_batch(fixed):
  """the collision witness as a batch of model cases (it separates the two variants of the model on every run):
  m0: T is resolved by _filter_var (short / full name), m1: list[T] by output.py (full name in both variants)."""
  pool = [("cls", 10)]
  c4 = {"id": L.USER_BASE + 4, "template": ["T", "S"], "base": None,
        "members": [("m0", ("const", P(0))), ("m1", ("const", ("dgen", 6, (P(0),))))]}
  c5 = {"id": L.USER_BASE + 5, "template": ["T"], "base": (c4["id"], (G(("cls", 10)), P(0))), "members": []}
  classes = [c4, c5]
  lines = ["from typing import Any, Callable, Generic, TypeVar, Union, overload"] + ["%s = TypeVar('%s')" % (t, t) for t in TVARS]
  lines += [class_text(c4), class_text(c5), "p0: int", "def q0(a: int) -> int: ...", "g0: C5[bytes]"]
  ps = [("cls", 14)]
  owners0 = [(c4, [("cls", 10), ("cls", 14)], ("const", P(0)))]
  probes = [Probe("acc_0_0", "A.q0(A.p0)", "acc", None),
            Probe("xg0_m0", "A.g0.m0", "attr", "read_emitted A %%FIXED%% 8 tbl %d [(TClass 14)] %d" % (c5["id"], nid("m0")),
                  ("cls", 10), bool(fixed), {"cls": c5, "ps": ps, "member": "m0", "owners": owners0, "collide": True, "shadow": False}, True),
            Probe("xg0_m1", "A.g0.m1", "attr", "read_emitted A %%FIXED%% 8 tbl %d [(TClass 14)] %d" % (c5["id"], nid("m1")),
                  ("gen", 6, (("cls", 10),)), False, {"cls": c5, "ps": ps, "member": "m1", "collide": False, "shadow": False}, True)]
  return {"fixed": fixed, "pool": pool, "stub": "\n".join(lines) + "\n", "probes": probes,
          "tbl": "[%s]" % "; ".join(class_coq(c) for c in classes), "arity": {c["id"]: len(c["template"]) for c in classes},
          "fdefs": [], "classes": classes, "funcs": []}


def probe_variant(res, report):
  """Which variant of attribute._filter_var does the tree implement?  The collision witness of
  Props/C06.v (attr_typevar_read_before_fix_refuted / ex_collision_fixed) is run on the real code:
  bytes -> resolution by short name (before fixes/C06-filter-var-full-name), int -> by full name (after).
  Returns True (fixed), False (old) or None (neither answer)."""
  from pytype import config, io
  wd = os.path.join(WORK, "variant")
  shutil.rmtree(wd, ignore_errors=True)
  os.makedirs(wd)
  open(os.path.join(wd, "A.pyi"), "w").write(COLLISION_STUB)
  ret = io.generate_pyi_ast(COLLISION_SRC, config.Options.create(python_version=(3, 12), pythonpath=wd, module_name="B"))
  got = L.defs_of(ret.ast, {"y0"}).get("y0")
  errs = [(e.name, e.line) for e in ret.context.errorlog]
  res.extra["decl_collision_witness_reads"] = got and (got[0], L.to_text(got[1]) if got[0] in ("const", "alias") else got[1])
  if got == ("const", ("cls", 10)) and not errs:
    return True
  if got == ("const", ("cls", 14)) and not errs:
    report(res, KNOWN_COLLISION,
           "`class C4(Generic[T, S]): m0: T; class C5(C4[int, T], Generic[T]); g0: C5[bytes]`: `A.g0.m0` is declared int and "
           "read downstream as bytes (attribute._filter_var resolves the type parameter by its short name)",
           {"kind": "decl", "stub": COLLISION_STUB, "src": COLLISION_SRC, "names": ["y0"],
            "expect": {"y0": ["cls", 10]}})
    return False
  return None


def leg(res, r, n_batches, n_funcs, report):
  os.makedirs(WORK, exist_ok=True)
  stats = {}
  built = []
  t0 = time.time()
  fixed = probe_variant(res, report)
  neither = False
  res.extra["decl_filter_var_variant"] = {True: "full name (with fixes/C06-filter-var-full-name)",
                                          False: "short name (before the fix)", None: "neither"}[fixed]
  res.obligation("variant:attribute._filter_var-resolves-by-short-or-full-name", fixed is not None,
                 "the collision witness is read as %r: neither int (after the fix) nor bytes (before)" %
                 (res.extra.get("decl_collision_witness_reads"),))
  if fixed is None:
    report(res, "decl-type-not-preserved:attr", "the collision witness `A.g0.m0` (declared int) is read as %r" %
           (res.extra.get("decl_collision_witness_reads"),),
           {"kind": "decl", "stub": COLLISION_STUB, "src": COLLISION_SRC, "names": ["y0"], "expect": {"y0": ["cls", 10]}})
    fixed = False
    neither = True
  b = run_batch(res, r, 1000, n_funcs, stats, report, fixed, batch=collision_batch(fixed))
  if b:
    built.append((1000,) + b)
  for bi in range(n_batches):
    b = run_batch(res, r, bi, n_funcs, stats, report, fixed)
    if b:
      built.append((bi,) + b)
  impl_s = time.time() - t0
  t1 = time.time()
  # ONE coqc start for all batches (each batch is a Module), split only when there are many (thorough tier)
  PER_FILE = 10
  groups = [built[k:k + PER_FILE] for k in range(0, len(built), PER_FILE)]
  outs = common.run_cases_parallel([("c06_decl_%d" % gi, PRELUDE_V + "".join(b[3] for b in g)) for gi, g in enumerate(groups)])
  model_s = time.time() - t1
  n_cases = n_mism = n_oracle = n_thm = n_thm_used = n_sep = n_other_mism = 0
  kinds = {}
  known = {}
  per_batch_terms = {}
  for gi, g in enumerate(groups):
    ok, out = outs["c06_decl_%d" % gi]
    terms = common.parse_coq_eval(out) if ok else []
    if not ok or len(terms) != N_EVALS * len(g):
      res.obligation("model-run:c06_decl_%d" % gi, False, out[-1500:])
      continue
    for k, b in enumerate(g):
      per_batch_terms[b[0]] = terms[N_EVALS * k:N_EVALS * (k + 1)]
  for (i, batch, cases, body, errs, fsame, src) in built:
    terms = per_batch_terms.get(i)
    if terms is None:
      continue
    cols = [[b.strip() == "true" for b in t.strip().strip("[]").split(";") if b.strip()] for t in terms]
    if not all(len(c) == len(cases) for c in cols):
      res.obligation("model-run:c06_decl_batch_%d" % i, False, "result length mismatch")
      continue
    for (p, pr, po, okr), same, wf, orc, thm, same_other in zip(cases, *cols):
      n_sep += same != same_other
      n_other_mism += not same_other
      n_cases += 1
      kinds[p.kind] = kinds.get(p.kind, 0) + 1
      res.count(("decl", p.kind, L.shape(po[1], 1), okr) if p.kind != "acc" else None)
      replay = {"kind": "decl", "stub": batch["stub"], "src": "import A\n%s = %s\n" % (p.name, p.expr) if p.expr else src,
                "names": [p.name]}
      if p.expected is not None and p.expr:
        replay["expect"] = {p.name: p.expected}
      if not same:
        n_mism += 1
        if n_mism <= 3:
          res.obligation("correspondence:decl:%s:%d:%s" % (p.kind, i, p.name), False,
                         "`%s`: real convert->output gives %s %s (accepted=%s), the model (%s) differs\n--- stub\n%s" %
                         (p.expr, pr[0], L.to_text(pr[1]), okr, p.coq, batch["stub"]))
      # direct oracle on the implementation (independent of the model)
      if p.expected is not None and in_opt_domain(p.expected):
        bad = (wf and not orc) or (p.expect_ok and not okr)
        if bad:
          fp = classify(p, okr, errs, fixed or neither)     # the listed finding is the OLD variant's only
          what = "`%s`: declared %s, downstream stub has `%s %s`%s" % (
              p.expr or ("re-export of " + L.cls_name(p.info["cls"]["id"])), L.to_text(p.expected), po[0], L.to_text(po[1]),
              "" if okr else " and reports %r" % (errs.get(p.name),))
          if fp:
            known[fp] = known.get(fp, 0) + 1
            report(res, fp, what, replay)
          else:
            n_oracle += 1
            report(res, "decl-type-not-preserved:%s" % p.kind, what, replay)
      # the theorems' hypotheses are monitored: inside them the model itself must give the declared type
      if p.thm and wf and p.expected is not None:
        n_thm_used += 1
        if not thm:
          n_thm += 1
          res.obligation("theorem-instance:decl:%s:%s" % (p.kind, p.name), False,
                         "inside the theorem's hypotheses but the model's emitted type differs from the declared %s: %s" %
                         (L.to_text(p.expected), p.coq))
    for p in batch["probes"]:
      if p.kind == "reexport-func":
        n_cases += 1
        kinds[p.kind] = kinds.get(p.kind, 0) + 1
        if not fsame.get(p.name):
          report(res, "decl-function-reexport-differs", "`from A import %s as %s`: B's definition differs: %r" %
                 (p.info["fname"], p.name, fsame.get(p.name + ":detail")),
                 {"kind": "decl", "stub": batch["stub"], "src": "from A import %s as %s\n" % (p.info["fname"], p.name), "names": [p.name]})
  n_fixed = fixed_findings(res, report)
  res.obligation("correspondence:decl-model-vs-convert/output", n_mism == 0 and not stats.get("crash"),
                 "%d of %d declaration probes disagree with the model variant fixed=%s the tree was probed to implement "
                 "(the other variant disagrees on %d); %d crashes" % (n_mism, n_cases, fixed, n_other_mism, stats.get("crash", 0)))
  res.obligation("correspondence:decl-translatable", stats.get("unreadable", 0) <= max(3, n_cases // 40),
                 "%d probes could not be read back: %r" % (stats.get("unreadable", 0), stats.get("unreadable_examples", [])[:3]))
  res.obligation("decl-cases-separate-the-two-variants", n_sep > 0,
                 "%d probes on which the models with fixed=false and fixed=true differ" % n_sep)
  res.extra["decl_probes_on_which_the_two_variants_differ"] = n_sep
  res.extra["decl_other_variant_mismatches"] = n_other_mism
  res.extra["decl_batches"] = len(built)
  res.extra["decl_probes_compared"] = n_cases
  res.extra["decl_probe_kinds"] = kinds
  res.extra["decl_theorem_instances_monitored"] = n_thm_used
  res.extra["decl_known_findings"] = known
  res.extra["decl_fixed_finding_probes"] = n_fixed
  res.extra["decl_impl_s"] = round(impl_s, 1)
  res.extra["decl_model_s"] = round(model_s, 1)


def _tuple_ify(x):
  return tuple(_tuple_ify(y) for y in x) if isinstance(x, (list, tuple)) else x


def replay(rep, workdir):
  """re-runs a stored declaration replay on the implementation; prints B's stub and errors; returns
  (stub, errors, still_failing)."""
  from pytype import config, io
  shutil.rmtree(workdir, ignore_errors=True)
  os.makedirs(workdir)
  open(os.path.join(workdir, "A.pyi"), "w").write(rep["stub"])
  ret = io.generate_pyi_ast(rep["src"], config.Options.create(python_version=(3, 12), pythonpath=workdir, module_name="B"))
  from pytype.pytd import pytd_utils
  pyi = pytd_utils.Print(ret.ast)
  print("--- upstream stub\n" + rep["stub"])
  print("--- downstream source\n" + rep["src"])
  print("--- downstream stub\n" + pyi)
  errs = [(e.name, e.line, str(e.message)[:200]) for e in ret.context.errorlog]
  print("--- downstream errors:", errs)
  bad = bool(errs) and not rep.get("expect")
  got = L.defs_of(ret.ast, set(rep.get("expect", {})))
  for name, want in rep.get("expect", {}).items():
    want = _tuple_ify(want)
    g = got.get(name)
    gt = None if not g or g[0] not in ("const", "alias") else (g[1] if g[0] == "const" else ("gen", L.TYPE_ID, (g[1],)))
    same = gt is not None and L.py_canon(gt) == L.py_canon(want)
    print("--- %s: declared %s, downstream %s -> %s" % (name, L.to_text(want), g and (g[0], L.to_text(g[1]) if gt is not None else g[1]),
                                                       "same type" if same else "DIFFERENT"))
    bad = bad or not same
  return pyi, errs, bad
