"""C02 extension leg (e): Literal[...] annotations with nested Optional/Union, constants against their base classes in
both directions, and the RETURN site with several return statements / multi-binding return variables.

Model: coq/Match/Lit.v (matchL / errL_* / lret_errors), theorems in coq/Props/C02.v section (e).
Three-way comparison per (T, V) and site: real pytype  vs  the Coq model  vs  an independent run-time oracle
(eval(V) is a member of T under PEP 484 + PEP 586).  A pytype/oracle disagreement must be explained by named
deviations (each a fingerprint); anything else is a VIOLATION with a concrete replay.
"""
import itertools

import c02_gen as G

INTS = [0, 1, 2, 3, -1]
STRS = ["a", "b", "c"]
BASES = ["int", "float", "str", "bool", "object", "Any", "None", "bytes", "complex"]
SEQ_HEADS = {"List": "B_list", "Sequence": "B_t_Sequence", "Iterable": "B_t_Iterable"}
OPAQUE = {"int": 'int("77")', "str": "str(5)", "float": "2.5", "bool": "bool(5)"}
SITES = ("arg", "ret", "assign")
SITE_ERROR = {"arg": "wrong-arg-types", "ret": "bad-return-type", "assign": "annotation-type-mismatch"}


# ------------------------------------------------------------------------------------------------ generation
def gen_lit(r):
  k = r.random()
  if k < 0.45:
    return ("lit", "int", r.choice(INTS))
  if k < 0.85:
    return ("lit", "str", r.choice(STRS))
  return ("lit", "bool", r.choice([True, False]))


def gen_flat(r, depth=2):
  """A literal-containing 'flat' type: Literal or a (possibly nested) Union with at least one Literal."""
  if depth == 0 or r.random() < 0.4:
    return gen_lit(r)
  opts = [gen_lit(r)]
  for _ in range(r.randint(1, 3)):
    k = r.random()
    if k < 0.5:
      opts.append(gen_lit(r))
    elif k < 0.8:
      opts.append(("base", r.choice(BASES)))
    else:
      opts.append(gen_flat(r, depth - 1))
  r.shuffle(opts)
  return ("union", tuple(opts))


def gen_ty(r, depth=2):
  k = r.random()
  if depth == 0 or k < 0.35:
    return gen_flat(r, 2)
  if k < 0.45:
    return ("base", r.choice(BASES))
  if k < 0.6:
    return ("tuple", tuple(gen_ty(r, depth - 1) for _ in range(r.randint(1, 3))))
  if k < 0.7:
    return ("hom", gen_ty(r, depth - 1))
  if k < 0.88:
    return ("seq", r.choice(sorted(SEQ_HEADS)), gen_flat(r, 2))
  return ("union", tuple(gen_ty(r, depth - 1) for _ in range(r.randint(2, 3))))


def lits_of(t):
  if t[0] == "lit":
    return [t]
  if t[0] == "base":
    return []
  if t[0] in ("union", "tuple"):
    return [x for o in t[1] for x in lits_of(o)]
  return lits_of(t[-1])


def gen_scalar(r, t=None):
  k = r.random()
  ls = lits_of(t) if t else []
  if ls and k < 0.45:
    l = r.choice(ls)
    return ("c", l[1], l[2])
  if k < 0.6:
    return ("c", "int", r.choice(INTS))
  if k < 0.75:
    return ("c", "str", r.choice(STRS))
  if k < 0.83:
    return ("c", "bool", r.choice([True, False]))
  if k < 0.9:
    return ("none",)
  return ("o", r.choice(sorted(OPAQUE)))


def gen_conform(r, t, depth=3):
  """A value built to inhabit t (best effort)."""
  h = t[0]
  if h == "lit":
    return ("c", t[1], t[2])
  if h == "base":
    return {"int": ("c", "int", r.choice(INTS)), "float": ("o", "float"), "str": ("c", "str", r.choice(STRS)),
            "bool": ("c", "bool", True), "None": ("none",), "complex": ("c", "int", 1)}.get(t[1], gen_scalar(r))
  if h == "union":
    return gen_conform(r, r.choice(t[1]), depth)
  if h == "tuple":
    return ("t", tuple(gen_conform(r, o, depth - 1) for o in t[1]))
  if h == "hom":
    return ("t", tuple(gen_conform(r, t[1], depth - 1) for _ in range(r.randint(0, 3))))
  if h == "seq":
    els = tuple(gen_conform(r, t[2], 0) for _ in range(r.randint(0, 3)))
    if t[1] != "List" and r.random() < 0.3:
      return ("t", els)
    return ("l", els)
  return gen_scalar(r)


def mutate(r, v, t):
  """One-place near miss."""
  if v[0] in ("t", "l") and v[1]:
    k = r.random()
    i = r.randrange(len(v[1]))
    els = list(v[1])
    if k < 0.6:
      els[i] = mutate(r, els[i], t)
    elif k < 0.75:
      del els[i]
    elif k < 0.9:
      els.insert(i, gen_scalar(r, t))
    else:
      return ("l" if v[0] == "t" else "t", v[1])
    return (v[0], tuple(els))
  return gen_scalar(r, t)


def gen_val(r, t):
  k = r.random()
  if k < 0.4:
    return gen_conform(r, t)
  if k < 0.85:
    return mutate(r, gen_conform(r, t), t)
  if k < 0.93:
    return gen_scalar(r, t)
  return (r.choice("tl"), tuple(gen_scalar(r, t) for _ in range(r.randint(0, 3))))


def wf_val(v):
  """Inside the Coq fragment: list displays hold scalars only."""
  if v[0] == "l":
    return all(e[0] in ("c", "none", "o") for e in v[1])
  if v[0] == "t":
    return all(wf_val(e) for e in v[1])
  return True


def gen_cases(r, n_pairs, n_ret):
  pairs, rets = [], []
  while len(pairs) < n_pairs:
    t = gen_ty(r)
    v = gen_val(r, t)
    if wf_val(v):
      pairs.append((t, v))
  while len(rets) < n_ret:
    t = gen_ty(r, 1)
    vs = [gen_val(r, t) for _ in range(3)]
    if all(wf_val(v) for v in vs):
      rets.append((t, vs))
  return pairs, rets


# ------------------------------------------------------------------------------------------------ rendering
def render_ty(t):
  h = t[0]
  if h == "lit":
    return "Literal[%r]" % (t[2],)
  if h == "base":
    return t[1]
  if h == "union":
    if all(o[0] == "lit" for o in t[1]):
      return "Literal[%s]" % ", ".join(repr(o[2]) for o in t[1])
    if len(t[1]) == 2 and t[1][1] == ("base", "None"):
      return "Optional[%s]" % render_ty(t[1][0])
    return "Union[%s]" % ", ".join(render_ty(o) for o in t[1])
  if h == "tuple":
    return "Tuple[%s]" % ", ".join(render_ty(o) for o in t[1])
  if h == "hom":
    return "Tuple[%s, ...]" % render_ty(t[1])
  return "%s[%s]" % (t[1], render_ty(t[2]))


def render_val(v):
  h = v[0]
  if h == "c":
    return repr(v[2])
  if h == "none":
    return "None"
  if h == "o":
    return OPAQUE[v[1]]
  if h == "t":
    return "(%s)" % "".join(render_val(e) + ", " for e in v[1]) if v[1] else "()"
  return "[%s]" % ", ".join(render_val(e) for e in v[1])


HEADER = "from typing import Any, Iterable, List, Literal, Optional, Sequence, Tuple, Union\n"


def build_program(pairs, rets):
  lines = HEADER.rstrip("\n").split("\n")
  where = {}
  for i, (t, v) in enumerate(pairs):
    T, V = render_ty(t), render_val(v)
    lines.append("def fa%d(x: %s): pass" % (i, T))
    lines.append("fa%d(%s)" % (i, V))
    where[len(lines)] = ("p", i, "arg")
    lines.append("def fr%d() -> %s:" % (i, T))
    lines.append("  return %s" % V)
    where[len(lines)] = ("p", i, "ret")
    lines.append("xa%d: %s = %s" % (i, T, V))
    where[len(lines)] = ("p", i, "assign")
  for i, (t, vs) in enumerate(rets):
    lines.append("def fm%d(c) -> %s:" % (i, render_ty(t)))
    lines.append("  if c:")
    lines.append("    return %s" % render_val(vs[0]))
    where[len(lines)] = ("r", i, 0)
    lines.append("  x = %s if c else %s" % (render_val(vs[1]), render_val(vs[2])))
    lines.append("  return x")
    where[len(lines)] = ("r", i, 1)
  return "\n".join(lines) + "\n", where


def work(job):
  tag, src = job
  try:
    return (tag, "ok", G.run_pytype(src))
  except Exception as e:   # pylint: disable=broad-except
    return (tag, "exc", "%s: %s" % (type(e).__name__, str(e)[:300]))


# ------------------------------------------------------------------------------------------------ Coq
_BN = {"int": "B_int", "float": "B_float", "str": "B_str", "bool": "B_bool", "object": "B_object", "None": "B_NoneType",
       "bytes": "B_bytes", "complex": "B_complex"}


def coq_lit(kind, val):
  if kind == "int":
    return "(LInt (%d)%%Z)" % val
  if kind == "bool":
    return "(LBool %s)" % ("true" if val else "false")
  return "(LStr %d)" % STRS.index(val)


def coq_ty(t):
  h = t[0]
  if h == "lit":
    return "(LLit %s)" % coq_lit(t[1], t[2])
  if h == "base":
    return "(LBase TAny)" if t[1] == "Any" else "(LBase (TCls (CB %s) []))" % _BN[t[1]]
  if h == "union":
    return "(LUnion [%s])" % "; ".join(coq_ty(o) for o in t[1])
  if h == "tuple":
    return "(LTuple [%s])" % "; ".join(coq_ty(o) for o in t[1])
  if h == "hom":
    return "(LHom %s)" % coq_ty(t[1])
  return "(LSeq %s %s)" % (SEQ_HEADS[t[1]], coq_ty(t[2]))


def coq_val(v):
  h = v[0]
  if h == "c":
    return "(LC %s)" % coq_lit(v[1], v[2])
  if h == "none":
    return "LNoneV"
  if h == "o":
    return "(LO %s)" % _BN[v[1]]
  return "(%s [%s])" % ("LT" if h == "t" else "LL", "; ".join(coq_val(e) for e in v[1]))


PRELUDE = """
Definition b2n (b : bool) : nat := if b then 1 else 0.
Definition lcode (p : lval * lty) : nat :=
  let (v, t) := p in
  b2n (table_ok tb0 && wf_lty tb0 t && wf_lval v) + 2 * b2n (errL_arg tb0 v t) + 4 * b2n (errL_ret tb0 v t)
  + 8 * b2n (errL_assign tb0 v t) + 16 * b2n (inhabitsL tb0 v t).
Definition rcode (p : lty * (lval * (lval * lval))) : list nat :=
  let '(t, (a, (b, c))) := p in
  lret_errors tb0 (Some t) [{| lrs_line := 0; lrs_vals := [a] |}; {| lrs_line := 1; lrs_vals := [b; c] |}].
"""


def coq_body(batches):
  out = ["From Coq Require Import List Arith Bool ZArith.",
         "From PV Require Import Match.Model Match.Lit Match.Witnesses Generated.C02_Builtins.",
         "Import ListNotations.", PRELUDE]
  for pairs, rets in batches:
    out += _coq_batch(pairs, rets)
  return "\n".join(out) + "\n"


def _coq_batch(pairs, rets):
  out = []
  for i in range(0, len(pairs), 100):
    out.append("Eval vm_compute in (map lcode [%s])." % "; ".join(
        "(%s, %s)" % (coq_val(v), coq_ty(t)) for t, v in pairs[i:i + 100]))
  for i in range(0, len(rets), 100):
    out.append("Eval vm_compute in (map rcode [%s])." % "; ".join(
        "(%s, (%s, (%s, %s)))" % (coq_ty(t), coq_val(vs[0]), coq_val(vs[1]), coq_val(vs[2]))
        for t, vs in rets[i:i + 100]))
  return out


# ------------------------------------------------------------------------------------------------ oracle
class Skip(Exception):
  pass


def member(val, t, devs=frozenset(), static_v=None):
  """Run-time membership of the Python object `val` in t.  `static_v` is the value AST (needed only to know what is
  a constant: PEP 586 admits constants only).  devs: names of deviations switched on."""
  h = t[0]
  if h == "lit":
    if static_v is not None and static_v[0] != "c":
      return False            # not a literal expression: its static type is the class, never Literal[...]
    if "literal-bool-int-equality" in devs:
      return type(val) in (int, bool, str) and val == t[2]
    return type(val) is type(t[2]) and val == t[2]
  if h == "base":
    n = t[1]
    if n in ("object", "Any"):
      return True
    if n == "None":
      return val is None
    if n == "bool":
      return isinstance(val, bool) or ("none-for-bool" in devs and val is None)
    if n == "int":
      return isinstance(val, int)
    if n == "float":
      return isinstance(val, (int, float))
    if n == "complex":
      return isinstance(val, (int, float, complex))
    if n == "str":
      return isinstance(val, str)
    if n == "bytes":
      return isinstance(val, bytes)
    raise Skip()
  if h == "union":
    return any(member(val, o, devs, static_v) for o in t[1])
  sub = (lambda i: static_v[1][i]) if static_v is not None and static_v[0] in ("t", "l") else (lambda i: None)
  if h == "tuple":
    return (isinstance(val, tuple) and len(val) == len(t[1]) and
            all(member(x, o, devs, sub(i)) for i, (x, o) in enumerate(zip(val, t[1]))))
  if h == "hom":
    return isinstance(val, tuple) and all(member(x, t[1], devs, sub(i)) for i, x in enumerate(val))
  # seq
  if isinstance(val, (str, bytes)):
    if t[1] == "List":
      return False
    raise Skip()      # the elements of a str are statically arbitrary strs; run-time iteration says otherwise
  if t[1] == "List":
    ok = isinstance(val, list)
  else:
    ok = isinstance(val, (list, tuple))
  if not ok:
    return False
  rs = [member(x, t[2], devs, sub(i)) for i, x in enumerate(val)]
  if isinstance(val, list) and "literal-list-one-element-suffices" in devs:
    return not rs or any(rs)
  return all(rs)


DEV_NAMES = ("literal-bool-int-equality", "literal-list-one-element-suffices", "none-for-bool")


def explain(v, t, site, impl_err):
  """Smallest set of named deviations under which membership equals pytype's verdict; None if there is none."""
  val = eval(render_val(v))   # pylint: disable=eval-used
  if site == "assign" and val is None and not impl_err:
    return ["assign-none"]
  for k in range(0, len(DEV_NAMES) + 1):
    for ds in itertools.combinations(DEV_NAMES, k):
      if (not member(val, t, frozenset(ds), v)) == impl_err:
        return list(ds)
  return None


# ------------------------------------------------------------------------------------------------ evaluation
def evaluate(res, batches, progs, impl, coq_terms):
  by_tag = {t: (st, p) for t, st, p in impl}
  n_corr = n_corr_bad = n_unexpl = n_oracle_self = n_wf_bad = n_skip = 0
  hist = {"pairs": 0, "return_cases": 0, "members": 0, "pytype_error_sites": 0, "ret_stmt_errors": 0,
          "value_kinds": {}, "type_heads": {}}
  explained = {}
  seen = set()
  reported = 0
  unexpected = []
  ti = 0
  for (pairs, rets), (tag, src, where) in zip(batches, progs):
    np_terms = (len(pairs) + 99) // 100
    nr_terms = (len(rets) + 99) // 100
    terms = coq_terms[ti:ti + np_terms + nr_terms]
    ti += np_terms + nr_terms
    pcodes, rcodes = None, None
    if len(terms) == np_terms + nr_terms:
      try:
        pcodes = [int(x) for tm in terms[:np_terms] for x in tm.strip("[] \n").split(";") if x.strip()]
        rcodes = []
        for tm in terms[np_terms:]:
          body = tm.strip()[1:-1]
          for part in body.split("];"):
            part = part.strip().strip("[]")
            rcodes.append([int(x) for x in part.split(";") if x.strip()])
      except ValueError:
        pcodes = rcodes = None
    if pcodes is None or len(pcodes) != len(pairs) or len(rcodes) != len(rets):
      res.obligation("model-run:c02_lit:" + tag, False, "cannot parse Coq output: %r" % (terms[:1],))
      pcodes, rcodes = None, None
    st, payload = by_tag.get(tag, ("exc", "no result"))
    if st != "ok":
      if "typeshed" not in payload:
        res.obligation("impl-run:lit:" + tag, False, payload)
        if reported < 3:
          reported += 1
          res.violation("crash:literal:" + payload.split(":")[0], "pytype raises on a generated Literal program: " +
                        payload[:200], {"leg": "lit", "source": src})
      continue
    errs = {k: False for k in where.values()}
    for name, line, msg in payload:
      k = where.get(line)
      if k and name == SITE_ERROR["ret" if k[0] == "r" else k[2]]:
        errs[k] = True
      else:
        unexpected.append((tag, name, line, msg.split("\n")[0][:100]))
    for i, (t, v) in enumerate(pairs):
      hist["pairs"] += 1
      hist["value_kinds"][v[0]] = hist["value_kinds"].get(v[0], 0) + 1
      hist["type_heads"][t[0]] = hist["type_heads"].get(t[0], 0) + 1
      res.count(("lit", render_ty(t), render_val(v)))
      val = eval(render_val(v))   # pylint: disable=eval-used
      try:
        orc = member(val, t, frozenset(), v)
      except Skip:
        orc = None
        n_skip += 1
      hist["members"] += int(bool(orc))
      code = pcodes[i] if pcodes else None
      if code is not None:
        if not code & 1:
          n_wf_bad += 1
          if n_wf_bad <= 2:
            res.obligation("fragment-wf:lit", False, "wf false in Coq for (%s, %s)" % (render_ty(t), render_val(v)))
        if orc is not None and bool(code & 16) != orc:
          n_oracle_self += 1
          if n_oracle_self <= 3:
            res.obligation("oracle-agreement:coq-inhabitsL-vs-runtime", False, "(%s, %s): Coq %s, run time %s" % (
                render_ty(t), render_val(v), bool(code & 16), orc))
      for s, bit in zip(SITES, (2, 4, 8)):
        e = errs[("p", i, s)]
        hist["pytype_error_sites"] += int(e)
        bad_corr = False
        if code is not None:
          n_corr += 1
          if bool(code & bit) != e:
            bad_corr = True
            n_corr_bad += 1
            if n_corr_bad <= 3:
              res.obligation("correspondence:literal:%s" % s, False, "model err=%s, pytype err=%s for T=%s V=%s" % (
                  bool(code & bit), e, render_ty(t), render_val(v)))
        if orc is not None and e != (not orc):
          fps = explain(v, t, s, e)
          what = "%s at %s site: T=%s V=%s" % ("error on a conforming value" if e else "missed violation", s,
                                               render_ty(t), render_val(v))
          rep = {"leg": "lit", "ty": t, "val": v, "site": s, "source": build_program([(t, v)], [])[0]}
          if fps is None or bad_corr:
            n_unexpl += 1
            if reported < 3:
              reported += 1
              ufp = "unexplained-literal:%s:%s:%s" % (s, "false-error" if e else "missed", render_ty(t)[:50])
              while ufp in res.known:
                ufp += ":unlisted"
              res.violation(ufp, what, rep)
          else:
            for fp in fps:
              explained[fp] = explained.get(fp, 0) + 1
              if fp not in seen:
                seen.add(fp)
                res.violation(fp, what, rep)
    for i, (t, vs) in enumerate(rets):
      hist["return_cases"] += 1
      res.count(("ret", render_ty(t)) + tuple(render_val(v) for v in vs))
      got = [k for k in (0, 1) if errs[("r", i, k)]]
      hist["ret_stmt_errors"] += len(got)
      if rcodes is not None:
        n_corr += 2
        if rcodes[i] != got:
          n_corr_bad += 1
          if n_corr_bad <= 3:
            res.obligation("correspondence:return-statements", False,
                           "model error statements %r, pytype %r for -> %s: return %s / x = %s if c else %s" % (
                               rcodes[i], got, render_ty(t), *[render_val(v) for v in vs]))
      # oracle per return statement: error iff some binding is not a member (modulo named deviations per binding)
      for k, bs in ((0, vs[:1]), (1, vs[1:])):
        e = k in got
        try:
          ms = [member(eval(render_val(b)), t, frozenset(), b) for b in bs]   # pylint: disable=eval-used
        except Skip:
          continue
        if e == (not all(ms)):
          continue
        fps = []
        ok = True
        if e:       # error although every binding conforms
          ok = False
        else:       # missed: every non-member binding must be explained by deviations
          for b, m in zip(bs, ms):
            if not m:
              f = explain(b, t, "ret", False)
              if f is None:
                ok = False
              else:
                fps += f
        what = "%s at return statement %d: -> %s: return %s / x = %s if c else %s" % (
            "error though every binding conforms" if e else "missed violation", k, render_ty(t),
            *[render_val(v) for v in vs])
        rep = {"leg": "lit-ret", "ty": t, "vals": vs, "stmt": k, "source": build_program([], [(t, vs)])[0]}
        if not ok:
          n_unexpl += 1
          if reported < 3:
            reported += 1
            res.violation("unexplained-return:%s:%s" % ("false-error" if e else "missed", render_ty(t)[:50]), what, rep)
        else:
          for fp in fps:
            explained[fp] = explained.get(fp, 0) + 1
            if fp not in seen:
              seen.add(fp)
              res.violation(fp, what, rep)
  res.obligation("correspondence:literal-model-vs-pytype(3 sites + return statements)", n_corr_bad == 0,
                 "%d of %d verdicts disagree" % (n_corr_bad, n_corr))
  res.obligation("oracle:literal-unexplained-disagreements", n_unexpl == 0, "%d" % n_unexpl)
  res.obligation("generated-programs-clean:literal", not unexpected, repr(unexpected[:4]))
  hist["oracle_skipped(str against Sequence/Iterable[Literal])"] = n_skip
  hist["explained_deviation_hits"] = explained
  hist["verdicts_compared_with_model"] = n_corr
  res.extra["literal_leg"] = hist


def replay(d):
  if d.get("leg") == "lit-ret":
    t, vs = _tup(d["ty"]), [_tup(v) for v in d["vals"]]
    src, where = build_program([], [(t, vs)])
    errs = G.run_pytype(src)
    print(src)
    print("pytype :", [(n, l) for n, l, _ in errs])
    got = sorted(where[l][2] for n, l, _ in errs if l in where and n == "bad-return-type")
    want = []
    for k, bs in ((0, vs[:1]), (1, vs[1:])):
      if not all(member(eval(render_val(b)), t, frozenset(), b) for b in bs):   # pylint: disable=eval-used
        want.append(k)
    print("statements in error: pytype %r, oracle %r" % (got, want))
    return 1 if got != want else 0
  t, v, s = _tup(d["ty"]), _tup(d["val"]), d["site"]
  src, where = build_program([(t, v)], [])
  errs = G.run_pytype(src)
  e = any(l in where and where[l][2] == s and n == SITE_ERROR[s] for n, l, _ in errs)
  orc = member(eval(render_val(v)), t, frozenset(), v)   # pylint: disable=eval-used
  print("T      :", render_ty(t))
  print("V      :", render_val(v))
  print("site   :", s)
  print("pytype : error reported =", e)
  print("oracle : value inhabits T =", orc)
  print("explained by:", explain(v, t, s, e) if e != (not orc) else [])
  return 1 if e != (not orc) else 0


def _tup(x):
  if isinstance(x, list):
    return tuple(_tup(y) for y in x)
  return x
