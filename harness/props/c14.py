"""C14 -- errors on fully known code are real, and plain type mistakes are caught.

Proof: coq/Props/C14.v over coq/Ops/Model.v (binop_py = vm_utils._call_binop_on_bindings/_overrides/
call_binary_operator, binop_c = CPython's binary_op1 + slot wrappers, unary minus, subscript, attribute
access, method call, call) and the builtin rows REGENERATED on every run into coq/Generated/C14_Builtins.v
(stub side: pytype's own loader + attribute handler + PyTDFunction.call/matcher on explicit method calls;
run-time side: type(v).dunder(v, a) executed once under CPython).
Tie: regeneration + correspondence of both models (pytype model vs real pytype, CPython model vs the running
interpreter) on ground statements over fixed and random class tables.
Oracle (independent of the model): every statement executed in isolation under CPython;
(i) pytype error => TypeError/AttributeError raised, (ii) advertised mistake raised => pytype error.
"""
import collections
import json
import os
import re
import subprocess
import time

import common
import c14_gen as g
import c14_zoo as zoo
import c14_derived as der

GEN_FILE = os.path.join(common.COQ, "Generated", "C14_Builtins.v")

# Findings on the unchanged tree that the model's explicit exclusions correspond to (coq/Ops/Model.v excl_*).
FINDINGS = {
    "F1": "fp:sub:dict:KeyError",
    "F2": "fp:mcall:int.to_bytes:None",
    "F3": "fp:attr:int.as_integer_ratio:None + fp:mcall:int.as_integer_ratio:None",
    "F4": "fn:bin:set.__sub__",
    "F5": "fn:sub:list[float]",
    # oracle-only (in-place operators and the empty-container literals are not in the Coq model)
    "F6": "fp:ibin:list:+:user:None",
    "F7": "fp:ibin:dict:|:str:ValueError",
    "F8": "fn:sub:dict[unhashable]",
    "F12": "fp:del:dict:KeyError",
}

ADV_OPS = set(g.ADVERTISED)


# ------------------------------------------------------------------------------------------
# statements

def fixed_statements(data, tier, r):
  """The cross product over the 14 builtin heads + 6 fixed user classes.  Returns list of
  dict(st, variant, model) ; quick keeps every advertised builtin statement and samples the rest."""
  classes = g.fixed_user_classes()
  nvals = g.NB + len(classes)
  out = []
  full = tier == "thorough"

  def add(st, variant=(0, 0), model=True):
    out.append(dict(st=st, variant=variant, model=model))

  for x in range(nvals):
    for y in range(nvals):
      both_builtin = x < g.NB and y < g.NB
      for i in range(g.N_BIN):
        n = 2 * i
        if full or (both_builtin and n in ADV_OPS) or r.random() < 0.12:
          add(("bin", x, n, y))
        if full and both_builtin:
          add(("bin", x, n, y), (1, 1), False)
        if full:
          add(("ibin", x, n, y))
      if full or both_builtin or r.random() < 0.5:
        add(("sub", x, y))
      if full and both_builtin:
        add(("sub", x, y), (1, 1), False)
        add(("sub", x, y), (1, 0), False)
    add(("neg", x))
    add(("call", x))
    for u in (g.POS, g.INVERT, g.BOOL):
      add(("un", x, u))
    for y in range(nvals):
      both_builtin = x < g.NB and y < g.NB
      for k in range(len(g.CMPOPS)):
        if full or (both_builtin and k == 0) or r.random() < (0.2 if both_builtin else 0.12):
          add(("cmp", x, g.LT + k, y))
      if full or both_builtin or r.random() < 0.3:
        add(("in", x, y, (x + y) % 2))
      for sn in (g.SETITEM, g.DELITEM):
        if full or both_builtin or r.random() < 0.3:
          add(("st", x, sn, y))
      if full:
        add(("in", x, y, 1 - (x + y) % 2))
      for i in range(g.N_BIN):
        has_iop = x < g.NB and (g.FIXED_NAMES[g.IOP0 + i] in data["rt_rows"][x] or
                                g.FIXED_NAMES[g.IOP0 + i] in data["py_rows"][x])
        if (not full) and ((both_builtin and has_iop) or r.random() < (0.03 if both_builtin else 0.07)):
          add(("ibin", x, 2 * i, y))      # thorough: every ibin statement is added above
    if not full and x in (1, 3, 8, 11):
      # every in-place operator on a few builtin pairs, whatever the sampling (int, float, set with themselves; list with int)
      for i in range(g.N_BIN):
        add(("ibin", x, 2 * i, 1 if x == 8 else x))
    if x < g.NB:
      add(("neg", x), (1, 1), False)
      add(("call", x), (1, 1), False)
      names = [n for n in data["uni"][x] if not n.startswith("_")]
    else:
      names = sorted({a for c in classes for a, _ in c["cattrs"] + (c["init"] or [])} | {"zz", "real", "append"})
    for n in names:
      add(("attr", x, n))
      add(("mcall", x, n))
  return classes, out


def random_statements(classes, r, n):
  nvals = g.NB + len(classes)
  users = list(range(g.NB, nvals))
  used = sorted({d - (d % 2) if d < 2 * g.N_BIN else d for c in classes for d in c["dunders"] if d <= g.GETITEM})
  attrs = sorted({a for c in classes for a, _ in c["cattrs"] + (c["init"] or [])} | {"zz"})
  out = []
  # the statements that observe the option order: left operand a base class of the right operand
  mros = g.user_mro(classes)
  pairs = [(a, g.NB + i) for i, m in enumerate(mros) for a in m[1:-1]] + [(0, g.NB + i) for i in range(len(classes))]
  r.shuffle(pairs)
  for a, b in pairs[:15]:
    ops = [d - 1 for d in range(1, 2 * g.N_BIN, 2) if any(d in classes[k - g.NB]["dunders"] for k in mros[b - g.NB][:-1])]
    out.append(dict(st=("bin", a, r.choice(ops) if ops else 0, b), variant=(0, 0), model=True))
  for _ in range(max(0, n - len(out))):
    z = r.random()
    x = r.choice(users) if r.random() < 0.8 else r.randrange(g.NB)
    y = r.choice(users) if r.random() < 0.6 else r.randrange(g.NB)
    if z < 0.33:
      w = r.random()
      if w < 0.45:
        st = ("cmp", x, g.LT + r.randrange(6), y) if r.random() < 0.6 else ("cmp", y, g.LT + r.randrange(6), x)
      elif w < 0.6:
        st = ("in", y, x, r.randrange(2))
      elif w < 0.7:
        st = ("st", x, r.choice([g.SETITEM, g.DELITEM]), y)
      else:
        iops = [2 * (d - g.IOP0) for c in classes for d in c["dunders"] if g.IOP0 <= d < g.IOP0 + g.N_BIN]
        op = r.choice(iops) if iops and r.random() < 0.6 else (r.choice(used) if used and r.random() < 0.6 else
                                                              2 * r.randrange(g.N_BIN))
        if op >= 2 * g.N_BIN:
          op = 0
        st = ("ibin", x, op, y) if r.random() < 0.7 else ("ibin", y, op, x)
    elif z < 0.6:
      op = r.choice(used) if used and r.random() < 0.8 else 2 * r.randrange(g.N_BIN)
      if op == g.GETITEM:
        st = ("sub", x, y)
      else:
        st = ("bin", x, op, y) if r.random() < 0.7 else ("bin", y, op, x)
    elif z < 0.64:
      st = ("sub", x, y)
    elif z < 0.68:
      st = ("un", x, r.choice([g.POS, g.INVERT, g.BOOL]))
    elif z < 0.74:
      st = ("neg", x)
    elif z < 0.8:
      st = ("call", x)
    elif z < 0.9:
      st = ("attr", r.choice(users), r.choice(attrs))
    else:
      st = ("mcall", r.choice(users), r.choice(attrs))
    out.append(dict(st=st, variant=(0, 0), model=True))
  return out


# ------------------------------------------------------------------------------------------
# model evaluation (cases.v + vm_compute)

def coq_user_table(classes, mros, idx, side):
  rows = []
  for i, c in enumerate(classes):
    own = []
    for d in sorted(c["dunders"]):
      acc = c["dunders"][d]
      a = "acc_all" if (side == "py" or acc == "all") else f"(acc_only {g.coq_list(acc)})"
      own.append(f"({d}, ({g.coq_bool(d in g.NULLARY and (side == 'py' or acc == 'all'))}, {a}))")
    for a, k in c["cattrs"]:
      own.append(f"({idx[a]}, ({g.coq_bool(k == 'meth')}, acc_all))")
    inst = "None" if c["init"] is None else "(Some " + g.coq_list(idx[a] for a, _ in c["init"]) + ")"
    rows.append(f"  user_cls {g.NB + i} {g.coq_list(mros[i])} [{'; '.join(own)}] {inst}")
  return "user_table c14_nb [\n" + ";\n".join(rows) + "]"


def coq_stmt(st, idx):
  k = st[0]
  if k == "bin":
    return f"SBin {st[1]} {st[2]} {st[3]}"
  if k == "sub":
    return f"SBin {st[1]} {g.GETITEM} {st[2]}"
  if k == "neg":
    return f"SNeg {st[1]}"
  if k == "call":
    return f"SCall {st[1]}"
  if k == "attr":
    return f"SAttr {st[1]} {idx[st[2]]}"
  if k == "mcall":
    return f"SMcall {st[1]} {idx[st[2]]}"
  if k == "cmp":
    return f"SCmp {st[1]} {st[2]} {st[3]}"
  if k == "in":
    return f"SIn {st[1]} {st[2]}"
  if k == "ibin":
    return f"SIop {st[1]} {st[2]} {st[3]}"
  if k == "un":
    return f"SNot {st[1]}" if st[2] == g.BOOL else f"SUn {st[1]} {st[2]}"
  if k == "st":
    return f"SStore {st[1]} {st[2]} {st[3]}"
  raise ValueError(st)


NEW_KINDS = ("cmp", "in", "ibin", "un", "st")


HEADER = ("From Coq Require Import List.\nFrom PV Require Import Ops.Model Generated.C14_Builtins Ops.Ext.\n"
          "Import ListNotations.\n")


def eval_models(modules, idx):
  """modules: list of (classes, mros, [stmt]).  Returns per module (py codes, c codes).
  Modules are packed into files of <= 500 statements (coqc start-up dominates)."""
  files = []          # (name, [text], [(module index, n statements)])
  cur, cur_n, cur_mods = [HEADER], 0, []
  for mi, (classes, mros, sts) in enumerate(modules):
    for off in range(0, len(sts), 500):
      chunk = sts[off:off + 500]
      if cur_n and cur_n + len(chunk) > 500:
        files.append((f"c14_cases_{len(files)}", cur, cur_mods))
        cur, cur_n, cur_mods = [HEADER], 0, []
      k = len(cur_mods)
      old = [j for j, s in enumerate(chunk) if s[0] not in NEW_KINDS]
      new = [j for j, s in enumerate(chunk) if s[0] in NEW_KINDS]
      cur += [f"Definition upy{k} : table := " + coq_user_table(classes, mros, idx, "py") + ".",
              f"Definition urt{k} : table := " + coq_user_table(classes, mros, idx, "rt") + ".",
              f"Definition sts{k} : list stmt := [" + "; ".join(coq_stmt(chunk[j], idx) for j in old) + "].",
              f"Definition stn{k} : list stmt2 := [" + "; ".join(coq_stmt(chunk[j], idx) for j in new) + "].",
              f"Eval vm_compute in (map (fun s => code (run_py (mk_table py_rows upy{k}) s)) sts{k}).",
              f"Eval vm_compute in (map (fun s => code (run_c (mk_table rt_rows urt{k}) s)) sts{k}).",
              f"Eval vm_compute in (map (fun s => code (run_py2 (mk_table py_rows upy{k}) "
              f"(native_of native_tbl c14_nb) s)) stn{k}).",
              f"Eval vm_compute in (map (fun s => code (run_c2 (mk_table rt_rows urt{k}) (hard_of rt_hard) s)) stn{k})."]
      cur_mods.append((mi, len(chunk), old, new))
      cur_n += len(chunk)
  if cur_mods:
    files.append((f"c14_cases_{len(files)}", cur, cur_mods))
  res = common.run_cases_parallel([(n, "\n".join(b) + "\n") for n, b, _ in files])
  out = [([], []) for _ in modules]
  for n, _, mods in files:
    ok, txt = res[n]
    if not ok:
      raise common.BuildError("model evaluation failed for %s:\n%s" % (n, txt[-1500:]))
    vals = common.parse_coq_eval(txt)
    if len(vals) != 4 * len(mods):
      raise common.BuildError("unexpected coqc output for %s: %s" % (n, txt[-500:]))
    for k, (mi, cnt, old, new) in enumerate(mods):
      for side in (0, 1):
        merged = [None] * cnt
        for part, pos in ((0, old), (2, new)):
          got = [int(t) for t in re.findall(r"\d+", vals[4 * k + part + side])]
          if len(got) != len(pos):
            raise common.BuildError("model printed %d results for %d statements in %s" % (len(got), len(pos), n))
          for j, v in zip(pos, got):
            merged[j] = v
        out[mi][side].extend(merged)
  return out


def decode(code):
  if code == 0:
    return ("Err",)
  if code == 1:
    return ("Union",)
  if code == 2:
    return ("Plain",)
  return ("Ok", (code - 3) // 256, (code - 3) % 256)


# ------------------------------------------------------------------------------------------
# the two observations and the comparisons

def expected_marker(classes, st, dec, names):
  """Marker class whose instance the statement evaluates to when a user definition answers (None: unobserved)."""
  if dec[0] != "Ok" or dec[1] < g.NB or st[0] in ("attr", "in", "st") or (st[0] == "un" and st[2] == g.BOOL):
    return None          # `in` / `not` coerce the answer of the dunder to a bool
  ci = dec[1] - g.NB
  if st[0] == "mcall":
    a = names[dec[2]]
    if dict(classes[ci]["cattrs"]).get(a) == "meth":
      return f"M{ci}_{a}"
    return None
  return g.marker(ci, dec[2])


def advertised(classes, rec, exc, msg):
  """Is this run-time failure one of the mistakes pytype advertises to catch (property text, 2nd sentence)?"""
  st = rec["st"]
  k = st[0]
  if k == "bin":
    return exc == "TypeError" and st[2] in ADV_OPS and st[1] < g.NB and st[3] < g.NB
  if k == "sub":
    return exc == "TypeError" and st[1] < g.NB and st[2] < g.NB
  if k == "neg":
    return exc == "TypeError" and st[1] < g.NB
  if k in ("attr", "mcall") and exc == "AttributeError":
    return True
  if k in ("call", "mcall") and exc == "TypeError" and "is not callable" in msg:
    return True
  return False


def cls_name(classes, c):
  return g.HEADS[c][0] if c < g.NB else classes[c - g.NB]["name"]


def opnd(classes, c):
  """Operand class in a fingerprint: the builtin head, `user`, or `derived(<head>)` for a class deriving from one."""
  if c < g.NB:
    return g.HEADS[c][0]
  root = classes[c - g.NB].get("root")
  return "user" if root is None else f"derived({g.HEADS[root][0]})"


def fingerprint(classes, rec, direction, exc, msg=""):
  st = rec["st"]
  k = st[0]
  xc = opnd(classes, st[1])
  if k in ("attr", "mcall"):
    own = xc
    if st[1] < g.NB:
      o = g.rt_owner(st[1], st[2])
      own = g.HEADS[o][0] if o is not None else xc
    core = f"{k}:{own}.{st[2]}"
  elif k in ("bin", "ibin"):
    yc = opnd(classes, st[3])
    sym = g.BINOPS[st[2] // 2][0]
    core = f"{k}:{xc}.{g.FIXED_NAMES[st[2]]}" if direction == "fn" else f"{k}:{xc}:{sym}:{yc}"
  elif k == "cmp":
    yc = opnd(classes, st[3])
    core = f"cmp:{xc}:{g.CMPOPS[st[2] - g.LT][0]}:{yc}"
  elif k == "in":
    qc = opnd(classes, st[2])
    core = f"in:{xc}:{qc}"
  elif k == "un":
    core = f"un:{g.UNSYM[st[2]].strip()}:{xc}"
  elif k == "st":
    yc = opnd(classes, st[3])
    core = f"{'set' if st[2] == g.SETITEM else 'del'}:{xc}" + (f"[{yc}]" if direction == "fn" else "")
  elif k == "sub":
    yc = opnd(classes, st[2])
    if msg.startswith("unhashable type"):
      yc = "unhashable"
    core = f"sub:{xc}[{yc}]" if direction == "fn" else f"sub:{xc}"
  else:
    core = f"{k}:{xc}"
  return f"{direction}:{core}" + (f":{exc}" if direction == "fp" else "")


def module_texts(classes, recs):
  return g.class_source(classes), [g.stmt_text(classes, rc["st"], f"v{j}", rc["variant"]) for j, rc in enumerate(recs)]


def run_module(classes, recs, names, idx, res, stats, model_codes, tag, pre, texts, py, c_upper=None):
  """Compares real pytype's and CPython's answers on one module's statements with the models and applies
  the oracle.  c_upper (C14d, a list): the run-time model is an UPPER bound of CPython's success on these statements
  (model Err => CPython raises is the obligation; the converse gaps are collected in c_upper, not reported)."""
  cp = g.run_cpython(pre, texts)
  mism_py, mism_c = [], []
  mi = 0
  for j, rc in enumerate(recs):
    errs, typ = py[j]
    exc, msg, tname = cp[j]
    st = rc["st"]
    if errs == g.NO_RESULT:
      stats["no_result"].append(dict(stmt=texts[j], why=typ))
      if rc["model"]:
        mi += 1
      continue
    flagged = bool(errs)
    raised = g.is_type_error(exc)
    stats["kinds"][st[0]] += 1
    stats["exc"][exc or "none"] += 1
    stats["pytype"][",".join(errs) or "none"] += 1
    nontrivial = flagged or raised or st[1] >= g.NB
    res.count((tag, st, rc["variant"]) if nontrivial else None)
    if rc["model"]:
      dpy, dc = decode(model_codes[0][mi]), decode(model_codes[1][mi])
      mi += 1
      okp = (dpy[0] == "Err") == flagged
      if okp and not flagged:
        mk = expected_marker(classes, st, dpy, names)
        if mk is not None:
          acc = classes[dpy[1] - g.NB]["dunders"].get(dpy[2]) if st[0] != "mcall" else "all"
          if acc != [] and not (typ and re.search(r"\b%s\b" % mk, typ)):
            okp = False
      if not okp:
        mism_py.append(dict(stmt=texts[j], model=dpy, pytype_errors=errs, pytype_type=typ))
      okc = (dc[0] == "Err") == raised
      if okc and not raised and exc is None:
        mk = expected_marker(classes, st, dc, names)
        if mk is not None and tname != mk:
          okc = False
      if not okc and c_upper is not None and dc[0] != "Err" and raised:
        c_upper.append(dict(stmt=texts[j], model=dc, cpython=[exc, msg[:80]]))
      elif not okc:
        mism_c.append(dict(stmt=texts[j], model=dc, cpython=[exc, msg[:80], tname]))
    # ---- the oracle, on the implementation's output only (replay input shrunk: the class table is dropped
    # when the statement does not mention a user class)
    pre_min = pre if any(c["name"] + "(" in texts[j] for c in classes) else ""
    if flagged and not raised:
      fp = fingerprint(classes, rc, "fp", exc)
      stats["fp"][fp] += 1
      if stats["fp"][fp] == 1 and (fp in res.known or len(res.violations) < 3):
        res.violation(fp, f"pytype reports {errs} on `{texts[j]}`; CPython: "
                      + (f"raises {exc} (not a TypeError/AttributeError)" if exc else "runs cleanly"),
                      dict(classes=pre_min, stmt=texts[j], pytype=errs, cpython=exc, kind="fp"))
    if raised and not flagged and advertised(classes, rc, exc, msg):
      fp = fingerprint(classes, rc, "fn", exc, msg)
      stats["fn"][fp] += 1
      if stats["fn"][fp] == 1 and (fp in res.known or len(res.violations) < 3):
        res.violation(fp, f"CPython raises {exc} ({msg[:70]}) on `{texts[j]}`; pytype reports nothing",
                      dict(classes=pre_min, stmt=texts[j], pytype=errs, cpython=exc, kind="fn"))
    if len(res.samples) < 5 and flagged and raised and st[1] >= g.NB:
      res.sample(dict(stmt=texts[j], pytype=errs, cpython=exc))
  return mism_py, mism_c


def run_zoo(res, stats, zsts, ztexts, zpy):
  """Oracle-only sweep over the class zoo (harness/props/c14_zoo.py): features outside the Coq model."""
  cp = g.run_cpython(zoo.ZOO_SOURCE, ztexts)
  n = 0
  for s, t, (errs, typ), (exc, msg, _) in zip(zsts, ztexts, zpy, cp):
    if errs == g.NO_RESULT:
      stats["no_result"].append(dict(stmt=t, why=typ))
      continue
    n += 1
    flagged, raised = bool(errs), g.is_type_error(exc)
    stats["kinds"]["zoo:" + s["kind"]] += 1
    res.count(("zoo", t))
    pre = zoo.ZOO_SOURCE if "Z" in t or "zf_" in t else ""
    if flagged and not raised:
      fp = zoo.fingerprint(s, "fp", exc)
      stats["fp"][fp] += 1
      if stats["fp"][fp] == 1 and (fp in res.known or len(res.violations) < 3):
        res.violation(fp, f"pytype reports {errs} on `{t}`; CPython: "
                      + (f"raises {exc} (not a TypeError/AttributeError)" if exc else "runs cleanly"),
                      dict(classes=pre, stmt=t, pytype=errs, cpython=exc, kind="fp"))
    if raised and not flagged and zoo.advertised(s, exc, msg):
      fp = zoo.fingerprint(s, "fn", exc)
      stats["fn"][fp] += 1
      if stats["fn"][fp] == 1 and (fp in res.known or len(res.violations) < 3):
        res.violation(fp, f"CPython raises {exc} ({msg[:70]}) on `{t}`; pytype reports nothing",
                      dict(classes=pre, stmt=t, pytype=errs, cpython=exc, kind="fn"))
  res.extra["zoo_statements_oracle_only"] = n
  res.extra["zoo_note"] = ("class zoo (__getattr__/__getattribute__, __slots__, properties, static/classmethods, "
                           "subclasses of int/list/dict, instance-assigned dunders, bytearray, range) is checked by "
                           "the CPython oracle only; it is not in the Coq model")


# ------------------------------------------------------------------------------------------
# Tuple constants that are ==-equal across numeric types ((1, 0) / (1.0, 0.0) / (True, False), also nested), several in
# ONE analysed file, in each order: Converter.constant_to_value memoises constants, and Python's == / hash do not
# separate 1, 1.0 and True.  The verdict on a statement must not depend on which equal-valued literal the file
# mentioned first; every statement is still judged against its own isolated CPython execution.  Oracle only.

TC_TUPLES = {"int": ["(1, 0)", "(1,)", "((1, 0),)"], "float": ["(1.0, 0.0)", "(1.0,)", "((1.0, 0.0),)"],
             "bool": ["(True, False)", "(True,)", "((True, False),)"]}
TC_FORMS = [("bytes", "bytes({t})", 0), ("sub", "[5, 6][({t})[0]]", 0), ("mul", '"ab" * ({t})[0]', 0),
            ("sub", "[5, 6][({t})[0]]", 1), ("bytes", "bytes({t})", 1), ("nsub", "[5, 6][({t})[0][0]]", 2),
            ("nbytes", "bytes(({t})[0])", 2)]


def tuple_const_modules():
  """-> [(first kind, preamble, [(form, kind, text)])]: the preamble binds the literals of one kind (no operation, so
  no error can be reported there); the statement lines then use the literals of every kind."""
  mods = []
  for first in ("float", "int", "bool"):
    pre = "".join(f"p{i}_ = {lit}\n" for i, lit in enumerate(TC_TUPLES[first]))
    sts = []
    for kind in ("int", "float", "bool"):
      for form, tmpl, which in TC_FORMS:
        j = len(sts)
        sts.append((form, kind, f"a{j} = {TC_TUPLES[kind][which]}; v{j} = " + tmpl.format(t=f"a{j}")))
    mods.append((first, pre, sts))
  return mods


def run_tuple_consts(res, stats, mods, pys):
  n = 0
  for (first, pre, sts), py in zip(mods, pys):
    cp = g.run_cpython(pre, [t for _, _, t in sts])
    for (form, kind, t), (errs, typ), (exc, msg, _) in zip(sts, py, cp):
      if errs == g.NO_RESULT:
        stats["no_result"].append(dict(stmt=t, why=typ))
        continue
      n += 1
      flagged, raised = bool(errs), g.is_type_error(exc)
      stats["kinds"]["tconst:" + form] += 1
      res.count(("tconst", first, t))
      if flagged and not raised:
        fp = f"fp:tconst:{form}:{kind}-tuple-after-{first}:{exc}"
        stats["fp"][fp] += 1
        if stats["fp"][fp] == 1 and (fp in res.known or len(res.violations) < 3):
          res.violation(fp, f"pytype reports {errs} on `{t}` in a file that first mentions the ==-equal {first} "
                        f"tuple literals; CPython: " + (f"raises {exc}" if exc else "runs cleanly"),
                        dict(classes=pre, stmt=t, pytype=errs, cpython=exc, kind="fp"))
      if raised and not flagged and form in ("sub", "mul", "nsub"):
        fp = f"fn:tconst:{form}:{kind}-tuple-after-{first}"
        stats["fn"][fp] += 1
        if stats["fn"][fp] == 1 and (fp in res.known or len(res.violations) < 3):
          res.violation(fp, f"CPython raises {exc} ({msg[:70]}) on `{t}`; pytype reports nothing in a file that first "
                        f"mentions the ==-equal {first} tuple literals",
                        dict(classes=pre, stmt=t, pytype=errs, cpython=exc, kind="fn"))
  res.extra["tuple_constant_statements_oracle_only"] = n


def translator_checks(res, data):
  """Fail-closed cross checks between the two ways the stub side is read."""
  bad = []
  for i in range(g.NB):
    if i == g.FUNC_ID:
      continue
    for n in g.FIXED_NAMES[:g.CALL]:
      in_stub = n in data["stub"][i]["owner"]
      probed = n in data["py_rows"][i]
      if in_stub != probed:
        bad.append((g.HEADS[i][0], n, "stub MRO" if in_stub else "attribute handler"))
  res.obligation("translator:loader-presence-equals-probed-presence", not bad,
                 "dunders seen by only one of pytd-MRO walk / real attribute load: %r" % bad[:8])
  want = ["object", "int", "bool", "float", "complex", "str", "bytes", "NoneType", "list", "tuple", "dict", "set",
          "frozenset", "builtin_function_or_method"]
  res.obligation("translator:head-ids-match-model-constants", [h[0] for h in g.HEADS] == want and
                 g.FIXED_NAMES[28:30] == ["as_integer_ratio", "to_bytes"] and g.FIXED_NAMES[24:28] ==
                 ["__getitem__", "__neg__", "__call__", "__init__"] and g.FIXED_NAMES[30:37] ==
                 ["__lt__", "__le__", "__gt__", "__ge__", "__eq__", "__ne__", "__contains__"] and
                 g.FIXED_NAMES[37:49] == ["__i%s__" % n for _, n in g.BINOPS] and g.FIXED_NAMES[49:] ==
                 ["__pos__", "__invert__", "__bool__", "__len__", "__iter__", "__setitem__", "__delitem__"] and
                 g.NEW_END == 56, "")
  diff = [(g.HEADS[i][0], n) for t in ("py_rows", "rt_rows") for i in range(g.NB)
          for n, e in data[t][i].items() if e["accP"] != e["accF"]]
  res.extra["builtin_dunders_accepting_user_classes_structurally"] = sorted(set(diff))[:20]


def active_exclusions(res):
  """Which explicit exclusions are actually needed on this run's tables (evidence only)."""
  body = HEADER + """From Coq Require Import Bool.
Definition T := mk_table py_rows no_users. Definition R := mk_table rt_rows no_users.
Definition hs := heads py_rows.
Eval vm_compute in (flat_map (fun x => flat_map (fun y => flat_map (fun n =>
  if is_err (binop_py T x n y) && negb (is_err (binop_c R x n y)) then [(x, n, y)] else []) binop_names) hs) hs).
Eval vm_compute in (flat_map (fun x => flat_map (fun y => flat_map (fun n =>
  if is_err (binop_c R x n y) && negb (is_err (binop_py T x n y)) then [(x, n, y)] else []) advertised_names) hs) hs).
"""
  ok, out = common.run_cases_v("c14_excl", body)
  if not ok:
    res.extra["active_exclusions_error"] = out[-400:]
  if ok:
    vals = common.parse_coq_eval(out)
    res.extra["model_fp_triples(x,name,y)"] = vals[0][:600] if vals else ""
    res.extra["model_fn_triples(x,name,y)"] = vals[1][:600] if len(vals) > 1 else ""


def run(res):
  res.rule = ("ground statements `v = (x) op (y)`, `(x)[y]`, `-(x)`, `(x)()`, `(x).name`, `(x).name()`, and (C14x) "
              "`(x) < <= > >= == != (y)`, `(x) in / not in (y)`, `v = x; v op= y`, `+(x)`, `~(x)`, `not (x)`, `x[y] = 1`, "
              "`del x[y]` (thorough: "
              "also a second literal per builtin head) with x, y over 14 builtin value heads "
              "(object() int bool float complex str bytes None list tuple dict set frozenset len) and user classes "
              "(10 fixed: with/without __add__ __radd__ __getitem__ __call__ __neg__ __lt__ __gt__ __eq__ __contains__ "
              "__iter__ __iadd__ __pos__ __invert__ __bool__ __len__, inherited, NotImplemented-"
              "returning; plus random class tables: random C3-consistent multiple inheritance, random dunder "
              "subsets, class/instance attributes), 12 binary operators; 100 statements per analysed module, one "
              "per line. Non-trivial: pytype flags it, or CPython raises TypeError/AttributeError, or a user class "
              "is involved; distinct by (class table, statement, literal variant).")
  res.assumptions = [
      "class-level abstraction: one literal per builtin head in the model; acceptance of a user-class argument by a "
      "builtin dunder is uniform over user classes (probed with an empty and a full class)",
      "CPython's binary_op1/slot wrappers modelled at data-model level and validated against the running interpreter",
      "compare.cmp_rel (native comparison of primitive constants / constant tuples) is observed on the real VM through "
      "a wrapper installed in the worker process and regenerated as a table; whether a rejecting builtin in-place "
      "dunder ends the operation (rt_hard) is observed by executing `v op= RF_()` under CPython",
      "item assignment is modelled with an int literal as the stored value (the value's class is not a dimension)",
      "not modelled (oracle only): literal variants; not covered: overload choice/return types, "
      "__getattr__/descriptors, dunders assigned on instances, user classes deriving from builtins, explicit access to "
      "underscore attributes of builtins",
      "generators, runners and differ in harness/props/c14.py, c14_gen.py",
  ]
  t0 = time.time()
  common.bootstrap_pytype()
  thorough = res.tier == "thorough"
  r = common.rng(res.seed, "c14")
  # ---- regenerate the builtin tables
  try:
    txt, data = g.regenerate()
  except g.TranslatorError as e:
    res.obligation("translator:fail-closed", False, str(e))
    return "proof"
  common.write_if_changed(GEN_FILE, txt)
  res.extra["regenerated"] = dict(file="coq/Generated/C14_Builtins.v", pytype_probes=data["n_py"],
                                  cpython_probes=data["n_rt"], names=len(data["names"]), seconds=data["seconds"])
  translator_checks(res, data)
  t1 = time.time()
  common.coq_obligations(res, "C14")
  res.extra["seconds_coq"] = round(time.time() - t1, 1)
  res.trusted_base += ["out-of-tree g++ build of /repo/pytype/typegraph/*.cc (harness/common.py build_cfg)",
                       "CPython 3.12 (/venv/bin/python) as the run-time oracle",
                       "translator harness/props/c14_gen.py (probing real pytype / CPython, emitting the Coq rows)"]
  active_exclusions(res)
  names = data["names"]
  idx = {n: k for k, n in enumerate(names)}
  # ---- statements
  modules = []          # (tag, classes, recs)
  classes, recs = fixed_statements(data, res.tier, r)
  cdir = os.path.join(common.CORPUS, "C14")
  corpus = []
  for f in sorted(os.listdir(cdir)) if os.path.isdir(cdir) else []:
    for e in json.load(open(os.path.join(cdir, f)))["statements"]:
      if isinstance(e, dict):       # oracle-only entries: in-place operators / second literal of a head
        corpus.append(dict(st=tuple(e["st"]), variant=tuple(e.get("variant", (0, 0))), model=False))
      else:
        corpus.append(dict(st=tuple(e), variant=(0, 0), model=True))
  recs = corpus + recs
  for off in range(0, len(recs), 100):
    modules.append(("fixed", classes, recs[off:off + 100]))
  n_tables = 40 if thorough else 5
  for t in range(n_tables):
    cl = g.random_user_classes(r, r.randint(2, 7))
    modules.append((f"rand{t}", cl, random_statements(cl, r, 100)))
  # ---- models
  mro_cache = {}
  mods_for_model = []
  for tag, cl, rs in modules:
    key = id(cl)
    if key not in mro_cache:
      mro_cache[key] = g.user_mro(cl)
    mods_for_model.append((cl, mro_cache[key], [rc["st"] for rc in rs if rc["model"]]))
  t1 = time.time()
  codes = eval_models(mods_for_model, idx)
  res.extra["seconds_model_eval"] = round(time.time() - t1, 1)
  t1 = time.time()
  # ---- implementation runs + comparisons + oracle
  stats = dict(kinds=collections.Counter(), exc=collections.Counter(), pytype=collections.Counter(),
               fp=collections.Counter(), fn=collections.Counter(), no_result=[])
  all_py, all_c = [], []
  n_model = 0
  srcs = [module_texts(cl, rs) for _, cl, rs in modules]
  zsts = zoo.statements()
  ztexts = [zoo.text(s, j) for j, s in enumerate(zsts)]
  # ---- C14d: classes deriving from builtin heads (coq/Ops/Derived.v)
  try:
    self_mro = der.probe_self_mro()
  except g.TranslatorError as e:
    res.obligation("translator:derived-fail-closed", False, str(e))
    g.close_pool()
    return "proof"
  dmods = der.modules(common.rng(res.seed, "c14d"), res.tier)
  t2 = time.time()
  dcodes = der.eval_models([(cl, [rc["st"] for rc in rs]) for _, cl, rs in dmods], idx, self_mro)
  res.extra["seconds_model_eval_derived"] = round(time.time() - t2, 1)
  dsrcs = [module_texts(cl, rs) for _, cl, rs in dmods]
  tcm = tuple_const_modules()
  py_all = g.run_pytype_many(srcs + dsrcs + [(pre, [t for _, _, t in sts]) for _, pre, sts in tcm] +
                             [(zoo.ZOO_SOURCE, ztexts)])
  zpy = py_all.pop()
  tpy = py_all[len(srcs) + len(dsrcs):]
  py_all = py_all[:len(srcs) + len(dsrcs)]
  dpy = py_all[len(srcs):]
  py_all = py_all[:len(srcs)]
  g.close_pool()
  res.extra["seconds_pytype"] = round(time.time() - t1, 1)
  for (tag, cl, rs), mc, (pre, texts), py in zip(modules, codes, srcs, py_all):
    a, b = run_module(cl, rs, names, idx, res, stats, mc, tag, pre, texts, py)
    all_py += a
    all_c += b
    n_model += sum(1 for rc in rs if rc["model"])
  run_zoo(res, stats, zsts, ztexts, zpy)
  run_tuple_consts(res, stats, tcm, tpy)
  d_py, d_c, d_upper, n_d = [], [], [], 0
  for (tag, cl, rs), mc, (pre, texts), py in zip(dmods, dcodes, dsrcs, dpy):
    a, b = run_module(cl, rs, names, idx, res, stats, mc, tag, pre, texts, py, c_upper=d_upper)
    d_py += a
    d_c += b
    n_d += len(rs)
  res.obligation("correspondence:derived-model-vs-real-pytype", not d_py,
                 f"{len(d_py)} of {n_d} statements disagree; first: {json.dumps(d_py[:4], default=str)}")
  res.obligation("correspondence:derived-model-Err-implies-CPython-raises", not d_c,
                 f"{len(d_c)} of {n_d} statements disagree; first: {json.dumps(d_c[:4], default=str)}")
  res.extra["derived"] = dict(
      statements=n_d, modules=len(dmods), heads_found_in_subclass_mro_by_overrides=self_mro,
      mismatches_pytype=d_py[:20], mismatches_cpython=d_c[:20],
      runtime_model_is_upper_bound=len(d_upper), runtime_upper_bound_samples=d_upper[:6],
      note=("run-time side: binop_c on a derived table is an upper bound of CPython's success -- a TypeError RAISED "
            "by an inherited builtin sequence wrapper (list.__add__, list.__mul__ ...) reached through the slot "
            "function of a user subclass ends the operation instead of falling through to the reflected dunder"))
  res.obligation("correspondence:model-vs-real-pytype", not all_py,
                 f"{len(all_py)} of {n_model} statements disagree; first: {json.dumps(all_py[:4], default=str)}")
  res.obligation("correspondence:model-vs-CPython", not all_c,
                 f"{len(all_c)} of {n_model} statements disagree; first: {json.dumps(all_c[:4], default=str)}")
  res.extra["seconds_impl_runs"] = round(time.time() - t1, 1)
  res.extra["mismatches_pytype"] = all_py[:40]
  res.extra["mismatches_cpython"] = all_c[:40]
  res.extra["statements"] = sum(len(rs) for _, _, rs in modules)
  res.extra["statements_with_model"] = n_model
  res.extra["modules"] = len(modules)
  res.extra["random_class_tables"] = n_tables
  res.extra["kind_histogram"] = dict(stats["kinds"])
  res.extra["cpython_outcomes"] = dict(stats["exc"])
  res.extra["pytype_outcomes"] = dict(stats["pytype"].most_common(12))
  res.extra["pytype_gave_no_result"] = stats["no_result"][:20]
  res.extra["oracle_false_positive_statements"] = dict(stats["fp"])
  res.extra["oracle_missed_mistake_statements"] = dict(stats["fn"])
  res.extra["seconds_total"] = round(time.time() - t0, 1)
  if thorough:
    ok, out = common_coqchk("C14")
    res.obligation("coqchk", ok, out[-1500:])
  return "proof"


def common_coqchk(pid):
  r = subprocess.run(["timeout", "1500", "coqchk", "-silent", "-o", "-Q", common.COQ, "PV", f"PV.Props.{pid}"],
                     capture_output=True, text=True, cwd=common.COQ)
  return r.returncode == 0, r.stdout + r.stderr


def replay(res, path):
  common.bootstrap_pytype()
  d = json.load(open(path))["replay"]
  pre, stmt = d["classes"], d["stmt"]
  (errs, typ), = g.run_pytype(pre, [stmt])
  g.close_pool()
  (exc, msg, tname), = g.run_cpython(pre, [stmt])
  print("statement:", stmt)
  print("pytype   :", errs or "no error", "type", typ)
  print("cpython  :", f"{exc}: {msg}" if exc else f"ok ({tname})")
  raised = g.is_type_error(exc)
  if d.get("kind") == "fp":
    return 1 if (errs and not raised) else 0
  return 1 if (raised and not errs) else 0


def generate():
  """Called by harness/setup.py before the Coq build (coq/Generated is not committed)."""
  common.bootstrap_pytype()
  txt, _ = g.regenerate()
  common.write_if_changed(GEN_FILE, txt)
