"""C15 input generators: random import-free Python 3.12 programs, token-level mutants, stdlib slices.

Everything is driven by a random.Random handed in by the caller (derived from common.rng).
"""
import ast
import collections
import glob
import io
import keyword
import os
import tokenize
import warnings

warnings.filterwarnings("ignore", category=SyntaxWarning)
warnings.filterwarnings("ignore", category=DeprecationWarning)

STDLIB = "/root/.pyenv/versions/3.12.1/lib/python3.12"

BUILTIN_FUNCS = ["len", "int", "str", "list", "dict", "range", "isinstance", "sorted", "zip", "enumerate",
                 "sum", "min", "max", "abs", "tuple", "set", "repr", "iter", "next", "print", "bool", "float",
                 "getattr", "hasattr", "type", "reversed", "any", "all", "map", "filter", "bytes", "frozenset"]
EXCS = ["Exception", "ValueError", "TypeError", "KeyError", "IndexError", "StopIteration", "RuntimeError",
        "AttributeError", "OSError", "ZeroDivisionError"]
BINOPS = ["+", "-", "*", "/", "//", "%", "**", "<<", ">>", "&", "|", "^", "@"]
CMPOPS = ["<", ">", "<=", ">=", "==", "!=", "is", "is not", "in", "not in"]
TYPES = ["int", "str", "float", "bool", "bytes", "None", "list[int]", "dict[str, int]", "tuple[int, ...]",
         "typing.Any", "typing.Optional[int]", "typing.Union[int, str]", "typing.Callable[[int], str]",
         "typing.List[str]", "typing.Iterator[int]", "'C0'", "set[str]", "int | None", "typing.Sequence[int]"]


class Gen:
  """One random program.  `feat` records which constructs were emitted (for the distribution report)."""

  def __init__(self, r):
    self.r = r
    self.out = []
    self.feat = set()
    self.names = ["a", "b", "c", "x", "y", "z", "n", "s", "d", "l", "t", "k", "v", "w"]
    self.funcs = []
    self.classes = []
    self.uid = 0

  # -- helpers
  def f(self, name):
    self.feat.add(name)

  def fresh(self, p):
    self.uid += 1
    return f"{p}{self.uid}"

  def name(self):
    return self.r.choice(self.names)

  def emit(self, ind, s):
    self.out.append("    " * ind + s)

  # -- expressions
  def atom(self):
    r = self.r
    k = r.randrange(14)
    if k < 4:
      return self.name()
    if k == 4:
      return str(r.choice([0, 1, 2, 3, 10, 255, -1, 2**40]))
    if k == 5:
      return r.choice(["1.5", "0.0", "1e10", "2j", "0x1f", "0b101", "1_000"])
    if k == 6:
      return r.choice(["''", "'a'", '"abc"', "'%s'", "b'x'", "'{}'", "r'\\d+'", "'''m\nl'''" if False else "'ml'"])
    if k == 7:
      return r.choice(["None", "True", "False", "...", "NotImplemented", "__name__"])
    if k == 8:
      return "[]" if r.random() < .5 else "{}"
    if k == 9:
      return "()"
    if k == 10 and self.funcs:
      return r.choice(self.funcs)
    if k == 11 and self.classes:
      return r.choice(self.classes)
    if k == 12:
      return r.choice(BUILTIN_FUNCS)
    return self.name()

  def expr(self, d=0, ctx=None):
    r = self.r
    ctx = ctx or {}
    if d > 3 or r.random() < 0.25:
      return self.atom()
    k = r.randrange(30)
    e = lambda: self.expr(d + 1, ctx)
    if k == 0:
      self.f("binop"); return f"{e()} {r.choice(BINOPS)} {e()}"
    if k == 1:
      self.f("unary")
      op = r.choice(['-', '+', '~', 'not '])
      return f"(not {e()})" if op == "not " else f"{op}{e()}"
    if k == 2:
      self.f("boolop"); return f"({e()} {r.choice(['and', 'or'])} {e()})"
    if k == 3:
      n = r.randint(1, 3)
      self.f("compare" if n == 1 else "chained-compare")
      return "(" + e() + "".join(f" {r.choice(CMPOPS)} {e()}" for _ in range(n)) + ")"
    if k == 4:
      self.f("call")
      fn = r.choice(BUILTIN_FUNCS + self.funcs + self.classes + [self.name()])
      args = [e() for _ in range(r.randint(0, 3))]
      if r.random() < .2:
        self.f("call-star"); args.append("*" + e())
      if r.random() < .2:
        self.f("call-kw"); args.append(f"{self.name()}={e()}")
      if r.random() < .15:
        self.f("call-starstar"); args.append("**" + e())
      return f"{fn}({', '.join(args)})"
    if k == 5:
      self.f("attr")
      return f"{self.base(d + 1, ctx)}.{r.choice(['append', 'x', 'items', 'upper', 'real', '__class__', 'get', 'join', 'val', 'm'])}"
    if k == 6:
      self.f("method-call")
      return f"{self.base(d + 1, ctx)}.{r.choice(['append', 'items', 'upper', 'get', 'join', 'keys', 'm', 'split', 'format', 'pop'])}({e() if r.random() < .6 else ''})"
    if k == 7:
      self.f("subscr"); return f"{self.base(d + 1, ctx)}[{e()}]"
    if k == 8:
      self.f("slice")
      parts = [e() if r.random() < .6 else "" for _ in range(r.choice([2, 2, 3]))]
      return f"{self.base(d + 1, ctx)}[{':'.join(parts)}]"
    if k == 9:
      self.f("list-display")
      items = [("*" + e() if r.random() < .2 and not self.f("star-expr") else e()) for _ in range(r.randint(0, 4))]
      return "[" + ", ".join(items) + "]"
    if k == 10:
      self.f("tuple-display")
      items = [("*" + e() if r.random() < .2 and not self.f("star-expr") else e()) for _ in range(r.randint(1, 4))]
      return "(" + ", ".join(items) + ",)"
    if k == 11:
      self.f("set-display")
      items = [("*" + e() if r.random() < .2 and not self.f("star-expr") else e()) for _ in range(r.randint(1, 4))]
      return "{" + ", ".join(items) + "}"
    if k == 12:
      self.f("dict-display")
      items = [("**" + e() if r.random() < .2 and not self.f("dict-unpack") else f"{e()}: {e()}") for _ in range(r.randint(0, 4))]
      return "{" + ", ".join(items) + "}"
    if k in (13, 14):
      kind = r.choice(["list", "set", "dict", "gen"])
      self.f("comp-" + kind)
      v = self.name()
      ctx = dict(ctx, comp=True)
      clauses = f"for {v} in {e()}"
      if r.random() < .4:
        clauses += f" if {e()}"
      if r.random() < .25:
        self.f("comp-nested"); clauses += f" for {self.name()}, {self.name()} in {e()}"
      if ctx.get("async") and r.random() < .3:
        self.f("async-comp"); clauses = "async " + clauses
      if kind == "list": return f"[{e()} {clauses}]"
      if kind == "set": return f"{{{e()} {clauses}}}"
      if kind == "dict": return f"{{{e()}: {e()} {clauses}}}"
      return f"({e()} {clauses})"
    if k == 15:
      self.f("lambda")
      ps = []
      for _ in range(r.randint(0, 3)):
        p = self.name()
        if p in ps: continue
        ps.append(p)
      params = []
      seen_default = False
      for p in ps:
        if seen_default or r.random() < .4:
          self.f("lambda-default"); seen_default = True; params.append(f"{p}={self.atom()}")
        else:
          params.append(p)
      if r.random() < .2: params.append("*" + self.fresh("ar"))
      if r.random() < .2: params.append("**" + self.fresh("kw"))
      return f"(lambda {', '.join(params)}: {e()})"
    if k == 16:
      self.f("ternary"); return f"({e()} if {e()} else {e()})"
    if k == 17 and not ctx.get("comp") and not ctx.get("classbody"):
      self.f("walrus"); return f"({self.name()} := {e()})"
    if k in (18, 19):
      self.f("fstring")
      parts = []
      for _ in range(r.randint(1, 3)):
        q = r.randrange(6)
        inner = self.atom() if q < 4 else self.name() + "." + "real"
        if any(c in inner for c in "{}'\"\\") or inner[:1].isdigit() and q == 3:
          inner = self.name()
        if q == 0: parts.append("{" + inner + "}")
        elif q == 1: parts.append("{" + inner + "!r}")
        elif q == 2: parts.append("{" + inner + ":>{" + self.name() + "}}"); self.f("fstring-nested-spec")
        elif q == 3: parts.append("{" + inner + "=}")
        elif q == 4: parts.append("{" + inner + ":.2f}")
        else: parts.append("txt{{}}")
      return "f'" + " ".join(parts).replace("'", '"') + "'"
    if k == 20 and ctx.get("async") and not ctx.get("comp"):
      self.f("await"); return f"(await {e()})"
    if k == 21 and ctx.get("func") and not ctx.get("classbody") and not ctx.get("comp") and (not ctx.get("async") or ctx.get("asyncgen")):
      self.f("yield-expr"); return f"(yield {e()})" if r.random() < .5 else f"(yield)"
    if k == 22:
      self.f("str-concat"); return f"{self.r.choice(['a', 'b'])!r} {self.r.choice(['c', 'd'])!r}"
    if k == 23:
      self.f("percent-format"); return f"'%s %d' % ({e()}, {e()})"
    if k == 24:
      self.f("const-fold"); return r.choice(["(1, 2, 3)", "[1, 2, 'a']", "{'k': 1, 'j': [1, 2]}", "{1, 2}", "(1, (2, 3), [4])"])
    if k == 25:
      self.f("is-none"); return f"({e()} is {r.choice(['None', 'not None'])})"
    return self.atom()

  def base(self, d, ctx):
    """An expression that may be followed by .attr / [..] / (..) without changing how it tokenizes."""
    b = self.expr(d, ctx)
    if b[:1].isdigit() or b[:1] in "-+~" or b.startswith(("not ", "lambda", "await", "yield")):
      return "(" + b + ")"
    return b

  def target(self, d=0):
    r = self.r
    k = r.randrange(10)
    if k < 5 or d > 1:
      return self.name()
    if k == 5:
      self.f("attr-target"); return f"{self.name()}.{r.choice(['x', 'val', 'y'])}"
    if k == 6:
      self.f("subscr-target"); return f"{self.name()}[{self.expr(2)}]"
    if k == 7:
      self.f("tuple-target"); return f"({self.target(d + 1)}, {self.target(d + 1)})"
    if k == 8 and d == 0:
      self.f("star-target"); return f"{self.name()}, *{self.name()}"
    if d == 0:
      self.f("list-target"); return f"[{self.target(d + 1)}, *{self.name()}, {self.target(d + 1)}]"
    return self.name()

  def annotation(self):
    return self.r.choice(TYPES)

  # -- patterns
  def pattern(self, d=0):
    r = self.r
    k = r.randrange(12) if d < 2 else r.randrange(5)
    if k == 0: return r.choice(["0", "1", "'a'", "None", "True", "-1", "1.5", "b'x'"])
    if k == 1: return self.name()
    if k == 2: return "_"
    if k == 3: self.f("pat-value"); return r.choice(["typing.TYPE_CHECKING", "C0.val"])
    if k == 4: self.f("pat-or"); return r.choice(["1 | 2 | 3", "'a' | 'b'", "None | 0"])
    if k == 5:
      self.f("pat-seq")
      items = [self.pattern(d + 1) for _ in range(r.randint(0, 3))]
      if r.random() < .5:
        self.f("pat-star"); items.insert(r.randint(0, len(items)), "*" + r.choice(["rest", "_"]))
      return ("[" + ", ".join(items) + "]") if r.random() < .5 else ("(" + ", ".join(items) + ("," if len(items) == 1 else "") + ")")
    if k == 6:
      self.f("pat-map")
      items = [f"{k_}: {self.pattern(d + 1)}" for k_ in r.sample([repr('k'), repr('j'), '1'], r.randint(0, 2))]
      if r.random() < .4:
        self.f("pat-map-rest"); items.append("**kwrest")
      return "{" + ", ".join(items) + "}"
    if k == 7:
      self.f("pat-class")
      cls = r.choice(["int", "str", "list", "dict", "tuple"] + self.classes)
      if cls in ("int", "str", "list", "dict", "tuple"):
        return f"{cls}({self.pattern(d + 1) if r.random() < .5 else ''})"
      args = [self.pattern(d + 1) for _ in range(r.randint(0, 2))]
      if r.random() < .5:
        self.f("pat-class-kw"); args.append(f"{r.choice(['x', 'val'])}={self.pattern(d + 1)}")
      return f"{cls}({', '.join(args)})"
    if k == 8:
      self.f("pat-as"); return f"{self.pattern(d + 1)} as {self.fresh('p')}"
    if k == 9:
      self.f("pat-or"); return f"{r.choice(['[1, 2]', 'int()', '{1: 0}', 'str()'])} | {r.choice(['0', 'None', repr('z')])}"
    return self.name()

  # -- statements
  def block(self, ind, d, ctx, n=None):
    n = n or self.r.randint(1, 3)
    for _ in range(n):
      self.stmt(ind, d, ctx)

  def stmt(self, ind, d, ctx):
    r = self.r
    e = lambda: self.expr(1, ctx)
    deep = d >= 3
    k = r.randrange(47)
    if k >= 44:
      k = 36          # multi-line statements (where comments and directives have the most structure) get extra weight
    if deep and k >= 12 and k < 36:
      k = r.randrange(12)
    if k == 0:
      self.f("assign"); self.emit(ind, f"{self.target()} = {e()}")
    elif k == 1:
      self.f("chained-assign"); self.emit(ind, f"{self.name()} = {self.name()} = {e()}")
    elif k == 2:
      self.f("augassign"); self.emit(ind, f"{r.choice([self.name(), self.name() + '.x', self.name() + '[0]'])} {r.choice(BINOPS)}= {e()}")
    elif k == 3:
      self.f("annassign")
      if r.random() < .4:
        self.f("bare-annotation"); self.emit(ind, f"{self.name()}: {self.annotation()}")
      else:
        self.emit(ind, f"{self.name()}: {self.annotation()} = {e()}")
    elif k == 4:
      self.f("expr-stmt"); self.emit(ind, e())
    elif k == 5:
      self.f("unpack-assign"); self.emit(ind, f"{self.name()}, {self.name()} = {e()}")
    elif k == 6:
      self.f("del"); self.emit(ind, "del " + r.choice([self.name(), f"{self.name()}.x", f"{self.name()}[{e()}]", f"{self.name()}[1:2]", f"{self.name()}, {self.name()}"]))
    elif k == 7:
      self.f("assert"); self.emit(ind, f"assert {e()}" + (f", {e()}" if r.random() < .5 else ""))
    elif k == 8:
      self.f("pass"); self.emit(ind, "pass")
    elif k == 9:
      if ctx.get("func") and not ctx.get("classbody"):
        self.f("return"); self.emit(ind, "return" + (f" {e()}" if r.random() < .8 and not ctx.get("asyncgen") else ""))
      else:
        self.emit(ind, f"{self.name()} = {e()}")
    elif k == 10:
      self.f("raise")
      q = r.randrange(4)
      if q == 0: self.emit(ind, f"raise {r.choice(EXCS)}({e()})")
      elif q == 1: self.emit(ind, f"raise {r.choice(EXCS)}")
      elif q == 2: self.f("raise-from"); self.emit(ind, f"raise {r.choice(EXCS)}() from {r.choice(['None', self.name()])}")
      else: self.emit(ind, "raise" if ctx.get("handler") else f"raise {e()}")
    elif k == 11:
      if ctx.get("loop"):
        self.f("break-continue"); self.emit(ind, r.choice(["break", "continue"]))
      elif ctx.get("func") and not ctx.get("classbody") and (not ctx.get("async") or ctx.get("asyncgen")):
        self.f("yield")
        self.emit(ind, r.choice([f"yield {e()}", f"yield {e()}" if ctx.get("async") else f"yield from {e()}", f"{self.name()} = yield {e()}", "yield"]))
      elif ctx.get("async"):
        self.f("await"); self.emit(ind, f"await {e()}")
      else:
        self.emit(ind, e())
    elif k in (12, 13):
      self.f("if")
      self.emit(ind, f"if {e()}:"); self.block(ind + 1, d + 1, ctx)
      for _ in range(r.choice([0, 0, 1, 2])):
        self.f("elif"); self.emit(ind, f"elif {e()}:"); self.block(ind + 1, d + 1, ctx)
      if r.random() < .5:
        self.emit(ind, "else:"); self.block(ind + 1, d + 1, ctx)
    elif k == 14:
      self.f("while")
      self.emit(ind, f"while {r.choice([e(), 'True', e()])}:"); self.block(ind + 1, d + 1, dict(ctx, loop=True))
      if r.random() < .3:
        self.f("loop-else"); self.emit(ind, "else:"); self.block(ind + 1, d + 1, ctx)
    elif k in (15, 16):
      isasync = ctx.get("async") and r.random() < .4
      self.f("async-for" if isasync else "for")
      self.emit(ind, f"{'async ' if isasync else ''}for {self.target()} in {e()}:")
      self.block(ind + 1, d + 1, dict(ctx, loop=True))
      if r.random() < .3:
        self.f("loop-else"); self.emit(ind, "else:"); self.block(ind + 1, d + 1, ctx)
    elif k in (17, 18):
      self.f("try")
      star = r.random() < .15
      self.emit(ind, "try:"); self.block(ind + 1, d + 1, ctx)
      nh = r.choice([0, 1, 1, 2])
      for i in range(nh):
        q = r.randrange(4)
        kw = "except*" if star else "except"
        if star: self.f("except-star")
        if q == 0 and not star and i == nh - 1: self.emit(ind, "except:")
        elif q == 1: self.f("except-as"); self.emit(ind, f"{kw} {r.choice(EXCS)} as {r.choice(['e', 'err', self.name()])}:")
        elif q == 2: self.emit(ind, f"{kw} ({r.choice(EXCS)}, {r.choice(EXCS)}):")
        else: self.emit(ind, f"{kw} {r.choice(EXCS)}:")
        hctx = dict(ctx, handler=True)
        if star: hctx.pop("loop", None)
        self.block(ind + 1, d + 1, hctx)
      if nh and r.random() < .3:
        self.f("try-else"); self.emit(ind, "else:"); self.block(ind + 1, d + 1, ctx)
      if nh == 0 or r.random() < .4:
        self.f("finally"); self.emit(ind, "finally:")
        fctx = dict(ctx); fctx.pop("loop", None) if star else None
        self.block(ind + 1, d + 1, fctx)
    elif k in (19, 20):
      isasync = ctx.get("async") and r.random() < .4
      self.f("async-with" if isasync else "with")
      items = []
      for _ in range(r.choice([1, 1, 2])):
        it = r.choice([f"open({e()})", e(), f"{self.name()}.lock", "C0()" if "C0" in self.classes else e()])
        if r.random() < .6:
          self.f("with-as"); it += f" as {self.target(1)}"
        items.append(it)
      if len(items) > 1 and r.random() < .5:
        self.f("with-parens"); self.emit(ind, f"{'async ' if isasync else ''}with ({', '.join(items)}):")
      else:
        self.emit(ind, f"{'async ' if isasync else ''}with {', '.join(items)}:")
      self.block(ind + 1, d + 1, ctx)
    elif k in (21, 22, 23):
      self.f("match")
      self.emit(ind, f"match {r.choice([self.name(), e(), f'({self.name()}, {self.name()})'])}:")
      ncase = r.randint(1, 4)
      for i in range(ncase):
        pat = self.pattern()
        if i < ncase - 1 and pat.split(" as ")[0].isidentifier():
          pat = "0"          # an irrefutable pattern is only allowed last
        guard = ""
        if r.random() < .3:
          self.f("match-guard"); guard = f" if {e()}"
        self.emit(ind + 1, f"case {pat}{guard}:")
        self.block(ind + 2, d + 2, ctx, n=r.randint(1, 2))
    elif k in (24, 25, 26, 27):
      self.funcdef(ind, d, ctx)
    elif k in (28, 29):
      self.classdef(ind, d, ctx)
    elif k == 30:
      if ctx.get("func") and not ctx.get("classbody"):
        self.f("global"); g = self.fresh("g"); self.emit(ind, f"global {g}"); self.emit(ind, f"{g} = {e()}")
      else:
        self.emit(ind, "pass")
    elif k == 31:
      if ctx.get("nonlocal_ok"):
        self.f("nonlocal")
        nm = ctx["nonlocal_ok"]
        self.emit(ind, f"nonlocal {nm}"); self.emit(ind, f"{nm} = {e()}")
        ctx["nonlocal_ok"] = None
      else:
        self.emit(ind, e())
    elif k == 32:
      self.f("type-alias"); self.emit(ind, f"type {self.fresh('T')}{r.choice(['', '[K]', '[K: int, *Ts]'])} = {self.annotation()}")
    elif k == 33:
      self.f("print"); self.emit(ind, f"print({e()}, {e()}, sep={e()})")
    elif k == 34:
      self.f("import-typing"); self.emit(ind, r.choice(["import typing", "from typing import Any, List", "from typing import *" if ind == 0 else "import typing", "import typing as t"]))
    elif k == 35:
      self.f("multi-stmt-line"); self.emit(ind, f"{self.name()} = {e()}; {self.name()} = {e()}")
    elif k == 36:
      q = r.randrange(5)
      if q == 0:
        self.f("multiline-expr")
        self.emit(ind, f"{self.name()} = ({e()} +")
        self.emit(ind + 2, f"{e()})")
      elif q == 1:
        self.f("multiline-list")
        self.emit(ind, f"{self.name()} = [")
        for _ in range(r.randint(1, 3)):
          self.emit(ind + 1, f"{e()},")
        self.emit(ind, "]")
      elif q == 2:
        self.f("multiline-dict")
        self.emit(ind, f"{self.name()} = {{")
        for _ in range(r.randint(1, 3)):
          self.emit(ind + 1, f"{self.atom()}: {e()},")
        self.emit(ind, "}")
      elif q == 3:
        self.f("multiline-call")
        self.emit(ind, f"{r.choice(self.funcs + BUILTIN_FUNCS)}(")
        for _ in range(r.randint(1, 3)):
          self.emit(ind + 2, f"{e()},")
        self.emit(ind, ")")
      else:
        self.f("multiline-with")
        self.emit(ind, "with (")
        self.emit(ind + 2, f"{e()} as {self.name()},")
        self.emit(ind + 2, f"{e()} as {self.name()},")
        self.emit(ind, "):")
        self.block(ind + 1, d + 1, ctx, 1)
    elif k == 37:
      self.f("docstring-or-str"); self.emit(ind, r.choice(['"""doc"""', "'s'", "b'x'", "1", "..."]))
    elif k == 38:
      self.f("comment-directive")
      self.emit(ind, f"{self.name()} = {e()}  # " + r.choice(["type: int", "pytype: disable=attribute-error", "type: ignore", "noqa", "pytype: disable=name-error", "type: List[int]"]))
    elif k == 39:
      self.f("if-name-main"); self.emit(ind, "if __name__ == '__main__':"); self.block(ind + 1, d + 1, ctx, 1)
    elif k == 40:
      self.f("assert-type"); self.emit(ind, r.choice([f"assert isinstance({self.name()}, {r.choice(['int', 'str', '(int, str)', 'list'])})", f"reveal_type({e()})", f"assert_type({e()}, int)"]))
    elif k == 41:
      self.f("star-assign"); self.emit(ind, f"{self.name()}, *{self.name()}, {self.name()} = {e()}")
    elif k == 42:
      self.f("subscript-store-slice"); self.emit(ind, f"{self.name()}[{e()}:{e()}] = {e()}")
    else:
      self.f("call-stmt"); self.emit(ind, f"{r.choice(self.funcs + BUILTIN_FUNCS)}({e()})")

  def params(self, method):
    r = self.r
    ps = []
    used = set()
    def nm():
      for _ in range(10):
        n = self.name()
        if n not in used:
          used.add(n); return n
      n = self.fresh("p"); used.add(n); return n
    ann = lambda: (f": {self.annotation()}" if r.random() < .4 else "")
    if method == "self":
      ps.append("self"); used.add("self")
    elif method == "cls":
      ps.append("cls"); used.add("cls")
    npos = r.randint(0, 2)
    seen_default = False
    pos = []
    for _ in range(npos):
      p = nm() + ann()
      if seen_default or r.random() < .3:
        seen_default = True; self.f("param-default"); p += (" = " if ":" in p else "=") + self.atom()
      pos.append(p)
    if pos and r.random() < .2 and not seen_default:
      self.f("posonly"); pos.insert(r.randint(1, len(pos)), "/")
    ps += pos
    if r.random() < .25:
      self.f("varargs"); ps.append("*" + nm() + ann())
      if r.random() < .5:
        self.f("kwonly"); ps.append(nm() + ann() + ("=" + self.atom() if r.random() < .5 else ""))
    elif r.random() < .15:
      self.f("kwonly"); ps.append("*"); ps.append(nm() + ann() + ("=" + self.atom() if r.random() < .5 else ""))
    if r.random() < .2:
      self.f("kwargs"); ps.append("**" + nm() + ann())
    return ", ".join(ps), [u for u in used if u not in ("self", "cls")]

  def funcdef(self, ind, d, ctx, method=None):
    r = self.r
    isasync = r.random() < .25
    name = self.fresh("f") if not method else r.choice(["m", "get", "__init__", "__call__", "__enter__", "__exit__", "__iter__", "__next__", "__getitem__", "__eq__", "__repr__", "__len__", "val", "__aenter__", "__aexit__", "__add__", "__getattr__", "__setattr__", "__hash__", "__bool__", "__contains__"])
    decs = []
    mkind = None
    if method:
      q = r.randrange(8)
      if q == 0: decs.append("@staticmethod"); mkind = None; self.f("staticmethod")
      elif q == 1: decs.append("@classmethod"); mkind = "cls"; self.f("classmethod")
      elif q == 2: decs.append("@property"); mkind = "self"; self.f("property"); name = r.choice(["val", "x", "prop"])
      else: mkind = "self"
    if r.random() < .2:
      self.f("decorator")
      decs.insert(0, "@" + r.choice(self.funcs + ["staticmethod", "typing.overload", "typing.final", "typing.no_type_check"] if self.funcs else ["typing.final", "typing.no_type_check"]) if not method else "@typing.final")
    if r.random() < .1:
      self.f("decorator-call"); decs.insert(0, f"@{r.choice(self.funcs) if self.funcs else 'print'}({self.atom()})")
    tparams = ""
    if r.random() < .12:
      self.f("pep695-func"); tparams = r.choice(["[T]", "[T: int]", "[T: (int, str)]", "[*Ts]", "[**P]", "[T, U]"])
    params, pnames = self.params(mkind)
    ret = f" -> {self.annotation()}" if r.random() < .35 else ""
    for dd in decs:
      self.emit(ind, dd)
    if params and r.random() < .2:
      self.f("multiline-signature")
      self.emit(ind, f"{'async ' if isasync else ''}def {name}{tparams}(")
      for prm in params.split(", "):
        self.emit(ind + 2, prm + ",")
      self.emit(ind, f"){ret}:")
    else:
      self.emit(ind, f"{'async ' if isasync else ''}def {name}{tparams}({params}){ret}:")
    self.f("async-def" if isasync else "def")
    if ctx.get("func"):
      self.f("nested-def")
    if r.random() < .2:
      self.f("docstring"); self.emit(ind + 1, '"""Doc."""')
    outer_local = None
    if ctx.get("func") and ctx.get("locals"):
      outer_local = r.choice(ctx["locals"])
    fctx = {"func": True, "async": isasync, "asyncgen": isasync and r.random() < .3,
            "locals": pnames or ["loc"], "nonlocal_ok": outer_local}
    if fctx["asyncgen"]:
      self.f("async-generator")
    if not pnames:
      self.emit(ind + 1, f"loc = {self.expr(2, fctx)}")
    saved = self.names
    self.names = saved + pnames
    self.block(ind + 1, d + 1, fctx, n=r.randint(1, 4))
    self.names = saved
    if not method:
      self.funcs.append(name)

  def classdef(self, ind, d, ctx):
    r = self.r
    name = f"C{len(self.classes)}" if ind == 0 else self.fresh("N")
    bases = []
    if self.classes and r.random() < .4:
      self.f("inherit"); bases.append(r.choice(self.classes))
    if r.random() < .15:
      bases.append(r.choice(["Exception", "dict", "list", "typing.Generic[T]" if False else "object", "typing.NamedTuple", "typing.Protocol", "typing.TypedDict"]))
      self.f("special-base")
    if r.random() < .08:
      self.f("metaclass"); bases.append("metaclass=type")
    tparams = ""
    if r.random() < .1:
      self.f("pep695-class"); tparams = r.choice(["[T]", "[T: int]", "[K, V]"])
    if r.random() < .15:
      self.f("class-decorator"); self.emit(ind, "@" + r.choice(["typing.final", "typing.runtime_checkable"] + self.funcs))
    self.emit(ind, f"class {name}{tparams}{'(' + ', '.join(bases) + ')' if bases else ''}:")
    self.f("class")
    if ind > 0:
      self.f("nested-class")
    cctx = {"classbody": True, "func": False}
    n = r.randint(1, 4)
    for _ in range(n):
      q = r.randrange(10)
      if q < 5:
        self.funcdef(ind + 1, d + 1, {"classbody": False, "func": False}, method=True)
      elif q == 5:
        self.f("class-var"); self.emit(ind + 1, f"{r.choice(['val', 'x', 'y'])}: {self.annotation()} = {self.expr(2)}")
      elif q == 6:
        self.f("class-var"); self.emit(ind + 1, f"{r.choice(['val', 'x', '__slots__', '__match_args__'])} = {self.expr(2)}")
      elif q == 7 and d < 2:
        self.classdef(ind + 1, d + 1, cctx)
      elif q == 8:
        self.emit(ind + 1, f"{r.choice(['val', 'x'])}: {self.annotation()}")
      else:
        self.stmt(ind + 1, d + 2, cctx)
    if ind == 0:
      self.classes.append(name)


def gen_program(r, size=None):
  """Returns (source, feature set)."""
  g = Gen(r)
  if r.random() < .5:
    g.emit(0, "import typing")
  n = size or r.randint(2, 7)
  ctx = {"func": False}
  for _ in range(n):
    g.stmt(0, 0, ctx)
  src = "\n".join(g.out) + "\n"
  if r.random() < .25:
    tail, _ = tail_program(r, prefix=False, ending="")
    g.f("tail-construct")
    src += tail + "\n"
  if r.random() < .4:
    g.f("directive-comments")
    src = decorate(r, src)
  q = r.random()
  if q < .04:
    g.f("no-trailing-newline"); src = src.rstrip("\n")
  elif q < .08:
    g.f("crlf"); src = src.replace("\n", "\r\n")
  elif q < .11:
    g.f("trailing-blank-lines"); src += "\n\n"
  elif q < .13:
    g.f("leading-comment"); src = "#!/usr/bin/env python\n# -*- coding: utf-8 -*-\n" + src
  return src, g.feat


# ---------------------------------------------------------------------------------------
# programs that END in an error-producing construct.  "Every reported error carries a line inside the file" can
# only fail at the end of the file, and lines that pytype ADJUSTS rather than copies from the opcode (implicit
# `return None` -> end of the function, decorators, multi-line calls, directives) are where it can go wrong.

RET_TYPES = ["int", "str", "typing.List[int]", "list[int]", "bool", "typing.Dict[str, int]", "'int'"]


def _fall_off_bodies(ind):
  """Bodies (lists of lines at indent `ind`) of a function that returns a value on some path and falls off the end."""
  i = "    " * ind
  return {
      "if-no-else": [f"{i}if x:", f"{i}    return 1"],
      "if-elif": [f"{i}if x:", f"{i}    return 1", f"{i}elif x is None:", f"{i}    return 2"],
      "for": [f"{i}for y in x:", f"{i}    return y"],
      "while": [f"{i}while x:", f"{i}    return 1"],
      "try": [f"{i}try:", f"{i}    return int(x)", f"{i}except ValueError:", f"{i}    pass"],
      "try-finally": [f"{i}try:", f"{i}    if x:", f"{i}        return 1", f"{i}finally:", f"{i}    print(x)"],
      "with": [f"{i}with x as y:", f"{i}    if y:", f"{i}        return 1"],
      "match": [f"{i}match x:", f"{i}    case 1:", f"{i}        return 1", f"{i}    case [a, *b]:", f"{i}        return 2"],
      "multi-line-last-stmt": [f"{i}if x:", f"{i}    return 1", f"{i}print(x,", f"{i}      x,", f"{i}      x)"],
      "pass": [f"{i}pass"],
      "docstring-only": [f'{i}"""Doc."""'],
  }


def tail_templates():
  """{name: source without a final newline}; every one ends in a construct pytype reports an error for."""
  out = {}
  for k, body in _fall_off_bodies(1).items():
    out["func:" + k] = "\n".join(["import typing", "def f(x) -> RET:"] + body)
  b = _fall_off_bodies
  out["async-func"] = "\n".join(["import typing", "async def f(x) -> RET:"] + b(1)["if-no-else"])
  out["nested-func"] = "\n".join(["import typing", "def outer(x):", "    def inner(x) -> RET:"] + b(2)["if-no-else"])
  out["nested-func-then-return"] = "\n".join(["import typing", "def outer(x) -> RET:", "    def inner(x) -> RET:"] + b(2)["for"])
  out["method"] = "\n".join(["import typing", "class C:", "    def __init__(self):", "        self.items = []",
                             "    def m(self, x) -> RET:"] + b(2)["if-no-else"])
  out["method-nested-class"] = "\n".join(["import typing", "class C:", "    class D:", "        def m(self, x) -> RET:"] + b(3)["try"])
  out["staticmethod"] = "\n".join(["import typing", "class C:", "    @staticmethod", "    def m(x) -> RET:"] + b(2)["match"])
  out["property"] = "\n".join(["import typing", "class C:", "    @property", "    def p(self) -> RET:", "        x = self",
                               ] + b(2)["while"])
  out["decorated-func"] = "\n".join(["import typing", "def deco(f):", "    return f", "@deco", "@deco", "def f(x) -> RET:"] + b(1)["if-no-else"])
  out["decorator-call-multi-line"] = "\n".join(["import typing", "def deco(a, b):", "    return lambda f: f", "@deco(1,", "      2)",
                                                "def f(x) -> RET:"] + b(1)["for"])
  out["generator-annotated"] = "\n".join(["import typing", "def f(x) -> RET:", "    yield 1"])
  out["lambda-default-func"] = "\n".join(["import typing", "def f(x, g=lambda: 0) -> RET:"] + b(1)["with"])
  out["type-comment-func"] = "\n".join(["import typing", "def f(x):", "    # type: (int) -> RET"] + b(1)["if-no-else"])
  out["one-line-def"] = "import typing\ndef f(x) -> RET: pass"
  out["bad-return-last-line"] = "import typing\ndef f(x) -> RET:\n    return None"
  out["bad-return-multi-line"] = "import typing\ndef f(x) -> RET:\n    return (None if x\n            else\n            None)"
  # other errors that sit on / are adjusted to the last lines
  out["name-error-last-line"] = "x = 1\nundefined_name"
  out["wrong-arg-count-multi-line-call"] = "def f(a):\n    return a\nf(1,\n  2,\n  3)"
  out["wrong-arg-types-multi-line-call"] = "def f(a: int):\n    return a\nf(\n  'a'\n)"
  out["attribute-error-multi-line"] = "x = (1\n     ).foo"
  out["unsupported-operands-multi-line"] = "x = (1 +\n     'a' +\n     2)"
  out["bad-decorator-last"] = "@undefined_deco\ndef f():\n    pass"
  out["bad-class-decorator-last"] = "@undefined_deco(1,\n                2)\nclass C:\n    x: int = 'a'"
  out["class-body-error-last"] = "class C:\n    x: int = 'a'"
  out["base-class-error-last"] = "class C(1):\n    pass"
  out["invalid-directive-last"] = "x = 1  # pytype: disable=no-such-error"
  out["late-directive-last"] = "x = 1\n# pytype: disable=attribute-error"
  out["stray-type-comment-last"] = "x = 1\n# type: int"
  out["type-comment-mismatch-last"] = "x = 'a'  # type: int"
  out["reveal-type-multi-line"] = "reveal_type(\n    1\n)"
  out["assert-type-last"] = "assert_type(1,\n            str)"
  out["annotation-mismatch-multi-line"] = "x: int = (\n    'a'\n)"
  out["bad-unpacking-last"] = "a, b = (1,\n        2,\n        3)"
  out["not-callable-in-with-last"] = "with 1():\n    pass"
  out["for-else-error-last"] = "for i in 1:\n    pass\nelse:\n    i.foo"
  out["try-finally-error-last"] = "try:\n    pass\nfinally:\n    (1).foo"
  out["match-error-last"] = "match 1:\n    case int():\n        (1).foo"
  out["incomplete-match-last"] = ("import enum\n" if False else "") + "def f(x: bool):\n    match x:\n        case True:\n            return 1"
  out["lambda-error-last"] = "f = lambda: (1).foo\nf()"
  out["comprehension-error-last"] = "x = [i.foo\n     for i in (1, 2)]"
  out["fstring-error-last"] = "x = f'{(1).foo}'"
  out["del-error-last"] = "del undefined_name"
  out["assert-error-last"] = "assert (1).foo, (\n    'msg')"
  out["raise-error-last"] = "raise (1).foo"
  out["global-func-error-last"] = "def f():\n    global g\n    g = (1).foo"
  return out


TAIL_ENDINGS = ["", "\n", "\n\n\n", "\n# trailing comment\n", "\n    # indented trailing comment", "\n\n# c1\n# c2\n", "  # noqa", "\r\n"]


def tail_program(r, name=None, ending=None, prefix=True):
  """(source, label): a template instance, optionally after a few random statements, with a chosen file ending."""
  t = tail_templates()
  name = name or r.choice(sorted(t))
  src = t[name].replace("RET", r.choice(RET_TYPES))
  if prefix and r.random() < .4:
    g = Gen(r)
    for _ in range(r.randint(1, 2)):
      g.stmt(0, 2, {"func": False})
    head = "\n".join(g.out) + "\n"
    try:
      compile(head, "head", "exec")
    except (SyntaxError, ValueError):
      head = ""
    if "import typing" in src and "import typing" not in head:
      src = head + src
    else:
      src = head + src
  ending = r.choice(TAIL_ENDINGS) if ending is None else ending
  return src + ending, f"{name}|{ending!r}"


# ---------------------------------------------------------------------------------------
# DIRECTIVE layer: comments only, so CPython's view of the program does not change and the oracle stays the same.

ERR_CLASSES = ["attribute-error", "name-error", "wrong-arg-types", "unsupported-operands", "bad-return-type",
               "not-callable", "annotation-type-mismatch", "wrong-arg-count", "invalid-annotation", "missing-parameter",
               "bad-unpacking", "unbound-type-param", "*"]
TRAILING_COMMENTS = [
    "# type: ignore", "# type: ignore[attr-defined]", "#type:ignore", "# type: ignore  # pytype: disable=attribute-error",
    "# pytype: disable=ERR", "# pytype: disable=ERR,ERR2", "# pytype: enable=ERR", "# pytype: disable=ERR  # ünïcödé コメント",
    "# type: int", "# type: List[int]", "# type: str", "# type: (int) -> str", "# type: (...) -> None", "# type: Dict[str,",
    "# pytype: disable=no-such-error", "# pytype: foo=bar", "# pytype:", "# pytype: disable=", "# type:", "# pytype: disable",
    "# ümlaut コメント", "# noqa  # type: ignore", "# pytype: disable=ERR # type: ignore", "# pytype: cache-return",
    "# pytype: features=no-return-any", "# TODO(x): type: ignore", "# pytype: disable=ERR, enable=ERR2", "# pytype: enable=*",
]


def _cm(r, c):
  return c.replace("ERR2", r.choice(ERR_CLASSES[:-1])).replace("ERR", r.choice(ERR_CLASSES))


def decorate(r, src, force_inner=False):
  """Adds directive / type comments (trailing, own-line, ranges) to a compiling text; returns it unchanged if it
  does not tokenize.  Only comments are added.  force_inner: guarantee a structured comment on a continuation line
  inside brackets (if the text has one) and two disable/enable regions for one error class after it."""
  if "\r" in src:
    return src
  try:
    toks = list(tokenize.generate_tokens(io.StringIO(src).readline))
  except (tokenize.TokenError, IndentationError, SyntaxError):
    return src
  lines = src.split("\n")
  depth = 0
  ends = []            # (row, inside_brackets, already_has_comment): physical lines ending outside any string
  prev = None
  for t in toks:
    if t.type == tokenize.OP and t.string in "([{":
      depth += 1
    elif t.type == tokenize.OP and t.string in ")]}":
      depth -= 1
    elif t.type in (tokenize.NEWLINE, tokenize.NL) and t.string:
      has_c = prev is not None and prev.type == tokenize.COMMENT and prev.start[0] == t.start[0]
      blank = prev is None or prev.end[0] != t.start[0]
      ends.append((t.start[0], depth > 0, has_c, blank))
    prev = t
  if not ends:
    return src
  trailing = {}        # row -> comment
  own = collections.defaultdict(list)   # row -> comments inserted AFTER that row (0 = before the first line)
  inner = [e for e in ends if e[1] and not e[2] and not e[3]]
  outer = [e for e in ends if not e[1] and not e[2] and not e[3]]
  # trailing comments, biased towards continuation lines inside brackets
  for e in inner:
    if r.random() < (.5 if not force_inner else .3):
      trailing[e[0]] = _cm(r, r.choice(TRAILING_COMMENTS))
  if force_inner and inner and not any(e[0] in trailing for e in inner):
    trailing[r.choice(inner)[0]] = _cm(r, r.choice(["# type: ignore", "# pytype: disable=ERR", "# type: int"]))
  for e in outer:
    if r.random() < .15:
      trailing[e[0]] = _cm(r, r.choice(TRAILING_COMMENTS))
  if r.random() < .3:
    trailing.setdefault(ends[-1][0], _cm(r, r.choice(TRAILING_COMMENTS)))      # the last line of the file
  # own-line comments anywhere a physical line ends
  for e in ends:
    if r.random() < .08:
      own[e[0]].append(_cm(r, r.choice(TRAILING_COMMENTS)))
  # range directives: regions for the same class (sequential), different classes, nested
  rows = sorted({e[0] for e in ends if not e[1]} | {0})
  first_inner = min([row for row in trailing if any(e[0] == row and e[1] for e in ends)], default=0)
  nreg = r.choice([0, 1, 2, 2, 3]) if not force_inner else r.choice([2, 3])
  if len(rows) >= 2 and nreg:
    cls = r.choice(ERR_CLASSES)
    cand = [x for x in rows if x >= first_inner] if force_inner else rows
    if len(cand) < 2 * nreg:
      cand = rows
    pts = sorted(r.choice(cand) for _ in range(2 * nreg))
    for i in range(0, len(pts), 2):
      c = cls if r.random() < .7 else r.choice(ERR_CLASSES)
      own[pts[i]].append(f"# pytype: disable={c}")
      if r.random() < .85 or force_inner:
        own[pts[i + 1]].append(f"# pytype: enable={c}")
    if r.random() < .3:      # a nested pair around everything chosen so far
      c2 = r.choice(ERR_CLASSES)
      own[pts[0]].insert(0, f"# pytype: disable={c2}")
      own[pts[-1]].append(f"# pytype: enable={c2}")
  out = []
  def indent_of(row):      # indentation of physical line `row` (1-based), for looks only
    if 1 <= row <= len(lines):
      ln = lines[row - 1]
      return ln[:len(ln) - len(ln.lstrip(" \t"))]
    return ""
  for c in own.get(0, []):
    out.append(c)
  for i, ln in enumerate(lines, 1):
    if i in trailing and ln.strip() and not ln.rstrip().endswith("\\"):
      ln = ln + "  " + trailing[i]
    out.append(ln)
    for c in own.get(i, []):
      out.append(r.choice([indent_of(i + 1), indent_of(i), ""]) + c)
  return "\n".join(out)


def directive_templates():
  """{name: source}: a structured comment INSIDE a multi-line statement, followed by several own-line range
  directives (COMMENT is replaced by a `# type:` / `# pytype:` comment, ERR by an error class)."""
  regions = ("class A:\n  pass\n{head}# pytype: disable=ERR\ny = A().foo\n# pytype: enable=ERR\nz = 1\n"
             "# pytype: disable=ERR\nw = A().bar\n# pytype: enable=ERR\nv = 1\n")
  heads = {
      "list-display": "x = [  COMMENT\n    1]\n",
      "list-display-inner": "x = [\n    1,  COMMENT\n    2,\n]\n",
      "dict-display": "x = {  COMMENT\n    'a': 1,\n    'b': 2}\n",
      "tuple-display": "x = (\n    1,\n    2,  COMMENT\n)\n",
      "set-display": "x = {1,  COMMENT\n     2}\n",
      "call-args": "x = dict(  COMMENT\n    a=1)\n",
      "call-args-inner": "print(\n    1,  COMMENT\n    2)\n",
      "def-signature": "def f(\n    x,  COMMENT\n    y,\n):\n  return x\n",
      "def-signature-type-comments": "def f(\n    x,  # type: int\n    y,  # type: str\n):\n  # type: (...) -> int\n  return x\n",
      "def-signature-last-line": "def f(x,\n      y):  COMMENT\n  return x\n",
      "async-def-signature": "async def f(\n    x,  COMMENT\n    *a, **k):\n  return x\n",
      "class-bases": "class B(\n    A,  COMMENT\n):\n  pass\n",
      "with-items": "with (\n    open('f') as a,  COMMENT\n    open('g') as b,\n):\n  pass\n",
      "nested-display": "x = [\n    [1,  COMMENT\n     2],\n    {'a': (3,  COMMENT\n           4)},\n]\n",
      "comprehension": "x = [i  COMMENT\n     for i in (1, 2)  COMMENT\n     if i]\n",
      "binary-continuation": "x = (1 +  COMMENT\n     2)\n",
      "decorator-call": "def d(*a):\n  return lambda f: f\n@d(1,  COMMENT\n   2)\ndef g():\n  pass\n",
      "two-displays": "x = [  COMMENT\n    1]\ny2 = [\n    2]  COMMENT\n",
      "lambda-default": "f = lambda a=(1,  COMMENT\n              2): a\n",
      "subscript": "x = {}[\n    1  COMMENT\n]\n",
      "string-continuation": "x = ('a'  COMMENT\n     'b')\n",
      "return-display": "def f():\n  return [  COMMENT\n      1]\n",
      "own-line-inside-display": "x = [\n    # pytype: disable=ERR\n    1,\n    # pytype: enable=ERR\n    2]\n",
      "assert-multi-line": "assert (1,  COMMENT\n        2)\n",
      "match-multi-line": "match [1,  COMMENT\n       2]:\n  case [a, b]:  COMMENT\n    pass\n",
  }
  out = {}
  for k, h in heads.items():
    out[k] = regions.format(head=h)
  # regions inside a function / class body, nested and overlapping regions, directives at the very end
  out["regions-in-function"] = ("class A:\n  pass\ndef f(\n    x,  COMMENT\n    y,\n):\n  z = 1\n  # pytype: disable=ERR\n  y = A().foo\n"
                                "  # pytype: enable=ERR\n  z = 1\n  # pytype: disable=ERR\n  w = A().bar\n  # pytype: enable=ERR\n  return w\n")
  out["nested-regions"] = ("x = [  COMMENT\n    1]\n# pytype: disable=attribute-error\n# pytype: disable=name-error\ny = q\n"
                           "# pytype: enable=name-error\n# pytype: disable=name-error\nz = q\n# pytype: enable=name-error\n# pytype: enable=attribute-error\n")
  out["unclosed-region-at-eof"] = "x = [  COMMENT\n    1]\n# pytype: disable=ERR\ny = 1\n# pytype: enable=ERR\n# pytype: disable=ERR\nz = q"
  out["enable-without-disable"] = "x = [  COMMENT\n    1]\n# pytype: enable=ERR\ny = 1\n# pytype: enable=ERR\n# pytype: disable=ERR\n"
  out["star-regions"] = "x = {  COMMENT\n  1: 2}\n# pytype: disable=*\ny = q\n# pytype: enable=*\nz = 1\n# pytype: disable=*\nw = q\n# pytype: enable=*\n"
  out["type-ignore-own-line-regions"] = "x = [  COMMENT\n    1]\n# type: ignore\ny = q\n"
  out["trailing-and-own-line-mix"] = ("def f(a,  COMMENT\n      b):  # pytype: disable=ERR\n  # pytype: disable=ERR\n  return q  # pytype: enable=ERR\n"
                                      "  # pytype: enable=ERR\n# pytype: disable=ERR\nf(1)  # type: ignore\n# pytype: enable=ERR\n")
  return out


INNER_COMMENTS = ["# type: ignore", "# pytype: disable=ERR", "# type: int", "# pytype: disable=wrong-arg-types", "# type: ignore  # pytype: disable=ERR",
                  "# pytype: enable=ERR", "# pytype: disable=no-such-error", "# ünïcödé", "# type: List[int]"]


def directive_program(r, name=None, comment=None, err=None):
  t = directive_templates()
  name = name or r.choice(sorted(t))
  err = err or r.choice(ERR_CLASSES)
  src = t[name]
  while "COMMENT" in src:
    src = src.replace("COMMENT", comment or r.choice(INNER_COMMENTS), 1)
  src = src.replace("ERR", err)
  if r.random() < .25:
    src = src.rstrip("\n")
  return src, f"{name}|{comment}|{err}"


# ---------------------------------------------------------------------------------------
# token-level mutation

INSERT_POOL = ["(", ")", "[", "]", "{", "}", ":", ",", "*", "**", "=", ":=", "if", "else", "for", "in", "not", "lambda",
               "yield", "await", "async", "return", "del", "global", "nonlocal", "pass", "break", "continue", "match",
               "case", "_", "x", "0", "''", "f'{x}'", "...", ".", "@", "->", ";", "\n", "    ", "+", "-", "is", "and",
               "try", "except", "finally", "with", "as", "class", "def", "import", "from", "raise", "assert", "while",
               "None", "True", "1.", "'", '"', "\\", "#", "\t", "$", "?", "!", "0x", "1e", "f'{'", "b'\\x'", "type",
               "\x0c", "é", "𝒳", "print"]
OP_SWAP = {"+": "-", "-": "+", "*": "/", "/": "*", "==": "is", "is": "==", "and": "or", "or": "and", "<": ">=",
           "in": "is", "break": "continue", "continue": "break", "+=": "-=", "//": "%", "&": "|", "True": "False",
           "None": "0", "return": "yield", "yield": "return", "for": "while", "if": "while", "not": "-",
           "except": "except*", "def": "class", "[": "(", "(": "[", "pass": "...", "raise": "return", "del": "assert",
           "global": "nonlocal", "nonlocal": "global", "lambda": "not", "await": "yield", "async": "", "=": ":=",
           ":=": "=", "**": "*", "*": "**", "else": "finally", "elif": "if", "case": "if", "match": "while",
           "with": "if", "as": "in", "from": ",", "assert": "del", "try": "if True"}


def tokens_of(src):
  """[(ws_before, token_text)] such that concatenating everything gives back src (positions, not untokenize)."""
  toks = list(tokenize.generate_tokens(io.StringIO(src).readline))
  lines = src.splitlines(keepends=True)
  offs = [0]
  for ln in lines:
    offs.append(offs[-1] + len(ln))
  def pos(p):
    row, col = p
    if row - 1 >= len(offs):
      return len(src)
    return min(offs[row - 1] + col, len(src))
  out = []
  cur = 0
  for t in toks:
    if t.type in (tokenize.ENDMARKER, tokenize.INDENT, tokenize.DEDENT) or (t.type in (tokenize.NEWLINE, tokenize.NL) and t.string == ""):
      continue
    s, e = pos(t.start), pos(t.end)
    if s < cur:
      continue
    out.append([src[cur:s], src[s:e]])
    cur = e
  tail = src[cur:]
  return out, tail


def mutate(r, src):
  """Returns (mutant, kind).  Token-level where the text tokenizes, character-level otherwise."""
  try:
    toks, tail = tokens_of(src)
  except (tokenize.TokenError, IndentationError, SyntaxError):
    toks = None
  if not toks:
    i = r.randrange(len(src) + 1)
    return src[:i] + r.choice(INSERT_POOL) + src[i:], "char-insert"
  kind = r.choice(["delete", "delete", "insert", "insert", "swap", "replace-pool", "replace-own", "dup", "opswap",
                   "opswap", "opswap", "line-delete", "line-dup", "line-swap", "indent", "dedent", "name-swap",
                   "name-swap", "delete-range", "literal"])
  idx = [i for i, t in enumerate(toks) if t[1].strip() != "" or t[1] == "\n"]
  real = [i for i in idx if toks[i][1].strip() != ""]
  join = lambda ts: "".join(w + t for w, t in ts) + tail
  if kind == "delete" and real:
    i = r.choice(real); del toks[i]; return join(toks), kind
  if kind == "delete-range" and len(real) > 3:
    i = r.randrange(len(real) - 2); j = i + r.randint(1, 3)
    del toks[real[i]:real[min(j, len(real) - 1)]]; return join(toks), kind
  if kind == "insert":
    i = r.randrange(len(toks) + 1); toks.insert(i, [" ", r.choice(INSERT_POOL)]); return join(toks), kind
  if kind == "swap" and len(real) > 1:
    k = r.randrange(len(real) - 1); i, j = real[k], real[k + 1]
    toks[i][1], toks[j][1] = toks[j][1], toks[i][1]; return join(toks), kind
  if kind == "replace-pool" and real:
    toks[r.choice(real)][1] = r.choice(INSERT_POOL); return join(toks), kind
  if kind == "replace-own" and real:
    toks[r.choice(real)][1] = toks[r.choice(real)][1]; return join(toks), kind
  if kind == "dup" and real:
    i = r.choice(real); toks.insert(i, [toks[i][0] or " ", toks[i][1]]); return join(toks), kind
  if kind == "opswap":
    c = [i for i in real if toks[i][1] in OP_SWAP]
    if c:
      i = r.choice(c); toks[i][1] = OP_SWAP[toks[i][1]]; return join(toks), kind
  if kind == "name-swap":
    c = [i for i in real if toks[i][1].isidentifier() and not keyword.iskeyword(toks[i][1])]
    if len(c) > 1:
      i = r.choice(c); toks[i][1] = toks[r.choice(c)][1]; return join(toks), kind
  if kind == "literal":
    c = [i for i in real if toks[i][1][0] in "0123456789'\"" or toks[i][1][:2] in ("f'", 'f"', "b'")]
    if c:
      i = r.choice(c)
      toks[i][1] = r.choice(["0", "''", "None", "1.0", "[]", "{}", "()", "f'{0}'", "b''", "-1", "...", "lambda: 0", "(yield)", "x", "10**100", "'\\N{DASH}'", "f'{x!z}'", "0_0", "1if 1else 2"])
      return join(toks), kind
  lines = src.split("\n")
  if kind in ("line-delete", "line-dup", "line-swap", "indent", "dedent") and len(lines) > 2:
    i = r.randrange(len(lines) - 1)
    if kind == "line-delete": del lines[i]
    elif kind == "line-dup": lines.insert(i, lines[i])
    elif kind == "line-swap":
      j = r.randrange(len(lines) - 1); lines[i], lines[j] = lines[j], lines[i]
    elif kind == "indent": lines[i] = "    " + lines[i]
    else: lines[i] = lines[i][4:] if lines[i].startswith("    ") else lines[i].lstrip()
    return "\n".join(lines), kind
  if real:
    i = r.choice(real); del toks[i]; return join(toks), "delete"
  return src + r.choice(INSERT_POOL), "append"


# ---------------------------------------------------------------------------------------
# stdlib corpus

def stdlib_files(include_tests=False):
  out = []
  for p in sorted(glob.glob(os.path.join(STDLIB, "**", "*.py"), recursive=True)):
    rel = os.path.relpath(p, STDLIB)
    if rel.startswith("site-packages"):
      continue
    is_test = rel.startswith("test" + os.sep) or "/tests/" in "/" + rel or "idle_test" in rel or rel.startswith("lib2to3/tests")
    if is_test and not include_tests:
      continue
    out.append(p)
  return out


def read_text(p):
  try:
    with open(p, "r", encoding="utf8") as f:
      return f.read()
  except (UnicodeDecodeError, OSError):
    return None


def has_import(node):
  return any(isinstance(n, (ast.Import, ast.ImportFrom)) for n in ast.walk(node))


def slices_of(path, max_lines):
  """Top-level functions/classes of a stdlib file whose bodies contain no import statement, as standalone
  source texts (decorators included).  Yields (label, text)."""
  src = read_text(path)
  if src is None:
    return
  try:
    tree = ast.parse(src)
  except (SyntaxError, ValueError, RecursionError):
    return
  lines = src.split("\n")
  rel = os.path.relpath(path, STDLIB)
  for node in tree.body:
    if not isinstance(node, (ast.FunctionDef, ast.AsyncFunctionDef, ast.ClassDef)):
      continue
    if has_import(node):
      continue
    first = min([node.lineno] + [d.lineno for d in node.decorator_list])
    n = node.end_lineno - first + 1
    if n > max_lines:
      continue
    text = "\n".join(lines[first - 1:node.end_lineno]) + "\n"
    yield f"{rel}::{node.name}", text


def strip_imports(src):
  """The file with every import statement replaced by `pass` (None if that is not a purely textual splice)."""
  try:
    tree = ast.parse(src)
  except (SyntaxError, ValueError, RecursionError):
    return None
  nodes = [n for n in ast.walk(tree) if isinstance(n, (ast.Import, ast.ImportFrom))]
  if any(n.module == "__future__" for n in nodes if isinstance(n, ast.ImportFrom)):
    nodes = [n for n in nodes if not (isinstance(n, ast.ImportFrom) and n.module == "__future__")]
  lines = src.split("\n")
  try:
    bl = [ln.encode("utf8") for ln in lines]
    for n in sorted(nodes, key=lambda n: (n.lineno, n.col_offset), reverse=True):
      a, b = n.lineno - 1, n.end_lineno - 1
      head = bl[a][:n.col_offset]
      tail = bl[b][n.end_col_offset:]
      bl[a:b + 1] = [head + b"pass" + tail]
    out = "\n".join(x.decode("utf8") for x in bl)
    compile(out, "<stripped>", "exec")
  except Exception:  # pylint: disable=broad-except
    return None
  return out


# ---------------------------------------------------------------------------------------
# Boundary values on CONCRETE abstract values.  pytype tracks the contents of displays and constants and special-cases
# operations on them (constant indices into tracked lists/tuples/strings, unpacking of known lengths, % formatting,
# folding); such code indexes real Python containers inside the analyser, so an off-by-one at a boundary
# (index == len, -len-1, empty display, zero divisor) is an internal IndexError/ZeroDivisionError rather than a wrong
# type.  The random grammar reaches these values with negligible probability, so they are enumerated.

def edge_statements():
  """Deterministic list of single statements (each valid Python on its own)."""
  out = []
  displays = {
      "list": ["[]", "[1]", "[1, 'a']", "[1, 'a', 3.0]"],
      "tuple": ["()", "(1,)", "(1, 'a')", "(1, 'a', 3.0)"],
      "str": ["''", "'a'", "'ab'", "'abc'"],
      "bytes": ["b''", "b'a'", "b'ab'", "b'abc'"],
      "dict": ["{}", "{0: 1}", "{0: 1, 1: 'a'}", "{'a': 1, 'b': 2, 'c': 3}"],
      "range": ["range(0)", "range(1)", "range(2)", "range(3)"],
  }
  for kind, ds in displays.items():
    for n, d in enumerate(ds):
      idx = sorted({-n - 2, -n - 1, -n, -1, 0, n - 1, n, n + 1})
      for i in idx:
        out.append(f"v = {d}[{i}]")
        out.append(f"w = {d}; v = w[{i}]")
        if kind in ("list", "dict"):
          out.append(f"w = {d}; w[{i}] = 0")
          out.append(f"w = {d}; del w[{i}]")
        if kind == "list":
          out.append(f"w = {d}; v = w.pop({i})")
          out.append(f"w = {d}; w.insert({i}, 0)")
        if kind != "dict":
          out.append(f"v = {d}[{i}:]")
          out.append(f"v = {d}[:{i}]")
          out.append(f"v = {d}[::{i}]" if i else f"v = {d}[0:0]")
          out.append(f"v = {d} * {i}")
      # unpacking against a known length
      for m in (max(n - 1, 0), n, n + 1):
        if m:
          tg = ", ".join(f"a{j}" for j in range(m)) + ("," if m == 1 else "")
          out.append(f"{tg} = {d}")
          out.append(f"*s, {tg} = {d}")
          out.append(", ".join(f"a{j}" for j in range(m)) + f", *s = {d}")
      out.append(f"for q in {d}: pass")
      out.append(f"v = [q for q in {d}][{n}:{n}]")
      out.append(f"v = max({d})" if kind != "dict" else f"v = {d}.popitem()")
  for s in ["'%s' % ()", "'%s %s' % (1,)", "'%s' % (1, 2)", "'%d' % 'a'", "'%(k)s' % {}", "'%' % ()", "'%s %' % 1",
            "'{} {}'.format(1)", "'{0} {2}'.format(1, 2)", "'{k}'.format()", "'{'.format()", "'}'.format()",
            "f'{1!x}'" if False else "'{!x}'.format(1)", "'{:q}'.format(1)",
            "int('x')", "int('1', 99)", "float('x')", "chr(-1)", "chr(0x110000)", "bytes([256])", "bytes(-1)",
            "1 // 0", "1 % 0", "1 / 0", "divmod(1, 0)", "1.0 // 0.0", "0 ** -1", "2 ** -1", "2 ** 100000", "1 << -1",
            "1 << 100000", "1 >> -1", "'a' * -1", "[1] * -1", "(1,) * -1", "'a' * (2 ** 62)", "-(-2 ** 63)", "~(2 ** 64)",
            "round(1.5, -400)", "1e308 * 10", "-1 ** 0.5", "(-1) ** 0.5", "complex(1, 2) // 1" if False else "abs(-2 ** 63)",
            "[1, 2, 3][True]", "[1, 2, 3][False]", "(1, 2)[True]", "'ab'[True]", "[1, 2, 3][-True]",
            "[1, 2][1.0]", "[1, 2]['a']", "[1, 2][None]", "{}[[]]", "{[]: 1}", "{{}}" if False else "{(): 1}[()]",
            "x = (); y = x[0]", "x = []; y = x[0]; x.append(1); z = x[1]", "x = [1]; x.clear(); y = x[0]",
            "x = [1, 2]; x.extend([3]); y = x[2]; z = x[3]", "x = (1, 2) + (3,); y = x[3]", "x = [0] * 3; y = x[3]",
            "x = {'a': 1}; y = x['b']", "x = {'a': 1}; x.update(b=2); y = x['c']", "x = {}; y = x.pop('a')",
            "x = set(); y = x.pop()", "x = [1, 2, 3]; a, b = x", "x = (1, 2, 3); a, b = x", "a, b = 'abc'",
            "a, (b, c) = 1, (2,)", "(a, b), c = (1,), 2", "a, *b, c = (1,)", "[a, b] = [1]",
            "x = slice(1, 2, 0); y = [1, 2][x]", "y = [1, 2][slice(None, None, 0)]", "y = 'ab'[::0]",
            "x = range(3); y = x[3]", "x = range(0); y = x[0]; z = x[-1]", "y = range(1, 1)[0]",
            "x = 'abc'; y = x[3]; z = x[-4]", "x = b'abc'; y = x[3]", "y = ''[0]", "y = b''[0]", "y = ()[0]", "y = [][0]",
            "y = [[]][0][0]", "y = [()][0][0]", "y = ([],)[0][0]", "y = {'a': []}['a'][0]",
            "x = [1, 'a', 3.0]; y = x[3]", "x = [1, 'a', 3.0]; y = x[-4]", "x = [1, 'a', 3.0]; y = x[3:4]; z = y[0]"]:
    out.append(s)
  seen = set()
  res = []
  for s in out:
    if s not in seen:
      seen.add(s)
      res.append(s)
  return res


def union_shape_programs():
  """Variables bound to displays of DIFFERENT lengths on different paths (conditional expression, if/else,
  try/except, loop), in both length orders, then consumed by star displays, star calls, unpacking targets and
  sequence patterns, with more code after the consumer -> [(label, source)].  Always run (quick and thorough)."""
  seqs = [("(1, 2, 3)", "(4, 5)"), ("(1,)", "(1, 'a', 3.0)"), ("()", "(1, 2)"), ("[1, 2, 3]", "[4]"),
          ("(1, 2, 3)", "[4, 5]"), ("'abc'", "'a'")]
  binders = [
      ("ifexp", lambda a, b: ["  t = %s if c else %s" % (a, b)]),
      ("ifelse", lambda a, b: ["  if c:", "    t = %s" % a, "  else:", "    t = %s" % b]),
      ("try", lambda a, b: ["  try:", "    t = %s" % a, "  except ValueError:", "    t = %s" % b]),
      ("loop", lambda a, b: ["  t = %s" % a, "  for _ in range(c):", "    t = %s" % b]),
  ]
  users = [
      ("list-star", ["  out = [*t]", "  out.append(1)"]),
      ("tuple-star", ["  out = (0, *t, 1)", "  print(out)"]),
      ("set-star", ["  out = {*t}", "  print(out)"]),
      ("call-star", ["  out = g(0, *t)", "  print(out)"]),
      ("unpack-star", ["  x, *y = t", "  out = (x, y)", "  print(out)"]),
      ("unpack-exact", ["  x, y = t", "  out = (x, y)", "  print(out)"]),
      ("match-seq", ["  match t:", "    case (x, y):", "      out = x", "    case (x, y, z):", "      out = z",
                     "    case _:", "      out = None", "  print(out)"]),
      ("for-zip", ["  out = [q for q in t]", "  out2 = list(zip(t, t))", "  print(out, out2)"]),
  ]
  progs = []
  for si, (a0, b0) in enumerate(seqs):
    for a, b, od in ((a0, b0, "ab"), (b0, a0, "ba")):
      body = ["def g(*a):", "  return a"]
      n = 0
      for bn, bind in binders:
        for un, use in users:
          body += ["def f%d(c):" % n] + bind(a, b) + use + ["  return out", "f%d(1)" % n]
          n += 1
      progs.append(("union-shapes:%d%s" % (si, od), "\n".join(body) + "\n"))
  return progs


def edge_programs(per_program=20):
  """Bundles the edge statements (each on its own line; a module and a function-body variant) -> [(label, source)]."""
  st = edge_statements()
  progs = []
  for k in range(0, len(st), per_program):
    chunk = st[k:k + per_program]
    progs.append((f"edge{k // per_program}:module", "\n".join(chunk) + "\n"))
    progs.append((f"edge{k // per_program}:function", "def f(p):\n" + "\n".join("  " + c for c in chunk) + "\n  return p\nf(0)\n"))
  return progs
