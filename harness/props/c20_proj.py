"""C20 helpers: projection of Python source (via `ast`) to the mini syntax of coq/Merge/Model.v,
printing of mini trees as Coq terms, and the token serialisation shared with Model.ser_item.

Mini trees are nested tuples mirroring the Coq constructors; identifier leaves are `Nm(str)`,
opaque leaves `Op(str)`; `intern_tree` turns them into numbers (names ORDER PRESERVING, with the
fixed ids of Model.v for the names the code tests for; opaque ids from 100000)."""
import ast

RESERVED = ["Any", "Generic", "Literal", "Never", "Type", "TypeVar", "_", "__strict__", "bool",
            "builtins", "complex", "float", "int", "str", "typing"]
assert RESERVED == sorted(RESERVED)
RES_ID = {s: 1000 * (i + 1) for i, s in enumerate(RESERVED)}


class Nm(str):
  __slots__ = ()


class Op(str):
  __slots__ = ()


class NotExplorable(Exception):
  """The input is outside the modelled domain (the case is skipped and counted)."""


# ---------------------------------------------------------------------------------------------
# projection

def _full_name(node):
  """libcst.helpers.get_full_name_for_node on the ast counterpart; returns list of components or None."""
  if isinstance(node, ast.Name):
    return [node.id]
  if isinstance(node, ast.Constant) and node.value in (None, True, False):
    return [repr(node.value)]          # libcst parses None/True/False as Name
  if isinstance(node, ast.Attribute):
    inner = _full_name(node.value)
    return (inner if inner is not None else ["None"]) + [node.attr]
  if isinstance(node, ast.Call):
    return _full_name(node.func)
  if isinstance(node, ast.Subscript):
    return _full_name(node.value)
  return None


def _path(comps):
  return ("path", tuple(Nm(c) for c in comps))


def _opt(x):
  return ("None",) if x is None else ("Some", x)


def _dump(node):
  return ast.dump(node) if isinstance(node, ast.AST) else repr(node)


def proj_expr(e, src=None, strict=False):
  """Annotation / base-class expression."""
  if strict and src is not None:
    seg = ast.get_source_segment(src, e)
    if seg is not None and seg != ast.unparse(e):
      # libcst compares annotations with deep_equals (whitespace sensitive); the model compares
      # structure, so only canonically formatted annotations are in the domain
      raise NotExplorable("annotation not canonically formatted: %r" % seg)
  if isinstance(e, ast.Name):
    return ("EName", Nm(e.id))
  if isinstance(e, ast.Constant):
    if e.value is None or e.value is True or e.value is False:
      return ("EName", Nm(repr(e.value)))
    if isinstance(e.value, str):
      return ("EStr", Nm(e.value))
    return ("EOther", Op("const:" + repr(e.value)), ())
  if isinstance(e, ast.Attribute):
    comps = []
    cur = e
    while isinstance(cur, ast.Attribute):
      comps.append(cur.attr)
      cur = cur.value
    if isinstance(cur, ast.Name):
      comps.append(cur.id)
      comps.reverse()
      return ("EAttr", _path(comps[:-1]), Nm(comps[-1]))
    raise NotExplorable("attribute annotation on a non-name")
  if isinstance(e, ast.Subscript):
    sl = e.slice
    args = list(sl.elts) if isinstance(sl, ast.Tuple) else [sl]
    return ("ESub", proj_expr(e.value), tuple(proj_expr(a) for a in args))
  subs = [c for c in ast.iter_child_nodes(e) if isinstance(c, ast.expr)]
  kind = type(e).__name__
  if isinstance(e, ast.BinOp):
    kind += ":" + type(e.op).__name__
  elif isinstance(e, (ast.Call, ast.Lambda, ast.Dict, ast.Starred, ast.JoinedStr, ast.Compare,
                      ast.BoolOp, ast.UnaryOp, ast.IfExp, ast.ListComp, ast.NamedExpr)):
    raise NotExplorable("annotation expression kind " + kind)
  return ("EOther", Op(kind), tuple(proj_expr(c) for c in subs))


def proj_param(a, default, src):
  return ("mkParam", Nm(a.arg), _opt(proj_expr(a.annotation, src, True) if a.annotation is not None else None),
          _opt(Op(_dump(default)) if default is not None else None))


def proj_params(args, src):
  npos = len(args.posonlyargs) + len(args.args)
  defaults = [None] * (npos - len(args.defaults)) + list(args.defaults)
  allpos = args.posonlyargs + args.args
  pp = [proj_param(a, d, src) for a, d in zip(allpos, defaults)]
  posonly = tuple(pp[:len(args.posonlyargs)])
  pos = tuple(pp[len(args.posonlyargs):])
  if args.vararg is not None:
    star = ("StarArg", proj_param(args.vararg, None, src))
  elif args.kwonlyargs:
    star = ("BareStar",)
  else:
    star = ("NoStar",)
  kw = tuple(proj_param(a, d, src) for a, d in zip(args.kwonlyargs, args.kw_defaults))
  kwstar = _opt(proj_param(args.kwarg, None, src) if args.kwarg is not None else None)
  return ("mkParams", posonly, pos, star, kw, kwstar)


def _has_typevar_call(node):
  for n in ast.walk(node):
    if isinstance(n, ast.Call) and isinstance(n.func, ast.Name) and n.func.id == "TypeVar":
      return True
  return False


def proj_target(t):
  if isinstance(t, ast.Name):
    return ("TName", Nm(t.id))
  fn = _full_name(t)
  name = _opt(_path(fn) if fn is not None else None)
  if isinstance(t, ast.Attribute):
    return ("TOther", ("KAttr",), name, Op(_dump(t)))
  if isinstance(t, ast.Subscript):
    return ("TOther", ("KSub",), name, Op(_dump(t)))
  if isinstance(t, (ast.Tuple, ast.List)):
    elts = []
    for el in t.elts:
      v = el.value if isinstance(el, ast.Starred) else el
      f = _full_name(v)
      elts.append(_opt(_path(f) if f is not None else None))
    return ("TOther", ("KTuple", tuple(elts)), ("None",), Op(_dump(t)))
  raise NotExplorable("assignment target " + type(t).__name__)


BODY_FIELDS = ("body", "handlers", "orelse", "finalbody", "cases")


def proj_block(st, src, stub):
  """Compound statement: Block(id, [Block(sub_id, body_i)...]) in document order."""
  head = {}
  subs = []
  for f, v in ast.iter_fields(st):
    if f in BODY_FIELDS and isinstance(v, list):
      if f in ("handlers", "cases"):
        for h in v:
          hh = {ff: _dump(vv) for ff, vv in ast.iter_fields(h) if ff != "body"}
          subs.append(("Block", Op("%s:%s:%r" % (type(h).__name__, f, sorted(hh.items()))),
                       proj_body(h.body, src, stub)))
      elif v:
        subs.append(("Block", Op(f), proj_body(v, src, stub)))
    elif isinstance(v, list):
      head[f] = [_dump(x) for x in v]
    else:
      head[f] = _dump(v)
  return ("Block", Op("%s:%r" % (type(st).__name__, sorted(head.items()))), tuple(subs))


def proj_stmt(st, src, stub):
  if isinstance(st, (ast.FunctionDef, ast.AsyncFunctionDef)):
    deco = Op("%s:%s:%s" % (type(st).__name__, [_dump(d) for d in st.decorator_list],
                            [_dump(t) for t in getattr(st, "type_params", [])]))
    ret = proj_expr(st.returns, src, True) if st.returns is not None else None
    return ("Fun", Nm(st.name), deco, proj_params(st.args, src), _opt(ret), proj_body(st.body, src, stub))
  if isinstance(st, ast.ClassDef):
    hdr = Op("cls:%s:%s:%s" % ([_dump(d) for d in st.decorator_list], [_dump(k) for k in st.keywords],
                               [_dump(t) for t in getattr(st, "type_params", [])]))
    bases = []
    for b in st.bases:
      if isinstance(b, ast.Starred):
        raise NotExplorable("starred base")
      try:
        bases.append(proj_expr(b))
      except NotExplorable:
        if stub:
          raise
        bases.append(("EOther", Op(_dump(b)), ()))
    return ("Cls", Nm(st.name), hdr, tuple(bases), proj_body(st.body, src, stub))
  if isinstance(st, ast.Assign):
    val = ("mkVal", Op(_dump(st.value)), _has_typevar_call(st))
    return ("Assign", tuple(proj_target(t) for t in st.targets), val)
  if isinstance(st, ast.AnnAssign):
    val = None if st.value is None else ("mkVal", Op(_dump(st.value)), _has_typevar_call(st))
    t = proj_target(st.target)
    if not st.simple and isinstance(st.target, ast.Name):
      raise NotExplorable("parenthesised annotated name")
    return ("AnnAssign", t, proj_expr(st.annotation, src, True), _opt(val))
  if isinstance(st, (ast.Import, ast.ImportFrom)):
    is_from = isinstance(st, ast.ImportFrom)
    if any(a.asname for a in st.names) or any(a.name == "*" for a in st.names):
      raise NotExplorable("import alias / star import")
    if is_from:
      if st.level:
        raise NotExplorable("relative import")
      return ("Import", True, _path(st.module.split(".")), tuple(Nm(a.name) for a in st.names), (), 0)
    # `import a.b`: only its position matters to the model (AddImportsVisitor's import block); a source
    # `import typing` would make libcst qualify typing names instead of importing them (not modelled)
    if not stub and any(a.name.split(".")[0] == "typing" for a in st.names):
      raise NotExplorable("source has `import typing`")
    return ("Import", False, _path(st.names[0].name.split(".")), (), (), Op(_dump(st)))
  if isinstance(st, ast.Expr) and isinstance(st.value, ast.Constant) and isinstance(st.value.value, (str, bytes)):
    return ("Doc", Op(_dump(st.value)))
  if any(isinstance(getattr(st, f, None), list) and getattr(st, f) and isinstance(getattr(st, f)[0], (ast.stmt, ast.excepthandler, ast.match_case))
         for f in BODY_FIELDS):
    return proj_block(st, src, stub)
  return ("Other", Op(_dump(st)))


def proj_body(body, src, stub):
  lines = [s.lineno for s in body]
  if len(set(lines)) != len(lines):
    raise NotExplorable("several statements on one line")
  return tuple(proj_stmt(s, src, stub) for s in body)


def project(src, stub=False, strict=True):
  """Source text -> tuple of mini items (with Nm/Op leaves).  strict: require canonically formatted
  annotations (inputs only; the output's formatting is libcst's business)."""
  tree = ast.parse(src)
  return proj_body(tree.body, src if strict else None, stub)


# ---------------------------------------------------------------------------------------------
# interning

def _walk_leaves(t, names, ops):
  if isinstance(t, Nm):
    names.add(str(t))
  elif isinstance(t, Op):
    ops.setdefault(str(t), len(ops))
  elif isinstance(t, tuple):
    for x in t:
      _walk_leaves(x, names, ops)


class Interner:
  """Order-preserving ids for identifiers, sequential ids (>= 100000) for opaque strings."""

  def __init__(self, trees):
    names = set(RESERVED)
    self.ops = {}
    for t in trees:
      _walk_leaves(t, names, self.ops)
    self.names = {}
    base, k = 0, 0
    for s in sorted(names):
      if s in RES_ID:
        base, k = RES_ID[s], 0
        self.names[s] = base
      else:
        k += 1
        if k > 998:
          raise NotExplorable("too many identifiers")
        self.names[s] = base + k

  def op(self, s):
    if s not in self.ops:
      self.ops[s] = len(self.ops)
    return 100000 + self.ops[s]

  def tree(self, t):
    if isinstance(t, Nm):
      if str(t) not in self.names:
        raise NotExplorable("identifier %r appears only in the output" % str(t))
      return self.names[str(t)]
    if isinstance(t, Op):
      return self.op(str(t))
    if isinstance(t, tuple):
      return tuple(self.tree(x) for x in t)
    return t


# ---------------------------------------------------------------------------------------------
# Coq printing (of interned trees)

def coq(t):
  if isinstance(t, bool):
    return "true" if t else "false"
  if isinstance(t, int):
    return str(t)
  assert isinstance(t, tuple), t
  if not t or not isinstance(t[0], str):
    return "[" + "; ".join(coq(x) for x in t) + "]"
  tag = t[0]
  if tag == "path":
    return "[" + "; ".join(coq(x) for x in t[1]) + "]"
  if len(t) == 1:
    return tag
  return "(" + tag + " " + " ".join(coq(x) for x in t[1:]) + ")"


# ---------------------------------------------------------------------------------------------
# token serialisation (mirror of Model.ser_item)

def _ser_list(f, l, out):
  out.append(len(l))
  for x in l:
    f(x, out)


def _ser_opt(f, o, out):
  if o[0] == "None":
    out.append(0)
  else:
    out.append(1)
    f(o[1], out)


def _ser_path(p, out):
  out.append(len(p[1]))
  out.extend(p[1])


def ser_expr(e, out):
  tag = e[0]
  if tag == "EName":
    out += [1, e[1]]
  elif tag == "EAttr":
    out.append(2); _ser_path(e[1], out); out.append(e[2])
  elif tag == "ESub":
    out.append(3); ser_expr(e[1], out); _ser_list(ser_expr, e[2], out)
  elif tag == "EStr":
    out += [4, e[1]]
  else:
    out += [5, e[1]]; _ser_list(ser_expr, e[2], out)


def ser_param(p, out):
  out.append(p[1]); _ser_opt(ser_expr, p[2], out); _ser_opt(lambda d, o: o.append(d), p[3], out)


def ser_params(ps, out):
  _ser_list(ser_param, ps[1], out); _ser_list(ser_param, ps[2], out)
  st = ps[3]
  if st[0] == "NoStar":
    out.append(0)
  elif st[0] == "BareStar":
    out.append(1)
  else:
    out.append(2); ser_param(st[1], out)
  _ser_list(ser_param, ps[4], out); _ser_opt(ser_param, ps[5], out)


def ser_value(v, out):
  out += [v[1], 1 if v[2] else 0]


def ser_target(t, out):
  if t[0] == "TName":
    out += [0, t[1]]
    return
  k = t[1]
  if k[0] == "KAttr":
    out.append(1)
  elif k[0] == "KSub":
    out.append(2)
  else:
    out.append(3); _ser_list(lambda o, oo: _ser_opt(_ser_path, o, oo), k[1], out)
  _ser_opt(_ser_path, t[2], out); out.append(t[3])


def ser_item(it, out):
  tag = it[0]
  if tag == "Fun":
    out += [10, it[1], it[2]]; ser_params(it[3], out); _ser_opt(ser_expr, it[4], out); _ser_list(ser_item, it[5], out)
  elif tag == "Cls":
    out += [11, it[1], it[2]]; _ser_list(ser_expr, it[3], out); _ser_list(ser_item, it[4], out)
  elif tag == "Assign":
    out.append(12); _ser_list(ser_target, it[1], out); ser_value(it[2], out)
  elif tag == "AnnAssign":
    out.append(13); ser_target(it[1], out); ser_expr(it[2], out); _ser_opt(ser_value, it[3], out)
  elif tag == "Block":
    out += [14, it[1]]; _ser_list(ser_item, it[2], out)
  elif tag == "Import":
    out += [15, 1 if it[1] else 0]; _ser_path(it[2], out)
    names = list(it[4]) + list(it[3])
    out.append(len(names)); out.extend(names); out.append(it[5])
  elif tag == "Doc":
    out += [16, it[1]]
  elif tag == "Other":
    out += [17, it[1]]
  elif tag == "Added":
    ser_item(it[1], out)
  else:
    raise ValueError(tag)


def ser_module(items):
  out = [len(items)]
  for it in items:
    ser_item(it, out)
  return out
