"""C07 — the typegraph solver decides binding visibility correctly.

Proof: coq/Props/C07.v over the model coq/Typegraph/Graph.v + Solver.v (a line-by-line Gallina
transcription of pytype/typegraph/solver.cc and the parts of typegraph.cc it reads).
Tie: every typegraph is built on the real cfg.Program (cfg.so compiled from the current sources),
read back from it, and the same query sequence is answered by the implementation and by the extracted
model threading one solver state (memo + path cache); every answer is compared.
Oracle: harness/props/c07_oracle.py decides the four clauses of the statement directly on the
implementation's answers (independent of the model).
"""
import collections
import itertools
import json
import multiprocessing
import os
import subprocess
import time

import common
import c07_graphs as G
import c07_harvest as H
import c07_loops as L
import c07_oracle as O

DRIVER = os.path.join(common.VERIF, "harness", "ocaml", "solver_driver.ml")


def model_exe():
  return common.build_extracted("solver", "Extract/ExtractSolver.v", DRIVER, ["solver_model"])


# ------------------------------------------------------------------------------------------
# the property clauses on the implementation's answers

def graph_class(d):
  return ("acyclic" if G.is_acyclic(d) else "cyclic") + ("+cond" if G.has_conditions(d) else "")


def check_clauses(d, queries, answers, mode):
  """Returns a list of (fingerprint, what, detail) — violations of the statement by the answers."""
  orc = O.Oracle(d)
  acyc = G.is_acyclic(d)
  hc = G.has_conditions(d)
  cls = graph_class(d)
  seen_true = collections.defaultdict(bool)
  seen_false = collections.defaultdict(bool)
  hq = []
  ai = 0
  for q in queries:
    if q[0] == "R":
      continue
    a = answers[ai]; ai += 1
    if q[0] in ("H", "V"):
      key = (q[1], tuple(sorted(set(q[2]))))
      hq.append((key, a == "1"))
      if a == "1":
        seen_true[key] = True
      else:
        seen_false[key] = True
  out = []
  done = set()
  for key, a in hq:
    if (key, a) in done:
      continue
    done.add((key, a))
    n, S = key
    if acyc and not hc:
      e = orc.expl(n, S, False)
      if e != a:
        out.append(("i:%s-but-%s:%s" % ("accepted" if a else "rejected",
                                        "unexplained" if a else "explained", cls),
                    "clause (i): on an acyclic condition-free graph the answer differs from the "
                    "existence of an explaining path",
                    {"node": n, "goals": list(S), "impl": a, "explained": e}))
    if acyc and hc:
      e = orc.expl(n, S, True)
      if e and not a:
        out.append(("ii:rejected-but-explained:" + cls,
                    "clause (ii): a combination with an explaining path (all conditions on the path "
                    "required) is rejected",
                    {"node": n, "goals": list(S), "impl": a, "explained_with_conditions": e}))
    if a:
      bad = orc.unreachable_goals(n, S)
      if bad:
        fp = "iii:unreachable-goal-accepted:" + cls
        out.append((fp, "clause (iii): accepted combination contains a goal none of whose origins "
                        "is backward reachable from the query node",
                    {"node": n, "goals": list(S), "unreachable": bad}))
      for m in range(0, len(S)):
        for sub in itertools.combinations(S, m):
          if seen_false.get((n, sub)):
            out.append(("iv:subset-rejected:" + (cls if acyc else "cyclic"),
                        "clause (iv): a subset of an accepted combination is rejected",
                        {"node": n, "goals": list(S), "subset": list(sub)}))
      if seen_false.get((n, S)):
        # the improper subset: the SAME combination, at the same node of the same graph, is accepted by one
        # query and rejected by another (another position in the solver's lifetime / a fresh solver)
        out.append(("iv:same-set-flips:" + (cls if acyc else "cyclic"),
                    "clause (iv) with the subset equal to the set: the same combination is both accepted and "
                    "rejected at the same node of the same graph, depending on what the solver was asked before",
                    {"node": n, "goals": list(S), "subset": list(S)}))
  return out


NOT_MODELLED = ":not-as-modelled"


def mismatch_keys(queries, answers, model):
  """(node, goal set) of every H/V query whose answer differs between cfg.so and the Coq model."""
  keys = set()
  ai = 0
  for q in queries:
    if q[0] == "R":
      continue
    a = answers[ai] if ai < len(answers) else None
    m = model[ai] if ai < len(model) else None
    ai += 1
    if a != m and q[0] in ("H", "V"):
      keys.add((q[1], tuple(sorted(set(q[2])))))
  return keys


def classify(desc, queries, answers, model, mode):
  """check_clauses, with the fingerprint of a violation that involves an answer the Coq model of solver.cc does
  NOT reproduce marked `:not-as-modelled`: the listed findings are behaviours of the algorithm as modelled (each
  refuted in Coq by a witness); a clause violation the model does not predict is a different violation."""
  out = []
  bad = mismatch_keys(queries, answers, model) if model is not None else set()
  for fp, what, detail in check_clauses(desc, queries, answers, mode):
    involved = {(detail["node"], tuple(detail["goals"]))}
    if "subset" in detail:
      involved.add((detail["node"], tuple(detail["subset"])))
    if involved & bad:
      detail = dict(detail, model_disagrees_on=sorted([n, list(g)] for n, g in involved & bad))
      out.append((fp + NOT_MODELLED, what + " (and cfg.so answers differently from the Coq model of solver.cc here)", detail))
    else:
      out.append((fp, what, detail))
  # stable order, the unmodelled ones first
  out.sort(key=lambda v: not v[0].endswith(NOT_MODELLED))
  return out


_EXE = [None]
_PROC = [None]


def model_answers(desc, queries):
  """The Coq model's answers for one case, through one long-lived model process (used while shrinking)."""
  if _EXE[0] is None:
    return None
  try:
    if _PROC[0] is None:
      _PROC[0] = G.ModelProc(_EXE[0])
    return _PROC[0].ask(G.model_line(desc, queries))
  except Exception:  # pylint: disable=broad-except
    _PROC[0] = None
    return None


# ------------------------------------------------------------------------------------------
# one case = (intended description, queries, mode)

def with_mode(queries, mode):
  if mode != "fresh":
    return list(queries)
  out = []
  for q in queries:
    out.append(("R",)); out.append(q)
  return out


def run_impl_case(d, queries, mode="shared"):
  """Returns (readback description, answers) or raises.  mode "staged": the graph is built with the first queries
  asked after every AddOrigin (see G.Impl); the answers to `queries` afterwards must be those of a solver that
  has seen nothing (the last mutation invalidates), i.e. the model's answers from an empty memo."""
  probes = [q for q in queries if q[0] != "R"][:3] if mode == "staged" else None
  im = G.Impl(d, probes)
  try:
    ans = im.run(queries)
  except RuntimeError:
    # no binding has an origin: nothing can invalidate; answer each query on a new Program
    ans = []
    for q in queries:
      if q[0] == "R":
        im = G.Impl(d)
      else:
        ans.extend(im.run([q]))
  return im.desc, ans


def eval_chunk(args):
  """Worker: evaluates a list of cases.  Returns a summary dict."""
  exe, cases = args
  summ = {"n": 0, "answers": 0, "true": 0, "mismatch": [], "violations": [], "construct_bad": [],
          "hist": collections.Counter(), "keys": [], "model_fail": None}
  lines = []
  impl = []
  for name, d, queries, mode in cases:
    qs = with_mode(queries, mode)
    try:
      desc, ans = run_impl_case(d, qs, mode)
    except Exception as e:  # pylint: disable=broad-except
      summ["construct_bad"].append((name, repr(e)))
      continue
    if not G.desc_equal_modulo_ssets_order(G.normalise(d), desc):
      summ["construct_bad"].append((name, "readback differs from the intended graph"))
      continue
    impl.append((name, desc, qs, ans, mode, d))
    lines.append(G.model_line(desc, qs + [("W",)]))
  pr = subprocess.run([exe], input="\n".join(lines) + "\n", capture_output=True, text=True)
  if pr.returncode != 0:
    summ["model_fail"] = pr.stderr[-1500:]
    return summ
  mlines = pr.stdout.split("\n")
  for (name, desc, qs, ans, mode, d), ml in zip(impl, mlines):
    mo = ml.split(" ") if ml else []
    flags = mo[-1] if mo else ""
    mo = mo[:-1]
    summ["n"] += 1
    summ["answers"] += len(ans)
    nt = sum(1 for a in ans if a == "1")
    summ["true"] += nt
    cls = graph_class(desc)
    summ["hist"]["class:" + cls] += 1
    summ["hist"]["mode:" + mode] += 1
    nn = len(desc["nodes"])
    summ["hist"]["nodes<=4" if nn <= 4 else "nodes<=10" if nn <= 10 else "nodes<=20" if nn <= 20 else "nodes<=40"] += 1
    nontrivial = 0 < nt < len(ans)
    summ["keys"].append(hash(json.dumps([desc, qs], sort_keys=True)) if nontrivial else None)
    # the model's own classification must agree with the harness's (wf, acyclic, no conditions)
    want = "1" + ("1" if G.is_acyclic(desc) else "0") + ("0" if G.has_conditions(desc) else "1")
    if mo != ans or flags != want:
      if len(summ["mismatch"]) < 5:
        summ["mismatch"].append({"case": name, "desc": desc, "queries": qs, "impl": ans, "model": mo,
                                 "flags": flags, "flags_expected": want})
      else:
        summ["mismatch"].append(None)
    for fp, what, detail in classify(desc, qs, ans, mo, mode):
      if sum(1 for v in summ["violations"] if v and v[0] == fp) < 3:
        summ["violations"].append((fp, what, {"desc": G.normalise(d) if mode == "staged" else desc,
                                              "queries": qs, "mode": mode,
                                              "detail": detail, "case": name}))
      else:
        summ["violations"].append((fp, None, None))
  return summ


# ------------------------------------------------------------------------------------------
# case generation

def directed_loop_case(r):
  """A loop whose body carries a dependency cycle through source sets (x = f(y); y = g(x)), a
  conditional node downstream, and goals with missing / unreachable / reachable origins: the input
  class on which the provisional memo entry of RecallOrFindSolution matters."""
  k = r.randint(2, 4)                      # loop length
  pre = r.randint(0, 2)
  post = r.randint(1, 3)
  n = pre + k + post + 1                   # + one node off to the side (never reachable backwards)
  nodes = [{"inc": [], "cond": None} for _ in range(n)]
  for i in range(1, pre + k + post):
    nodes[i]["inc"].append(i - 1)
  nodes[pre]["inc"].append(pre + k - 1)    # back edge closing the loop
  side = n - 1
  nodes[side]["inc"].append(r.randrange(pre + k + post))    # side is a successor, not a predecessor
  nb = k + r.randint(1, 3)
  bindings = []
  for j in range(k):                       # the dependency cycle around the loop
    src = [(j - 1) % k] if r.random() < 0.85 else []
    bindings.append({"var": j if r.random() < 0.7 else 0, "origins": [[pre + j, [src]]]})
  for j in range(k, nb):
    c = r.random()
    if c < 0.4:
      os_ = []                             # no origin at all
    elif c < 0.7:
      os_ = [[side, [[]]]]                 # origin at the unreachable side node
    else:
      os_ = [[r.randrange(pre + k + post), [[] if r.random() < 0.5 else [r.randrange(k)]]]]
    bindings.append({"var": k + (j - k) % 2, "origins": os_})
  for i in range(pre + k, pre + k + post):
    if r.random() < 0.7:
      nodes[i]["cond"] = r.randrange(k) if r.random() < 0.8 else r.randrange(nb)
  if r.random() < 0.3:
    nodes[r.randrange(pre, pre + k)]["cond"] = r.randrange(nb)
  d = G.normalise({"nodes": nodes, "bindings": bindings})
  qs = []
  for node in range(pre + k, pre + k + post):
    for b in range(nb):
      qs.append(("H", node, [b]))
    for _ in range(3):
      s = sorted(r.sample(range(nb), min(nb, r.randint(2, 3))))
      qs.append(("H", node, s))
      for m in range(1, len(s)):
        for sub in itertools.combinations(s, m):
          qs.append(("H", node, list(sub)))
  r.shuffle(qs) if r.random() < 0.3 else None
  return d, qs


def braid_case(r):
  """A shortest backward path a0..ak from the query node to the origin node of the goal, with
  overlapping detours (a_i ~> a_j around a conditional a_m, i < m < j) of length >= j-i through
  fresh nodes; conditions on inner path nodes.  The input class on which FindNodeBackwards'
  articulation-point computation matters."""
  k = r.randint(3, 6)
  names = ["a%d" % i for i in range(k + 1)]
  inc = {n: [] for n in names}
  for i in range(k):
    inc["a%d" % i].append("a%d" % (i + 1))
  for t in range(r.randint(1, 3)):
    i = r.randrange(0, k - 1)
    j = r.randint(i + 2, k)
    ln = (j - i) + r.randint(0, 1)          # number of edges of the detour
    prev = "a%d" % i
    for u in range(ln - 1):
      x = "x%d_%d" % (t, u)
      inc[x] = []
      inc[prev].append(x) if r.random() < 0.5 else inc[prev].insert(0, x)
      prev = x
    inc[prev].append("a%d" % j)
  order = list(inc)
  r.shuffle(order)
  # keep the shortest path first in each incoming list most of the time (BFS tie-breaking)
  idx = {n: i for i, n in enumerate(order)}
  nb = r.randint(2, 4)
  nodes = [{"inc": [idx[m] for m in inc[n]], "cond": None} for n in order]
  bindings = [{"var": 0, "origins": [[idx["a%d" % k], [[]]]]}]
  for j in range(1, nb):
    c = r.random()
    if c < 0.5:
      os_ = []
    elif c < 0.8:
      os_ = [[idx["a%d" % r.randint(1, k)], [[]]]]
    else:
      os_ = [[r.randrange(len(order)), [[0] if r.random() < 0.5 else []]]]
    bindings.append({"var": j, "origins": os_})
  for i in range(1, k):
    if r.random() < 0.6:
      nodes[idx["a%d" % i]]["cond"] = r.randrange(1, nb)
  if r.random() < 0.2:
    nodes[idx["a0"]]["cond"] = r.randrange(1, nb)
  d = G.normalise({"nodes": nodes, "bindings": bindings})
  qs = [("H", idx["a0"], [0])]
  for n in r.sample(range(len(order)), min(3, len(order))):
    qs.append(("H", n, [0]))
    qs.append(("H", n, sorted(r.sample(range(nb), 2))))
  return d, qs


def blocker_braid_case(r):
  """A braid (shortest path with several overlapping detours, conditions on inner nodes) whose three
  goal variables are each re-bound at inner nodes: the pending goal set decides the blocked set, hence
  the shortest path, hence which conditional node FindNodeBackwards takes for an articulation point.
  All subsets of the three goals are asked at the start node (clause iv on acyclic+cond graphs)."""
  k = r.randint(3, 5)
  names = ["a%d" % i for i in range(k + 1)]
  inc = {n: [] for n in names}
  for i in range(k):
    inc["a%d" % i].append("a%d" % (i + 1))
  for t in range(r.randint(2, 5)):
    i = r.randrange(0, k - 1)
    j = r.randint(i + 2, k)
    ln = (j - i) + r.randint(0, 1)
    prev = "a%d" % i
    for u in range(ln - 1):
      x = "x%d_%d" % (t, u)
      inc[x] = []
      inc[prev].append(x) if r.random() < 0.5 else inc[prev].insert(0, x)
      prev = x
    inc[prev].append("a%d" % j) if r.random() < 0.5 else inc[prev].insert(0, "a%d" % j)
  order = list(inc)
  idx = {n: i for i, n in enumerate(order)}
  nodes = [{"inc": [idx[m] for m in inc[n]], "cond": None} for n in order]
  fin = idx["a%d" % k]; st = idx["a0"]
  inner = [i for i in range(len(order)) if i not in (fin, st)]
  bindings = []
  goals = []
  for v in range(3):
    goals.append(len(bindings))
    bindings.append({"var": v, "origins": [[fin, [[]]]]})
    for _ in range(r.choice([0, 1, 1, 2])):
      bindings.append({"var": v, "origins": [[r.choice(inner), [[]]]]})
  unsat = len(bindings); bindings.append({"var": 3, "origins": []})
  sat = len(bindings); bindings.append({"var": 4, "origins": [[fin, [[]]]]})
  for i in inner:
    if r.random() < 0.35:
      nodes[i]["cond"] = unsat if r.random() < 0.75 else sat
  d = G.normalise({"nodes": nodes, "bindings": bindings})
  qs = []
  for m in (3, 2, 1):
    for sub in itertools.combinations(goals, m):
      qs.append(("H", st, list(sub)))
  return d, qs


def random_cases(r, tier_scale):
  cases = []
  def add(prefix, count, max_nodes, max_vars, max_bind, nsets):
    for i in range(count):
      nn = r.randint(1, max_nodes); nv = r.randint(1, max_vars); nb = r.randint(1, max_bind)
      style = "wild" if i % 5 == 4 else "program"
      d = G.random_graph(r, nn, nv, nb, cyclic=(i % 3 == 0), p_cond=(0.25 if i % 2 else 0.0), style=style)
      qs = G.random_queries(r, d, nsets)
      cases.append(("%s%d" % (prefix, i), d, qs, "fresh" if i % 4 == 3 else "staged" if i % 4 == 1 else "shared"))
  add("small", 4000 * tier_scale, 7, 3, 8, 6)
  add("mid", 1400 * tier_scale, 18, 6, 20, 8)
  add("big", 500 * tier_scale, 40, 12, 40, 10)
  for i in range(500 * tier_scale):
    d, qs = directed_loop_case(r)
    cases.append(("loop%d" % i, d, qs, "fresh" if i % 3 == 2 else "shared"))
  for i in range(500 * tier_scale):
    d, qs = braid_case(r)
    cases.append(("braid%d" % i, d, qs, "fresh" if i % 3 == 2 else "staged" if i % 3 == 1 else "shared"))
  for i in range(400 * tier_scale):
    d, qs = blocker_braid_case(r)
    cases.append(("bbraid%d" % i, d, qs, "fresh" if i % 2 else "shared"))
  for i in range(1500 * tier_scale):
    d, qs = L.random_case(r, want_cond=(i % 3 == 2))
    cases.append(("mloop%d" % i, d, with_fresh_tail(qs), "shared"))
  return cases


def with_fresh_tail(qs):
  """Appends every distinct H/V query once more, each answered by a FRESH solver: any answer inside a solver
  lifetime that a fresh solver does not give shows up as clause (iv) on the same set (and in the model diff)."""
  out = list(qs)
  seen = set()
  for q in qs:
    if q[0] in ("H", "V"):
      k = (q[1], tuple(sorted(set(q[2]))))
      if k not in seen:
        seen.add(k)
        out.append(("R",)); out.append(("H", q[1], list(k[1])))
  return out


def loop_scope_cases(thorough):
  """The small exhaustive scope of the loop family (c07_loops.exhaustive_cases): quick = the 4-node loop, every
  source-set choice, every allocation order, every ordered PAIR of distinct single-goal queries per lifetime;
  thorough adds the 5-node loop and every ordered triple."""
  if thorough:
    cs = L.exhaustive_cases(shapes=("std", "deep"), lifetimes=(2, 3))
  else:
    cs = L.exhaustive_cases(shapes=("std",), lifetimes=(2,))
  return [(name, d, with_fresh_tail(qs), "shared") for name, d, qs in cs]


def harvested_cases(res, r, n_programs):
  """Typegraphs the real VM builds: analyse small generated programs (branches, joins, conditional
  expressions, boolean operators), dump the final typegraph through the public cfg API, ask
  IsVisible for every binding the program itself created at every non-root node (+ some
  combinations with their subsets), reduce the graph to what the queries read.  The answers of the
  ORIGINAL program object are compared with the answers of the rebuilt graph (is the dump faithful?)."""
  from pytype import config, io  # pylint: disable=import-outside-toplevel
  cases = []
  n_ok = n_diff = 0
  t0 = time.time()
  for i, src in enumerate(H.programs(r, n_programs)):
    try:
      ret, _ = io.generate_pyi(src, config.Options.create(python_version=(3, 12)))
      p = ret.context.program
      desc, nodes, bs = H.dump_program(p)
    except Exception:  # pylint: disable=broad-except
      continue          # not explorable (pytype error / missing typeshed): not a violation
    own = sorted(i for i, b in bs.items() if any(o.where.id >= 1 for o in b.origins))
    if len(own) > 40:
      own = sorted(r.sample(own, 40))
    interest = list(range(1, len(nodes)))
    if not own or not interest:
      continue
    qs = H.harvest_queries(r, desc, interest, own, max_sets=12)
    # what the live program object answers (its solver may hold the VM's own memo; these graphs are acyclic)
    orig = ["1" if bs[q[2][0]].IsVisible(nodes[q[1]]) else "0" for q in qs if len(q[2]) == 1]
    d2, q2 = H.reduce_desc(desc, qs)
    try:
      _, ans = run_impl_case(d2, q2)
    except Exception as e:  # pylint: disable=broad-except
      res.obligation("harvest:rebuild:%d" % i, False, repr(e))
      continue
    rebuilt = [a for q, a in zip(q2, ans) if len(q[2]) == 1]
    n_ok += 1
    if orig != rebuilt:
      n_diff += 1
      if n_diff <= 2:
        res.obligation("harvest:rebuilt-graph-answers-like-the-live-program:%d" % i, False,
                       "src=%r first difference at query %d" % (
                           src, next(k for k, (a, b) in enumerate(zip(orig, rebuilt)) if a != b)))
    cases.append(("real%d" % i, d2, q2, "shared"))
  res.extra["harvested_programs"] = n_ok
  res.extra["harvest_wall_s"] = round(time.time() - t0, 1)
  res.obligation("harvest:rebuilt-graphs-faithful", n_diff == 0, "%d of %d programs differ" % (n_diff, n_ok))
  return cases


def sampled_scope_case(r):
  """Uniform-ish sample from the design's small scope: <=4 nodes, <=5 edges, 2 variables, <=4 bindings,
  <=2 origins with <=2 source sets each, <=1 condition; all query nodes, all goal subsets <=3."""
  nn = r.randint(1, 4)
  pairs = [(a, b) for a in range(nn) for b in range(nn) if a != b]
  es = r.sample(pairs, min(len(pairs), r.randint(0, 5)))
  nodes = [{"inc": [a for a, b in es if b == i], "cond": None} for i in range(nn)]
  nb = r.randint(1, 4)
  bindings = []
  for i in range(nb):
    os_ = []
    for w in r.sample(range(nn), min(nn, r.choice([0, 1, 1, 1, 2, 2]))):
      ssets = []
      for _ in range(r.choice([1, 1, 2])):
        s = sorted(r.sample(range(nb), r.choice([0, 0, 1, 1, 2]) if nb >= 2 else r.choice([0, 1])))
        if s not in ssets:
          ssets.append(s)
      os_.append([w, ssets])
    bindings.append({"var": r.randrange(2), "origins": os_})
  if r.random() < 0.5:
    nodes[r.randrange(nn)]["cond"] = r.randrange(nb)
  d = G.normalise({"nodes": nodes, "bindings": bindings})
  return d, G.all_queries(d)


EXHAUSTIVE_SCOPES = [
    # name, (n_nodes, max_edges, n_bind, max_ss_size, two_ssets, with_cond), description
    ("x2n3b", (2, 2, 3, 2, True, True),
     "2 nodes, every edge set, 3 bindings/<=2 variables, one origin each anywhere, one or two source "
     "sets of size <=2 over the other bindings, <=1 conditional node"),
    ("x3n3b", (3, 6, 3, 2, False, False),
     "3 nodes, every edge set (cycles included), 3 bindings/<=2 variables, one origin each anywhere, "
     "one source set of size <=2, no conditions"),
    ("x3n2bc", (3, 6, 2, 1, True, True),
     "3 nodes, every edge set, 2 bindings/<=2 variables, one or two source sets, <=1 conditional node"),
    ("x3n3b0c", (3, 6, 3, 2, False, True, True),
     "3 nodes, every edge set, 3 bindings/<=2 variables, binding 0 WITHOUT origin, the others one origin "
     "anywhere with one source set of size <=2, <=1 conditional node (contains the clause-iii witness)"),
    ("x4n2bc", (4, 4, 2, 1, False, True),
     "4 nodes, every edge set with <=4 edges, 2 bindings/<=2 variables, one source set, <=1 conditional node"),
]


def exhaustive_cases(scope, shard, nshards):
  name, params, _ = scope
  for idx, d in enumerate(G.exhaustive_graphs(*params)):
    if idx % nshards != shard:
      continue
    yield ("%s#%d" % (name, idx), d, G.all_queries(d), "shared")


def exhaustive_worker(args):
  exe, scope, shard, nshards, deadline = args
  tot = {"n": 0, "answers": 0, "true": 0, "mismatch": [], "violations": [], "construct_bad": [],
         "hist": collections.Counter(), "keys": [], "model_fail": None, "complete": True}
  batch = []
  def flush():
    s = eval_chunk((exe, batch))
    for k in ("n", "answers", "true"):
      tot[k] += s[k]
    tot["hist"].update(s["hist"])
    tot["mismatch"] += s["mismatch"][:5]
    tot["violations"] += [v for v in s["violations"]][:20]
    tot["construct_bad"] += s["construct_bad"][:3]
    tot["nontrivial"] = tot.get("nontrivial", 0) + sum(1 for k in s["keys"] if k is not None)
    if s["model_fail"]:
      tot["model_fail"] = s["model_fail"]
    del batch[:]
  for c in exhaustive_cases(scope, shard, nshards):
    batch.append(c)
    if len(batch) >= 4000:
      flush()
      if time.time() > deadline:
        tot["complete"] = False
        break
  if batch:
    flush()
  return tot


# ------------------------------------------------------------------------------------------
# shrinking

def _still(fp, d, queries, mode):
  try:
    desc, ans = run_impl_case(d, queries, mode)
  except Exception:  # pylint: disable=broad-except
    return None
  mo = model_answers(desc, queries) if fp.endswith(NOT_MODELLED) else None
  for f, what, detail in classify(desc, queries, ans, mo, mode):
    if f == fp:
      return (desc, detail)
  return None


def shrink(fp, d, queries, mode, budget_s=20.0):
  """Greedy: drop queries, edges, source-set members, source sets, origins, conditions while a
  violation with the same fingerprint remains."""
  deadline = time.time() + budget_s
  d = json.loads(json.dumps(d))
  queries = [tuple(q) for q in queries]
  def ok(dd, qq):
    return time.time() < deadline and _still(fp, dd, qq, mode) is not None
  # queries: keep only H/V and R
  qq = [q for q in queries if q[0] in ("H", "V", "R")]
  if ok(d, qq):
    queries = qq
  changed = True
  while changed and time.time() < deadline:
    changed = False
    i = len(queries) - 1
    while i >= 0 and time.time() < deadline:
      cand = queries[:i] + queries[i + 1:]
      if ok(d, cand):
        queries = cand; changed = True
      i -= 1
    for ni, n in enumerate(d["nodes"]):
      for m in list(n["inc"]):
        dd = json.loads(json.dumps(d)); dd["nodes"][ni]["inc"].remove(m)
        if ok(dd, queries):
          d = dd; changed = True
      if d["nodes"][ni]["cond"] is not None:
        dd = json.loads(json.dumps(d)); dd["nodes"][ni]["cond"] = None
        if graph_class(dd) == graph_class(d) and ok(dd, queries):
          d = dd; changed = True
    for bi, b in enumerate(d["bindings"]):
      for oi in range(len(d["bindings"][bi]["origins"]) - 1, -1, -1):
        dd = json.loads(json.dumps(d)); del dd["bindings"][bi]["origins"][oi]
        if ok(dd, queries):
          d = dd; changed = True
          continue
        for si in range(len(d["bindings"][bi]["origins"][oi][1]) - 1, -1, -1):
          if len(d["bindings"][bi]["origins"][oi][1]) > 1:
            dd = json.loads(json.dumps(d)); del dd["bindings"][bi]["origins"][oi][1][si]
            if ok(dd, queries):
              d = dd; changed = True
              continue
          for x in list(d["bindings"][bi]["origins"][oi][1][si]):
            dd = json.loads(json.dumps(d)); dd["bindings"][bi]["origins"][oi][1][si].remove(x)
            dd = G.normalise(dd)
            if len(dd["bindings"][bi]["origins"]) == len(d["bindings"][bi]["origins"]) and \
               len(dd["bindings"][bi]["origins"][oi][1]) == len(d["bindings"][bi]["origins"][oi][1]) and ok(dd, queries):
              d = dd; changed = True
  return d, queries


# ------------------------------------------------------------------------------------------

def load_corpus():
  cdir = os.path.join(common.CORPUS, "C07")
  out = []
  for f in sorted(os.listdir(cdir)) if os.path.isdir(cdir) else []:
    if f.endswith(".json"):
      j = json.load(open(os.path.join(cdir, f)))
      out.append(("corpus:" + f, j["desc"], [tuple(q) for q in j["queries"]], j.get("mode", "shared")))
  return out


def common_coqchk(pid):
  r = subprocess.run(["timeout", "1500", "coqchk", "-silent", "-o", "-Q", common.COQ, "PV", f"PV.Props.{pid}"],
                     capture_output=True, text=True, cwd=common.COQ)
  return r.returncode == 0, r.stdout + r.stderr


def run(res):
  thorough = res.tier == "thorough"
  res.rule = (
      "typegraphs built on the real cfg.Program and read back from it; random CFGs (1..40 nodes, backbone + "
      "branch/join edges, back edges in 1/3, 'wild' uniform edges in 1/5), 1..12 variables, 1..40 bindings "
      "with 0..3 origins x 1..2 source sets of size 0..3, node conditions in 1/2 of the graphs; plus "
      "directed loop graphs carrying a source-set dependency cycle, conditions after the loop and goals "
      "with no / unreachable origins; and directed 'braid' graphs (a shortest path with overlapping "
      "detours around conditional nodes), the same with every goal variable re-bound at inner nodes and all "
      "subsets of three goals asked; and loops with loop-carried, MUTUALLY DEPENDENT source sets (c07_loops: 1-3 "
      "variables updated in the loop from each other and from pre-loop definitions, optional conditions, both "
      "binding allocation orders, several query orders and several solver lifetimes per graph, every distinct "
      "query once more by a fresh solver) as random members and as a small exhaustive scope (4-node loop, every "
      "source-set choice, every allocation order, every ordered pair - thorough: triple, and the 5-node loop - of "
      "single-goal queries per lifetime); and typegraphs HARVESTED FROM REAL VM RUNS (small generated "
      "programs with branches/joins/conditional expressions analysed by pytype, final typegraph dumped "
      "through the public cfg API, IsVisible asked for every program-made binding at every node, answers "
      "of the live program compared with the rebuilt graph). Queries per graph: HasCombination on random nodes x goal sets of "
      "size 1..3 followed by every non-empty proper subset, CanHaveCombination, Filter(strict/non-strict), "
      "IsVisible, a duplicate-goal vector and the empty vector; all answered by ONE solver (memo and path "
      "cache shared across the queries) or, in 1/4 of the cases, with the solver invalidated before every "
      "query. Thorough adds bounded-exhaustive scopes (every graph, every query node, every goal subset "
      "of size <=3) listed in coverage.exhaustive_scopes. A case counts as non-trivial when its answers "
      "contain both True and False; distinct by (graph, query list).")
  res.assumptions = [
      "C++ compiler/STL semantics; std::unordered_* iteration order assumed not to reach any answer "
      "(used for membership/lookup only); State::Hash assumed injective on the states of one query (StateSet)",
      "Origin::source_sets iteration order (raw pointer order) is read back from the implementation and given "
      "to the model; an origin without any source set cannot be built from Python and is exercised in Coq only",
      "CanHaveCombination: the model's graph-reachability test is PROVED equal to the C09 bit-matrix query "
      "for graphs built by NewCFGNode/ConnectTo histories (Props/C07.v can_have_combination_uses_bit_matrix)",
      "metrics/logging side effects of the solver are not modelled",
      "extraction via ExtrOcamlBasic (bool/list/option/prod mapped to OCaml's), nat kept inductive",
      "generator, differ and oracle in harness/props/c07*.py"]
  common.coq_obligations(res, "C07")
  common.bootstrap_pytype()
  try:
    exe = model_exe()
  except common.BuildError as e:
    res.obligation("model-build", False, str(e)[-2000:])
    return "proof"
  _EXE[0] = exe
  res.trusted_base += [
      "Coq extraction (ExtrOcamlBasic only) + OCaml 4.13.1 ocamlopt + harness/ocaml/solver_driver.ml",
      "out-of-tree g++ build of /repo/pytype/typegraph/*.cc (harness/common.py build_cfg)",
      "harness/props/c07_oracle.py (independent reading of the property statement)"]
  r = common.rng(res.seed, "c07")
  cases = load_corpus()
  n_corpus = len(cases)
  cases += random_cases(r, 6 if thorough else 1)
  xl = loop_scope_cases(thorough)
  res.extra["loop_scope_cases"] = len(xl)
  cases += xl
  cases += harvested_cases(res, common.rng(res.seed, "c07-harvest"), 250 if thorough else 36)
  if thorough:
    for i in range(150000):
      d, qs = sampled_scope_case(r)
      cases.append(("scope%d" % i, d, qs, "shared" if i % 3 else "fresh"))
  nproc = 4
  chunks = [cases[i:i + 400] for i in range(0, len(cases), 400)]
  ctx = multiprocessing.get_context("fork")
  t0 = time.time()
  with ctx.Pool(nproc) as pool:
    sums = pool.map(eval_chunk, [(exe, c) for c in chunks])
    ex_results = []
    if thorough:
      deadline = time.time() + 900
      jobs = [(exe, sc, sh, nproc, deadline) for sc in EXHAUSTIVE_SCOPES for sh in range(nproc)]
      ex_results = pool.map(exhaustive_worker, jobs, chunksize=1)
  res.extra["correspondence_wall_s"] = round(time.time() - t0, 1)

  n_cases = n_answers = n_true = n_mism = 0
  hist = collections.Counter()
  viols = []
  first_mism = []
  for s in sums + ex_results:
    if s["model_fail"]:
      res.obligation("model-run", False, s["model_fail"])
    n_cases += s["n"]; n_answers += s["answers"]; n_true += s["true"]
    hist.update(s["hist"])
    n_mism += len(s["mismatch"])
    first_mism += [m for m in s["mismatch"] if m][:3]
    viols += s["violations"]
    for cb in s["construct_bad"][:3]:
      res.obligation("construction:" + cb[0], False, cb[1])
    if "keys" in s:
      for k in s["keys"]:
        res.count(k)
    if "nontrivial" in s:
      res.evaluations += s["n"] - len(s.get("keys", []))
      res.extra["exhaustive_nontrivial"] = res.extra.get("exhaustive_nontrivial", 0) + s["nontrivial"]
  if thorough:
    scopes = []
    for si, sc in enumerate(EXHAUSTIVE_SCOPES):
      parts = ex_results[si * nproc:(si + 1) * nproc]
      scopes.append({"scope": sc[0], "what": sc[2], "graphs": sum(p["n"] for p in parts),
                     "complete": all(p["complete"] for p in parts)})
    res.extra["exhaustive_scopes"] = scopes
    # a scope cut short by the time budget (machine load) is recorded, not failed: it is coverage, not a claim
    res.extra["exhaustive_all_complete"] = all(s["complete"] for s in scopes)
  for m in first_mism[:3]:
    res.obligation("correspondence:" + m["case"], False,
                   "model and cfg.so differ: desc=%s queries=%s impl=%s model=%s flags=%s/%s" % (
                       json.dumps(m["desc"]), json.dumps(m["queries"])[:600], " ".join(m["impl"])[:300],
                       " ".join(m["model"])[:300], m["flags"], m["flags_expected"]))
  res.obligation("correspondence:model-vs-cfg.so", n_mism == 0,
                 f"{n_mism} of {n_cases} cases disagree ({n_answers} answers compared)")
  # violations of the statement by the implementation
  by_fp = collections.OrderedDict()
  for v in viols:
    by_fp.setdefault(v[0], [])
    if v[1] is not None:
      by_fp[v[0]].append(v)
  reported = 0
  for fp, vs in by_fp.items():
    if not vs:
      continue
    _, what, rep = vs[0]
    if fp in res.known:
      res.violation(fp, what, rep)
      continue
    if reported >= 3:
      continue
    reported += 1
    try:
      d2, q2 = shrink(fp, rep["desc"], rep["queries"], rep["mode"])
      st = _still(fp, d2, q2, rep["mode"])
      if st is not None:
        # staged construction adds the source sets in the order the description lists them: keep the description
        # that was built (the read-back lists them in raw-pointer order)
        rep = {"desc": d2 if rep["mode"] == "staged" else st[0], "queries": q2, "mode": rep["mode"],
               "detail": st[1], "case": rep["case"]}
    except Exception:  # pylint: disable=broad-except
      pass
    res.violation(fp, what, rep)
  # a mismatch is also looked at through the oracle: done above for every case (violations are
  # computed from the implementation's answers whether or not the model agrees)
  res.extra["cases"] = n_cases
  res.extra["corpus_cases"] = n_corpus
  res.extra["answers_compared"] = n_answers
  res.extra["answers_true"] = n_true
  res.extra["histogram"] = dict(hist)
  res.extra["violation_classes_seen"] = {fp: len(vs) for fp, vs in by_fp.items()}
  for s in cases[n_corpus:n_corpus + 2]:
    res.sample({"case": s[0], "desc": s[1], "queries": [list(q) for q in s[2][:6]], "mode": s[3]})
  if thorough:
    ok, out = common_coqchk("C07")
    res.obligation("coqchk", ok, out[-1500:])
  return "proof"


def replay(res, path):
  """Re-runs the stored case.  Origin::source_sets iterates in raw-pointer order, so the answers can depend on where
  the allocator put the bindings: the case is run up to 12 times with the heap perturbed in between; one failing
  run is a failure."""
  common.bootstrap_pytype()
  j = json.load(open(path))
  rep = j["replay"]
  d = rep["desc"]; qs = [tuple(q) for q in rep["queries"]]; mode = rep.get("mode", "shared")
  fp = j.get("fingerprint")
  try:
    _EXE[0] = model_exe()
  except Exception as e:  # pylint: disable=broad-except
    print("model  : <unavailable: %r>" % e)
  keep = []
  for attempt in range(12):
    desc, ans = run_impl_case(d, qs, mode)
    mo = model_answers(desc, qs)
    v = classify(desc, qs, ans, mo, mode)
    hit = any(f == fp for f, _, _ in v) or (fp in (None, "obligation") and bool(v))
    if hit or attempt == 11:
      print("graph  :", json.dumps(desc))
      print("queries:", json.dumps(qs))
      print("impl   :", " ".join(ans))
      print("model  :", " ".join(mo) if mo is not None else "<unavailable>")
      for f, what, detail in v:
        print("oracle : VIOLATED", f, what, json.dumps(detail))
      if not v:
        print("oracle : all four clauses hold on these answers")
      return 1 if hit else 0
    keep.append((G.Impl({"nodes": [{"inc": [], "cond": None}], "bindings": [{"var": 0, "origins": [[0, [[]]]]}]}),
                 [object() for _ in range(7 * attempt + 3)]))
  return 0
