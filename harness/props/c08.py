"""C08 — solver answers do not depend on what was asked or built before.

Proof (coq/Props/C08.v over coq/Typegraph/History.v): if every graph-changing primitive of typegraph.cc drops
the solver (closed boolean over the invalidation table REGENERATED from the C++ source on every run), then in
every history every query returns what a freshly built copy of the current graph returns, for every solver
memo obeying the memo laws; repeated queries never flip.
Tie: (a) regenerated table coq/Generated/C08_Invalidation.v (fail-closed source scan); (b) correspondence of the
model's graph (apply_all) and invalidation flags (inval_all) with the real cfg.Program on generated histories
(graph snapshots through the public API; invalidation observed through the solver-metrics counter);
(c) the property oracle itself: at every query a replica is rebuilt from scratch and asked the same question;
(d) every solver LIFETIME (what one solver object was asked, in order) is replayed on the extracted Coq solver model
(C07's Solver.solve = the `ask` of HistorySolver.v) threading one memo, on the graph read back from cfg.so: every
answer compared.  On graphs with a CFG cycle the algorithm itself is history dependent (Props/C08.v
history_independent_cyclic_refuted); a stale answer there is the listed finding iff the model gives exactly the
long-lived answers AND the model's fresh solver gives exactly the replica's answer, otherwise it is a violation.
"""
import json
import os
import re
import subprocess
import time

import common
import c07_graphs as G7
import c07_loops as L7

# ----------------------------------------------------------------------------------------------------------
# (a) translator: which primitives reach InvalidateSolver  (fail-closed)

WRITES = {
    "incoming": r"incoming_\.push_back",
    "outgoing": r"outgoing_\.push_back",
    "origins": r"origins_\.push_back",
    "source_sets": r"source_sets\.emplace",
    "var_bindings": r"\bbindings_\.push_back\(std::move\(binding\)\)",
    "condition": r"condition_\s*=\s*condition",
}


def cpp_functions(text):
  """Yields (signature, body) for every top-level or in-class function definition (brace matching)."""
  text = re.sub(r"//[^\n]*", "", text)
  text = re.sub(r"/\*.*?\*/", "", text, flags=re.S)
  out = []
  for m in re.finditer(r"([A-Za-z_][\w:<>\*&\s,~]*?\b([A-Za-z_~][\w:]*)\s*\(([^()]*)\)\s*(?:const)?\s*(?::[^{;]*)?)\{", text):
    name = m.group(2)
    if name in ("if", "for", "while", "switch", "catch", "return", "CHECK", "LOG"):
      continue
    i = m.end()
    depth = 1
    while i < len(text) and depth:
      if text[i] == "{":
        depth += 1
      elif text[i] == "}":
        depth -= 1
      i += 1
    out.append((name, re.sub(r"\s+", " ", m.group(3)).strip(), text[m.end():i - 1]))
  return out


def scan_invalidation():
  """Returns (table dict, problems list)."""
  tg = os.path.join(common.REPO, "pytype", "typegraph")
  cc = open(os.path.join(tg, "typegraph.cc")).read()
  hh = open(os.path.join(tg, "typegraph.h")).read()
  cfgcc = open(os.path.join(tg, "cfg.cc")).read()
  funcs = cpp_functions(cc) + cpp_functions(hh)
  problems = []

  def find(name, args_pat):
    hits = [(n, a, b) for n, a, b in funcs if n == name and re.fullmatch(args_pat, a)]
    if len(hits) != 1:
      problems.append(f"expected exactly one definition of {name}({args_pat}), found {len(hits)}")
      return None
    return hits[0][2]

  def inv_before(body, write_pat):
    """InvalidateSolver() occurs in the body, and before the (first) write if the write is in this body."""
    if body is None:
      return False
    mi = re.search(r"InvalidateSolver\(\)", body)
    if not mi:
      return False
    if write_pat is None:
      return True
    mw = re.search(write_pat, body)
    return mw is not None and mi.start() < mw.start()

  tbl = {}
  tbl["t_new_node"] = inv_before(find("Program::NewCFGNode", r"std::string name, Binding\* condition"), r"cfg_nodes_\.push_back")
  body_conn = find("CFGNode::ConnectTo", r"CFGNode\* node")
  tbl["t_connect"] = inv_before(body_conn, WRITES["incoming"]) and inv_before(body_conn, WRITES["outgoing"])
  tbl["t_new_binding"] = inv_before(find("Variable::FindOrAddBindingHelper", r"const BindingData& data"), WRITES["var_bindings"])
  foa = r"FindOrAddOrigin\(node\)"
  tbl["t_add_origin"] = inv_before(find("Binding::AddOrigin", r"CFGNode\* node"), foa)
  tbl["t_add_origin_vec"] = inv_before(find("Binding::AddOrigin", r"CFGNode\* node, const std::vector<Binding\*>& source_set"), foa)
  tbl["t_add_origin_ss"] = inv_before(find("Binding::AddOrigin", r"CFGNode\* node, const SourceSet& source_set"), foa)
  tbl["t_set_condition"] = inv_before(find("set_condition", r"Binding\* condition"), WRITES["condition"])

  # fail-closed structure checks: the writers of solver-visible state are exactly the ones the model knows
  expected_writers = {
      "incoming": {"CFGNode::ConnectTo"}, "outgoing": {"CFGNode::ConnectTo"},
      "origins": {"Binding::FindOrAddOrigin"},
      "source_sets": {"Origin::AddSourceSet"},
      "var_bindings": {"Variable::FindOrAddBindingHelper"},
      "condition": {"set_condition"},
  }
  for key, pat in WRITES.items():
    writers = {n for n, a, b in funcs if re.search(pat, b)}
    if writers != expected_writers[key]:
      problems.append(f"writers of {key} are {sorted(writers)}, model expects {sorted(expected_writers[key])}")
  # other textual assignments to condition_ (constructor initialiser list is fine)
  extra_cond = [n for n, a, b in funcs if re.search(r"condition_\s*=", b) and n != "set_condition"]
  if extra_cond:
    problems.append(f"unexpected writers of condition_: {extra_cond}")
  callers_foa = {(n, a) for n, a, b in funcs if re.search(r"\bFindOrAddOrigin\(", b)}
  exp_foa = {("Binding::AddOrigin", "CFGNode* node"),
             ("Binding::AddOrigin", "CFGNode* node, const std::vector<Binding*>& source_set"),
             ("Binding::AddOrigin", "CFGNode* node, const SourceSet& source_set")}
  if callers_foa != exp_foa:
    problems.append(f"callers of FindOrAddOrigin are {sorted(callers_foa)}")
  # every use of AddSourceSet outside AddOrigin must directly follow an AddOrigin(where) on the same binding
  for fname, text in (("typegraph.cc", cc), ("cfg.cc", cfgcc)):
    for m in re.finditer(r"(\w+)->AddSourceSet\(", text):
      ctx = text[max(0, m.start() - 400):m.start()]
      var = m.group(1)
      if not re.search(r"Origin\*\s+" + var + r"\s*=\s*(?:\w+->)?(?:AddOrigin|FindOrAddOrigin)\((?:where|node)\);", ctx):
        problems.append(f"{fname}: AddSourceSet on '{var}' not preceded by AddOrigin/FindOrAddOrigin in the same function")
      elif re.search(r"=\s*FindOrAddOrigin\(node\);", ctx.split("{")[-1]) and "InvalidateSolver" not in ctx.split("}")[-1]:
        # inside Binding::AddOrigin itself: covered by the t_add_origin_* entries
        pass
  # Program::InvalidateSolver / GetSolver themselves: the model's `solver := None` / `fresh solver on demand` reading
  # is only right for exactly these bodies (whitespace-insensitive); anything else fails closed
  squeeze = lambda b: re.sub(r"\s+", "", b or "")
  inv_body = squeeze(find("Program::InvalidateSolver", r""))
  if inv_body != "if(solver_){solver_metrics_.push_back(solver_->CalculateMetrics());}solver_.reset();":
    problems.append("Program::InvalidateSolver is not `if (solver_) {record metrics} solver_.reset();`: " + inv_body[:200])
  get_body = squeeze(find("Program::GetSolver", r""))
  if get_body != "if(solver_==nullptr)solver_=std::make_unique<Solver>(this);returnsolver_.get();":
    problems.append("Program::GetSolver is not `create if null; return solver_.get()`: " + get_body[:200])
  other_solver_writers = sorted({n for n, a, b in funcs if re.search(r"\bsolver_\s*(=[^=]|\.reset|\.release|\.swap)", b)}
                                - {"Program::InvalidateSolver", "Program::GetSolver"})
  if other_solver_writers:
    problems.append(f"unexpected writers of Program::solver_: {other_solver_writers}")
  # set_condition must be the only way cfg.cc changes a condition
  if re.search(r"(?:->|\.)condition_\b", cfgcc):
    problems.append("cfg.cc touches condition_ directly")
  return tbl, problems


def write_generated(tbl):
  b = lambda x: "true" if x else "false"
  txt = ("(* GENERATED on every run by harness/props/c08.py from /repo/pytype/typegraph/{typegraph.cc,typegraph.h}. *)\n"
         "From PV Require Import Typegraph.History.\n"
         "Definition tbl_repo : inv_table :=\n  mkTbl %s %s %s %s %s %s %s.\n" % tuple(
             b(tbl[k]) for k in ("t_new_node", "t_connect", "t_new_binding", "t_add_origin", "t_add_origin_vec",
                                 "t_add_origin_ss", "t_set_condition")))
  common.write_if_changed(os.path.join(common.COQ, "Generated", "C08_Invalidation.v"), txt)


def generate():
  """Called by harness/setup.py before the Coq build (coq/Generated is not committed)."""
  tbl, _ = scan_invalidation()
  write_generated(tbl)


# ----------------------------------------------------------------------------------------------------------
# histories of API-level operations

class Mirror:
  """Python mirror of ids, used to turn API ops into model primitives (validated by the snapshot comparison)."""

  def __init__(self):
    self.n_nodes = 0
    self.n_vars = 0
    self.bind = []           # list of dict(var, data, origins: {node: set(frozenset)})  (for decomposition only)
    self.by_key = {}

  def find_or_add(self, v, d, prims):
    prims.append(("FB", v, d))
    if (v, d) not in self.by_key:
      self.by_key[(v, d)] = len(self.bind)
      self.bind.append({"var": v, "data": d, "origins": {}})
    return self.by_key[(v, d)]

  def add_origin(self, kind, b, n, ss, prims):
    ss = tuple(sorted(set(ss))) if ss is not None else None
    if kind == "AO":
      prims.append(("AO", b, n))
    else:
      prims.append((kind, b, n, list(ss)))
    o = self.bind[b]["origins"].setdefault(n, [])
    if ss is not None and ss not in o:
      o.append(ss)

  def copy_origins(self, new_b, other, where, additional, prims):
    if where is not None:
      self.add_origin("AOS", new_b, where, list(additional) + [other], prims)
    else:
      for n, sss in list(self.bind[other]["origins"].items()):
        for ss in list(sss):
          self.add_origin("AOS", new_b, n, list(additional) + list(ss), prims)

  def paste_binding(self, v, b, where, additional, prims):
    nb = self.find_or_add(v, self.bind[b]["data"], prims)
    if where is None:
      self.copy_origins(nb, b, None, additional, prims)
      return
    for n in self.bind[b]["origins"]:
      if n != where:
        self.copy_origins(nb, b, where, additional, prims)
        return
    self.copy_origins(nb, b, None, additional, prims)

  def vars_bindings(self, v):
    return [i for i, b in enumerate(self.bind) if b["var"] == v]


def decompose(mir, op):
  """API op -> list of model primitives; updates the mirror."""
  k = op[0]
  prims = []
  if k == "NewNode":
    prims.append(("NN", op[1])); mir.n_nodes += 1
  elif k == "ConnectNew":
    prims.append(("NN", op[2])); prims.append(("CO", op[1], mir.n_nodes)); mir.n_nodes += 1
  elif k == "ConnectTo":
    prims.append(("CO", op[1], op[2]))
  elif k == "NewVariable":
    prims.append(("NV",)); mir.n_vars += 1
  elif k == "NewVariableB":           # NewVariable(bindings, source_set, where)
    v = mir.n_vars
    prims.append(("NV",)); mir.n_vars += 1
    for d in op[1]:
      b = mir.find_or_add(v, d, prims)
      mir.add_origin("AO", b, op[3], None, prims)
      mir.add_origin("AS", b, op[3], op[2], prims)
  elif k == "AddBinding":
    mir.find_or_add(op[1], op[2], prims)
  elif k == "AddBindingAt":           # v.AddBinding(d, ss, where)
    b = mir.find_or_add(op[1], op[2], prims)
    mir.add_origin("AO", b, op[4], None, prims)
    mir.add_origin("AS", b, op[4], op[3], prims)
  elif k == "AddOrigin":              # b.AddOrigin(where, ss)
    mir.add_origin("AOV", op[1], op[2], op[3], prims)
  elif k == "PasteBinding":           # v.PasteBinding(b, where, additional)
    mir.paste_binding(op[1], op[2], op[3], op[4], prims)
  elif k == "PasteVariable":          # v.PasteVariable(var, where, additional)
    for b in mir.vars_bindings(op[2]):
      mir.paste_binding(op[1], b, op[3], op[4], prims)
  elif k == "PasteNewData":           # v.PasteBindingWithNewData(b, d)
    nb = mir.find_or_add(op[1], op[3], prims)
    mir.copy_origins(nb, op[2], None, [], prims)
  elif k == "AssignB":                # b.AssignToNewVariable(where)
    v = mir.n_vars
    prims.append(("NV",)); mir.n_vars += 1
    nb = mir.find_or_add(v, mir.bind[op[1]]["data"], prims)
    mir.copy_origins(nb, op[1], op[2], [], prims)
  elif k == "AssignV":                # v.AssignToNewVariable(where)
    v = mir.n_vars
    prims.append(("NV",)); mir.n_vars += 1
    for b in mir.vars_bindings(op[1]):
      nb = mir.find_or_add(v, mir.bind[b]["data"], prims)
      mir.copy_origins(nb, b, op[2], [], prims)
  elif k == "SetCondition":
    prims.append(("SC", op[1], op[2]))
  else:
    raise ValueError(op)
  return prims


class Real:
  """Executes API ops on a real cfg.Program."""

  def __init__(self):
    from pytype.typegraph import cfg
    self.p = cfg.Program()
    self.nodes = []
    self.vars = []
    self.binds = []       # in binding-id order
    self.data = {}

  def d(self, i):
    return self.data.setdefault(i, "data%d" % i)

  def _sync(self):
    known = {b.id for b in self.binds}
    new = []
    for v in self.vars:
      for b in v.bindings:
        if b.id not in known:
          new.append(b)
    new.sort(key=lambda b: b.id)
    self.binds.extend(new)

  def B(self, i):
    return self.binds[i]

  def do(self, op):
    k = op[0]
    N = lambda i: None if i is None else self.nodes[i]
    BL = lambda l: [self.binds[i] for i in l]
    if k == "NewNode":
      self.nodes.append(self.p.NewCFGNode("n") if op[1] is None else self.p.NewCFGNode("n", self.binds[op[1]]))
    elif k == "ConnectNew":
      self.nodes.append(self.nodes[op[1]].ConnectNew("n") if op[2] is None
                        else self.nodes[op[1]].ConnectNew("n", self.binds[op[2]]))
    elif k == "ConnectTo":
      self.nodes[op[1]].ConnectTo(self.nodes[op[2]])
    elif k == "NewVariable":
      self.vars.append(self.p.NewVariable())
    elif k == "NewVariableB":
      self.vars.append(self.p.NewVariable([self.d(x) for x in op[1]], BL(op[2]), N(op[3])))
    elif k == "AddBinding":
      self.vars[op[1]].AddBinding(self.d(op[2]))
    elif k == "AddBindingAt":
      self.vars[op[1]].AddBinding(self.d(op[2]), BL(op[3]), N(op[4]))
    elif k == "AddOrigin":
      self.binds[op[1]].AddOrigin(N(op[2]), BL(op[3]))
    elif k == "PasteBinding":
      self.vars[op[1]].PasteBinding(self.binds[op[2]], N(op[3]), BL(op[4]))
    elif k == "PasteVariable":
      self.vars[op[1]].PasteVariable(self.vars[op[2]], N(op[3]), BL(op[4]))
    elif k == "PasteNewData":
      self.vars[op[1]].PasteBindingWithNewData(self.binds[op[2]], self.d(op[3]))
    elif k == "AssignB":
      self.vars.append(self.binds[op[1]].AssignToNewVariable(N(op[2])))
    elif k == "AssignV":
      self.vars.append(self.vars[op[1]].AssignToNewVariable(N(op[2])))
    elif k == "SetCondition":
      self.nodes[op[1]].condition = None if op[2] is None else self.binds[op[2]]
    else:
      raise ValueError(op)
    self._sync()

  def ask(self, q):
    if q[0] == "Has":
      return self.nodes[q[1]].HasCombination([self.binds[i] for i in q[2]])
    if q[0] == "Vis":
      return self.binds[q[2][0]].IsVisible(self.nodes[q[1]])
    if q[0] == "Filter":
      return tuple(sorted(b.id for b in self.vars[q[2]].Filter(self.nodes[q[1]])))
    raise ValueError(q)

  def n_solvers(self):
    return len(self.p.calculate_metrics().solver_metrics)

  def readback(self):
    """The solver-visible graph in the C07 description format (binding id = index; the iteration order of
    Origin::source_sets is the one the implementation reports), the input of the extracted Coq solver model."""
    nodes = [{"inc": [m.id for m in n.incoming], "cond": None if n.condition is None else n.condition.id}
             for n in self.nodes]
    bindings = [{"var": b.variable.id,
                 "origins": [[o.where.id, [sorted(x.id for x in ss) for ss in o.source_sets]] for o in b.origins]}
                for b in self.binds]
    return {"nodes": nodes, "bindings": bindings}

  def snapshot(self):
    datas = {}
    nodes = [([x.id for x in n.incoming], [x.id for x in n.outgoing], None if n.condition is None else n.condition.id)
             for n in self.nodes]
    binds = []
    for b in self.binds:
      dkey = [k for k, v in self.data.items() if v is b.data]
      binds.append((b.variable.id, dkey[0] if dkey else -1,
                    [(o.where.id, sorted(sorted(x.id for x in ss) for ss in o.source_sets)) for o in b.origins]))
    return nodes, binds, len(self.vars)


def gen_history(r, n_ops, cyclic, with_cond):
  """Generates API ops (with ids valid at the time) interleaved with queries.  Returns list of ('op', op) / ('q', q)."""
  mir = Mirror()
  h = []
  def emit(op):
    decompose(mir, op)
    h.append(("op", op))
  emit(("NewNode", None))
  emit(("NewVariable",))
  emit(("AddBindingAt", 0, 0, [], 0))
  for _ in range(n_ops):
    nn, nv, nb = mir.n_nodes, mir.n_vars, len(mir.bind)
    node = lambda: r.randrange(nn)
    ss = lambda: sorted(set(r.randrange(nb) for _ in range(r.choice([0, 0, 1, 1, 2])))) if nb else []
    cond = lambda: (r.randrange(nb) if with_cond and nb and r.random() < 0.4 else None)
    k = r.random()
    if k < 0.14:
      emit(("ConnectNew", node(), cond()))
    elif k < 0.18:
      emit(("NewNode", cond()))
    elif k < 0.26:
      a, b = node(), node()
      if not cyclic and a > b:
        a, b = b, a
      emit(("ConnectTo", a, b))
    elif k < 0.30:
      emit(("NewVariable",))
    elif k < 0.34:
      emit(("NewVariableB", [r.randrange(4) for _ in range(r.choice([1, 2]))], ss(), node()))
    elif k < 0.40:
      emit(("AddBinding", r.randrange(nv), r.randrange(4)))
    elif k < 0.55:
      emit(("AddBindingAt", r.randrange(nv), r.randrange(4), ss(), node()))
    elif k < 0.63 and nb:
      emit(("AddOrigin", r.randrange(nb), node(), ss()))
    elif k < 0.75 and nb:
      emit(("PasteBinding", r.randrange(nv), r.randrange(nb), r.choice([None, node(), node()]), ss() if r.random() < 0.3 else []))
    elif k < 0.81:
      emit(("PasteVariable", r.randrange(nv), r.randrange(nv), r.choice([None, node()]), ss() if r.random() < 0.3 else []))
    elif k < 0.85 and nb:
      emit(("PasteNewData", r.randrange(nv), r.randrange(nb), r.randrange(4)))
    elif k < 0.89 and nb:
      emit(("AssignB", r.randrange(nb), r.choice([None, node()])))
    elif k < 0.92:
      emit(("AssignV", r.randrange(nv), r.choice([None, node()])))
    elif with_cond and nb:
      emit(("SetCondition", node(), r.choice([None, r.randrange(nb), r.randrange(nb)])))
    else:
      emit(("ConnectNew", node(), None))
    # at least one query between mutations (usually several)
    nb = len(mir.bind)
    for _ in range(r.choice([1, 1, 2, 3])):
      kind = r.random()
      if kind < 0.5 and nb:
        h.append(("q", ("Vis", r.randrange(mir.n_nodes), [r.randrange(nb)])))
      elif kind < 0.85 and nb:
        h.append(("q", ("Has", r.randrange(mir.n_nodes), sorted(set(r.randrange(nb) for _ in range(r.choice([1, 2, 2, 3])))))))
      else:
        h.append(("q", ("Filter", r.randrange(mir.n_nodes), r.randrange(mir.n_vars))))
  return h


def gen_deep_history(r, depth, sat):
  """A long use-def chain: node i binds x_i := f(x_{i-1}); the deep end is explainable iff `sat`.  Queries at
  different distances from the end, in both orders, inside one solver lifetime (depth-dependent memo entries,
  recursion caps, path-cache reuse)."""
  h = []
  mir = Mirror()
  def emit(op):
    decompose(mir, op); h.append(("op", op))
  emit(("NewNode", None))                       # node 0
  emit(("NewVariable",))                        # var 0: the root source
  if sat:
    emit(("AddBindingAt", 0, 0, [], 0))         # b0 visible from everywhere below
  else:
    emit(("NewNode", None))                     # isolated node 1
    emit(("AddBindingAt", 0, 0, [], 1))         # b0 only at the isolated node: never visible on the chain
  prev_b = 0
  last = 0
  chain_nodes = []
  chain_binds = []
  for i in range(depth):
    emit(("ConnectNew", last, None)); last = mir.n_nodes - 1
    emit(("NewVariable",)); v = mir.n_vars - 1
    emit(("AddBindingAt", v, 1, [prev_b], last)); prev_b = len(mir.bind) - 1
    chain_nodes.append(last); chain_binds.append(prev_b)
  picks = sorted(r.sample(range(len(chain_nodes)), min(4, len(chain_nodes))))
  order = picks if r.random() < 0.5 else picks[::-1]
  for k in order + order[::-1]:
    h.append(("q", ("Vis", chain_nodes[k], [chain_binds[k]])))
  # a mutation near the top, then the same queries again
  emit(("AddBinding", 0, 2))
  for k in order:
    h.append(("q", ("Vis", chain_nodes[k], [chain_binds[k]])))
  return h


_CHAIN_DATA = ("data0", "data1", "data2")   # binding data is compared by identity: always these three objects


class _Chain:
  """A linear CFG with one variable re-bound at every node, driven through the raw cfg API (no per-op bookkeeping)."""

  def __init__(self):
    from pytype.typegraph import cfg
    self.p = cfg.Program()
    self.last = self.p.NewCFGNode("n")
    self.v = self.p.NewVariable()
    self.ops = []

  def do(self, op):
    self.ops.append(op)
    if op[0] == "CN":
      self.last = self.last.ConnectNew("n")
    elif op[0] == "NV":      # a fresh variable bound at the last node (keeps every warm-up query O(1))
      w = self.p.NewVariable()
      w.AddBinding(_CHAIN_DATA[0], [], self.last)
      self.w = w
    else:
      self.v.AddBinding(_CHAIN_DATA[op[1]], [], self.last)

  def answers(self, d):
    b = [x for x in self.v.bindings if x.data is _CHAIN_DATA[d]]
    return (b[0].IsVisible(self.last) if b else None,
            tuple(sorted(x.data for x in self.v.Filter(self.last))))

  def n_solvers(self):
    return len(self.p.calculate_metrics().solver_metrics)


def generations_leg(n_gen, n_final):
  """One long-lived Program through `n_gen` solver generations (mutation, query, mutation, query, ...) - more than any
  fixed-size history buffer - then `n_final` rounds of query / answer-changing mutation / same query, each compared
  with a replica rebuilt from scratch.  Also monitors that every mutation after a query starts a new solver
  generation (solver-metrics count); the warm-up stops as soon as that monitor fails.
  Returns (stale list, generations expected, generations observed, op list)."""
  c = _Chain()
  expected_gen = 0
  for i in range(n_gen):
    c.do(("CN",)); c.do(("NV",))
    c.w.Filter(c.last)                            # a solver is alive now
    expected_gen += 1
    if i % 64 == 63 and c.n_solvers() + 1 < expected_gen:
      break
  observed_gen = c.n_solvers() + 1                # the live solver is not in the metrics yet
  stale = []
  for j in range(n_final):
    c.do(("CN",)); c.do(("AB", j % 3))
    c.answers(j % 3)
    c.do(("AB", (j + 1) % 3))                     # changes what is visible at the last node
    got = c.answers(j % 3)
    r = _Chain()
    for op in c.ops:
      r.do(op)
    want = r.answers(j % 3)
    if got != want:
      stale.append((list(c.ops), ("visible/filter of data%d at the last node" % (j % 3)), got, want))
  return stale, expected_gen, observed_gen, c.ops


def replica_answer(ops, q, with_replica=False):
  rp = Real()
  for op in ops:
    rp.do(op)
  if with_replica:
    return rp.ask(q), rp
  return rp.ask(q)


def targeted_search(ops, k, budget_s=25.0):
  """An operation whose real invalidation flag differs from the model's: look for a stale answer around it by
  asking EVERY small query (all singletons, all pairs, all Filter) before op k and again after it, on the
  long-lived program vs a replica.  Returns a failing history or None."""
  deadline = time.time() + budget_s
  real = Real()
  for op in ops[:k]:
    real.do(op)
  def all_queries(rl):
    qs = []
    nb, nn, nv = len(rl.binds), len(rl.nodes), len(rl.vars)
    for n in range(nn):
      for b in range(nb):
        qs.append(("Vis", n, [b]))
      for b1 in range(nb):
        for b2 in range(b1 + 1, nb):
          qs.append(("Has", n, [b1, b2]))
      for v in range(nv):
        qs.append(("Filter", n, v))
    return qs
  pre = all_queries(real)
  for q in pre:                       # warm every cache the solver has
    real.ask(q)
  real.do(ops[k])
  post = all_queries(real)
  for q in post:
    if time.time() > deadline:
      return None
    a = real.ask(q)
    b = replica_answer(ops[:k + 1], q)
    if a != b:
      # minimise the warm-up: which single earlier query is enough?
      for q0 in pre:
        r2 = Real()
        for op in ops[:k]:
          r2.do(op)
        r2.ask(q0); r2.do(ops[k])
        if r2.ask(q) != b:
          return [("op", o) for o in ops[:k]] + [("q", q0), ("op", ops[k]), ("q", q)], q, a, b
      return [("op", o) for o in ops[:k]] + [("q", x) for x in pre] + [("op", ops[k]), ("q", q)], q, a, b
  return None


def q7(real, q):
  """A C08 query in the C07 query format (the input format of the extracted solver model)."""
  if q[0] in ("Has", "Vis"):
    return ("H", q[1], list(q[2]))
  return ("F", real.vars[q[2]].id, q[1], True)


def a7(q, a):
  """A live answer in the C07 answer format."""
  if q[0] in ("Has", "Vis"):
    return "1" if a else "0"
  return "f:" + ",".join(str(i) for i in a)


def run_history(h, check_inval=True):
  """Runs the history on a long-lived program; at every query compares with a replica.
  Returns (mismatches [(index, q, stale, fresh, lifetime index, position in the lifetime)], inval_flags per op,
  final snapshot, number of queries, lifetimes).  A lifetime is what ONE solver object was asked, in order
  (the invalidation probes included): {"desc": graph read back from the implementation before the operation that
  dropped the solver, "qs": [C07 queries], "ans": [answers]}.  Whether an operation dropped the solver is
  observed: a probe query before it (a solver is alive), one after it, and the program's solver-metrics count in
  between (the count includes the live solver, so it grows exactly when the old solver was dropped).  The probes
  are part of the history's semantics (they are asked of the long-lived program only) and are always made, so a
  replay sees what the search saw; `check_inval` only says whether the flags are reported."""
  real = Real()
  ops = []
  mism = []
  flags = []
  nq = 0
  lifetimes = []
  life = {"desc": None, "qs": [], "ans": []}
  def close(desc):
    nonlocal life
    if life["qs"]:
      life["desc"] = desc
      lifetimes.append(life)
    life = {"desc": None, "qs": [], "ans": []}
  for i, (kind, x) in enumerate(h):
    if kind == "op":
      if real.binds and real.nodes:
        a0 = real.binds[0].IsVisible(real.nodes[0])      # make sure a solver is alive
        life["qs"].append(("H", 0, [0])); life["ans"].append("1" if a0 else "0")
        desc = real.readback()
        before = real.n_solvers()
        real.do(x)
        a1 = real.binds[0].IsVisible(real.nodes[0])
        dropped = real.n_solvers() > before
        if dropped:
          close(desc)
        life["qs"].append(("H", 0, [0])); life["ans"].append("1" if a1 else "0")
        flags.append(dropped if check_inval else None)
      else:
        real.do(x)
        flags.append(None)
      ops.append(x)
    else:
      nq += 1
      a = real.ask(x)
      life["qs"].append(q7(real, x)); life["ans"].append(a7(x, a))
      b, rp = replica_answer(ops, x, with_replica=True)
      if a != b:
        # the replica's OWN graph: Origin::source_sets iterates in raw-pointer order, which may differ from the
        # long-lived program's (and from another replica's)
        mism.append((i, x, a, b, len(lifetimes), len(life["qs"]) - 1, rp.readback()))
  close(real.readback())
  return mism, flags, real.snapshot(), nq, lifetimes


def loop_scope_leg(cases):
  """The exhaustive loop scope, directly on cfg.Program (c07_graphs.Impl): per graph ONE long-lived program answers
  every lifetime (an 'R' drops the solver through a graph-preserving Binding.AddOrigin); the replica of a query is a
  program rebuilt from scratch that is asked only that query (one per distinct query - a fresh program's answer
  does not depend on anything else).  Returns (stale [(name, desc, lifetime queries up to the stale one, q, live,
  replica)], lifetimes [{"desc","qs","ans"}], number of queries)."""
  stale = []
  lifetimes = []
  nq = 0
  for name, d, qs in cases:
    im = G7.Impl(d)
    live = im.run(qs)
    fresh = {}
    life = None
    ai = 0
    for q in qs:
      if q[0] == "R":
        if life and life["qs"]:
          lifetimes.append(life)
        life = {"desc": im.desc, "qs": [], "ans": []}
        continue
      if life is None:
        life = {"desc": im.desc, "qs": [], "ans": []}
      a = live[ai]; ai += 1
      nq += 1
      hq = ("H", q[1], list(q[2]))
      life["qs"].append(hq); life["ans"].append(a)
      key = (q[1], tuple(q[2]))
      if key not in fresh:
        fi = G7.Impl(d)
        fresh[key] = (fi.run([q])[0], fi.desc)
      if a != fresh[key][0]:
        stale.append((name, im.desc, list(life["qs"]), hq, a, fresh[key][0], life, len(life["qs"]) - 1, fresh[key][1]))
    if life and life["qs"]:
      lifetimes.append(life)
  return stale, lifetimes, nq


# ----------------------------------------------------------------------------------------------------------
# the extracted Coq solver model (C07's Solver.v, the `ask` of HistorySolver.v) on solver lifetimes

SOLVER_DRIVER = os.path.join(common.VERIF, "harness", "ocaml", "solver_driver.ml")
_EXE = [None]
AS_MODELLED = "history-dependent:cyclic:memo-as-modelled"


def solver_model_exe():
  if _EXE[0] is None:
    _EXE[0] = common.build_extracted("solver", "Extract/ExtractSolver.v", SOLVER_DRIVER, ["solver_model"])
  return _EXE[0]


_PROC = [None]


def model_lifetimes(lines):
  """Each line: a graph followed by queries answered by ONE threaded solver state.  Returns the answer lists.
  One long-lived model process serves every call (process start-up is the expensive part)."""
  out = []
  for ln in lines:
    for attempt in (0, 1):
      try:
        if _PROC[0] is None:
          _PROC[0] = G7.ModelProc(solver_model_exe())
        out.append(_PROC[0].ask(ln))
        break
      except Exception as e:  # pylint: disable=broad-except
        _PROC[0] = None
        if attempt:
          raise RuntimeError("solver model failed: %r" % e)
  return out


def as_modelled(life, pos, q, replica, rdesc=None):
  """Is this history dependence the one the Coq model of solver.cc has (Props/C08.v
  history_independent_cyclic_refuted)?  Yes iff the graph has a CFG cycle, the model threading one solver state
  through the lifetime's questions gives exactly the long-lived program's answers up to and including this one,
  AND the model's fresh solver gives exactly the replica's answer."""
  d = life["desc"]
  if G7.is_acyclic(d):
    return False
  qs = life["qs"][:pos + 1]
  try:
    threaded, fresh = model_lifetimes([G7.model_line(d, qs), G7.model_line(rdesc or d, [qs[-1]])])
  except Exception:  # pylint: disable=broad-except
    return False
  return threaded == life["ans"][:pos + 1] and fresh == [a7(q, replica)]


_CLASS_CACHE = {}


def as_modelled_batch(life, pos, q, replica_a7, rdesc=None):
  """as_modelled for the direct loop leg (answers already in the C07 format); cached per (graph, question prefix)."""
  d = life["desc"]
  if G7.is_acyclic(d):
    return False
  qs = life["qs"][:pos + 1]
  key = (json.dumps(d, sort_keys=True), json.dumps(qs), json.dumps(rdesc, sort_keys=True))
  if key not in _CLASS_CACHE:
    try:
      _CLASS_CACHE[key] = tuple(map(tuple, model_lifetimes([G7.model_line(d, qs),
                                                            G7.model_line(rdesc or d, [qs[-1]])])))
    except Exception:  # pylint: disable=broad-except
      _CLASS_CACHE[key] = None
  r = _CLASS_CACHE[key]
  return r is not None and list(r[0]) == life["ans"][:pos + 1] and list(r[1]) == [replica_a7]


def fingerprint_of(h, m, lifetimes):
  i, q, a, b, li, pos, rdesc = m
  if li < len(lifetimes) and as_modelled(lifetimes[li], pos, q, b, rdesc):
    return AS_MODELLED
  last_op = [x for k, x in h[:i + 1] if k == "op"][-1][0]
  return f"stale-answer-after:{last_op}"


# ----------------------------------------------------------------------------------------------------------
# model side (cases.v + vm_compute)

def coq_opt(x):
  return "None" if x is None else f"(Some {x})"


def coq_list(l):
  return "[" + "; ".join(str(i) for i in l) + "]"


def coq_prim(p):
  k = p[0]
  if k == "NN": return f"MNewNode {coq_opt(p[1])}"
  if k == "CO": return f"MConnect {p[1]} {p[2]}"
  if k == "NV": return "MNewVariable"
  if k == "FB": return f"MFindOrAddBinding {p[1]} {p[2]}"
  if k == "AO": return f"MAddOrigin {p[1]} {p[2]}"
  if k == "AOV": return f"MAddOriginVec {p[1]} {p[2]} {coq_list(p[3])}"
  if k == "AOS": return f"MAddOriginSS {p[1]} {p[2]} {coq_list(p[3])}"
  if k == "AS": return f"MAddSourceSet {p[1]} {p[2]} {coq_list(p[3])}"
  if k == "SC": return f"MSetCondition {p[1]} {coq_opt(p[2])}"
  raise ValueError(p)


CASES_HEADER = """From Coq Require Import List Arith Bool.
From PV Require Import Typegraph.History Generated.C08_Invalidation.
Import ListNotations.
Definition flags (apis : list (list mut)) : list bool :=
  snd (fold_left (fun (acc : graph * list bool) ms =>
         (apply_all (fst acc) ms, snd acc ++ [inval_all tbl_repo (fst acc) ms])) apis (graph0, [])).
Definition final (apis : list (list mut)) : graph := fold_left apply_all apis graph0.
Definition wf (apis : list (list mut)) : bool := forallb api_wf apis.
Definition show (g : graph) :=
  (map (fun n => (incoming n, outgoing n, cond n)) (nodes g),
   map (fun b => (bvar b, bdata b, origins b)) (bindings g), nvars g).
"""


def model_cases(cases):
  """cases: list of (name, [prims per api op]).  Returns {name: (wf, flags list, graph-term string)}."""
  shards = []
  per = 40
  for s in range(0, len(cases), per):
    body = [CASES_HEADER]
    for name, apis in cases[s:s + per]:
      term = "[" + "; ".join("[" + "; ".join(coq_prim(p) for p in ms) + "]" for ms in apis) + "]"
      body.append(f"Definition c_{name} := {term}.\nEval vm_compute in (wf c_{name}, flags c_{name}, show (final c_{name})).\n")
    shards.append((f"c08_{s // per}", "\n".join(body)))
  res = common.run_cases_parallel(shards)
  out = {}
  errors = []
  for s in range(0, len(cases), per):
    ok, txt = res[f"c08_{s // per}"]
    if not ok:
      errors.append(txt[-1500:])
      continue
    terms = common.parse_coq_eval(txt)
    for (name, _), t in zip(cases[s:s + per], terms):
      out[name] = t
  return out, errors


def render_expected(flags, snap):
  nodes, binds, nv = snap
  def opt(x): return "None" if x is None else f"Some {x}"
  def lst(l): return "[" + "; ".join(map(str, l)) + "]"
  def nodes_s():
    return "[" + "; ".join(f"({lst(i)}, {lst(o)}, {opt(c)})" for i, o, c in nodes) + "]"
  def org(os):
    return "[" + "; ".join(f"({w}, [" + "; ".join(lst(s) for s in sss) + "])" for w, sss in os) + "]"
  def binds_s():
    return "[" + "; ".join(f"({v}, {d}, {org(os)})" for v, d, os in binds) + "]"
  return nodes_s(), binds_s(), nv


def canon_model_graph(term):
  """Parses the model's printed (wf, flags, (nodes, bindings, nvars)) into Python values."""
  t = term.replace("Some ", "").replace("None", "None").replace(";", ",").replace("true", "True").replace("false", "False")
  return eval(t, {"__builtins__": {}}, {"None": None, "True": True, "False": False})  # pylint: disable=eval-used


def run(res):
  res.rule = ("histories of API-level typegraph operations (NewCFGNode/ConnectNew/ConnectTo/NewVariable/AddBinding with and "
              "without origin/Binding.AddOrigin/PasteBinding/PasteVariable/PasteBindingWithNewData/AssignToNewVariable/"
              "node.condition=...) with >=1 visibility query (IsVisible/HasCombination/Filter) between mutations; styles: "
              "acyclic / cyclic x with / without conditions; plus the family 'loops with loop-carried, mutually dependent "
              "source sets' (c07_loops: 1-3 variables updated in the loop body from each other and from pre-loop "
              "definitions, optional conditions, both binding allocation orders, several query orders inside one solver "
              "lifetime, several lifetimes per graph) as random members and as a small exhaustive scope (4-node loop, "
              "every source-set choice over {c,e}/{b,e}, every allocation order, every ordered pair - thorough: triple, "
              "and the 5-node loop - of single-goal queries over {b,c} x {head, body, exit} per lifetime). A history is "
              "non-trivial if it contains a query after a graph-changing mutation that followed an earlier query; "
              "distinct by its op list.")
  res.assumptions = [
      "the real solver reads only the solver-visible graph (nodes, edges, conditions, bindings, origins, source sets)",
      "solver-internal memo obeys the memo laws (Good): proved for the whole-query cache instance and for the real "
      "sub-state memo on acyclic condition-free graphs; on cyclic graphs the laws are REFUTED for the real memo "
      "(history_independent_cyclic_refuted) - there the replica differential decides, and a stale answer is "
      "classified as the listed finding only if the extracted Coq solver model reproduces both the long-lived "
      "and the fresh answers",
      "MAX_VAR_SIZE collapse to default data not modelled (histories keep variables small)",
      "C++ source scan (regex + brace matching) in harness/props/c08.py is trusted to read the table faithfully; fail-closed"]
  # (a) regenerate the table
  tbl, problems = scan_invalidation()
  write_generated(tbl)
  res.obligation("translator:invalidation-table (fail-closed structure checks)", not problems, "; ".join(problems))
  res.extra["invalidation_table"] = tbl
  common.coq_obligations(res, "C08")
  common.bootstrap_pytype()
  res.trusted_base += ["source scan translator harness/props/c08.py:scan_invalidation",
                       "out-of-tree g++ build of /repo/pytype/typegraph/*.cc (harness/common.py build_cfg)"]
  r = common.rng(res.seed, "c08")
  thorough = res.tier == "thorough"
  hs = []
  cdir = os.path.join(common.CORPUS, "C08")
  for f in sorted(os.listdir(cdir)) if os.path.isdir(cdir) else []:
    d = json.load(open(os.path.join(cdir, f)))
    hs.append(("corpus_" + re.sub(r"\W", "_", f), [(k, tuple(x) if k == "op" else (x[0], x[1], x[2])) for k, x in d["history"]]))
  n_hist = 3000 if thorough else 700
  for i in range(n_hist):
    hs.append((f"h{i}", gen_history(r, r.randint(4, 26), cyclic=(i % 2 == 1), with_cond=(i % 4 >= 2))))
  for i in range(24 if thorough else 8):
    hs.append((f"deep{i}", gen_deep_history(r, r.choice([66, 70, 90, 130]) if i % 2 == 0 else r.randint(20, 150), sat=(i % 4 == 3))))
  # loops with loop-carried, mutually dependent source sets (c07_loops): random members + the small exhaustive scope
  n_loop = 2400 if thorough else 500
  for i in range(n_loop):
    d7, q7s = L7.random_case(r, want_cond=(i % 3 == 2))
    hs.append((f"mloop{i}", L7.to_history(d7, q7s)))
  xl = (L7.exhaustive_cases(shapes=("std", "deep"), lifetimes=(2, 3)) if thorough
        else L7.exhaustive_cases(shapes=("std",), lifetimes=(2,)))
  res.extra["loop_family"] = {"random": n_loop, "exhaustive_scope_graphs": len(xl)}
  try:
    solver_model_exe()
  except common.BuildError as e:
    res.obligation("solver-model-build", False, str(e)[-2000:])
    return "proof"
  res.trusted_base += ["Coq extraction (ExtrOcamlBasic only) + OCaml 4.13.1 ocamlopt + harness/ocaml/solver_driver.ml"]
  t0 = time.time()
  cases = []
  expected = {}
  n_queries = 0
  n_stale = 0
  n_unlisted = 0
  op_kinds = {}
  inval_seen = {"invalidating": 0, "non_invalidating": 0}
  life_lines = []            # every solver lifetime of every history, for the solver-model correspondence
  life_meta = []
  stale_classes = {}
  for name, h in hs:
    mism, flags, snap, nq, lifetimes = run_history(h)
    n_queries += nq
    for k, x in h:
      if k == "op":
        op_kinds[x[0]] = op_kinds.get(x[0], 0) + 1
    for f in flags:
      if f is not None:
        inval_seen["invalidating" if f else "non_invalidating"] += 1
    if not name.startswith("mloop") or int(name[5:]) < 40:
      # graph + invalidation-flag correspondence with History.v (vm_compute in coqc: the loop family is about the
      # solver's memo, not about graph construction - a sample of it is enough here)
      mir = Mirror()
      apis = [decompose(mir, x) for k, x in h if k == "op"]
      cases.append((name, apis))
      expected[name] = (flags, snap)
    for li, lf in enumerate(lifetimes):
      life_lines.append(G7.model_line(lf["desc"], lf["qs"]))
      life_meta.append((name, li, lf))
    # non-trivial: a query, then a mutation, then a query
    kinds = "".join("q" if k == "q" else "m" for k, _ in h)
    res.count(tuple(map(str, h)) if re.search(r"qm+q", kinds) else None)
    if len(res.samples) < 2:
      res.sample({"history_prefix": [list(map(str, x)) for x in h[:12]], "queries": nq})
    for m in mism:
      (i, q, a, b, li, pos, _rd) = m
      n_stale += 1
      fp = fingerprint_of(h, m, lifetimes)
      stale_classes[fp] = stale_classes.get(fp, 0) + 1
      what = f"query {q} answered {a} by the long-lived program but {b} by a freshly built replica"
      if fp in res.known:
        res.violation(fp, what, None)           # listed finding: printed as KNOWN-FINDING, does not fail the run
        continue
      n_unlisted += 1
      if len(res.violations) >= 3:
        continue
      # shrink: drop ops/queries while a stale answer of the same class persists
      small = shrink_history(h[:i + 1], fp)
      if fp != AS_MODELLED:
        fp = "stale-answer-after:" + [x for k, x in small if k == "op"][-1][0]
      res.violation(fp, what + (" (no mutation since the solver was created; the Coq model of solver.cc does NOT "
                                "give these answers)" if fp.startswith("stale-answer-after") and li < len(lifetimes)
                                and not G7.is_acyclic(lifetimes[li]["desc"]) else ""),
                    {"history": small, "query": q, "long_lived": a, "replica": b})
  # (a') many solver generations on one program
  n_gen = 6000 if thorough else 1300
  g_stale, g_exp, g_obs, g_hist = generations_leg(n_gen, 6)
  res.count(("generations", n_gen))
  res.extra["generations_leg"] = {"solver_generations_expected_at_least": g_exp, "observed": g_obs, "stale": len(g_stale)}
  res.obligation("monitor:every mutation after a query starts a new solver generation (%d generations)" % n_gen,
                 g_obs >= g_exp, f"expected >= {g_exp} solver generations, the program's metrics show {g_obs}")
  for hist, q, a, b in g_stale[:1]:
    n_stale += 1
    res.violation("stale-answer-after-many-generations",
                  f"after {n_gen} solver generations on one program: query {q} answered {a} by the long-lived program "
                  f"but {b} by a freshly built replica",
                  {"chain_ops": hist[-40:], "n_ops": len(hist), "query": q, "long_lived": a, "replica": b,
                   "note": "linear chain: ('CN',) = last = last.ConnectNew(); ('AB', d) = v.AddBinding('data<d>', [], last); "
                           "v.Filter(last) after every AddBinding of the warm-up; only the last 40 ops are listed, the "
                           "warm-up op sequence is CN, NV repeated (NV = fresh variable bound at the last node, then Filter)"})
  timing = {"histories_s": round(time.time() - t0, 1)}
  res.extra["timing"] = timing
  # the exhaustive loop scope (direct leg: one long-lived program per graph, a rebuilt replica per distinct query)
  t1 = time.time()
  x_stale, x_lifetimes, x_nq = loop_scope_leg(xl)
  timing["loop_scope_impl_s"] = round(time.time() - t1, 1)
  n_queries += x_nq
  for li, lf in enumerate(x_lifetimes):
    life_lines.append(G7.model_line(lf["desc"], lf["qs"]))
    life_meta.append(("xloop", li, lf))
  for name, d7, lqs, q, a, b, lf, pos, rdesc in x_stale:
    n_stale += 1
    q8 = ("Has", q[1], list(q[2]))
    fp = AS_MODELLED if as_modelled_batch(lf, pos, q, b, rdesc) else "stale-answer-after:AddOrigin"
    stale_classes[fp] = stale_classes.get(fp, 0) + 1
    what = (f"query {q8} answered {a} by the long-lived program but {b} by a freshly built replica "
            f"(loop scope {name})")
    if fp in res.known:
      res.violation(fp, what, None)
      continue
    n_unlisted += 1
    if len(res.violations) >= 3:
      continue
    res.violation(fp, what + " (no mutation since the solver was created; the Coq model of solver.cc does NOT "
                  "give these answers)",
                  {"history": L7.to_history(d7, lqs), "query": q8, "long_lived": a == "1", "replica": b == "1"})
  res.extra["stale_answer_classes"] = stale_classes
  res.obligation("oracle:long-lived==replica at every query (listed findings excepted)", n_unlisted == 0,
                 f"{n_unlisted} stale answers outside the listed findings ({n_stale} in all: {stale_classes})")
  # (a'') every solver lifetime vs the extracted Coq solver model threading one state (Solver.solve; the `ask` of
  # HistorySolver.v): ties history_independent_real_solver and the cyclic-graph theorems to cfg.so inside C08
  try:
    t1 = time.time()
    mans = model_lifetimes(life_lines)
    timing["solver_model_lifetimes_s"] = round(time.time() - t1, 1)
    bad_l = [(meta, mo) for meta, mo in zip(life_meta, mans) if mo != meta[2]["ans"]]
    detail = ""
    if bad_l:
      (nm, li, lf), mo = bad_l[0]
      detail = (f"{len(bad_l)} of {len(life_meta)} lifetimes differ; first: history {nm} lifetime {li}: graph="
                f"{json.dumps(lf['desc'])} queries={json.dumps(lf['qs'])[:800]} cfg.so={' '.join(lf['ans'])[:300]} "
                f"model={' '.join(mo)[:300]}")
    res.obligation("correspondence:solver lifetimes (memo threaded) vs Coq Solver.solve", not bad_l, detail)
  except RuntimeError as e:
    res.obligation("correspondence:solver lifetimes (memo threaded) vs Coq Solver.solve", False, str(e))
  res.extra["solver_lifetimes_compared"] = len(life_meta)
  res.extra["solver_lifetime_answers_compared"] = sum(len(m[2]["ans"]) for m in life_meta)
  res.extra["solver_lifetimes_cyclic"] = sum(1 for m in life_meta if not G7.is_acyclic(m[2]["desc"]))
  # (b) model correspondence
  t1 = time.time()
  model, errors = model_cases(cases)
  timing["history_model_coqc_s"] = round(time.time() - t1, 1)
  res.obligation("model-run(cases.v)", not errors, "\n".join(errors)[:3000])
  n_bad = 0
  first = ""
  flag_mismatches = []
  for name, _ in cases:
    if name not in model:
      continue
    try:
      wf, mflags, (mnodes, mbinds, mnv) = canon_model_graph(model[name])
    except Exception as e:  # pylint: disable=broad-except
      n_bad += 1
      first = first or f"{name}: cannot parse model output {model[name][:200]} ({e})"
      continue
    flags, (rnodes, rbinds, rnv) = expected[name]
    mnodes = [(list(i), list(o), c) for i, o, c in mnodes]
    mbinds = [(v, d, [(w, sorted(list(s) for s in sss)) for w, sss in os]) for v, d, os in mbinds]
    rn = [(i, o, c) for i, o, c in rnodes]
    rb = [(v, d, [(w, sorted(sss)) for w, sss in os]) for v, d, os in rbinds]
    ok_graph = (mnodes == rn and mbinds == rb and mnv == rnv)
    # model says "invalidates" must be implied by ... : real invalidated <=> model inval_all, where observable
    ok_flags = all(f is None or f == m for f, m in zip(flags, mflags)) and len(flags) == len(mflags)
    if not ok_flags:
      # the implementation kept (or dropped) its solver where the model says otherwise: remember where, and
      # search for a stale answer around those operations afterwards (time-bounded)
      for k_op, (f, m) in enumerate(zip(flags, mflags)):
        if f is not None and f != m and not f:
          flag_mismatches.append((name, k_op))
    if not (wf and ok_graph and ok_flags):
      n_bad += 1
      if not first:
        first = (f"{name}: wf={wf} graph_equal={ok_graph} flags_equal={ok_flags}; real flags={flags} model flags={mflags}; "
                 f"real graph={(rn, rb, rnv)} model graph={(mnodes, mbinds, mnv)}")[:2500]
  t_search = time.time()
  hsd = dict(hs)
  for name, k_op in flag_mismatches:
    if time.time() - t_search > 60 or len(res.violations) >= 3 or any(v["found_input"] for v in res.violations):
      break
    ops_only = [x for k, x in hsd[name] if k == "op"]
    found = targeted_search(ops_only, k_op, budget_s=10.0)
    if found:
      hist, q, a, b = found
      res.violation(f"stale-answer-after:{ops_only[k_op][0]}",
                    f"query {q} answered {a} by the long-lived program but {b} by a freshly built replica "
                    f"(found by the targeted search around an operation that did not drop the solver)",
                    {"history": hist, "query": q, "long_lived": a, "replica": b})
  res.extra["flag_mismatches"] = len(flag_mismatches)
  res.obligation("correspondence:model graph+invalidation vs cfg.Program", n_bad == 0 and len(model) == len(cases),
                 f"{n_bad} of {len(cases)} histories disagree; {first}")
  res.extra["histories"] = len(hs)
  res.extra["queries_compared_with_replica"] = n_queries
  res.extra["op_kind_histogram"] = op_kinds
  res.extra["observed_invalidation"] = inval_seen
  res.extra["impl_wall_s"] = round(time.time() - t0, 1)
  if thorough:
    import c09
    ok, out = c09.common_coqchk("C08")
    res.obligation("coqchk", ok, out[-1500:])
  return "proof"


def shrink_history(h, fp=None, budget_s=20.0):
  """Drop ops/queries while the last query stays stale with the same fingerprint class (as-modelled or not); ids
  must stay valid: failures to execute count as 'not failing'."""
  deadline = time.time() + budget_s
  want_modelled = (fp == AS_MODELLED)
  def bad(c):
    try:
      mism, _, _, _, lifetimes = run_history(c)
      if not (mism and mism[-1][0] == len(c) - 1):
        return False
      if fp is None:
        return True
      return (fingerprint_of(c, mism[-1], lifetimes) == AS_MODELLED) == want_modelled
    except Exception:  # pylint: disable=broad-except
      return False
  cur = list(h)
  changed = True
  while changed and time.time() < deadline:
    changed = False
    for i in range(len(cur) - 2, -1, -1):
      if time.time() > deadline:
        break
      cand = cur[:i] + cur[i + 1:]
      if bad(cand):
        cur = cand
        changed = True
  return cur


def replay(res, path):
  """Re-runs the stored history.  Origin::source_sets iterates in raw-pointer order, so what the solver does with a
  history can depend on where the allocator put the bindings: the history is run up to 12 times with the heap
  perturbed in between (earlier programs and some junk are kept alive); one failing run is a failure."""
  common.bootstrap_pytype()
  d = json.load(open(path))
  rp = d.get("replay") or d
  h = [(k, tuple(x) if k == "op" else (x[0], x[1], x[2])) for k, x in rp["history"]]
  keep = []
  for attempt in range(12):
    mism, _, _, _, lifetimes = run_history(h)
    bad = 0
    for m in mism:
      try:
        fp = fingerprint_of(h, m, lifetimes)
      except Exception as e:  # pylint: disable=broad-except
        fp = "unclassified (%r)" % e
      print("attempt %d stale:" % attempt, m[:4], "class:", fp)
      if fp not in res.known:
        bad += 1
    if bad:
      return 1
    junk = Real(); junk.do(("NewNode", None)); junk.do(("NewVariable",)); junk.do(("AddBinding", 0, 0))
    keep.append((junk, [object() for _ in range(7 * attempt + 3)]))
  print("no unlisted stale answer in 12 runs")
  return 0
