"""Worker process for the C06 end-to-end oracle: reads one JSON object per line ({"id":..,"src":..}) on stdin,
runs c06_e2e.check_pair, writes one JSON result per line.  Started by c06.py with common.impl_env()."""
import json
import os
import sys

sys.path.insert(0, os.path.dirname(os.path.abspath(__file__)))
sys.path.insert(0, os.path.dirname(os.path.dirname(os.path.abspath(__file__))))


def main():
  import common
  common.bootstrap_pytype()
  import c06_e2e
  workdir = sys.argv[1]
  for line in sys.stdin:
    line = line.strip()
    if not line:
      continue
    job = json.loads(line)
    try:
      if job.get("kind") == "chain":
        res = c06_e2e.check_chain(job["chain"], workdir, tuple(job.get("transports") or c06_e2e.TRANSPORTS))
      else:
        res = c06_e2e.check_pair(job["src"], workdir, tuple(job.get("transports") or c06_e2e.TRANSPORTS))
    except Exception as e:  # pylint: disable=broad-except
      import traceback
      res = {"status": "harness-error", "what": "%s: %s" % (type(e).__name__, str(e)[:300]),
             "trace": traceback.format_exc()[-2000:]}
    res["id"] = job["id"]
    # keep the output small
    for k in ("stub_0", "stub_1"):
      if k in res:
        res[k] = res[k][:4000]
    sys.stdout.write(json.dumps(res) + "\n")
    sys.stdout.flush()


if __name__ == "__main__":
  main()
