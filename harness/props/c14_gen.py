"""C14 helpers: value grammar, statement runners (real pytype / CPython), builtin-table regeneration.

Everything that touches pytype goes through `common.bootstrap_pytype()` + `io.generate_pyi` (the real VM,
attribute handler, PyTDFunction.call and matcher over the stubs read by pytype's own loader).
"""
import os
import re
import sys
import time
import warnings

import common

warnings.simplefilter("ignore", SyntaxWarning)

# ------------------------------------------------------------------------------------------
# name ids (shared with coq/Ops/Model.v): binary operator i has forward id 2i and reflected id 2i+1

BINOPS = [("+", "add"), ("-", "sub"), ("*", "mul"), ("/", "truediv"), ("//", "floordiv"), ("%", "mod"),
          ("**", "pow"), ("<<", "lshift"), (">>", "rshift"), ("&", "and"), ("|", "or"), ("^", "xor")]
N_BIN = len(BINOPS)
GETITEM, NEG, CALL, INIT = 2 * N_BIN, 2 * N_BIN + 1, 2 * N_BIN + 2, 2 * N_BIN + 3
FIXED_NAMES = []
for _s, _n in BINOPS:
  FIXED_NAMES += [f"__{_n}__", f"__r{_n}__"]
FIXED_NAMES += ["__getitem__", "__neg__", "__call__", "__init__", "as_integer_ratio", "to_bytes"]
# ---- C14x extension (ids 30..53, coq/Ops/Model.v is_new): comparisons, membership, in-place, other unary dunders
CMPOPS = [("<", "lt"), ("<=", "le"), (">", "gt"), (">=", "ge"), ("==", "eq"), ("!=", "ne")]
LT = len(FIXED_NAMES)                       # 30: __lt__ __le__ __gt__ __ge__ __eq__ __ne__
FIXED_NAMES += [f"__{_n}__" for _s, _n in CMPOPS]
CONTAINS = len(FIXED_NAMES)                 # 36
FIXED_NAMES += ["__contains__"]
IOP0 = len(FIXED_NAMES)                     # 37 + i : in-place dunder of binary operator i
FIXED_NAMES += [f"__i{_n}__" for _s, _n in BINOPS]
POS, INVERT, BOOL, LEN, ITER = range(len(FIXED_NAMES), len(FIXED_NAMES) + 5)      # 49..53
FIXED_NAMES += ["__pos__", "__invert__", "__bool__", "__len__", "__iter__"]
SETITEM, DELITEM = len(FIXED_NAMES), len(FIXED_NAMES) + 1      # 54, 55:  x[k] = 1,  del x[k]
FIXED_NAMES += ["__setitem__", "__delitem__"]
NEW_END = len(FIXED_NAMES)                  # 56
NEW_ARG1 = list(range(LT, IOP0 + N_BIN)) + [SETITEM, DELITEM]   # new dunders probed with one (key) argument
NEW_ARG0 = [POS, INVERT, BOOL, LEN, ITER]   # new nullary dunders
SWAPPED = {LT: LT + 2, LT + 1: LT + 3, LT + 2: LT, LT + 3: LT + 1, LT + 4: LT + 4, LT + 5: LT + 5}


def iname(op):
  """id of the in-place dunder of the binary operator whose forward dunder has id op."""
  return IOP0 + op // 2

ADVERTISED = [0, 2, 4, 6]            # ids of + - * /   (the mistakes pytype advertises), plus NEG and GETITEM
OR_ID = 2 * 10

# ------------------------------------------------------------------------------------------
# builtin value heads: (class name, literal, second literal used only by the thorough oracle)

HEADS = [
    ("object", "object()", "object()"),
    ("int", "1", "0"),
    ("bool", "True", "False"),
    ("float", "1.5", "0.0"),
    ("complex", "2j", "0j"),
    ("str", '"a"', '""'),
    ("bytes", 'b"a"', 'b""'),
    ("NoneType", "None", "None"),
    ("list", "[1]", "[]"),
    ("tuple", "(1,)", "()"),
    ("dict", "{1: 2}", "{}"),
    ("set", "{1}", "set()"),
    ("frozenset", "frozenset({1})", "frozenset()"),
    ("builtin_function_or_method", "len", "abs"),
]
NB = len(HEADS)
NONE_ID = 7
FUNC_ID = 13
BOGUS = ["zz", "ca", "ia", "meth"]


def head_value(i, variant=0):
  return eval(HEADS[i][1 + variant], {})  # pylint: disable=eval-used


def rt_mro(i):
  names = [h[0] for h in HEADS]
  return [names.index(k.__name__) for k in type(head_value(i)).__mro__ if k.__name__ in names]


# ------------------------------------------------------------------------------------------
# user classes.  A class table is a list of dicts:
#   {name, bases:[idx], dunders:{name_id: accept}, cattrs:[(name, kind)], init:[(name, kind)] or None}
# accept: "all" | list of accepted argument class ids (others get NotImplemented);  kind: "int" | "meth"

# __getitem__ of every generated class raises IndexError past index 2: otherwise CPython's old-style sequence
# iteration (list += x, "".join(x) ...) over an instance never terminates
GETITEM_GUARD = "    if type(k) is int and k > 2: raise IndexError(k)\n"

PROBE_CLASSES = '''class P_: pass
class F_:
  def __getitem__(self, k):
''' + GETITEM_GUARD + '''    return 0
  def __neg__(self): return 0
  def __call__(self): return 0
''' + "".join(f"  def __{n}__(self, o): return 0\n  def __r{n}__(self, o): return 0\n" for _, n in BINOPS)


NULLARY = (NEG, CALL, POS, INVERT, BOOL, LEN, ITER)
_NULL_RET = {BOOL: "True", LEN: "0", ITER: "iter(())"}


def _single(d):
  nm = FIXED_NAMES[d]
  if d == GETITEM:
    return f"class G{d}_:\n  def {nm}(self, k):\n{GETITEM_GUARD}    return 0\n"
  if d in NULLARY:
    return f"class G{d}_:\n  def {nm}(self): return {_NULL_RET.get(d, '0')}\n"
  if d == SETITEM:
    return f"class G{d}_:\n  def {nm}(self, k, v): return None\n"
  return f"class G{d}_:\n  def {nm}(self, o): return {'True' if d == CONTAINS else '0'}\n"


SINGLE_IDS = list(range(CALL + 1))                 # singles probed for the old dunders
SINGLE_IDS2 = SINGLE_IDS + [CONTAINS, LEN, ITER]   # ... and for the new ones
SINGLE_CLASSES = "".join(_single(d) for d in SINGLE_IDS2)
# H_: the full class for the new dunders (F_ + membership/iteration protocol); RF_: reflected dunders only
PROBE_CLASSES += """class H_(F_):
  def __contains__(self, o): return True
  def __len__(self): return 0
  def __iter__(self): return iter(())
class RF_:
""" + "".join(f"  def __r{n}__(self, o): return 0\n" for _, n in BINOPS)


def fixed_user_classes():
  """The six generated classes of the oracle (with/without __add__, __radd__, __getitem__, __call__, __neg__,
  inherited), plus methods answering NotImplemented."""
  A, R = 0, 1
  return [
      dict(name="UA", bases=[], dunders={A: "all", GETITEM: "all"}, cattrs=[("ca", "int"), ("meth", "meth")],
           init=[("ia", "int")]),
      dict(name="UB", bases=[0], dunders={R: "all"}, cattrs=[], init=None),
      dict(name="UC", bases=[], dunders={R: "all", CALL: "all", NEG: "all"}, cattrs=[], init=None),
      dict(name="UD", bases=[2], dunders={}, cattrs=[("cb", "int")], init=[("ib", "int")]),
      dict(name="UE", bases=[], dunders={}, cattrs=[], init=None),
      dict(name="UF", bases=[], dunders={A: [], 5: [], 2: "all", 3: "all", 6: "all", 7: "all"}, cattrs=[], init=None),
      # C14x: comparison / membership / in-place / unary dunders (ids 20..23)
      dict(name="UG", bases=[], dunders={LT: "all", LT + 4: "all", CONTAINS: "all", IOP0: "all", POS: "all",
                                         BOOL: "all"}, cattrs=[], init=None),
      dict(name="UH", bases=[6], dunders={LT + 2: "all", IOP0: [], A: "all", IOP0 + 1: [], DELITEM: "all"}, cattrs=[], init=None),
      dict(name="UI", bases=[], dunders={LT + 2: "all", LT + 3: [], ITER: "all", INVERT: "all", LEN: [],
                                         IOP0 + 1: [], 3: "all", R: "all", 21: "all"}, cattrs=[], init=None),
      dict(name="UJ", bases=[], dunders={GETITEM: "all", BOOL: [], IOP0 + 10: "all", LT + 1: [5], LT + 5: "all",
                                         SETITEM: "all"},
           cattrs=[], init=None),
  ]


def random_user_classes(r, n):
  """Random class table: any inheritance among earlier classes (C3 permitting), any subset of dunders."""
  out = []
  for i in range(n):
    while True:
      k = r.choice([0, 0, 1, 1, 2]) if i else 0
      bases = r.sample(range(i), min(k, i))
      if _c3_ok(out, bases):
        break
    dn = {}
    pool = [0, 1, 0, 1, 2, 3, 4, 5, 6, 7, 18, 19, 20, 21, GETITEM, NEG, CALL,
            LT, LT, LT + 1, LT + 2, LT + 2, LT + 3, LT + 4, LT + 5, CONTAINS, IOP0, IOP0, IOP0 + 1, IOP0 + 2,
            IOP0 + 10, POS, INVERT, BOOL, LEN, ITER, SETITEM, DELITEM]
    for d in r.sample(pool, r.choice([0, 1, 2, 3, 4, 5, 6])):
      z = r.random()
      binary_like = d < 2 * N_BIN or LT <= d < CONTAINS or IOP0 <= d < IOP0 + N_BIN       # not SETITEM / DELITEM
      if d in (BOOL, LEN):
        dn[d] = "all" if z < 0.7 else []
      elif z < 0.7 or not binary_like:   # __getitem__/__neg__/__call__...: NotImplemented is just a value there
        dn[d] = "all"
      elif z < 0.85:
        dn[d] = []
      else:
        dn[d] = sorted(r.sample(range(NB + n), r.randint(1, 4)))
    cattrs = [(f"c{r.randrange(3)}", r.choice(["int", "meth"])) for _ in range(r.choice([0, 1, 1, 2]))]
    cattrs = list(dict(cattrs).items())
    init = None
    if r.random() < 0.4:
      init = list(dict((f"{r.choice('ic')}{r.randrange(3)}", "int") for _ in range(r.choice([0, 1, 2]))).items())
    if i and r.random() < 0.4:
      # make the option order observable: a base defines op, this class overrides the reflected dunder
      base = bases[0] if bases else r.randrange(i)
      if not bases:
        bases = [base]
      op = 2 * r.choice([0, 0, 1, 2, 9, 10])
      out[base]["dunders"][op] = "all"
      dn[op + 1] = "all"
    out.append(dict(name=f"U{i}", bases=bases, dunders=dn, cattrs=cattrs, init=init))
  return out


def _c3_ok(classes, bases):
  src = class_source(classes + [dict(name="T_", bases=bases, dunders={}, cattrs=[], init=None)], markers=False)
  try:
    exec(src, {})  # pylint: disable=exec-used
    return True
  except TypeError:
    return False


def marker(ci, d):
  return f"M{ci}_{d}"


def class_source(classes, markers=True):
  """Python source of a class table.  Every dunder of class i returns an instance of its own marker class
  M<i>_<d> (so both pytype's inferred type and the run-time result reveal which definition answered)."""
  out = []
  if markers:
    for i, c in enumerate(classes):
      for d in sorted(c["dunders"]):
        out.append(f"class {marker(i, d)}: pass")
      for a, k in c["cattrs"]:
        if k == "meth":
          out.append(f"class M{i}_{a}: pass")
  for i, c in enumerate(classes):
    bases = ", ".join(classes[b]["name"] for b in c["bases"])
    if not bases and c.get("root") is not None:
      bases = HEADS[c["root"]][0]            # C14d: a class deriving from a builtin head (class U3(int): ...)
    out.append(f"class {c['name']}({bases}):" if bases else f"class {c['name']}:")
    body = []
    for a, k in c["cattrs"]:
      if k == "int":
        body.append(f"  {a} = 0")
      else:
        body.append(f"  def {a}(self): return M{i}_{a}()" if markers else f"  def {a}(self): return 0")
    if c["init"] is not None:
      body.append("  def __init__(self):")
      body += [f"    self.{a} = 0" for a, _ in c["init"]] or ["    pass"]
    for d in sorted(c["dunders"]):
      acc = c["dunders"][d]
      ret = f"{marker(i, d)}()" if markers else "0"
      nm = FIXED_NAMES[d]
      if d in (BOOL, LEN):
        # acc "all": a well-behaved __bool__/__len__; []: returns a value CPython refuses (TypeError on `not x`)
        good, bad = ("True", "0") if d == BOOL else ("0", '"s"')
        body.append(f"  def {nm}(self): return {good if acc == 'all' else bad}")
      elif d == ITER:
        body.append(f"  def {nm}(self): return iter(())")
      elif d == CONTAINS:
        body.append(f"  def {nm}(self, o): return True")
      elif d == SETITEM:
        body.append(f"  def {nm}(self, k, v): return None")
      elif d == DELITEM:
        body.append(f"  def {nm}(self, k): return None")
      elif d in NULLARY:
        body.append(f"  def {nm}(self): return {ret}")
      elif d == GETITEM:
        body.append(f"  def {nm}(self, k):\n{GETITEM_GUARD}    return {ret}")
      elif acc == "all":
        body.append(f"  def {nm}(self, o): return {ret}")
      elif not acc:
        body.append(f"  def {nm}(self, o): return NotImplemented")
      else:
        names = ", ".join(cls_expr(classes, a) for a in acc)
        body.append(f"  def {nm}(self, o): return {ret} if type(o) in ({names},) else NotImplemented")
      if d == LT + 4:
        body.append("  def __hash__(self): return 12345")      # a class defining __eq__ stays hashable
    out += body or ["  pass"]
  return "\n".join(out) + "\n"


def cls_expr(classes, a):
  if a < NB:
    return f"type({HEADS[a][1]})"
  return classes[a - NB]["name"] if a - NB < len(classes) else "type(None)"


def value_expr(classes, a, variant=0):
  if a < NB:
    return HEADS[a][1 + variant]
  c = classes[a - NB]
  if c.get("root") is not None:              # C14d: built from the literal of the head it derives from: U3(1), U4([1])
    return f"{c['name']}({HEADS[c['root']][1]})"
  return c["name"] + "()"


def user_mro(classes):
  """Linearisations as CPython computes them (ids: NB+i, object = 0)."""
  ns = {}
  exec(class_source(classes, markers=False), ns)  # pylint: disable=exec-used
  idx = {h[0]: i for i, h in enumerate(HEADS)}
  idx.update({c["name"]: NB + i for i, c in enumerate(classes)})
  idx["object"] = 0
  return [[idx[k.__name__] for k in ns[c["name"]].__mro__] for c in classes]


# ------------------------------------------------------------------------------------------
# statements: ("bin", x, op_id, y) ("sub", x, y) ("neg", x) ("call", x) ("attr", x, name) ("mcall", x, name)
# ("ibin", x, op_id, y)  -- in-place, oracle only

def stmt_text(classes, st, var, variant=(0, 0)):
  """One line per statement.  Operands are first bound to fresh names on the same line (`a7 = 1; b7 = "x";
  v7 = (a7) + (b7)`): with literal operands written in place the CPython compiler folds every constant
  expression that succeeds (1 + 1, -(1), "a"[0] ...) and pytype would never see the operator."""
  k = st[0]
  j = var[1:]
  a, b = f"a{j}", f"b{j}"
  vx = value_expr(classes, st[1], variant[0])
  if k == "bin":
    return f"{a} = {vx}; {b} = {value_expr(classes, st[3], variant[1])}; {var} = ({a}) {BINOPS[st[2] // 2][0]} ({b})"
  if k == "ibin":
    return f"{var} = {vx}; {b} = {value_expr(classes, st[3], variant[1])}; {var} {BINOPS[st[2] // 2][0]}= ({b})"
  if k == "sub":
    return f"{a} = {vx}; {b} = {value_expr(classes, st[2], variant[1])}; {var} = ({a})[{b}]"
  if k == "neg":
    return f"{a} = {vx}; {var} = -({a})"
  if k == "cmp":
    return f"{a} = {vx}; {b} = {value_expr(classes, st[3], variant[1])}; {var} = ({a}) {CMPOPS[st[2] - LT][0]} ({b})"
  if k == "in":          # ("in", item, seq, negated)
    return (f"{a} = {vx}; {b} = {value_expr(classes, st[2], variant[1])}; "
            f"{var} = ({a}) {'not in' if st[3] else 'in'} ({b})")
  if k == "st":          # ("st", x, SETITEM | DELITEM, key)
    kx = value_expr(classes, st[3], variant[1])
    if st[2] == SETITEM:
      return f"{a} = {vx}; {b} = {kx}; {a}[{b}] = 1; {var} = {a}"
    return f"{a} = {vx}; {b} = {kx}; del {a}[{b}]; {var} = {a}"
  if k == "un":          # ("un", x, POS | INVERT | BOOL)   BOOL stands for `not x`
    return f"{a} = {vx}; {var} = {UNSYM[st[2]]}({a})"
  if k == "call":
    return f"{a} = {vx}; {var} = ({a})()"
  if k == "attr":
    return f"{a} = {vx}; {var} = ({a}).{st[2]}"
  if k == "mcall":
    return f"{a} = {vx}; {var} = ({a}).{st[2]}()"
  raise ValueError(st)


UNSYM = {POS: "+", INVERT: "~", BOOL: "not "}


def result_var(text):
  return re.search(r"\bv\d+\b", text).group(0)


# ------------------------------------------------------------------------------------------
# real pytype

_OPTS = None


def _opts():
  global _OPTS
  if _OPTS is None:
    from pytype import config  # pylint: disable=import-outside-toplevel
    _OPTS = config.Options.create(python_version=(3, 12))
  return _OPTS


def _pytype_batch(job):
  """job = (preamble, [statement text with variable v<j>]).  Returns [(sorted error names, type or None)]."""
  from pytype import io  # pylint: disable=import-outside-toplevel
  pre, lines = job
  npre = pre.count("\n")
  src = pre + "".join(l + "\n" for l in lines)
  try:
    ret, pyi = io.generate_pyi(src, _opts())
  except Exception as e:  # pylint: disable=broad-except
    return ("crash", f"{type(e).__name__}: {e}"[:300])
  errs = [[] for _ in lines]
  stray = []
  for e in ret.context.errorlog:
    j = e.line - npre - 1
    if 0 <= j < len(lines):
      errs[j].append(e.name)
    else:
      stray.append((e.line, e.name, e.message.split("\n")[0]))
  types = {}
  for m in re.finditer(r"^(v\d+): (.*)$", pyi, re.M):
    types[m.group(1)] = m.group(2)
  out = []
  for j, l in enumerate(lines):
    out.append((sorted(errs[j]), types.get(result_var(l))))
  return ("ok", out, stray)


PROCS = 4
MEM_LIMIT = 6 << 30          # per worker, bytes of address space
BATCH_TIMEOUT = 240          # seconds, one batch of <= 100 statements
_POOL = None
_WARM = False
NO_RESULT = "no-result"      # marker: real pytype gave no result for this statement within the limits


def warm_up():
  """One tiny analysis in the parent, so that forked workers inherit the imported modules and parsed stubs."""
  global _WARM
  if not _WARM:
    _pytype_batch(("", ["v0 = 1"]))
    _WARM = True


def _init_worker():
  import resource  # pylint: disable=import-outside-toplevel
  resource.setrlimit(resource.RLIMIT_AS, (MEM_LIMIT, MEM_LIMIT))


def _pool():
  """All analyses run in recycled worker processes (pytype leaks ~8 MB per analysed module)."""
  global _POOL
  if _POOL is None:
    import multiprocessing as mp  # pylint: disable=import-outside-toplevel
    warm_up()
    _POOL = mp.get_context("fork").Pool(PROCS, initializer=_init_worker, maxtasksperchild=12)
  return _POOL


def close_pool():
  global _POOL
  if _POOL is not None:
    _POOL.terminate()
    _POOL = None


def _run_jobs(jobs, timeout=BATCH_TIMEOUT):
  """-> per job ("ok", out, stray) | ("crash", msg) | ("timeout",)."""
  import multiprocessing as mp  # pylint: disable=import-outside-toplevel
  results = [None] * len(jobs)
  todo = list(range(len(jobs)))
  while todo:
    pool = _pool()
    handles = [(i, pool.apply_async(_pytype_batch, (jobs[i],))) for i in todo]
    todo = []
    broken = False
    for i, h in handles:
      if broken:
        if h.ready():
          results[i] = h.get()
        else:
          todo.append(i)
        continue
      try:
        results[i] = h.get(timeout=timeout)
      except mp.TimeoutError:
        results[i] = ("timeout",)
        broken = True
    if broken:
      close_pool()
  return results


def _resolve(job, r):
  """Per-statement results of one job; a failing batch is bisected down to the statements responsible."""
  pre, lines = job
  if r[0] == "ok":
    if r[2]:
      raise common.BuildError("pytype reported an error outside the statement lines: %r" % (r[2][:3],))
    return r[1]
  if len(lines) == 1:
    return [(NO_RESULT, r[0] + (": " + r[1] if len(r) > 1 else ""))]
  h = len(lines) // 2
  halves = [(pre, lines[:h]), (pre, lines[h:])]
  rs = _run_jobs(halves, timeout=max(40, BATCH_TIMEOUT * len(lines) // 150))
  return _resolve(halves[0], rs[0]) + _resolve(halves[1], rs[1])


def run_pytype_many(mods, batch=100):
  """mods: [(preamble, [statement text assigning v<j>])].  Returns per module a list of
  (sorted error names, pyi type) -- or (NO_RESULT, reason)."""
  jobs, index = [], []
  for mi, (pre, texts) in enumerate(mods):
    for off in range(0, len(texts), batch):
      jobs.append((pre, texts[off:off + batch]))
      index.append(mi)
  rs = _run_jobs(jobs)
  out = [[] for _ in mods]
  for mi, job, r in zip(index, jobs, rs):
    out[mi] += _resolve(job, r)
  return out


def run_pytype(preamble, texts, batch=100):
  return run_pytype_many([(preamble, texts)], batch)[0]


# ------------------------------------------------------------------------------------------
# CPython

class _StmtTimeout(BaseException):
  pass


def _alarm(signum, frame):
  raise _StmtTimeout()


def run_cpython(preamble, texts):
  """Executes each statement in a fresh namespace (class definitions shared), at most 10 s each.  Returns
  [(exception class name or None, message, type name of the value or None)]."""
  import signal  # pylint: disable=import-outside-toplevel
  base = {}
  exec(preamble, base)  # pylint: disable=exec-used
  out = []
  old = signal.signal(signal.SIGALRM, _alarm)
  try:
    for t in texts:
      ns = dict(base)
      var = result_var(t)
      signal.setitimer(signal.ITIMER_REAL, 10)
      try:
        exec(t, ns)  # pylint: disable=exec-used
        out.append((None, "", type(ns[var]).__name__))
      except _StmtTimeout:
        out.append(("Timeout", "statement did not finish in 10 s", None))
      except Exception as e:  # pylint: disable=broad-except
        out.append((type(e).__name__, str(e), None))
      finally:
        signal.setitimer(signal.ITIMER_REAL, 0)
  finally:
    signal.signal(signal.SIGALRM, old)
  return out


def is_type_error(exc_name):
  return exc_name in ("TypeError", "AttributeError")


# ------------------------------------------------------------------------------------------
# regeneration of the builtin table

def stub_info():
  """Through pytype's own loader: for every head class the stub MRO restricted to the heads, and for every
  name defined on a class of the stub MRO the first defining class (owner)."""
  from pytype import load_pytd  # pylint: disable=import-outside-toplevel
  from pytype.pytd import mro as pytd_mro  # pylint: disable=import-outside-toplevel
  loader = load_pytd.create_loader(_opts())
  b = loader.builtins
  names = [h[0] for h in HEADS]
  info = []
  for i, (cn, _, _) in enumerate(HEADS):
    if i == FUNC_ID:
      info.append(dict(mro=[FUNC_ID, 0], owner={}, sigs={}))
      continue
    c = b.Lookup("builtins." + cn)
    chain = [c] + [getattr(k, 'cls', k) for k in pytd_mro.GetBasesInMRO(c)]
    mro = []
    owner = {}
    sigs = {}
    for k in chain:
      short = k.name.split(".", 1)[1] if k.name.startswith("builtins.") else None
      kid = names.index(short) if short in names else None
      if kid is not None:
        mro.append(kid)
      for m in list(k.methods) + list(k.constants):
        if m.name not in owner:
          owner[m.name] = kid if kid is not None else i   # a typing.* base: attributed to the head itself
          if hasattr(m, "signatures"):
            sigs[m.name] = len(m.signatures)
    info.append(dict(mro=mro, owner=owner, sigs=sigs))
  return info


def rt_owner(i, name):
  for k in type(head_value(i)).__mro__:
    if name in k.__dict__:
      n = [h[0] for h in HEADS]
      return n.index(k.__name__) if k.__name__ in n else i
  return None


def type_lookup(v, name):
  """The attribute as CPython's slot machinery finds it: on the type's MRO, never on the instance/metaclass."""
  for k in type(v).__mro__:
    if name in k.__dict__:
      return k.__dict__[name]
  return None


def attr_universe(stub):
  """Per head: names to probe = modelled dunders + stub names + run-time dir() + bogus names."""
  uni = []
  for i in range(NB):
    s = set(BOGUS) | set(stub[i]["owner"]) | set(dir(head_value(i)))
    s = {n for n in s if re.fullmatch(r"[A-Za-z][A-Za-z_0-9]*", n)}      # public names only
    s |= set(FIXED_NAMES[:INIT]) | set(FIXED_NAMES[LT:NEW_END])
    uni.append(sorted(s))
  return uni


def call0_probed(name):
  """Names for which `v.name()` is probed (zero-argument call): public names and the modelled nullary dunders."""
  return not name.startswith("_") or name in ("__neg__", "__call__") or name in FIXED_NAMES[POS:ITER + 1]


ARG_EXPRS = [h[1] for h in HEADS] + ["P_()", "F_()"]
ARG_EXPRS2 = [h[1] for h in HEADS] + ["P_()", "H_()"]
OLD_ARG1 = set(FIXED_NAMES[:GETITEM + 1])
NEW_ARG1_NAMES = set(FIXED_NAMES[LT:IOP0 + N_BIN]) | {"__setitem__", "__delitem__"}
DUNDER_IDS = set(FIXED_NAMES[:INIT]) | set(FIXED_NAMES[LT:NEW_END])


def _singles_for(n):
  return SINGLE_IDS2 if n in NEW_ARG1_NAMES else SINGLE_IDS


def _checked(results, texts):
  for r, t in zip(results, texts):
    if r[0] == NO_RESULT:
      raise TranslatorError(f"pytype gave no result for the probe `{t}`: {r[1]}")
  return results


def probe_pytype(uni):
  """Real pytype on explicit attribute loads / method calls.  Returns rows[i][name] =
  dict(call0=bool|None, acc=[head ids], accP=bool, accF=bool) for present names."""
  texts = []
  keys = []
  for i in range(NB):
    for n in uni[i]:
      keys.append((i, n, "attr")); texts.append(f"v{len(texts)} = ({HEADS[i][1]}).{n}")
  r1 = _checked(run_pytype(PROBE_CLASSES, texts), texts)
  present = {(i, n) for (i, n, _), (errs, _) in zip(keys, r1) if not errs}
  texts, keys = [], []
  for (i, n) in sorted(present):
    if n == "__call__":
      keys.append((i, n, None)); texts.append(f"v{len(texts)} = ({HEADS[i][1]})()")
    elif call0_probed(n):
      keys.append((i, n, None)); texts.append(f"v{len(texts)} = ({HEADS[i][1]}).{n}()")
    if n in OLD_ARG1 or n in NEW_ARG1_NAMES:
      for a, ex in enumerate(ARG_EXPRS if n in OLD_ARG1 else ARG_EXPRS2):
        keys.append((i, n, a))
        texts.append(f"v{len(texts)} = ({HEADS[i][1]}).{n}({ex}{', 1' if n == '__setitem__' else ''})")
  r2 = _checked(run_pytype(PROBE_CLASSES, texts), texts)
  rows = [dict() for _ in range(NB)]
  for (i, n) in present:
    rows[i][n] = dict(call0=None, acc=[], accP=False, accF=False)
  for (i, n, a), (errs, _) in zip(keys, r2):
    e = rows[i][n]
    if a is None:
      e["call0"] = not errs
    elif a < NB:
      if not errs:
        e["acc"].append(a)
    elif a == NB:
      e["accP"] = not errs
    else:
      e["accF"] = not errs
  # cells where the empty class is rejected but the full one accepted: which single dunder suffices?
  cells = [(i, n) for i in range(NB) for n, e in sorted(rows[i].items()) if e["accF"] and not e["accP"]]
  texts = [f"v{k} = ({HEADS[i][1]}).{n}(G{d}_(){', 1' if n == '__setitem__' else ''})" for k, (i, n, d) in
           enumerate((i, n, d) for (i, n) in cells for d in _singles_for(n))]
  r3 = _checked(run_pytype(PROBE_CLASSES + SINGLE_CLASSES, texts), texts) if texts else []
  k = 0
  for (i, n) in cells:
    rows[i][n]["has"] = []
    for d in _singles_for(n):
      if not r3[k][0]:
        rows[i][n]["has"].append(d)
      k += 1
  return rows, len(r1) + len(r2) + len(r3)


def probe_cpython(uni):
  """Run-time side: executes type(v).name(v, a) once per (head, name, argument head) under CPython.
  accepted = anything but NotImplemented / TypeError (KeyError, IndexError, ZeroDivisionError ... count as
  accepted: they are not type errors)."""
  ns = {}
  exec(PROBE_CLASSES + SINGLE_CLASSES, ns)  # pylint: disable=exec-used
  rows = [dict() for _ in range(NB)]
  n_exec = 0

  def accepted(i, n, args):
    nonlocal n_exec
    n_exec += 1
    v = head_value(i)
    try:
      f = type_lookup(v, n) if n in DUNDER_IDS else None
      if n == "__setitem__" and args:
        args = args + (1,)
      r = f(v, *args) if f is not None else getattr(v, n)(*args)
      return r is not NotImplemented
    except (TypeError, AttributeError):
      return False
    except Exception:  # pylint: disable=broad-except
      return True

  for i in range(NB):
    v = head_value(i)
    for n in uni[i]:
      if n in DUNDER_IDS:
        if type_lookup(v, n) is None:
          continue
      elif not hasattr(v, n):
        continue
      e = dict(call0=None, acc=[], accP=False, accF=False)
      if call0_probed(n):
        e["call0"] = accepted(i, n, ())
      if n in OLD_ARG1 or n in NEW_ARG1_NAMES:
        for a in range(NB):
          if accepted(i, n, (head_value(a),)):
            e["acc"].append(a)
        e["accP"] = accepted(i, n, (ns["P_"](),))
        e["accF"] = accepted(i, n, (ns["F_" if n in OLD_ARG1 else "H_"](),))
        if e["accF"] and not e["accP"]:
          e["has"] = [d for d in _singles_for(n) if accepted(i, n, (ns[f"G{d}_"](),))]
      rows[i][n] = e
  return rows, n_exec


# ------------------------------------------------------------------------------------------
# C14x: what compare.cmp_rel answers natively (before any dunder is looked up), observed on the real VM

def _native_batch(job):
  """Like _pytype_batch, with pytype.compare.cmp_rel wrapped (in this worker process only) so that its answer for
  the comparison on each statement line is recorded: 'T'/'F' (a bool), 'N' (None: the dunder is dispatched),
  'E' (CmpTypeError: unsupported-operands is reported)."""
  from pytype import compare  # pylint: disable=import-outside-toplevel
  pre, lines = job
  npre = pre.count("\n")
  seen = {}
  orig = compare.cmp_rel

  def wrapped(ctx, op, left, right):
    line = ctx.vm.frame.current_opcode.line - npre - 1
    try:
      r = orig(ctx, op, left, right)
    except compare.CmpTypeError:
      seen.setdefault(line, []).append("E")
      raise
    seen.setdefault(line, []).append("N" if r is None else ("T" if r else "F"))
    return r

  compare.cmp_rel = wrapped
  try:
    res = _pytype_batch(job)
  finally:
    compare.cmp_rel = orig
  if res[0] != "ok":
    return res
  return ("ok", [seen.get(j, []) for j in range(len(lines))], res[2])


def probe_native():
  """-> {(x, op id, y): 'T'|'F'|'N'|'E'} for x, y over the heads and NB (= an instance of a user class)."""
  exprs = [h[1] for h in HEADS] + ["P_()"]
  keys, texts = [], []
  for x, ex in enumerate(exprs):
    for y, ey in enumerate(exprs):
      for k, (sym, _) in enumerate(CMPOPS):
        j = len(texts)
        keys.append((x, LT + k, y))
        texts.append(f"a{j} = {ex}; b{j} = {ey}; v{j} = (a{j}) {sym} (b{j})")
  jobs = [(PROBE_CLASSES, texts[o:o + 100]) for o in range(0, len(texts), 100)]
  pool = _pool()
  hs = [pool.apply_async(_native_batch, (jb,)) for jb in jobs]
  out = {}
  k = 0
  for jb, h in zip(jobs, hs):
    r = h.get(timeout=BATCH_TIMEOUT)
    if r[0] != "ok" or r[2]:
      raise TranslatorError(f"native-comparison probe failed: {r!r}"[:300])
    for seen in r[1]:
      if len(seen) != 1:
        raise TranslatorError(f"compare.cmp_rel called {len(seen)} times for `{texts[k]}`")
      out[keys[k]] = seen[0]
      k += 1
  return out


def probe_hard():
  """Run-time side of the in-place operators: for every head with an in-place dunder, does a rejection by that
  dunder end the operation (nb_inplace slot raising TypeError: `d |= x`) or does CPython go on to the binary
  operator (NotImplemented, or a sequence slot that is tried last: `l += x`)?  Observed by executing the statement
  with a right operand that defines every reflected dunder."""
  ns = {}
  exec(PROBE_CLASSES, ns)  # pylint: disable=exec-used
  hard = []
  for i in range(NB):
    for k, (sym, _) in enumerate(BINOPS):
      v = head_value(i)
      f = type_lookup(v, FIXED_NAMES[IOP0 + k])
      if f is None:
        continue
      try:
        if f(v, ns["RF_"]()) is not NotImplemented:
          continue                   # accepted: says nothing
      except TypeError:
        pass
      env = dict(ns, v=head_value(i))
      try:
        exec(f"v {sym}= RF_()", env)  # pylint: disable=exec-used
      except TypeError:
        hard.append((i, IOP0 + k))
  return hard


def name_table(uni, extra=()):
  names = list(FIXED_NAMES)
  for n in sorted(set(x for u in uni for x in u) | set(extra)):
    if n not in names:
      names.append(n)
  return names


def coq_bool(b):
  return "true" if b else "false"


def coq_list(xs):
  return "[" + "; ".join(str(x) for x in xs) + "]"


class TranslatorError(Exception):
  pass


def uacc_term(head, name, e):
  """UNone / UAll / UHasAny [dunders]; fail closed when the probes do not fit that shape."""
  if e["accP"]:
    if not e["accF"] and (name in OLD_ARG1 or name in NEW_ARG1_NAMES):
      raise TranslatorError(f"{head}.{name}: accepts an empty user class but rejects one with every dunder")
    return "UAll"
  if not e["accF"]:
    return "UNone"
  if not e.get("has"):
    raise TranslatorError(f"{head}.{name}: accepts the full user class but no single dunder suffices")
  return "(UHasAny " + coq_list(e["has"]) + ")"


def emit_rows(ident, rows, mros, owners, names, user_may):
  """Coq text for one builtin table (list of brow)."""
  idx = {n: k for k, n in enumerate(names)}
  out = [f"Definition {ident} : list brow := ["]
  rs = []
  for i in range(NB):
    es = []
    for n in sorted(rows[i], key=lambda n: idx[n]):
      e = rows[i][n]
      ow = owners(i, n)
      es.append(f"    mk_bentry {idx[n]} {i if ow is None else ow} {coq_bool(bool(e['call0']))} "
                f"{coq_list(e['acc'])} {uacc_term(HEADS[i][0], n, e)}")
    rs.append(f"  mk_brow {coq_list(mros[i])} [\n" + ";\n".join(es) + "]")
  out.append(";\n".join(rs) + "].")
  return "\n".join(out) + "\n"


def regenerate():
  """Returns (coq text of Generated/C14_Builtins.v, data dict for the harness)."""
  t0 = time.time()
  stub = stub_info()
  uni = attr_universe(stub)
  names = name_table(uni, extra=["ca", "cb", "ia", "ib", "meth", "c0", "c1", "c2", "i0", "i1", "i2", "zz"])
  if names[:NEW_END] != FIXED_NAMES:
    raise TranslatorError("name ids moved")
  py_rows, n_py = probe_pytype(uni)
  rt_rows, n_rt = probe_cpython(uni)
  py_mro = [stub[i]["mro"] for i in range(NB)]
  rt_mros = [rt_mro(i) for i in range(NB)]
  txt = ["(* GENERATED by harness/props/c14_gen.py on every run -- do not edit, do not commit.",
         "   py_rows: what real pytype (loader + attribute handler + PyTDFunction.call + matcher over",
         "   builtins.pytd) answers for explicit attribute loads / method calls on every builtin value head;",
         "   rt_rows: what CPython answers for type(v).name(v, a).  Name ids: see c14_names below. *)",
         "From Coq Require Import List.", "From PV Require Import Ops.Model.", "Import ListNotations.", "",
         f"Definition c14_nb : nat := {NB}.",
         "(* heads: " + " ".join(f"{i}={h[0]}" for i, h in enumerate(HEADS)) + " *)",
         "(* names: " + " ".join(f"{i}={n}" for i, n in enumerate(names)) + " *)", ""]
  txt.append(emit_rows("py_rows", py_rows, py_mro, lambda i, n: stub[i]["owner"].get(n), names, True))
  txt.append(emit_rows("rt_rows", rt_rows, rt_mros, rt_owner, names, True))
  native = probe_native()
  for (x, n, y), v in native.items():
    if x == NB and v != "N":
      raise TranslatorError(f"compare.cmp_rel answers {v} for a user-class instance on the left of {FIXED_NAMES[n]}")
  hard = probe_hard()
  txt.append("(* compare.cmp_rel observed on the real VM: (x, name, y, raises CmpTypeError); y = c14_nb: an instance of"
             "\n   a user class; triples that are absent are dispatched to the dunder *)")
  txt.append("Definition native_tbl : list (cls * name * cls * bool) := [\n  " + ";\n  ".join(
      f"({x}, {n}, {y}, {coq_bool(v == 'E')})" for (x, n, y), v in sorted(native.items()) if v != "N") + "].\n")
  txt.append("(* in-place dunders of builtin heads whose rejection ends the operation (no fall-back to the binary operator) *)")
  txt.append("Definition rt_hard : list (cls * name) := [" + "; ".join(f"({i}, {n})" for i, n in hard) + "].\n")
  data = dict(native=native, hard=hard, stub=stub, uni=uni, names=names, py_rows=py_rows, rt_rows=rt_rows, py_mro=py_mro, rt_mro=rt_mros,
              n_py=n_py, n_rt=n_rt, seconds=round(time.time() - t0, 1))
  return "\n".join(txt), data
