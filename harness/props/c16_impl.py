"""C16 helpers: run the real pytype block pipeline on a source, observe it, abstract it, and judge it.

Nothing here depends on the Coq model: `observe_source` runs pyc.compile_src + blocks.process_code with three
observation hooks (no behaviour change), `abstract_ops` turns an opcode list into the model's input line,
`real_result` canonicalises what compute_order produced, and `oracle` evaluates the clauses of the property
directly on the real objects.
"""
import collections

_HOOKED = {}


class Observation:
  """Everything observed for one code object."""
  __slots__ = ("qualname", "firstlineno", "ops_line", "n_ops", "blocks", "order", "ops", "items_line",
               "real_ops_line", "version", "error", "kind", "items", "host_code", "xleg", "pxb", "apbt_v")


def install_hooks():
  """Wrap (without changing behaviour) opcodes._make_opcode_list, blocks.add_pop_block_targets and
  cfg_utils.order_nodes so that the intermediate values of blocks.process_code can be observed."""
  if _HOOKED:
    return _HOOKED
  from pytype.blocks import blocks          # pylint: disable=import-outside-toplevel
  from pytype.pyc import opcodes            # pylint: disable=import-outside-toplevel
  from pytype.typegraph import cfg_utils    # pylint: disable=import-outside-toplevel
  log = {"mol": [], "apbt": [], "order": []}
  orig_mol = opcodes._make_opcode_list      # pylint: disable=protected-access
  orig_apbt = blocks.add_pop_block_targets
  orig_order = cfg_utils.order_nodes

  orig_ase = opcodes._add_setup_except      # pylint: disable=protected-access

  def ase(offset_to_op, exc_table):
    before = abstract_xitems(sorted(offset_to_op.items()))
    entries = ["%d %d %d %d" % (e.start, e.end, e.target, 1 if e.lasti else 0) for e in exc_table.entries]
    pending.append((entries, before))
    return orig_ase(offset_to_op, exc_table)
  pending = []

  def mol(offset_to_op, python_version):
    # abstracted NOW: _add_jump_targets sets .target on every jump afterwards
    items = sorted(offset_to_op.items())
    xleg = None
    if pending:
      entries, before = pending.pop()
      del pending[:]
      xleg = ("X %d %d %s %s" % (len(entries), len(before), " ".join(entries), " ".join(b.replace(",", " ") for b in before)),
              ";".join(abstract_xitems(items)))
    log["mol"].append((abstract_items(items), python_version, items, xleg))
    return orig_mol(offset_to_op, python_version)

  def apbt(bytecode):
    # push_exc_block marks (set by opcodes._add_setup_except) are an INPUT of add_pop_block_targets
    pxb = [k for k, o in enumerate(bytecode) if o.push_exc_block]
    orig_apbt(bytecode)
    # snapshot BEFORE compute_order mutates .target in the merge pass; the block_target clauses are judged now too
    log["apbt"].append((list(bytecode), abstract_ops(bytecode), real_ops_line(bytecode), pxb,
                        apbt_clauses(bytecode, pxb, opcodes)))

  def order_nodes(nodes):
    nodes_before = list(nodes)
    r = orig_order(nodes)
    log["order"].append((nodes_before, r))
    return r

  opcodes._make_opcode_list = mol           # pylint: disable=protected-access
  opcodes._add_setup_except = ase           # pylint: disable=protected-access
  blocks.add_pop_block_targets = apbt
  cfg_utils.order_nodes = order_nodes
  _HOOKED.update(log=log, blocks=blocks, opcodes=opcodes, cfg_utils=cfg_utils,
                 orig=(orig_mol, orig_apbt, orig_order), orig_ase=orig_ase)
  return _HOOKED


def uninstall_hooks():
  if not _HOOKED:
    return
  h = _HOOKED
  h["opcodes"]._make_opcode_list, h["blocks"].add_pop_block_targets, h["cfg_utils"].order_nodes = h["orig"]  # pylint: disable=protected-access
  h["opcodes"]._add_setup_except = h["orig_ase"]  # pylint: disable=protected-access
  _HOOKED.clear()


def _i(x):
  return -1 if x is None else x.index


def abstract_ops(ops, ids=None):
  """Model input for an opcode list: 7 ints per op (opc target block_target eaft idx next prev)."""
  ids = ids or CLASS_IDS
  out = []
  for o in ops:
    out.append("%d %d %d %d %d %d %d" % (ids[o.__class__.__name__], _i(o.target), _i(o.block_target),
                                         _i(o.end_async_for_target), o.index, _i(o.next), _i(o.prev)))
  return " ".join(out)


CLASS_IDS = {}


def set_class_ids(ids):
  CLASS_IDS.clear()
  CLASS_IDS.update(ids)


def abstract_items(items, ids=None):
  """Model input for sorted(offset_to_op.items()) as seen by _make_opcode_list: 4 ints per item
  (2*offset+1, class id, 2*argval+1 for known jumps without a preset target, key of a preset target)."""
  ids = ids or CLASS_IDS
  key_of = {id(op): off for off, op in items}
  out = []
  for off, op in items:
    k = int(round(off * 2)) + 1           # real op at offset o: 2o+1; synthetic o-0.5 / o+0.5: 2o / 2o+2
    preset = -1
    arg = -1
    if op.target is not None:
      preset = int(round(key_of[id(op.target)] * 2)) + 1 if id(op.target) in key_of else -2
    elif op.has_known_jump():
      arg = int(op.argval) * 2 + 1
    out.append("%d %d %d %d" % (k, ids[op.__class__.__name__], arg, preset))
  return " ".join(out)


def abstract_xitems(items, ids=None):
  """offset_to_op for the _add_setup_except leg: key, class id, line (0 = None), key of a preset target."""
  ids = ids or CLASS_IDS
  key_of = {id(op): off for off, op in items}
  out = []
  for off, op in items:
    preset = -1
    if op.target is not None:
      preset = int(round(key_of[id(op.target)] * 2)) + 1 if id(op.target) in key_of else -2
    out.append("%d,%d,%d,%d" % (int(round(off * 2)) + 1, ids[op.__class__.__name__], op.line or 0, preset))
  return out


def real_ops_line(ops):
  return ";".join("%d,%d,%d,%d" % (o.index, _i(o.target), _i(o.next), _i(o.prev)) for o in ops)


def real_result(nodes, order, ops, cfg_utils):
  """Canonical text of what compute_order built, same format as the model driver prints."""
  b = "B" + ";".join("%d:%s" % (blk.id, ",".join(str(o.index) for o in blk.code)) for blk in nodes)
  # every edge with at least one endpoint among the final blocks (blocks deleted by the merge pass are only
  # reachable through the incoming sets of the surviving ones)
  es = sorted({(blk.id, s.id) for blk in nodes for s in blk.outgoing} |
              {(p.id, blk.id) for blk in nodes for p in blk.incoming})
  e = "E" + ",".join("%d-%d" % p for p in es)
  o = "O" + ",".join(str(blk.id) for blk in order)
  return b, e, o


def final_targets(ops):
  """.target of every op after compute_order (the merge pass mutates some)."""
  return [_i(o.target) for o in ops]


def model_final_targets(ops_line, retarget):
  """Initial targets from the abstracted input with the model's retarget list (latest first) applied."""
  f = ops_line.split()
  t = [int(f[7 * k + 1]) for k in range(len(f) // 7)]
  idx = {int(f[7 * k + 4]): k for k in range(len(f) // 7)}
  if retarget:
    for pair in reversed(retarget.split(",")):
      a, b = pair.split("-")
      if int(a) in idx:
        t[idx[int(a)]] = int(b)
  return t


def real_preds(nodes, cfg_utils):
  pm = cfg_utils.compute_predecessors(nodes)
  return "P" + ";".join("%d:%s" % (n.id, ",".join(map(str, sorted(p.id for p in pm[n])))) for n in nodes)


def block_target_oracle(ops, opcodes):
  """Clauses about Opcode.block_target, evaluated directly on a real opcode list after add_pop_block_targets
  (independent of the model): only POP_BLOCK / RAISE_VARARGS / BREAK_LOOP carry one; it is an opcode of the list and
  the .target of a block-pushing opcode (SETUP_FINALLY / SETUP_EXCEPT_311 / any PUSHES_BLOCK op) of the list - hence a
  jump target, which _split_bytecode turns into a block start."""
  v = []
  pos = {id(o) for o in ops}
  setup_targets = {id(s.target) for s in ops
                   if s.target is not None and (s.pushes_block() or isinstance(s, (opcodes.SETUP_FINALLY, opcodes.SETUP_EXCEPT_311)))}
  for i, o in enumerate(ops):
    bt = o.block_target
    if bt is None:
      continue
    if not isinstance(o, (opcodes.POP_BLOCK, opcodes.RAISE_VARARGS, opcodes.BREAK_LOOP)):
      v.append(("block-target-on-unexpected-op", i, o.name))
    if id(bt) not in pos:
      v.append(("block-target-outside-code", i, o.name))
    elif id(bt) not in setup_targets:
      v.append(("block-target-is-not-the-target-of-a-block-op", i, o.name, bt.name))
  return v


def reference_block_targets(ops, pxb, opcodes):
  """A declarative re-derivation of what add_pop_block_targets must compute, written as a RECURSIVE depth-first walk
  over immutable (op, stack) pairs (no todo list, no in-place tuple surgery): the successors of an op are visited
  in the order next, then jump/handler target, then BREAK_LOOP exit - the order in which the LIFO todo list of the
  implementation pops them.  Returns the list of block_target indices (-1 = None) or the name of the exception class
  the implementation must raise."""
  import sys  # pylint: disable=import-outside-toplevel
  setup_exc = (opcodes.SETUP_FINALLY, opcodes.SETUP_EXCEPT_311)
  bt = {}
  seen = set()
  pxs = set(pxb)

  class Raised(Exception):
    pass

  def visit(op, stack):
    # iterative driver of the recursive definition (Python recursion depth is too small for long code objects)
    work = [(op, stack)]
    while work:
      op, stack = work.pop()
      if op is None:
        raise Raised("AttributeError")
      if id(op) in seen:
        continue
      seen.add(id(op))
      succ = []          # in visiting order
      if isinstance(op, opcodes.POP_BLOCK):
        if not stack:
          raise Raised("AssertionError")
        bt[op.index] = stack[-1].target
        stack = stack[:-1]
      elif isinstance(op, opcodes.RAISE_VARARGS):
        inner = [b for b in stack if isinstance(b, setup_exc)]
        if inner:
          bt[op.index] = inner[-1].target
      elif isinstance(op, opcodes.BREAK_LOOP):
        loops = [k for k, b in enumerate(stack) if isinstance(b, opcodes.SETUP_LOOP)]
        if loops:
          k = loops[-1]
          bt[op.index] = stack[k].target
          if stack[k].target is op:
            raise Raised("AssertionError")
          succ.append((stack[k].target, stack[:k]))
      elif isinstance(op, setup_exc):
        succ.append((op.target, stack))
        stack = stack + (op,)
      elif op.pushes_block():
        if op.target is None:
          raise Raised("AssertionError")
        stack = stack + (op,)
      elif op.does_jump() and op.target is not None:
        if op.index in pxs:
          s = op.target
          while not isinstance(s, setup_exc):
            if s.prev is None:
              raise Raised("AttributeError")
            s = s.prev
          stack = stack + (s,)
        succ.append((op.target, stack))
      if not op.no_next():
        if op.next is None:
          raise Raised("AssertionError")
        succ.insert(0, (op.next, stack))
      # depth-first, first successor first
      for x in reversed(succ):
        work.append(x)
  del sys
  if not ops:
    return []
  try:
    visit(ops[0], ())
  except Raised as e:
    return str(e)
  return [(-1 if bt.get(k) is None else bt[k].index) for k in range(len(ops))]


def apbt_clauses(ops, pxb, opcodes):
  """block_target clauses + comparison with the declarative block-stack walk, on a list add_pop_block_targets has
  just processed (must run before compute_order's merge pass rewrites .target fields)."""
  v = block_target_oracle(ops, opcodes)
  want = reference_block_targets(ops, pxb, opcodes)
  got = [_i(o.block_target) for o in ops]
  if want != got:
    k0 = next((i for i, (x, y) in enumerate(zip(want, got)) if x != y), 0) if isinstance(want, list) else 0
    v.append(("block-targets-differ-from-the-block-stack-walk", ops[k0].name if ops else "?"))
  return v


def predecessor_oracle(nodes, cfg_utils):
  """compute_predecessors(nodes)[n] must be exactly {m in nodes | n is reachable from m along outgoing edges}
  (reflexive), computed here by one forward search per node."""
  v = []
  try:
    pm = cfg_utils.compute_predecessors(nodes)
  except Exception as e:  # pylint: disable=broad-except
    return [("compute_predecessors-raised", type(e).__name__)]
  node_ids = {id(n) for n in nodes}
  want = {id(n): set() for n in nodes}
  for m in nodes:
    seen = {id(m)}
    todo = [m]
    while todo:
      x = todo.pop()
      for s in x.outgoing:
        if id(s) not in seen:
          seen.add(id(s))
          todo.append(s)
    for k in seen:
      if k in want:
        want[k].add(id(m))
  for n in nodes:
    got = {id(p) for p in pm.get(n, ())}
    if got != want[id(n)]:
      v.append(("predecessors-not-the-reachability-relation", n.id, len(got - want[id(n)]), len(want[id(n)] - got)))
      break
  del node_ids
  return v


def oracle(ops, nodes, order, opcodes):
  """The clauses of C16 evaluated directly on the real objects.  Returns a list of violation tuples
  (kind, detail...)."""
  v = []
  n = len(ops)
  pos = {id(o): i for i, o in enumerate(ops)}
  # instruction indices and next/prev links are consistent; every jump has a resolved target
  for i, o in enumerate(ops):
    if o.index != i:
      v.append(("index", i, o.name))
    if o.next is not (ops[i + 1] if i + 1 < n else None):
      v.append(("next-link", i, o.name))
    if o.prev is not (ops[i - 1] if i > 0 else None):
      v.append(("prev-link", i, o.name))
    if o.has_known_jump() and (o.target is None or id(o.target) not in pos):
      v.append(("unresolved-jump", i, o.name))
    if o.target is not None and id(o.target) not in pos:
      v.append(("target-outside-code", i, o.name))
  # partition into non-empty blocks, each instruction in exactly one block
  cnt = collections.Counter()
  for b in nodes:
    if not b.code:
      v.append(("empty-block", b.id))
    for o in b.code:
      cnt[id(o)] += 1
      if id(o) not in pos:
        v.append(("foreign-instruction", b.id, o.name))
  starts = {id(b.code[0]) for b in nodes if b.code}
  dup_runs = []
  for i, o in enumerate(ops):
    c = cnt[id(o)]
    if c > 1:
      if not dup_runs or dup_runs[-1][1] != i - 1:
        dup_runs.append([i, i, o.name])
      else:
        dup_runs[-1][1] = i
    if c == 0:
      # instructions pytype deliberately drops: the loop-back JUMP_BACKWARD of an `async for` and the
      # CLEANUP_THROW / JUMP_BACKWARD-to-END_SEND pair of a SEND loop
      ok = ((isinstance(o, opcodes.JUMP_BACKWARD) and o.end_async_for_target is not None) or
            (isinstance(o, opcodes.CLEANUP_THROW) and i + 1 < n and isinstance(ops[i + 1], opcodes.JUMP_BACKWARD)
             and isinstance(ops[i + 1].target, opcodes.END_SEND)) or
            (isinstance(o, opcodes.JUMP_BACKWARD) and isinstance(o.target, opcodes.END_SEND) and i > 0
             and isinstance(ops[i - 1], opcodes.CLEANUP_THROW)))
      if not ok:
        v.append(("instruction-in-no-block", i, o.name))
    elif o.target is not None and id(o.target) not in starts:
      # every resolved jump target starts a block
      v.append(("target-not-block-start", i, o.name, o.target.name))
  if dup_runs:
    # was the block that originally started at the duplicated run kept as well?
    kept = any(b.id == r[0] for r in dup_runs for b in nodes)
    v.append(("instruction-in-several-blocks", "+".join(sorted({r[2] for r in dup_runs})) +
              (":original-block-kept" if kept else ""), dup_runs[0][0]))
  ids = [b.id for b in nodes]
  if len(set(ids)) != len(ids):
    v.append(("duplicate-block-id",))
  node_set = {id(b) for b in nodes}
  for b in nodes:
    for s in b.outgoing:
      if id(s) not in node_set:
        v.append(("edge-to-unknown-block", b.id, s.id))
      if b not in s.incoming:
        v.append(("incoming-outgoing-inconsistent", b.id, s.id))
  # the order lists every block reachable from the entry exactly once, a predecessor before each non-entry block
  if nodes:
    seen = {id(nodes[0])}
    todo = [nodes[0]]
    while todo:
      x = todo.pop()
      for s in x.outgoing:
        if id(s) not in seen:
          seen.add(id(s))
          todo.append(s)
    oid = [id(b) for b in order]
    if len(set(oid)) != len(oid):
      v.append(("order-duplicate",))
    if set(oid) != seen:
      v.append(("order-not-the-reachable-set", len(set(oid) - seen), len(seen - set(oid))))
    if not order or order[0] is not nodes[0]:
      v.append(("order-entry-not-first",))
    where = {}
    for k, b in enumerate(order):
      where.setdefault(id(b), k)
    for k, b in enumerate(order):
      if k and not any(where.get(id(p), k) < k for p in b.incoming):
        v.append(("no-predecessor-before", b.id))
  elif order:
    v.append(("order-nonempty-for-empty-code",))
  # instruction-level successors (independent of the outgoing sets the implementation built): the jump target of
  # the first op (SETUP_EXCEPT -> handler) and of the last op, the block_target of the last op and the
  # fall-through successor of every ORDERED block start a block, and that block is ordered too.  Blocks rebuilt by
  # the async-for merge (non-contiguous indices / id != first index) are exempt: compute_order skips them.
  heads = {id(b.code[0]): b for b in nodes if b.code}
  in_order = {id(b) for b in order}
  for b in order:
    if not b.code:
      continue
    idxs = [o.index for o in b.code]
    if b.id != idxs[0] or idxs != list(range(idxs[0], idxs[0] + len(idxs))):
      continue
    first, last = b.code[0], b.code[-1]
    for what, t in (("first-op-target", first.target), ("last-op-target", last.target),
                    ("last-op-block-target", last.block_target),
                    ("fall-through", last.next if not last.no_next() else None)):
      if t is None:
        continue
      tb = heads.get(id(t))
      if tb is None:
        if what != "fall-through" and cnt[id(t)]:
          v.append(("successor-not-a-block-start", what, first.name, last.name))
      elif id(tb) not in in_order:
        v.append(("successor-block-not-ordered", what, first.name, last.name))
  return v


IGNORED_HANDLER_OPS = ("END_ASYNC_FOR", "CLEANUP_THROW", "SWAP")   # cross-checked with opcodes.py by c16_flags


def host_instructions(co):
  """(offset, opname) of every real instruction of a CPython code object, read with `dis`; the offset is that of
  the first EXTENDED_ARG prefix (jumps and exception-table entries address the prefix)."""
  import dis  # pylint: disable=import-outside-toplevel
  out = []
  start = None
  for ins in dis.get_instructions(co):
    if ins.opname == "EXTENDED_ARG":
      if start is None:
        start = ins.offset
      continue
    out.append((ins.offset if start is None else start, ins.opname))
    start = None
  return out


def exception_table_oracle(co, items, ops, nodes, order, opcodes, ops_line=None):
  """Ties the synthetic SETUP_EXCEPT_311 / POP_BLOCK opcodes to an INDEPENDENT reading of co_exceptiontable
  (dis._parse_exception_table) and of the instruction offsets (dis.get_instructions).

  (0) the real (non-synthetic) opcodes are exactly CPython's instructions, offset by offset;
  (i) every exception-table entry pytype keeps (handler not END_ASYNC_FOR/CLEANUP_THROW/SWAP, not lasti, first
      entry of its source line) has exactly one SETUP_EXCEPT_311 immediately before the instruction at its start,
      with target = the instruction at the entry's target offset and stack_depth = depth, and exactly one
      POP_BLOCK immediately after the last instruction before its end; no other synthetic op exists;
  (ii) along the instruction sequence the synthetic ops read SETUP(e1) POP(e1) SETUP(e2) POP(e2) ... in start order;
  (iii) the handler of every kept entry is the first instruction of a block; if the entry's POP_BLOCK lies in an
      ordered block that the async merge did not rebuild, its block_target is the handler of a kept entry, and if
      it is this entry's handler (or the SETUP is the first op of such a block) the handler block is ordered.
      (Measured on the whole 3.12 stdlib: a handler is unordered only when its POP_BLOCK is unreachable - the try
      body cannot complete normally - and the SETUP is not first in its block, or inside merged async blocks.)"""
  import bisect  # pylint: disable=import-outside-toplevel
  import dis     # pylint: disable=import-outside-toplevel
  v = []
  synthetic = (opcodes.SETUP_EXCEPT_311, opcodes.POP_BLOCK)
  ins = host_instructions(co)
  real = [(off, op) for off, op in items if not isinstance(op, synthetic)]
  if ins != [(off, op.name) for off, op in real]:
    k = next((i for i, (a, b) in enumerate(zip(ins, real)) if a != (b[0], b[1].name)), min(len(ins), len(real)))
    v.append(("opcodes-differ-from-cpython-disassembly", ins[k][1] if k < len(ins) else "<end>"))
    return v
  real_ids = {id(op) for _, op in real}
  opat = {off: op for off, op in real}
  offs = [off for off, _ in ins]
  kept = []
  seen_lines = set()
  for e in dis._parse_exception_table(co):  # pylint: disable=protected-access
    if e.start not in opat or e.target not in opat:
      v.append(("exception-entry-not-at-an-instruction",))
      continue
    if opat[e.target].name in IGNORED_HANDLER_OPS:
      continue
    line = opat[e.start].line
    if not e.lasti and line not in seen_lines:
      seen_lines.add(line)
      kept.append(e)
  by_start = {e.start: e for e in kept}
  by_last = {offs[bisect.bisect_left(offs, e.end) - 1]: e for e in kept}
  seq = []
  setup_of, pop_of = {}, {}
  for k, (off, op) in enumerate(items):
    if isinstance(op, opcodes.SETUP_EXCEPT_311):
      nxt = items[k + 1] if k + 1 < len(items) else None
      e = by_start.get(nxt[0]) if nxt is not None and id(nxt[1]) in real_ids else None
      if e is None:
        v.append(("setup-except-not-before-an-entry-start",))
        continue
      if op.target is not opat[e.target]:
        v.append(("setup-except-target-is-not-the-entry-handler", opat[e.target].name))
      if getattr(op, "stack_depth", None) != e.depth:
        v.append(("setup-except-depth-differs",))
      seq.append(("S", e.start))
      setup_of[e.start] = op
    elif isinstance(op, opcodes.POP_BLOCK):
      prv = items[k - 1] if k > 0 else None
      e = by_last.get(prv[0]) if prv is not None and id(prv[1]) in real_ids else None
      if e is None:
        v.append(("pop-block-not-after-an-entry-end",))
        continue
      seq.append(("P", e.start))
      pop_of[e.start] = op
  want = [x for e in sorted(kept, key=lambda e: e.start) for x in (("S", e.start), ("P", e.start))]
  if seq != want:
    lost_s = sum(1 for e in kept if e.start not in setup_of)
    lost_p = sum(1 for e in kept if e.start not in pop_of)
    v.append(("synthetic-exception-ops-do-not-match-the-exception-table",
              ("entries=%d setups=%d pops=%d lost-setup=%d lost-pop=%d" % (
                  len(kept), sum(1 for x in seq if x[0] == "S"), sum(1 for x in seq if x[0] == "P"), lost_s, lost_p),)))
  if [id(op) for _, op in items] != [id(op) for op in ops]:
    v.append(("opcode-list-is-not-the-sorted-offset-table",))
  # (iii)
  heads = {id(b.code[0]): b for b in nodes if b.code}
  in_order = {id(b) for b in order}
  where = {}
  for b in nodes:
    for o in b.code:
      where.setdefault(id(o), b)

  def plain_ordered(b):
    if b is None or id(b) not in in_order:
      return False
    idxs = [o.index for o in b.code]
    return b.id == idxs[0] and idxs == list(range(idxs[0], idxs[0] + len(idxs)))
  handlers = {id(opat[e.target]) for e in kept}
  reach_cache = []

  def insn_reachable():
    """ops reachable from the first one along next (unless NO_NEXT) and target (jumps and SETUP ops) links"""
    if not reach_cache:
      # targets as they were when add_pop_block_targets ran (the async merge rewrites some afterwards)
      pre = None
      if ops_line is not None:
        f = ops_line.split()
        pre = [int(f[7 * k + 1]) for k in range(len(f) // 7)]
      seen = set()
      todo = [ops[0]] if ops else []
      while todo:
        o = todo.pop()
        if id(o) in seen:
          continue
        seen.add(id(o))
        tgt = o.target
        if pre is not None and o.index < len(pre):
          tgt = ops[pre[o.index]] if pre[o.index] >= 0 else None
        if tgt is not None and (o.does_jump() or o.pushes_block()):
          todo.append(tgt)
        if not o.no_next() and o.next is not None:
          todo.append(o.next)
      reach_cache.append(seen)
    return reach_cache[0]
  for e in kept:
    su, po = setup_of.get(e.start), pop_of.get(e.start)
    h = opat[e.target]
    hb = heads.get(id(h))
    if hb is None and id(h) in where:
      v.append(("handler-does-not-start-a-block", h.name))
    need = False
    if po is not None and plain_ordered(where.get(id(po))):
      if po.block_target is None and id(po) not in insn_reachable():
        # unchanged-tree behaviour (generated programs only): code that follows an `async for` is entered through
        # the exception table alone, add_pop_block_targets' walk over next/target links never reaches it and its
        # POP_BLOCKs keep block_target = None.  Reported separately (candidate finding).
        v.append(("note:pop-block-not-reached-by-add_pop_block_targets",))
      elif po.block_target is None or id(po.block_target) not in handlers:
        v.append(("reachable-pop-block-has-no-handler-block-target",))
      elif po.block_target is h:
        if where[id(po)].code[-1] is po:
          need = True
        elif hb is None or id(hb) not in in_order:
          # unchanged-tree behaviour (measured: 122 stdlib code objects): the protected range ends at a SEND
          # (`try: await x`), the POP_BLOCK lands INSIDE the SEND window, is not the last op of its block, and
          # compute_order never connects it to the handler.  Reported separately (candidate finding).
          v.append(("note:handler-dropped-pop-block-inside-send-window", h.name))
    if su is not None and plain_ordered(where.get(id(su))) and where[id(su)].code[0] is su:
      need = True
    if need and (hb is None or id(hb) not in in_order):
      v.append(("handler-block-not-ordered", h.name))
  return v


def composite_case(ob, ids=None):
  """Model input built from CPython's OWN data for this code object (dis instructions with offsets and jump targets,
  dis._parse_exception_table) - only the source line of each instruction is taken from pytype's opcode, because the
  `first entry of a line` rule of _add_setup_except is defined on pycnite's line numbers.  Returns
  (driver line, expected output) where the expected output is the real opcode list of pytype."""
  import dis  # pylint: disable=import-outside-toplevel
  ids = ids or CLASS_IDS
  co = ob.host_code
  lines = {off: (op.line or 0) for off, op in ob.items if isinstance(off, int)}
  raw = []
  start = None
  for ins in dis.get_instructions(co):
    if ins.opname == "EXTENDED_ARG":
      if start is None:
        start = ins.offset
      continue
    off = ins.offset if start is None else start
    start = None
    if ins.opname not in ids:
      return None
    arg = -1
    if ins.opcode in dis.hasjrel or ins.opcode in dis.hasjabs:
      arg = 2 * int(ins.argval) + 1
    raw.append("%d %d %d %d" % (2 * off + 1, ids[ins.opname], lines.get(off, 0), arg))
  ents = ["%d %d %d %d" % (e.start, e.end - 2, e.target, 1 if e.lasti else 0)
          for e in dis._parse_exception_table(co)]  # pylint: disable=protected-access
  inp = "C 12 %d %d %s %s" % (len(ents), len(raw), " ".join(ents), " ".join(raw))
  f = ob.real_ops_line.split(";") if ob.real_ops_line else []
  want = ";".join("%s,%d,%s" % (x.split(",")[0], ids[o.__class__.__name__], ",".join(x.split(",")[1:]))
                  for x, o in zip(f, ob.ops))
  return inp, want


def code_kind(oc):
  n = oc.name
  if n == "<module>":
    return "module"
  if n == "<lambda>":
    return "lambda"
  if n in ("<listcomp>", "<setcomp>", "<dictcomp>"):
    return "comprehension"
  if n == "<genexpr>":
    return "async-genexpr" if oc.has_async_generator() else "genexpr"
  if oc.has_async_generator():
    return "async-generator"
  if oc.has_coroutine():
    return "coroutine"
  if oc.has_generator():
    return "generator"
  if not oc.has_newlocals():
    return "class-body"
  return "function"


def observe_source(src, filename):
  """Compiles `src` with the real entry points and returns (list of Observation, error string or None)."""
  h = install_hooks()
  from pytype.pyc import pyc                # pylint: disable=import-outside-toplevel
  log = h["log"]
  for k in log:
    del log[k][:]
  try:
    host = compile(src, filename, "exec")
  except (SyntaxError, ValueError, OverflowError, RecursionError, MemoryError) as e:
    return [], "compile:" + str(e)[:80]          # not a compilable program
  host_codes = []

  def walk_host(co):
    host_codes.append(co)
    for c in co.co_consts:
      if hasattr(c, "co_code"):
        walk_host(c)
  walk_host(host)
  try:
    code = pyc.compile_src(src, filename, (3, 12), None)
    ordered, _ = h["blocks"].process_code(code)
  except Exception as e:  # pylint: disable=broad-except
    # a compilable program for which pytype builds no block graph at all
    return [], "process_code raised %s: %s" % (type(e).__name__, str(e)[:200])
  if not (len(log["mol"]) == len(log["apbt"]) == len(log["order"])):
    return [], "hooks fired %d/%d/%d times" % (len(log["mol"]), len(log["apbt"]), len(log["order"]))
  # qualnames: walk OrderedCode in the same (pre-order) order _process visits them
  names = []

  def walk(oc):
    names.append((oc.qualname or oc.name, oc.firstlineno, code_kind(oc)))
    # children are processed after _order_code of the parent, in co_consts order
    for c in oc.consts:
      if hasattr(c, "order") and hasattr(c, "code_iter"):
        walk(c)
  walk(ordered)
  obs = []
  for k, ((items_line, ver, raw_items, xleg), (ops, ops_line, rol, pxb, apbt_v), (nodes, order)) in enumerate(zip(log["mol"], log["apbt"], log["order"])):
    ob = Observation()
    ob.pxb = pxb
    ob.apbt_v = apbt_v
    ob.qualname, ob.firstlineno, ob.kind = names[k] if k < len(names) else ("?", 0, "?")
    ob.version = ver
    ob.ops = ops
    ob.n_ops = len(ops)
    ob.ops_line = ops_line
    ob.blocks = nodes
    ob.order = order
    ob.items_line = items_line
    ob.items = raw_items
    ob.xleg = xleg
    ob.host_code = host_codes[k] if k < len(host_codes) else None
    ob.real_ops_line = rol
    ob.error = None
    obs.append(ob)
  if len(names) != len(obs) or len(host_codes) != len(obs):
    return obs, "code object walk found %d/%d objects, hooks saw %d" % (len(names), len(host_codes), len(obs))
  return obs, None
