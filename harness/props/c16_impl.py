"""C16 helpers: run the real pytype block pipeline on a source, observe it, abstract it, and judge it.

Nothing here depends on the Coq model: `observe_source` runs pyc.compile_src + blocks.process_code with three
observation hooks (no behaviour change), `abstract_ops` turns an opcode list into the model's input line,
`real_result` canonicalises what compute_order produced, and `oracle` evaluates the clauses of the property
directly on the real objects.
"""
import collections

_HOOKED = {}


class Observation:
  """Everything observed for one code object."""
  __slots__ = ("qualname", "firstlineno", "ops_line", "n_ops", "blocks", "order", "ops", "items_line",
               "real_ops_line", "version", "error", "kind")


def install_hooks():
  """Wrap (without changing behaviour) opcodes._make_opcode_list, blocks.add_pop_block_targets and
  cfg_utils.order_nodes so that the intermediate values of blocks.process_code can be observed."""
  if _HOOKED:
    return _HOOKED
  from pytype.blocks import blocks          # pylint: disable=import-outside-toplevel
  from pytype.pyc import opcodes            # pylint: disable=import-outside-toplevel
  from pytype.typegraph import cfg_utils    # pylint: disable=import-outside-toplevel
  log = {"mol": [], "apbt": [], "order": []}
  orig_mol = opcodes._make_opcode_list      # pylint: disable=protected-access
  orig_apbt = blocks.add_pop_block_targets
  orig_order = cfg_utils.order_nodes

  def mol(offset_to_op, python_version):
    # abstracted NOW: _add_jump_targets sets .target on every jump afterwards
    log["mol"].append((abstract_items(sorted(offset_to_op.items())), python_version))
    return orig_mol(offset_to_op, python_version)

  def apbt(bytecode):
    orig_apbt(bytecode)
    # snapshot BEFORE compute_order mutates .target in the merge pass
    log["apbt"].append((list(bytecode), abstract_ops(bytecode), real_ops_line(bytecode)))

  def order_nodes(nodes):
    nodes_before = list(nodes)
    r = orig_order(nodes)
    log["order"].append((nodes_before, r))
    return r

  opcodes._make_opcode_list = mol           # pylint: disable=protected-access
  blocks.add_pop_block_targets = apbt
  cfg_utils.order_nodes = order_nodes
  _HOOKED.update(log=log, blocks=blocks, opcodes=opcodes, cfg_utils=cfg_utils,
                 orig=(orig_mol, orig_apbt, orig_order))
  return _HOOKED


def uninstall_hooks():
  if not _HOOKED:
    return
  h = _HOOKED
  h["opcodes"]._make_opcode_list, h["blocks"].add_pop_block_targets, h["cfg_utils"].order_nodes = h["orig"]  # pylint: disable=protected-access
  _HOOKED.clear()


def _i(x):
  return -1 if x is None else x.index


def abstract_ops(ops, ids=None):
  """Model input for an opcode list: 7 ints per op (opc target block_target eaft idx next prev)."""
  ids = ids or CLASS_IDS
  out = []
  for o in ops:
    out.append("%d %d %d %d %d %d %d" % (ids[o.__class__.__name__], _i(o.target), _i(o.block_target),
                                         _i(o.end_async_for_target), o.index, _i(o.next), _i(o.prev)))
  return " ".join(out)


CLASS_IDS = {}


def set_class_ids(ids):
  CLASS_IDS.clear()
  CLASS_IDS.update(ids)


def abstract_items(items, ids=None):
  """Model input for sorted(offset_to_op.items()) as seen by _make_opcode_list: 4 ints per item
  (2*offset, class id, 2*argval for known jumps without a preset target, 2*offset of a preset target)."""
  ids = ids or CLASS_IDS
  key_of = {id(op): off for off, op in items}
  out = []
  for off, op in items:
    k = int(round(off * 2))
    preset = -1
    arg = -1
    if op.target is not None:
      preset = int(round(key_of[id(op.target)] * 2)) if id(op.target) in key_of else -2
    elif op.has_known_jump():
      arg = int(op.argval) * 2
    out.append("%d %d %d %d" % (k, ids[op.__class__.__name__], arg, preset))
  return " ".join(out)


def real_ops_line(ops):
  return ";".join("%d,%d,%d,%d" % (o.index, _i(o.target), _i(o.next), _i(o.prev)) for o in ops)


def real_result(nodes, order, ops, cfg_utils):
  """Canonical text of what compute_order built, same format as the model driver prints."""
  b = "B" + ";".join("%d:%s" % (blk.id, ",".join(str(o.index) for o in blk.code)) for blk in nodes)
  # every edge with at least one endpoint among the final blocks (blocks deleted by the merge pass are only
  # reachable through the incoming sets of the surviving ones)
  es = sorted({(blk.id, s.id) for blk in nodes for s in blk.outgoing} |
              {(p.id, blk.id) for blk in nodes for p in blk.incoming})
  e = "E" + ",".join("%d-%d" % p for p in es)
  o = "O" + ",".join(str(blk.id) for blk in order)
  return b, e, o


def final_targets(ops):
  """.target of every op after compute_order (the merge pass mutates some)."""
  return [_i(o.target) for o in ops]


def model_final_targets(ops_line, retarget):
  """Initial targets from the abstracted input with the model's retarget list (latest first) applied."""
  f = ops_line.split()
  t = [int(f[7 * k + 1]) for k in range(len(f) // 7)]
  idx = {int(f[7 * k + 4]): k for k in range(len(f) // 7)}
  if retarget:
    for pair in reversed(retarget.split(",")):
      a, b = pair.split("-")
      if int(a) in idx:
        t[idx[int(a)]] = int(b)
  return t


def real_preds(nodes, cfg_utils):
  pm = cfg_utils.compute_predecessors(nodes)
  return "P" + ";".join("%d:%s" % (n.id, ",".join(map(str, sorted(p.id for p in pm[n])))) for n in nodes)


def oracle(ops, nodes, order, opcodes):
  """The clauses of C16 evaluated directly on the real objects.  Returns a list of violation tuples
  (kind, detail...)."""
  v = []
  n = len(ops)
  pos = {id(o): i for i, o in enumerate(ops)}
  # instruction indices and next/prev links are consistent; every jump has a resolved target
  for i, o in enumerate(ops):
    if o.index != i:
      v.append(("index", i, o.name))
    if o.next is not (ops[i + 1] if i + 1 < n else None):
      v.append(("next-link", i, o.name))
    if o.prev is not (ops[i - 1] if i > 0 else None):
      v.append(("prev-link", i, o.name))
    if o.has_known_jump() and (o.target is None or id(o.target) not in pos):
      v.append(("unresolved-jump", i, o.name))
    if o.target is not None and id(o.target) not in pos:
      v.append(("target-outside-code", i, o.name))
  # partition into non-empty blocks, each instruction in exactly one block
  cnt = collections.Counter()
  for b in nodes:
    if not b.code:
      v.append(("empty-block", b.id))
    for o in b.code:
      cnt[id(o)] += 1
      if id(o) not in pos:
        v.append(("foreign-instruction", b.id, o.name))
  starts = {id(b.code[0]) for b in nodes if b.code}
  dup_runs = []
  for i, o in enumerate(ops):
    c = cnt[id(o)]
    if c > 1:
      if not dup_runs or dup_runs[-1][1] != i - 1:
        dup_runs.append([i, i, o.name])
      else:
        dup_runs[-1][1] = i
    if c == 0:
      # instructions pytype deliberately drops: the loop-back JUMP_BACKWARD of an `async for` and the
      # CLEANUP_THROW / JUMP_BACKWARD-to-END_SEND pair of a SEND loop
      ok = ((isinstance(o, opcodes.JUMP_BACKWARD) and o.end_async_for_target is not None) or
            (isinstance(o, opcodes.CLEANUP_THROW) and i + 1 < n and isinstance(ops[i + 1], opcodes.JUMP_BACKWARD)
             and isinstance(ops[i + 1].target, opcodes.END_SEND)) or
            (isinstance(o, opcodes.JUMP_BACKWARD) and isinstance(o.target, opcodes.END_SEND) and i > 0
             and isinstance(ops[i - 1], opcodes.CLEANUP_THROW)))
      if not ok:
        v.append(("instruction-in-no-block", i, o.name))
    elif o.target is not None and id(o.target) not in starts:
      # every resolved jump target starts a block
      v.append(("target-not-block-start", i, o.name, o.target.name))
  if dup_runs:
    # was the block that originally started at the duplicated run kept as well?
    kept = any(b.id == r[0] for r in dup_runs for b in nodes)
    v.append(("instruction-in-several-blocks", "+".join(sorted({r[2] for r in dup_runs})) +
              (":original-block-kept" if kept else ""), dup_runs[0][0]))
  ids = [b.id for b in nodes]
  if len(set(ids)) != len(ids):
    v.append(("duplicate-block-id",))
  node_set = {id(b) for b in nodes}
  for b in nodes:
    for s in b.outgoing:
      if id(s) not in node_set:
        v.append(("edge-to-unknown-block", b.id, s.id))
      if b not in s.incoming:
        v.append(("incoming-outgoing-inconsistent", b.id, s.id))
  # the order lists every block reachable from the entry exactly once, a predecessor before each non-entry block
  if nodes:
    seen = {id(nodes[0])}
    todo = [nodes[0]]
    while todo:
      x = todo.pop()
      for s in x.outgoing:
        if id(s) not in seen:
          seen.add(id(s))
          todo.append(s)
    oid = [id(b) for b in order]
    if len(set(oid)) != len(oid):
      v.append(("order-duplicate",))
    if set(oid) != seen:
      v.append(("order-not-the-reachable-set", len(set(oid) - seen), len(seen - set(oid))))
    if not order or order[0] is not nodes[0]:
      v.append(("order-entry-not-first",))
    where = {}
    for k, b in enumerate(order):
      where.setdefault(id(b), k)
    for k, b in enumerate(order):
      if k and not any(where.get(id(p), k) < k for p in b.incoming):
        v.append(("no-predecessor-before", b.id))
  elif order:
    v.append(("order-nonempty-for-empty-code",))
  # instruction-level successors (independent of the outgoing sets the implementation built): the jump target of
  # the first op (SETUP_EXCEPT -> handler) and of the last op, the block_target of the last op and the
  # fall-through successor of every ORDERED block start a block, and that block is ordered too.  Blocks rebuilt by
  # the async-for merge (non-contiguous indices / id != first index) are exempt: compute_order skips them.
  heads = {id(b.code[0]): b for b in nodes if b.code}
  in_order = {id(b) for b in order}
  for b in order:
    if not b.code:
      continue
    idxs = [o.index for o in b.code]
    if b.id != idxs[0] or idxs != list(range(idxs[0], idxs[0] + len(idxs))):
      continue
    first, last = b.code[0], b.code[-1]
    for what, t in (("first-op-target", first.target), ("last-op-target", last.target),
                    ("last-op-block-target", last.block_target),
                    ("fall-through", last.next if not last.no_next() else None)):
      if t is None:
        continue
      tb = heads.get(id(t))
      if tb is None:
        if what != "fall-through" and cnt[id(t)]:
          v.append(("successor-not-a-block-start", what, first.name, last.name))
      elif id(tb) not in in_order:
        v.append(("successor-block-not-ordered", what, first.name, last.name))
  return v


def code_kind(oc):
  n = oc.name
  if n == "<module>":
    return "module"
  if n == "<lambda>":
    return "lambda"
  if n in ("<listcomp>", "<setcomp>", "<dictcomp>"):
    return "comprehension"
  if n == "<genexpr>":
    return "async-genexpr" if oc.has_async_generator() else "genexpr"
  if oc.has_async_generator():
    return "async-generator"
  if oc.has_coroutine():
    return "coroutine"
  if oc.has_generator():
    return "generator"
  if not oc.has_newlocals():
    return "class-body"
  return "function"


def observe_source(src, filename):
  """Compiles `src` with the real entry points and returns (list of Observation, error string or None)."""
  h = install_hooks()
  from pytype.pyc import pyc                # pylint: disable=import-outside-toplevel
  log = h["log"]
  for k in log:
    del log[k][:]
  try:
    compile(src, filename, "exec")
  except (SyntaxError, ValueError, OverflowError, RecursionError, MemoryError) as e:
    return [], "compile:" + str(e)[:80]          # not a compilable program
  try:
    code = pyc.compile_src(src, filename, (3, 12), None)
    ordered, _ = h["blocks"].process_code(code)
  except Exception as e:  # pylint: disable=broad-except
    # a compilable program for which pytype builds no block graph at all
    return [], "process_code raised %s: %s" % (type(e).__name__, str(e)[:200])
  if not (len(log["mol"]) == len(log["apbt"]) == len(log["order"])):
    return [], "hooks fired %d/%d/%d times" % (len(log["mol"]), len(log["apbt"]), len(log["order"]))
  # qualnames: walk OrderedCode in the same (pre-order) order _process visits them
  names = []

  def walk(oc):
    names.append((oc.qualname or oc.name, oc.firstlineno, code_kind(oc)))
    # children are processed after _order_code of the parent, in co_consts order
    for c in oc.consts:
      if hasattr(c, "order") and hasattr(c, "code_iter"):
        walk(c)
  walk(ordered)
  obs = []
  for k, ((items_line, ver), (ops, ops_line, rol), (nodes, order)) in enumerate(zip(log["mol"], log["apbt"], log["order"])):
    ob = Observation()
    ob.qualname, ob.firstlineno, ob.kind = names[k] if k < len(names) else ("?", 0, "?")
    ob.version = ver
    ob.ops = ops
    ob.n_ops = len(ops)
    ob.ops_line = ops_line
    ob.blocks = nodes
    ob.order = order
    ob.items_line = items_line
    ob.real_ops_line = rol
    ob.error = None
    obs.append(ob)
  if len(names) != len(obs):
    return obs, "code object walk found %d objects, hooks saw %d" % (len(names), len(obs))
  return obs, None
