"""C13 extension: call sites with * / ** splats, calls made through helper frames / forwarding lambdas /
unbound access.  Generator, the two implementation-side observers and the model lines.

A case is  Case(sig, variant, access, helpers, pitems, kitems, opaque):
  variant  func | lambda | method | classmethod | staticmethod | init          (c13_gen.def_text)
  access   direct | unbound (C.m(c, ...), variant method) | fwd ((lambda *a, **k: f(*a, **k))(...))
           | partial ((lambda *a, **k: f(p0, *a, **k))(...))
  helpers  n >= 0: the callee object is handed through n helper functions and called in the innermost one
           (the error is reported on the line of that innermost call; len(vm.frames) there is 1 + n)
  pitems   ("a",) plain | ("t", n, "tuple"|"list") splat of a literal with n elements | ("x",) indefinite splat
  kitems   ("k", name) plain keyword | ("d", (names..)) ** of a dict literal with these constant keys
  opaque   a ** of a non-concrete dict ends the call
Results use the strings of c13_gen plus  A (Any)  E<j> (element type of the indefinite splat at argument index j)
S<j> (*args holds that splat)  WO (**kwargs holds the non-concrete dict)  U (call result Any: depth limit).
"""
import collections
import itertools
import re

import c13_gen as g

Case = collections.namedtuple("Case", "sig variant access helpers pitems kitems opaque")
MAX_DEPTH = 4          # analyze.INIT_MAXIMUM_DEPTH: module-level code is run with this limit
NX = g.MAXPOS + 4

XHEADER = "".join(f"class X{i}: pass\nxs{i} = [X{i}() for _ in (1, 2)]\n" for i in range(NX)) + \
    "class XD: pass\nod = {k: XD() for k in ('zz',)}\n"
HEADER = g.HEADER + XHEADER
HEADER_LINES = HEADER.count("\n")

BOUND = ("method", "classmethod", "init")


def is_plain(c):
  return all(p[0] == "a" for p in c.pitems) and all(k[0] == "k" for k in c.kitems) and not c.opaque


def has_star(c):
  return any(p[0] == "x" for p in c.pitems)


def x_npos(c):
  """len(args.posargs) the callee sees for a CALL_FUNCTION_EX call: the bound self / cls."""
  return 1 if (c.variant in BOUND and c.access != "unbound") else 0


def explicit_first(c):
  return c.access in ("unbound", "partial")


def model_pitems(c):
  return ((("a",),) if explicit_first(c) else ()) + tuple(c.pitems)


def kw_names(c):
  out = []
  for k in c.kitems:
    for n in ([k[1]] if k[0] == "k" else k[1]):
      out.append(n)
  return out


def dedup(l):
  out = []
  for x in l:
    if x not in out:
      out.append(x)
  return out


def esig(c):
  return g.effective(c.sig, c.variant)


def flat_len(pitems):
  return sum(p[1] if p[0] == "t" else 1 for p in pitems)


def model_line(c):
  """The X-line of harness/ocaml/bind_driver.ml."""
  e = esig(c)
  f = lambda l: "%d %s" % (len(l), " ".join(str(g.ID[n]) for n in l))
  its = [0 if p[0] == "a" else 1 if p[0] == "x" else 2 + p[1] for p in model_pitems(c)]
  return "X%s %s %s %s %d %d %d %d %s %s %d %d" % (
      f(e.P), f(e.Q), f(e.K), f(e.D), g.ID[g.VA] if e.va else -1, g.ID[g.KW] if e.kw else -1,
      x_npos(c), len(its), " ".join(map(str, its)), f(dedup(kw_names(c))), 1 if c.opaque else 0, 1 + c.helpers)


# ------------------------------------------------------------------------------------------------
# program text

def args_text(c):
  idx = x_npos(c) + (1 if explicit_first(c) else 0)
  out = []
  for p in c.pitems:
    if p[0] == "a":
      out.append(f"p{idx}"); idx += 1
    elif p[0] == "x":
      out.append(f"*xs{idx}"); idx += 1
    else:
      els = [f"p{idx + i}" for i in range(p[1])]
      idx += p[1]
      out.append("*(" + "".join(x + ", " for x in els) + ")" if p[2] == "tuple" else "*[" + ", ".join(els) + "]")
  for k in c.kitems:
    if k[0] == "k":
      out.append(f"{k[1]}=k_{k[1]}")
    else:
      out.append("**{" + ", ".join(f'"{n}": k_{n}' for n in k[1]) + "}")
  if c.opaque:
    out.append("**od")
  return ", ".join(out)


def callee_text(c, j):
  v = c.variant
  if v in ("func", "lambda"):
    base = f"f{j}"
  elif v == "method":
    base = f"C{j}.m" if c.access == "unbound" else f"c{j}.m"
  elif v in ("classmethod", "staticmethod"):
    base = f"C{j}.m"
  else:
    base = f"C{j}"
  if c.access == "fwd":
    return f"(lambda *a, **k: {base}(*a, **k))"
  if c.access == "partial":
    return f"(lambda *a, **k: {base}(p{x_npos(c)}, *a, **k))"
  return base


def call_text(c, j, callee=None):
  a = args_text(c)
  if c.access == "unbound":
    a = f"c{j}" + (", " + a if a else "")
  return f"{callee or callee_text(c, j)}({a})"


def result_text(c, expr):
  return expr + ".r" if c.variant == "init" else expr


def module_text(cases):
  """(source, {call line: case index}, {reveal line: case index}).  Case i uses the callee definition i."""
  src = [HEADER]
  for j, c in enumerate(cases):
    src.append(g.def_text(c.sig, c.variant, j))
  text = "".join(src)
  line = text.count("\n")
  call_at, reveal_at, body = {}, {}, []
  for j, c in enumerate(cases):
    if c.helpers == 0:
      line += 1
      call_at[line] = j; reveal_at[line] = j
      body.append(f"reveal_type({result_text(c, call_text(c, j))})\n")
    else:
      # def w<j>_0(fn): return fn(ARGS)        <- the call under test
      # def w<j>_k(fn): return w<j>_{k-1}(fn)
      line += 2
      call_at[line] = j
      body.append(f"def w{j}_0(fn):\n  return {result_text(c, call_text(c, j, 'fn'))}\n")
      for k in range(1, c.helpers):
        line += 2
        body.append(f"def w{j}_{k}(fn):\n  return w{j}_{k - 1}(fn)\n")
      line += 1
      reveal_at[line] = j
      body.append(f"reveal_type(w{j}_{c.helpers - 1}({callee_text(c, j)}))\n")
  return text + "".join(body), call_at, reveal_at


# ------------------------------------------------------------------------------------------------
# pytype

def _elem(t):
  if re.fullmatch(r"P\d+", t):
    return t[1:]
  if re.fullmatch(r"X\d+", t):
    return t[1:]
  return "?" + t


def decode_type(t, first, pname, c, collapsed):
  np = x_npos(c)
  if t == "Any":
    return "A"
  if re.fullmatch(r"X\d+", t):
    return "E" + t[1:]
  if pname == g.VA:
    m = re.fullmatch(r"(?:list|tuple)\[X(\d+)(?:, \.\.\.)?\]", t)
    if m:
      return "S" + m.group(1)
    if collapsed and t != "tuple[()]":
      return "S%d" % np          # the merged splat; its element type may be printed as a Union, Any or not at all
    if t.startswith("tuple[") and t != "tuple[()]":
      return "V" + ".".join(_elem(x) for x in g.split_top(t[6:-1]))
  if pname == g.KW and c.opaque and t.startswith("dict[str, ") and "XD" in t:
    return "WO"
  r = g._decode_type(t, first, pname)     # pylint: disable=protected-access
  if collapsed and pname not in (g.VA, g.KW) and not (np == 1 and pname == first):
    # everything positional was merged into one indefinite splat: its element type is the union of the arguments
    if r.startswith("?") or re.fullmatch(r"P\d+", r):
      return "E%d" % np
  return r


def pytype_results(cases, collapsed):
  io, opts, loader = g._pytype()          # pylint: disable=protected-access
  src, call_at, reveal_at = module_text(cases)
  try:
    ret, _ = io.generate_pyi(src, opts, loader)
  except Exception as ex:   # pylint: disable=broad-except
    return ["X:%s:%s" % (type(ex).__name__, str(ex)[:200])] * len(cases), []
  errs = collections.defaultdict(list)
  reveals, stray = {}, []
  for e in ret.context.errorlog:
    if e.name == "reveal-type" and e.line in reveal_at:
      reveals[reveal_at[e.line]] = e.message
    elif e.line in call_at and e.name != "reveal-type":
      errs[call_at[e.line]].append((e.name, e.message))
    else:
      stray.append("%s@%s:%s" % (e.name, e.line, e.message.split("\n")[0]))
  out = []
  for j, c in enumerate(cases):
    e = esig(c)
    first = g.FIRST.get(c.variant)
    names = g.all_names(e)
    if errs[j]:
      kinds = {n for n, _ in errs[j]}
      if len(errs[j]) > 1 and len(kinds) > 1:
        r = "E:multiple:" + ";".join(n for n, _ in errs[j])
      elif (c.variant == "init" and errs[j][0][0] == "attribute-error"):
        r = "O:!self-rebound"
      else:
        r = g._decode_error(*errs[j][0])  # pylint: disable=protected-access
    elif j not in reveals:
      r = "?no-reveal"
    else:
      t = reveals[j]
      if t == "Any":
        r = "U"
      else:
        elems = [] if t == "tuple[()]" else g.split_top(t[6:-1]) if t.startswith("tuple[") and t.endswith("]") else None
        if elems is None or len(elems) != len(names):
          r = "?" + t
        else:
          r = "O:" + ",".join(decode_type(x, first, n, c, collapsed[j]) for x, n in zip(elems, names))
    out.append(r)
  return out, stray


# ------------------------------------------------------------------------------------------------
# CPython: the real call, for chosen lengths of the indefinite splats and chosen keys of the opaque dict

def star_indices(c):
  idx = x_npos(c) + (1 if explicit_first(c) else 0)
  out = []
  for p in c.pitems:
    if p[0] == "x":
      out.append(idx)
    idx += p[1] if p[0] == "t" else 1
  return out


def instantiations(c, r):
  """[(lens, extra keys)] to try: all small lengths for one splat, a sample for several."""
  e = esig(c)
  stars = star_indices(c)
  nmax = len(e.P) + len(e.Q) + 1
  lens = list(itertools.product(range(nmax + 1), repeat=len(stars)))
  if len(lens) > 10:
    lens = lens[:1] + r.sample(lens[1:], 9)
  extras = [()]
  if c.opaque:
    used = set(kw_names(c))
    cand = [n for n in list(e.P) + list(e.Q) + list(e.K) + [g.FOREIGN] if n not in used]
    need = tuple(n for n in list(e.Q) + list(e.K) if n not in used and n not in e.D)
    extras += [(n,) for n in cand] + ([need] if len(need) > 1 else [])
  out = [(l, x) for l in lens for x in extras]
  if len(out) > 24:
    out = out[:1] + r.sample(out[1:], 23)
  return out


def cpython_results(cases, r):
  """Per case: [(lens, extra, result)] with result = canonical binding or E:<class>."""
  src = HEADER + "".join(g.def_text(c.sig, c.variant, j) for j, c in enumerate(cases))
  ns = {}
  exec(compile(src, "<c13x>", "exec"), ns)      # our own generated text  # pylint: disable=exec-used
  out = []
  for j, c in enumerate(cases):
    e = esig(c)
    first = g.FIRST.get(c.variant)
    names = g.all_names(e)
    expr = compile(result_text(c, call_text(c, j)), "<c13x-call>", "eval")
    stars = star_indices(c)
    rows = []
    for lens, extra in instantiations(c, r):
      env = dict(ns)
      for ix, n in zip(stars, lens):
        env[f"xs{ix}"] = [ns[f"X{ix}"]() for _ in range(n)]
      env["od"] = {k: ns["XD"]() for k in extra}
      try:
        v = eval(expr, env)                      # pylint: disable=eval-used
        if len(v) != len(names):
          real = "?len"
        else:
          real = "O:" + ",".join(_decode_obj(o, env, first, n) for o, n in zip(v, names))
      except TypeError as ex:
        real = g.classify_typeerror(str(ex))
      rows.append((lens, extra, real))
    out.append(rows)
  return out


def _decode_obj(o, ns, first, pname):
  cn = type(o).__name__
  if re.fullmatch(r"X\d+", cn):
    return "E" + cn[1:]
  if isinstance(o, tuple):
    return "V" + ".".join(_decode_obj(x, ns, None, None)[1:] for x in o)
  if isinstance(o, dict) and any(type(v).__name__ == "XD" for v in o.values()):
    return "WO"
  return g._decode_obj(o, ns, first, pname)      # pylint: disable=protected-access


def run_group(arg):
  cases, collapsed, seed = arg
  import random
  r = random.Random(seed)
  pres, stray = pytype_results(cases, collapsed)
  return cpython_results(cases, r), pres, stray


# ------------------------------------------------------------------------------------------------
# generator

def gen_pitems(r, sig, variant, mode):
  """mode: concrete (literal splats only) | star (at least one indefinite splat) | plain"""
  e_n = len(sig.P) + len(sig.Q)
  n = r.choice([0, 1, 1, 2, 2, 3, e_n, e_n + 1])
  if mode == "plain":
    return tuple(("a",) for _ in range(n))
  out, left = [], n
  while left > 0:
    k = r.random()
    if k < 0.45:
      out.append(("a",)); left -= 1
    else:
      m = r.randint(0, min(left, 3))
      out.append(("t", m, r.choice(["tuple", "list"]))); left -= m
      if m == 0 and r.random() < 0.5:
        break
  if mode == "concrete" and not any(p[0] == "t" for p in out):
    out.insert(r.randint(0, len(out)), ("t", 0, "tuple"))
  if mode == "star" and r.random() < 0.22:
    # <k args>, *xs, *(<m args>)[, *ys]: the shapes that reach the "post" branches of _unpack_and_match_args
    out = [("a",)] * r.randint(0, 2) + [("x",), ("t", r.randint(1, 3), r.choice(["tuple", "list"]))]
    if r.random() < 0.25:
      out.append(("x",))
    if r.random() < 0.25:
      out.insert(len(out) - 1, ("t", 1, "tuple"))
    return tuple(out)
  if mode == "star":
    for _ in range(r.choice([1, 1, 1, 2])):
      # mostly in last position (the shape the unpacker handles exactly), sometimes elsewhere
      pos = len(out) if r.random() < 0.55 else r.randint(0, len(out))
      out.insert(pos, ("x",))
  # keep the flattened argument indices inside the marker classes
  while flat_len(out) > g.MAXPOS - 1:
    out.pop()
  if mode == "star" and not any(p[0] == "x" for p in out):
    out.append(("x",))
  return tuple(out)


def gen_kitems(r, sig, variant, mode):
  uni = g.kw_universe(sig, variant)
  nk = r.choice([0, 0, 1, 1, 2, 3])
  names = r.sample(uni, min(nk, len(uni)))
  if mode == "plain":
    return tuple(("k", n) for n in names), False
  out, i = [], 0
  while i < len(names):
    if r.random() < 0.5:
      out.append(("k", names[i])); i += 1
    else:
      m = r.randint(1, len(names) - i)
      out.append(("d", tuple(names[i:i + m]))); i += m
  if r.random() < 0.15:
    out.append(("d", ()))
  if names and r.random() < 0.08:
    # the same keyword twice, once through a ** dict literal: CPython raises at the call
    out.append(("d", (r.choice(names),)))
  opaque = r.random() < (0.3 if mode == "star" else 0.12)
  return tuple(out), opaque


ACCESS_FOR = {"func": ["direct", "fwd", "partial"], "lambda": ["direct", "fwd"],
              "method": ["direct", "unbound", "fwd", "partial"], "classmethod": ["direct", "fwd"],
              "staticmethod": ["direct", "fwd"], "init": ["direct", "fwd"]}


def gen_case(r, sigs, kind):
  """kind: splat-concrete | splat-star | depth | access"""
  sig = r.choice(sigs)
  variant = r.choice(["func", "func", "method", "lambda", "classmethod", "staticmethod", "init"])
  if kind == "depth":
    mode = r.choice(["plain", "plain", "concrete", "star"])
    helpers = r.choice([1, 2, 3, 4, 4, 4])
    access = "direct"
    if variant == "init":
      variant = "func"       # `.r` of a constructor result is read inside the helper; keep it simple
  elif kind == "access":
    mode = r.choice(["plain", "concrete"])
    helpers = 0
    access = r.choice(ACCESS_FOR[variant][1:])
  else:
    mode = "concrete" if kind == "splat-concrete" else "star"
    helpers, access = 0, "direct"
  pitems = gen_pitems(r, sig, variant, mode)
  kitems, opaque = gen_kitems(r, sig, variant, mode)
  if kind == "access":
    opaque = False
    # the forwarding lambdas are exact only for calls whose keywords are distinct
    seen, ks = set(), []
    for k in kitems:
      ns = [k[1]] if k[0] == "k" else list(k[1])
      if not any(n in seen for n in ns):
        ks.append(k); seen.update(ns)
    kitems = tuple(ks)
    if access == "partial" and flat_len(pitems) > g.MAXPOS - 2:
      pitems = pitems[:1]
    if access in ("fwd", "partial"):
      # a plain argument after a splat makes the OUTER call (to the lambda) indefinite: keep those calls plain
      seen = False
      for p in pitems:
        if p[0] == "a" and seen:
          pitems = tuple(("a",) for _ in range(flat_len(pitems)))
          break
        seen = seen or p[0] != "a"
  if mode != "plain" and is_plain(Case(sig, variant, access, helpers, pitems, kitems, opaque)):
    pitems = pitems + (("t", 0, "tuple"),)
  return Case(sig, variant, access, helpers, pitems, kitems, opaque)


def describe(c, j=0):
  return "def(%s) [%s%s%s] call %s" % (
      g.esig_text(esig(c)), c.variant, "" if c.access == "direct" else "/" + c.access,
      "" if not c.helpers else "/through %d helper frame(s)" % c.helpers, call_text(c, j))


def case_to_json(c):
  return {"sig": {"P": list(c.sig.P), "Q": list(c.sig.Q), "K": list(c.sig.K), "D": list(c.sig.D),
                  "va": c.sig.va, "kw": c.sig.kw},
          "variant": c.variant, "access": c.access, "helpers": c.helpers,
          "pitems": [list(p) for p in c.pitems], "kitems": [[k[0], k[1] if k[0] == "k" else list(k[1])] for k in c.kitems],
          "opaque": c.opaque}


def case_from_json(d):
  s = d["sig"]
  sig = g.Sig(tuple(s["P"]), tuple(s["Q"]), tuple(s["K"]), tuple(s["D"]), bool(s["va"]), bool(s["kw"]))
  return Case(sig, d["variant"], d["access"], int(d["helpers"]), tuple(tuple(p) for p in d["pitems"]),
              tuple((k[0], k[1] if k[0] == "k" else tuple(k[1])) for k in d["kitems"]), bool(d["opaque"]))


# ------------------------------------------------------------------------------------------------
# the legs of the check

FP_DUPKW = "dict-splat-repeats-keyword-not-reported"
FP_POSONLY = "splat-with-keyword-naming-posonly-parameter-reported-missing"
FP_AFTER = "arguments-after-indefinite-splat-counted-as-too-many"
WHAT = {
    FP_DUPKW: "a keyword given twice, once through a ** dict literal (f(y=b, **{'y': c})), is merged silently; CPython raises "
              "TypeError (multiple values for keyword argument)",
    FP_POSONLY: "an indefinite splat plus a keyword that names a positional-only parameter of a function with **kwargs "
                "(def f(q, /, y, **kw); f(*xs, q=a)): _unpack_and_match_args stops expanding the splat at q, _map_args then "
                "reports missing-parameter although CPython binds the call for len(xs) == 2",
    FP_AFTER: "an indefinite splat followed by elements of a concrete splat (def f(x); f(*xs, *(a,))): _unpack_and_match_args "
              "counts the indefinite splat as exactly one argument and wrong-arg-count (or, when the surplus argument lands "
              "on a parameter also given by keyword, duplicate-keyword-argument) is reported although CPython binds the call "
              "for len(xs) == 0",
}


def corpus_cases():
  import json, os
  import common
  d = os.path.join(common.CORPUS, "C13", "splat")
  out = []
  for f in sorted(os.listdir(d)) if os.path.isdir(d) else []:
    if f.endswith(".json"):
      out.append(case_from_json(json.load(open(os.path.join(d, f)))["case"]))
  return out


def run_model(exe, cases):
  import subprocess
  import common
  lines = [model_line(c) for c in cases]
  pr = subprocess.run([exe], input="\n".join(lines) + "\n", capture_output=True, text=True)
  if pr.returncode != 0:
    raise common.BuildError("extracted model failed on X-lines: " + pr.stderr[-1500:])
  return [tuple(o.split("\t")) for o in pr.stdout.split("\n")[:len(lines)]]


def observe_one(c, model_row, seed=0):
  collapsed = [is_collapsed(c, model_row)]
  cres, pres, _ = run_group(([c], collapsed, seed))
  return cres[0], pres[0]


def is_collapsed(c, model_row):
  return model_row[3] == "s" and not (len(model_pitems(c)) == 1 and model_pitems(c)[0][0] == "x")


def expected(model_row, fixed):
  m = model_row[2] if fixed else model_row[1]
  if model_row[4] == "U" and m.startswith("O:"):
    return "U"
  return m


def kind(s):
  return "E" if s.startswith("E:") else "U" if s == "U" else "O" if s.startswith("O:") else "?"


def verdict(c, model_row, rows, py, exp=None):
  """The property oracle on the implementations only.  Returns (fingerprint or None, exact?, any_ok).
  (exp, the model's prediction, only decides whether an unreported error of an INDEFINITE call -- every tried
  length raises under CPython -- is one the code deliberately gives up on or one it is expected to report.)"""
  collapsed = is_collapsed(c, model_row)
  exact = not has_star(c) and not c.opaque and not collapsed
  any_ok = any(r.startswith("O:") for _, _, r in rows)
  names = kw_names(c)
  e = esig(c)
  if py.startswith(("X:", "?")):
    return None, exact, any_ok
  if exact:
    real = rows[0][2]
    if py == "U":
      bad = not real.startswith("O:")
    else:
      bad = g.outcome_only(real) != g.outcome_only(py)
    if not bad:
      return None, exact, any_ok
    if len(set(names)) < len(names) and real.startswith("E:") and not py.startswith("E:"):
      return FP_DUPKW, exact, any_ok
    return "splat-call-binding-differs:cpython-%s/pytype-%s" % (kind(real), kind(py)), exact, any_ok
  if py.startswith("E:") and any_ok:
    if py.startswith("E:miss:") and e.kw and any(n in e.P for n in names):
      return FP_POSONLY, exact, any_ok
    its = model_row[3]
    if py.startswith(("E:cnt:", "E:dup:")) and "s" in its and its.rstrip("a") != its:
      return FP_AFTER, exact, any_ok
    return "splat-call-false-positive:pytype-%s" % py.split(":")[1], exact, any_ok
  if not py.startswith("E:") and not any_ok and exp is not None and exp.startswith("E:"):
    return "splat-call-raises-for-every-length-not-reported:%s" % exp.split(":")[1], exact, any_ok
  return None, exact, any_ok


def replay_obj(c, rows, py, model_row):
  src, _, _ = module_text([c])
  return {"kind": "splat", "case": case_to_json(c), "def": g.esig_text(esig(c)), "call": call_text(c, 0),
          "cpython": [[list(l), list(x), r] for l, x, r in rows[:8]], "pytype": py, "model": list(model_row),
          "module": src[len(HEADER):],
          "note": "module is preceded by c13_splat.HEADER (marker classes P<i>, K_<name>, D_<name>, X<i> with the "
                  "indefinite lists xs<i>, and the non-concrete dict od); cpython rows are (lengths of the indefinite "
                  "splats, keys of od, result)"}


def run_legs(res, exe, r, thorough, fixed):
  import multiprocessing, time
  import common
  sigs = g.enum_sigs(2)
  n_each = {"splat-concrete": 900, "splat-star": 1200, "depth": 700, "access": 500} if thorough else \
           {"splat-concrete": 110, "splat-star": 160, "depth": 110, "access": 60}
  cases = corpus_cases()
  kinds = ["corpus"] * len(cases)
  big = g.enum_sigs(3)
  for k, n in n_each.items():
    for i in range(n):
      # every sixth indefinite case on a def with up to 3 parameters of each kind (long expansions of a splat)
      cases.append(gen_case(r, big if (k == "splat-star" and i % 6 == 5) else sigs, k)); kinds.append(k)
  model = run_model(exe, cases)
  size = 45
  groups = [(cases[i:i + size], [is_collapsed(c, m) for c, m in zip(cases[i:i + size], model[i:i + size])],
             r.randrange(1 << 30)) for i in range(0, len(cases), size)]
  t0 = time.time()
  ctx = multiprocessing.get_context("fork")
  with ctx.Pool(4 if not thorough else min(8, max(2, common.NCPU // 2))) as pool:
    done = pool.map(run_group, groups)
  res.extra["splat_impl_wall_s"] = round(time.time() - t0, 1)

  hist = collections.Counter()
  n_py = n_c = n_unexpl = n_stray = n_wf = n_given_up = n_exact = n_indef = n_depth_limit = n_err_at_limit = 0
  first_bad = {}
  found = collections.OrderedDict()
  sampled = set()
  i = 0
  for (grp, _, _), (cres, pres, stray) in zip(groups, done):
    if stray:
      n_stray += len(stray); first_bad.setdefault("stray", stray[0])
    for c, rows, py in zip(grp, cres, pres):
      m = model[i]; k = kinds[i]; i += 1
      exp = expected(m, fixed)
      hist["kind:" + k] += 1
      hist["variant:%s/%s" % (c.variant, c.access)] += 1
      hist["helpers:%d" % c.helpers] += 1
      hist["model:" + kind(exp)] += 1
      hist["items:" + ("collapsed" if is_collapsed(c, m) else
                       "star-last" if m[3].endswith("s") else "star-then-args" if "s" in m[3] else "concrete")] += 1
      if c.opaque:
        hist["opaque-**"] += 1
      res.count(("x", c) if (flat_len(c.pitems) + len(kw_names(c))) > 0 else None)
      if m[0] != "1":
        n_wf += 1; first_bad.setdefault("wf", describe(c))
      if py.startswith("X:"):
        n_unexpl += 1; first_bad.setdefault("unexplorable", py); continue
      if py.startswith("E:multiple:") and c.access == "partial" and exp.startswith("E:"):
        # the lambda is also analysed on its own (unknown *a / **k): f(p0, *a, **k) with p0 alone exceeding the
        # positional parameters adds wrong-arg-count to the error of the real call on the same line
        if any(g._ERR_KIND.get(n) == exp.split(":")[1] for n in py[len("E:multiple:"):].split(";")):   # pylint: disable=protected-access
          py = exp
      # (1) pytype vs the model (Args.simplify + _map_args + depth rule)
      if not g.same_py(exp, py):
        n_py += 1
        first_bad.setdefault("py", "%s: model %s, pytype %s" % (describe(c), exp, py))
      if m[4] == "U":
        n_depth_limit += 1
      if c.helpers == MAX_DEPTH and exp.startswith("E:"):
        n_err_at_limit += 1
      # (2) the model vs CPython where the call is fully known
      fp, exact, any_ok = verdict(c, m, rows, py, exp)
      if exact:
        n_exact += 1
        real = rows[0][2]
        dupkw = len(set(kw_names(c))) < len(kw_names(c))
        mfix = m[2]
        if not dupkw and g.outcome_only(mfix) != g.outcome_only(real):
          n_c += 1
          first_bad.setdefault("c", "%s: model %s, CPython %s" % (describe(c), mfix, real))
      else:
        n_indef += 1
        if not py.startswith("E:") and not any_ok:
          n_given_up += 1
      # (3) the property oracle
      if fp:
        found.setdefault(fp, []).append((c, rows, py, m))
      else:
        key = (k, kind(exp))
        if key not in sampled and len(sampled) < 8 and (flat_len(c.pitems) + len(kw_names(c))) > 0:
          sampled.add(key)
          res.sample({"kind": k, "def": g.esig_text(esig(c)), "variant": "%s/%s/%d helper frame(s)" % (c.variant, c.access, c.helpers),
                      "call": call_text(c, 0), "pytype": py, "bind_px+call_at_depth": exp,
                      "cpython": ["lengths %s keys %s: %s" % (list(l), list(x), rr) for l, x, rr in rows[:4]]}, cap=14)
  n = len(cases)
  res.obligation("splat:explorable", n_unexpl == 0, "%d of %d: %s" % (n_unexpl, n, first_bad.get("unexplorable", "")))
  res.obligation("splat:no-errors-outside-the-call-lines", n_stray == 0,
                 "%d; first: %s" % (n_stray, first_bad.get("stray", "")))
  res.obligation("splat:hypotheses:wf_sig-and-distinct-keywords", n_wf == 0, "%d: %s" % (n_wf, first_bad.get("wf", "")))
  res.obligation("correspondence:pytype-splat/helper/forwarded-calls-vs-bind_px+call_at_depth", n_py == 0,
                 "%d of %d differ; first: %s" % (n_py, n, first_bad.get("py", "")))
  res.obligation("correspondence:bind_px-vs-CPython-call-on-fully-concrete-calls", n_c == 0,
                 "%d of %d differ; first: %s" % (n_c, n_exact, first_bad.get("c", "")))
  res.obligation("splat:coverage", n_depth_limit > 0 and n_err_at_limit > 0 and hist["items:star-last"] > 0
                 and hist["items:collapsed"] > 0 and hist["opaque-**"] > 0,
                 "calls at the depth limit %d (binding errors there %d), star-last %d, collapsed %d, opaque %d"
                 % (n_depth_limit, n_err_at_limit, hist["items:star-last"], hist["items:collapsed"], hist["opaque-**"]))
  res.extra["splat_cases"] = n
  res.extra["splat_exact_cases"] = n_exact
  res.extra["splat_indefinite_cases"] = n_indef
  res.extra["splat_indefinite_given_up_no_error_although_every_tried_length_raises"] = n_given_up
  res.extra["splat_calls_at_depth_limit"] = n_depth_limit
  res.extra["splat_histogram"] = dict(sorted(hist.items()))
  res.extra["splat_oracle_disagreements"] = {k: len(v) for k, v in found.items()}
  sz = lambda t: (len(g.all_names(esig(t[0]))) + flat_len(t[0].pitems) + len(kw_names(t[0])) + t[0].helpers
                  + (t[0].access != "direct") + (t[0].variant != "func") + 2 * int(t[0].opaque)
                  + 2 * sum(p[0] == "t" for p in t[0].pitems) + 2 * sum(k[0] == "d" for k in t[0].kitems))
  shown = 0
  for fp, lst in found.items():
    c, rows, py, m = min(lst, key=sz)
    listed = fp in WHAT
    if not listed:
      if shown >= 3:
        continue
      shown += 1
    ok_rows = [(l, x) for l, x, rr in rows if rr.startswith("O:")]
    res.violation(fp, "%s%s -> CPython %s, pytype %s (%d such calls in this run)"
                  % ((WHAT[fp] + ": ") if listed else "", describe(c),
                     ("binds for splat lengths %s / od keys %s" % (list(ok_rows[0][0]), list(ok_rows[0][1])))
                     if ok_rows and (has_star(c) or c.opaque or is_collapsed(c, m)) else rows[0][2], py, len(lst)),
                  replay_obj(c, rows, py, m))


def replay(d, exe):
  """Re-run a stored splat replay; returns 1 if the oracle still fails."""
  c = case_from_json(d["case"])
  m = run_model(exe, [c])[0]
  rows, py = observe_one(c, m)
  src, _, _ = module_text([c])
  print("def   :", g.esig_text(esig(c)), " [%s/%s, %d helper frame(s)]" % (c.variant, c.access, c.helpers))
  print("call  :", call_text(c, 0))
  print(src[len(HEADER):], end="")
  for l, x, rr in rows[:8]:
    print("cpython (splat lengths %s, od keys %s): %s" % (list(l), list(x), rr))
  print("pytype :", py)
  print("model  :", m)
  fp, _, _ = verdict(c, m, rows, py, expected(m, True))
  print("oracle :", fp or "agrees")
  return 1 if fp else 0
