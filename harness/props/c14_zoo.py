"""C14 oracle-only class zoo: user-class features that are NOT in the Coq model (coq/Ops/Model.v).

Classes that define or inherit __getattr__ (returning a value / raising AttributeError for some names),
__getattribute__, class-level vs instance attributes, __slots__, properties, staticmethod/classmethod, classes
deriving from a builtin (int, list, dict) with and without overriding a dunder, a callable attribute assigned on the
instance, dunders assigned on the instance; plus two builtin values outside the 14 heads (bytearray, range).
Every statement form of the property is generated for each; the verdict comes from executing the statement in
isolation under CPython (TypeError/AttributeError only), compared with real pytype.  No model prediction.
"""
import c14_gen as g

ZOO_SOURCE = '''def zf_(*a): return 0
class ZGA:
  def __getattr__(self, name): return 0
class ZGAC(ZGA): pass
class ZGAD(ZGA):
  def __neg__(self): return 0
  def __call__(self): return 0
class ZGE:
  def __getattr__(self, name):
    if name.startswith("x"): return 0
    raise AttributeError(name)
class ZGB:
  def __getattribute__(self, name): return 0
class ZCI:
  c = 0
  def m(self): return 0
  def __init__(self):
    self.i = 0
class ZCIC(ZCI):
  d = 0
class ZSL:
  __slots__ = ("s", "t")
  def __init__(self):
    self.s = 0
class ZPR:
  @property
  def p(self): return 0
  @property
  def q(self): return zf_
class ZSM:
  @staticmethod
  def sm(): return 0
  @classmethod
  def cm(cls): return 0
class ZI(int): pass
class ZIO(int):
  def __add__(self, o): return "s"
  def __neg__(self): return "n"
class ZL(list): pass
class ZLO(list):
  def __getitem__(self, k): return 0
  def __add__(self, o): return 0
class ZD(dict): pass
class ZDO(dict):
  def __getitem__(self, k): return 0
  def __call__(self): return 0
class ZIC:
  def __init__(self):
    self.__call__ = zf_
    self.f = zf_
class ZID:
  def __init__(self):
    self.__add__ = zf_
    self.__radd__ = zf_
    self.__neg__ = zf_
    self.__getitem__ = zf_
class ZRO:
  def __radd__(self, o): return 0
  def __rsub__(self, o): return 0
class ZSB:
  def __init__(self):
    self.i = 0
class ZSC(ZSB):
  def __init__(self):
    super().__init__()
    self.f = zf_
class ZSD(ZSC):
  c = 0
  def __init__(self, k=0):
    super().__init__()
    self.s = k
'''

# (label, expression, is a builtin value, has a dynamic attribute fallback)
ZOO_VALUES = [
    ("ZGA", "ZGA()", False, True), ("ZGAC", "ZGAC()", False, True), ("ZGAD", "ZGAD()", False, True),
    ("ZGE", "ZGE()", False, True), ("ZGB", "ZGB()", False, True),
    ("ZCI", "ZCI()", False, False), ("ZCIC", "ZCIC()", False, False), ("ZSL", "ZSL()", False, False),
    ("ZPR", "ZPR()", False, False), ("ZSM", "ZSM()", False, False),
    ("ZI", "ZI(1)", False, False), ("ZIO", "ZIO(1)", False, False),
    ("ZL", "ZL([1])", False, False), ("ZLO", "ZLO([1])", False, False),
    ("ZD", "ZD({1: 2})", False, False), ("ZDO", "ZDO({1: 2})", False, False),
    ("ZIC", "ZIC()", False, False), ("ZID", "ZID()", False, False), ("ZRO", "ZRO()", False, False),
    # instances whose __init__ chains through super().__init__() (own and inherited)
    ("ZSC", "ZSC()", False, False), ("ZSD", "ZSD()", False, False),
    ("bytearray", 'bytearray(b"a")', True, False), ("range", "range(2)", True, False),
]
PARTNERS = [("int", "1", True), ("str", '"a"', True), ("list", "[1]", True), ("NoneType", "None", True)]
ATTR_NAMES = ["zz", "x1", "__foo__", "c", "d", "i", "m", "s", "t", "p", "q", "sm", "cm", "f", "real", "append", "keys"]
OPS = ["+", "-", "*", "/"]


def statements():
  """-> list of dict(kind, x, y, op/name, text builder args)."""
  out = []
  for lab, ex, xb, dyn in ZOO_VALUES:
    out.append(dict(kind="call", x=lab, ex=ex, xb=xb, dyn=dyn))
    out.append(dict(kind="neg", x=lab, ex=ex, xb=xb, dyn=dyn))
    for op in OPS:
      out.append(dict(kind="bin", x=lab, ex=ex, xb=xb, dyn=dyn, op=op, y=lab, ey=ex, yb=xb))
      for pl, pe, pb in PARTNERS:
        out.append(dict(kind="bin", x=lab, ex=ex, xb=xb, dyn=dyn, op=op, y=pl, ey=pe, yb=pb))
        out.append(dict(kind="bin", x=pl, ex=pe, xb=pb, dyn=False, op=op, y=lab, ey=ex, yb=xb))
    for pl, pe, pb in PARTNERS[:2]:
      out.append(dict(kind="sub", x=lab, ex=ex, xb=xb, dyn=dyn, y=pl, ey=pe, yb=pb))
    for n in ATTR_NAMES:
      out.append(dict(kind="attr", x=lab, ex=ex, xb=xb, dyn=dyn, name=n))
      out.append(dict(kind="mcall", x=lab, ex=ex, xb=xb, dyn=dyn, name=n))
  return out


def text(s, j):
  a, b, v = f"a{j}", f"b{j}", f"v{j}"
  k = s["kind"]
  if k == "bin":
    return f"{a} = {s['ex']}; {b} = {s['ey']}; {v} = ({a}) {s['op']} ({b})"
  if k == "sub":
    return f"{a} = {s['ex']}; {b} = {s['ey']}; {v} = ({a})[{b}]"
  if k == "neg":
    return f"{a} = {s['ex']}; {v} = -({a})"
  if k == "call":
    return f"{a} = {s['ex']}; {v} = ({a})()"
  if k == "attr":
    return f"{a} = {s['ex']}; {v} = ({a}).{s['name']}"
  return f"{a} = {s['ex']}; {v} = ({a}).{s['name']}()"


def advertised(s, exc, msg):
  """The second sentence of the property on these statements: a missing attribute or method (on a class WITHOUT
  a dynamic fallback: whether a __getattr__ raises for a name is not ground knowledge), calling a non-callable,
  + - * / unary minus subscript between BUILTIN values."""
  k = s["kind"]
  if k in ("attr", "mcall") and exc == "AttributeError" and not s["dyn"]:
    return True
  if k in ("call", "mcall") and exc == "TypeError" and "is not callable" in msg:
    return True
  if k in ("bin", "sub") and exc == "TypeError" and s["xb"] and s["yb"]:
    return True
  if k == "neg" and exc == "TypeError" and s["xb"]:
    return True
  return False


def fingerprint(s, direction, exc):
  k = s["kind"]
  if direction == "fp" and k == "attr" and s["dyn"] and s["name"].startswith("__"):
    return f"fp:zoo:attr:dynamic-fallback.{s['name']}:{exc}"      # one cause, whatever the class
  if direction == "fp" and k == "sub" and s["x"] == "ZD" and exc == "KeyError":
    return "fp:sub:dict:KeyError"                                  # finding F1 on a plain dict subclass
  if k in ("attr", "mcall"):
    core = f"{k}:{s['x']}.{s['name']}"
  elif k == "bin":
    core = f"bin:{s['x']}:{s['op']}:{s['y']}"
  elif k == "sub":
    core = f"sub:{s['x']}[{s['y']}]"
  else:
    core = f"{k}:{s['x']}"
  return f"{direction}:zoo:{core}" + (f":{exc}" if direction == "fp" else "")
