"""C07 helpers: typegraph descriptions, construction on the real cfg.Program, model input lines,
generators (random + bounded-exhaustive).

A graph description is a dict
  {"nodes": [{"inc": [node ids, in ConnectTo order], "cond": binding id or None}, ...],
   "bindings": [{"var": variable id, "origins": [[where, [[binding ids], ...]], ...]}, ...]}
Binding ids are creation order (Binding::id()), node ids creation order (CFGNode::id()).
"""
import itertools


# ------------------------------------------------------------------------------------------
# building the graph on the real implementation and reading it back

class Impl:
  """A description built on a real cfg.Program; `desc` is what the implementation itself reports
  (incoming order, conditions, origins, and the iteration order of Origin::source_sets)."""

  def __init__(self, d, probes=None):
    """probes: queries issued (answers discarded) after every AddOrigin while the graph is being built, so the
    Program's solver is created, asked and must be invalidated again before each further mutation ("staged"
    construction: the final answers then depend on every mutation path dropping the memo)."""
    from pytype.typegraph import cfg
    self.p = cfg.Program()
    p = self.p
    nvars = 1 + max([b["var"] for b in d["bindings"]] + [-1])
    self.vars = [p.NewVariable() for _ in range(nvars)]
    self.data = []
    self.bindings = []
    for i, b in enumerate(d["bindings"]):
      data = "d%d" % i
      self.data.append(data)
      self.bindings.append(self.vars[b["var"]].AddBinding(data))      # no origin yet
    self.nodes = []
    for i, n in enumerate(d["nodes"]):
      if n["cond"] is None:
        self.nodes.append(p.NewCFGNode("n%d" % i))
      else:
        self.nodes.append(p.NewCFGNode("n%d" % i, condition=self.bindings[n["cond"]]))
    for i, n in enumerate(d["nodes"]):
      for m in n["inc"]:
        self.nodes[m].ConnectTo(self.nodes[i])
    if not probes:
      for i, b in enumerate(d["bindings"]):
        for where, ssets in b["origins"]:
          for ss in ssets:
            self.bindings[i].AddOrigin(self.nodes[where], [self.bindings[x] for x in ss])
    else:
      # staged: the way the VM itself adds origins (Variable.AddBinding(data, source_set, where) on data the
      # variable already holds), first one source set per origin, then the further source sets of existing
      # origins LAST, the probes asked after every step
      for later in (False, True):
        for i, b in enumerate(d["bindings"]):
          for where, ssets in b["origins"]:
            for ss in (ssets[1:] if later else ssets[:1]):
              got = self.vars[b["var"]].AddBinding(self.data[i], [self.bindings[x] for x in ss], self.nodes[where])
              if got.id != self.bindings[i].id:
                raise ValueError("AddBinding returned another binding")
              try:
                self.run(probes)
              except Exception:  # pylint: disable=broad-except
                pass
    self.desc = self.readback()

  def readback(self):
    nodes = []
    for n in self.nodes:
      c = n.condition
      nodes.append({"inc": [m.id for m in n.incoming], "cond": None if c is None else c.id})
    bindings = []
    for b in self.bindings:
      os_ = []
      for o in b.origins:
        os_.append([o.where.id, [sorted(x.id for x in ss) for ss in o.source_sets]])
      bindings.append({"var": b.variable.id, "origins": os_})
    return {"nodes": nodes, "bindings": bindings}

  def invalidate(self):
    """Drops Program::solver_ without changing the graph: re-adding an existing source set to an
    existing origin goes through Binding::AddOrigin(node, vector) which calls InvalidateSolver()."""
    for i, b in enumerate(self.desc["bindings"]):
      if b["origins"]:
        where, ssets = b["origins"][0]
        self.bindings[i].AddOrigin(self.nodes[where], [self.bindings[x] for x in ssets[0]])
        return True
    # no binding has an origin: connecting is the only other graph-preserving... none exists;
    # fall back to a new Program
    return False

  def run(self, queries):
    out = []
    for q in queries:
      k = q[0]
      if k == "H":
        out.append("1" if self.nodes[q[1]].HasCombination([self.bindings[b] for b in q[2]]) else "0")
      elif k == "V":      # IsVisible: same entry as H with one goal; printed like H
        out.append("1" if self.bindings[q[2][0]].IsVisible(self.nodes[q[1]]) else "0")
      elif k == "F":
        r = self.vars[q[1]].Filter(self.nodes[q[2]], bool(q[3]))
        out.append("f:" + ",".join(str(b.id) for b in r))
      elif k == "C":
        out.append("1" if self.nodes[q[1]].CanHaveCombination([self.bindings[b] for b in q[2]]) else "0")
      elif k == "R":
        if not self.invalidate():
          raise RuntimeError("cannot invalidate")
      else:
        raise ValueError(q)
    return out


def desc_equal_modulo_ssets_order(a, b):
  if a["nodes"] != b["nodes"] or len(a["bindings"]) != len(b["bindings"]):
    return False
  for x, y in zip(a["bindings"], b["bindings"]):
    if x["var"] != y["var"] or len(x["origins"]) != len(y["origins"]):
      return False
    for (w1, s1), (w2, s2) in zip(x["origins"], y["origins"]):
      if w1 != w2 or sorted(map(tuple, s1)) != sorted(map(tuple, s2)):
        return False
  return True


def normalise(d):
  """What the implementation will hold after construction: duplicate edges/self edges dropped,
  origins at the same node merged, source sets deduplicated and sorted (order of source sets is
  then whatever the implementation reports)."""
  nodes = []
  for i, n in enumerate(d["nodes"]):
    inc = []
    for m in n["inc"]:
      if m != i and m not in inc:
        inc.append(m)
    nodes.append({"inc": inc, "cond": n["cond"]})
  bindings = []
  for b in d["bindings"]:
    os_ = []
    for where, ssets in b["origins"]:
      ss = []
      for s in ssets:
        s = sorted(set(s))
        if s not in ss:
          ss.append(s)
      for o in os_:
        if o[0] == where:
          for s in ss:
            if s not in o[1]:
              o[1].append(s)
          break
      else:
        os_.append([where, ss])
    bindings.append({"var": b["var"], "origins": os_})
  return {"nodes": nodes, "bindings": bindings}


# ------------------------------------------------------------------------------------------
# model input

def model_line(d, queries):
  t = [len(d["nodes"]), len(d["bindings"])]
  for n in d["nodes"]:
    t.append(len(n["inc"])); t.extend(n["inc"]); t.append(-1 if n["cond"] is None else n["cond"])
  for b in d["bindings"]:
    t.append(b["var"]); t.append(len(b["origins"]))
    for where, ssets in b["origins"]:
      t.append(where); t.append(len(ssets))
      for s in ssets:
        t.append(len(s)); t.extend(s)
  for q in queries:
    k = q[0]
    if k in ("H", "V"):
      t.extend(["H", q[1], len(q[2])]); t.extend(q[2])
    elif k == "C":
      t.extend(["C", q[1], len(q[2])]); t.extend(q[2])
    elif k == "F":
      t.extend(["F", q[1], q[2], 1 if q[3] else 0])
    elif k == "R":
      t.append("R")
    elif k == "W":
      t.append("W")
  return " ".join(map(str, t))


class ModelProc:
  """One long-lived process of the extracted solver model (the driver answers line by line and flushes): starting
  the executable costs seconds on a loaded machine (it builds its unary-number tables), a round trip does not."""

  def __init__(self, exe):
    import subprocess
    self.p = subprocess.Popen([exe], stdin=subprocess.PIPE, stdout=subprocess.PIPE, text=True, bufsize=1)

  def ask(self, line):
    self.p.stdin.write(line + "\n")
    self.p.stdin.flush()
    out = self.p.stdout.readline()
    if not out:
      raise RuntimeError("solver model process died on: " + line[:300])
    out = out.strip()
    return out.split(" ") if out else []

  def close(self):
    try:
      self.p.stdin.close()
      self.p.wait(timeout=5)
    except Exception:  # pylint: disable=broad-except
      self.p.kill()


# ------------------------------------------------------------------------------------------
# graph facts used for the input-distribution record

def is_acyclic(d):
  n = len(d["nodes"])
  color = [0] * n
  for s in range(n):
    if color[s]:
      continue
    stack = [(s, 0)]
    color[s] = 1
    while stack:
      x, i = stack.pop()
      inc = d["nodes"][x]["inc"]
      if i < len(inc):
        stack.append((x, i + 1))
        y = inc[i]
        if color[y] == 1:
          return False
        if color[y] == 0:
          color[y] = 1
          stack.append((y, 0))
      else:
        color[x] = 2
  return True


def has_conditions(d):
  return any(n["cond"] is not None for n in d["nodes"])


# ------------------------------------------------------------------------------------------
# random generator

def random_graph(r, n_nodes, n_vars, n_bind, cyclic, p_cond, style="program"):
  """style 'program': a CFG with a backbone (every node i>0 has a predecessor j<i), extra forward
  edges (branches/joins), optional back edges (loops); bindings get origins at random nodes with
  source sets drawn mostly from bindings that originate earlier; 'wild': everything uniform."""
  nodes = [{"inc": [], "cond": None} for _ in range(n_nodes)]
  for i in range(1, n_nodes):
    if style == "wild":
      continue
    j = r.randrange(max(0, i - 3), i) if r.random() < 0.8 else r.randrange(i)
    nodes[i]["inc"].append(j)
  extra = r.randint(0, n_nodes) if style != "wild" else r.randint(0, 2 * n_nodes)
  for _ in range(extra):
    a = r.randrange(n_nodes); b = r.randrange(n_nodes)
    if a == b:
      continue
    if style != "wild":
      if a > b:
        a, b = b, a
    if a not in nodes[b]["inc"]:
      nodes[b]["inc"].append(a)          # edge a -> b
  if cyclic:
    for _ in range(r.randint(1, max(1, n_nodes // 4))):
      a = r.randrange(n_nodes); b = r.randrange(n_nodes)
      if a < b:
        a, b = b, a
      if a != b and a not in nodes[b]["inc"]:
        nodes[b]["inc"].append(a)        # back edge a -> b with a > b
  for n in nodes:
    r.shuffle(n["inc"])
  bindings = []
  first_origin = []
  for i in range(n_bind):
    var = r.randrange(n_vars) if r.random() < 0.7 else min(n_vars - 1, i * n_vars // max(1, n_bind))
    k = r.random()
    n_or = 0 if k < 0.04 else (1 if k < 0.7 else (2 if k < 0.95 else 3))
    wheres = []
    for _ in range(n_or):
      w = r.randrange(n_nodes)
      if w not in wheres:
        wheres.append(w)
    first_origin.append(min(wheres) if wheres else n_nodes)
    bindings.append({"var": var, "origins": [[w, None] for w in wheres]})
  for i, b in enumerate(bindings):
    for o in b["origins"]:
      w = o[0]
      n_ss = 1 if r.random() < 0.7 else 2
      ssets = []
      for _ in range(n_ss):
        k = r.random()
        size = 0 if k < 0.35 else (1 if k < 0.75 else (2 if k < 0.95 else 3))
        s = set()
        for _ in range(size):
          if style == "wild" or r.random() < 0.15:
            s.add(r.randrange(n_bind))
          else:
            cands = [j for j in range(n_bind) if j != i and first_origin[j] <= w]
            if cands:
              s.add(r.choice(cands))
        s = sorted(s)
        if s not in ssets:
          ssets.append(s)
      o[1] = ssets
  if p_cond > 0:
    for i, n in enumerate(nodes):
      if r.random() < p_cond and n_bind:
        if style != "wild" and r.random() < 0.8:
          cands = [j for j in range(n_bind) if first_origin[j] <= i]
          n["cond"] = r.choice(cands) if cands else r.randrange(n_bind)
        else:
          n["cond"] = r.randrange(n_bind)
  return normalise({"nodes": nodes, "bindings": bindings})


def random_queries(r, d, n_sets, max_size=3, with_subsets=True, extras=True):
  """HasCombination queries: random nodes x random goal sets (size 1..max_size), each followed by
  all its non-empty proper subsets at the same node (clause iv); plus Filter / CanHaveCombination /
  a few duplicates-in-the-vector and empty-vector queries."""
  nn = len(d["nodes"]); nb = len(d["bindings"])
  qs = []
  if nb == 0 or nn == 0:
    return qs
  for _ in range(n_sets):
    node = r.randrange(nn)
    k = r.randint(1, min(max_size, nb))
    s = sorted(r.sample(range(nb), k))
    qs.append(("H", node, s))
    if with_subsets and k > 1:
      for m in range(1, k):
        for sub in itertools.combinations(s, m):
          qs.append(("H", node, list(sub)))
    qs.append(("C", node, s))
  if extras:
    nvars = 1 + max(b["var"] for b in d["bindings"])
    for _ in range(2):
      qs.append(("F", r.randrange(nvars), r.randrange(nn), r.random() < 0.7))
    node = r.randrange(nn)
    b = r.randrange(nb)
    qs.append(("H", node, [b, b]))          # duplicate in the vector: size()>1 takes the CanHaveSolution path
    qs.append(("H", node, []))
    qs.append(("V", node, [b]))
  return qs


def all_queries(d, max_size=3):
  nn = len(d["nodes"]); nb = len(d["bindings"])
  qs = []
  for node in range(nn):
    for k in range(1, min(max_size, nb) + 1):
      for s in itertools.combinations(range(nb), k):
        qs.append(("H", node, list(s)))
  return qs


# ------------------------------------------------------------------------------------------
# bounded-exhaustive enumeration

def edge_sets(n_nodes, max_edges):
  pairs = [(a, b) for a in range(n_nodes) for b in range(n_nodes) if a != b]
  for k in range(0, max_edges + 1):
    for es in itertools.combinations(pairs, k):
      yield es


def exhaustive_graphs(n_nodes, max_edges, n_bind, max_ss_size, two_ssets, with_cond, first_no_origin=False):
  """Every typegraph with exactly n_nodes nodes, <= max_edges edges (cycles included), n_bind
  bindings over <= 2 variables (first binding in variable 0), each binding with exactly one origin
  (any node) carrying one source set (or, if two_ssets, one or two) of size <= max_ss_size over the
  other bindings; and (if with_cond) at most one conditional node with any binding as condition.
  With first_no_origin, binding 0 has no origin at all (a goal that can never be explained)."""
  var_assign = [v for v in itertools.product(range(2), repeat=n_bind) if n_bind == 0 or v[0] == 0]
  def ssets_for(i):
    others = [j for j in range(n_bind) if j != i]
    subs = [list(c) for k in range(0, max_ss_size + 1) for c in itertools.combinations(others, k)]
    opts = [[s] for s in subs]
    if two_ssets:
      opts += [[a, b] for a, b in itertools.combinations(subs, 2)]
    return opts
  ss_opts = [ssets_for(i) for i in range(n_bind)]
  if first_no_origin and n_bind:
    ss_opts[0] = [None]
  conds = [None]
  if with_cond:
    conds += [(n, b) for n in range(n_nodes) for b in range(n_bind)]
  for es in edge_sets(n_nodes, max_edges):
    inc = [[] for _ in range(n_nodes)]
    for a, b in es:
      inc[b].append(a)
    for va in var_assign:
      for wheres in itertools.product(*[([None] if (first_no_origin and i == 0) else range(n_nodes))
                                        for i in range(n_bind)]):
        for ss in itertools.product(*ss_opts):
          for c in conds:
            nodes = [{"inc": list(inc[i]), "cond": (c[1] if c and c[0] == i else None)}
                     for i in range(n_nodes)]
            bindings = [{"var": va[i], "origins": ([] if wheres[i] is None else
                                                   [[wheres[i], [list(s) for s in ss[i]]]])}
                        for i in range(n_bind)]
            yield {"nodes": nodes, "bindings": bindings}
