"""C05 helpers: id table, model-term <-> pytd conversions, token streams, generators.

Model terms are Python tuples mirroring coq/Print/Model.v:
  type:  ("N", ns, id) ns in "btp" | ("A",) | ("Z",) | ("V", id) | ("L", kind, ...) |
         ("G", (ns,id), [types]) | ("Tu", ...) | ("Ca", ...) | ("U", [types]) | ("An", type, [ids])
  lit:   ("L","i",z) | ("L","b",is_const,b) | ("L","s",id) | ("L","e",id)
  param: (name_id, kind 0/1/2, opt 0/1, type, mut_type_or_None)
  sig:   ([params], star_or_None (name_id, type), sstar_or_None, ret)
"""
import io
import tokenize

# ---------------------------------------------------------------------------------------------------
# ids (must agree with coq/Print/Model.v)

RESERVED = {
    "NoneType": 0, "Any": 1, "Optional": 2, "Union": 3, "Literal": 4, "Callable": 5, "tuple": 6, "Never": 7,
    "nothing": 8, "Annotated": 9, "int": 10, "float": 11, "complex": 12, "bytearray": 13, "bytes": 14,
    "memoryview": 15, "self": 16, "cls": 17, "type": 18, "Type": 19, "dict": 20, "str": 21,
    # keywords and names with a meaning for the declaration model (coq/Print/Decl.v)
    "def": 22, "class": 23, "raise": 24, "@": 25, "object": 26, "metaclass": 27, "total": 28, "__slots__": 29,
    "bound": 30, "typing": 31,
}
# ordinary names (>= 64) that coq/Print/Decl.v fixes
FIXED = {"staticmethod": 64, "classmethod": 65, "property": 66, "abstractmethod": 67, "coroutine": 68,
         "__new__": 69, "__init_subclass__": 70, "__init__": 71, "__getattr__": 72, "'property'": 73}
TYPING_POOL = ["Sequence", "Iterable", "Iterator", "Mapping", "MutableSequence", "Awaitable", "Generator",
               "Collection", "Container", "Hashable", "Sized", "Reversible", "AbstractSet", "MutableMapping",
               "TypeVar", "overload", "final", "Generic", "Protocol", "Tuple", "Dict"]          # 46 TypeVar, 47 overload, 48 final
TYPING_TYPES = TYPING_POOL[:14]      # the members the type generator uses as class names


class Ids:
  """String <-> id.  32..63 typing members, >= 64 everything else (string literal texts included)."""

  def __init__(self):
    self.s2i = dict(RESERVED)
    self.i2s = {v: k for k, v in RESERVED.items()}
    for k, nm in enumerate(TYPING_POOL):
      self.s2i[nm] = 32 + k
      self.i2s[32 + k] = nm
    for nm, i in FIXED.items():
      self.s2i[nm] = i
      self.i2s[i] = nm
    self.next = 80

  def id(self, s):
    i = self.s2i.get(s)
    if i is None:
      i = self.next
      self.next += 1
      self.s2i[s] = i
      self.i2s[i] = s
    return i

  def s(self, i):
    return self.i2s[i]


def is_typing_id(i):
  return i in (1, 2, 3, 4, 5, 7, 9, 19) or 32 <= i < 64


# ---------------------------------------------------------------------------------------------------
# serialisation for harness/ocaml/print_driver.ml

def ser_name(n):
  return [n[0], str(n[1])]


def ser_ty(t, out):
  k = t[0]
  if k == "N":
    out += ["N" + t[1], str(t[2])]
  elif k in ("A", "Z"):
    out.append(k)
  elif k == "V":
    out += ["V", str(t[1])]
  elif k == "L":
    if t[1] == "i":
      out += ["Li", str(t[2])]
    elif t[1] == "b":
      out += ["Lb", str(int(t[2])), str(int(t[3]))]
    elif t[1] == "s":
      out += ["Ls", str(t[2])]
    else:
      out += ["Le", str(t[2])]
  elif k in ("G", "Tu", "Ca"):
    out.append(k)
    out += ser_name(t[1])
    out.append(str(len(t[2])))
    for p in t[2]:
      ser_ty(p, out)
  elif k == "U":
    out += ["U", str(len(t[1]))]
    for p in t[1]:
      ser_ty(p, out)
  elif k == "An":
    out.append("An")
    ser_ty(t[1], out)
    out.append(str(len(t[2])))
    out += [str(a) for a in t[2]]
  else:
    raise ValueError(t)
  return out


def ser_sig(s, out):
  ps, star, sstar, ret = s
  out.append(str(len(ps)))
  for (nm, kind, opt, t, mut) in ps:
    out += [str(nm), str(kind), str(int(opt))]
    ser_ty(t, out)
    if mut is None:
      out.append("-")
    else:
      out.append("+")
      ser_ty(mut, out)
  for st in (star, sstar):
    if st is None:
      out.append("-")
    else:
      out += ["+", str(st[0])]
      ser_ty(st[1], out)
  ser_ty(ret, out)
  return out


class Reader:
  def __init__(self, words):
    self.w = words
    self.i = 0

  def next(self):
    x = self.w[self.i]
    self.i += 1
    return x

  def int(self):
    return int(self.next())

  def name(self):
    ns = self.next()
    return (ns, self.int())

  def ty(self):
    k = self.next()
    if k in ("Nb", "Nt", "Np"):
      return ("N", k[1], self.int())
    if k in ("A", "Z"):
      return (k,)
    if k == "V":
      return ("V", self.int())
    if k == "Li":
      return ("L", "i", self.int())
    if k == "Lb":
      c = self.int()
      return ("L", "b", bool(c), bool(self.int()))
    if k == "Ls":
      return ("L", "s", self.int())
    if k == "Le":
      return ("L", "e", self.int())
    if k in ("G", "Tu", "Ca"):
      b = self.name()
      n = self.int()
      return (k, b, [self.ty() for _ in range(n)])
    if k == "U":
      n = self.int()
      return ("U", [self.ty() for _ in range(n)])
    if k == "An":
      t = self.ty()
      n = self.int()
      return ("An", t, [self.int() for _ in range(n)])
    raise ValueError(k)

  def opt(self, f):
    x = self.next()
    return None if x == "-" else f()

  def sig(self):
    n = self.int()
    ps = []
    for _ in range(n):
      nm = self.int(); kind = self.int(); opt = self.int(); t = self.ty(); mut = self.opt(self.ty)
      ps.append((nm, kind, opt, t, mut))
    star = self.opt(lambda: (self.int(), self.ty()))
    sstar = self.opt(lambda: (self.int(), self.ty()))
    return (ps, star, sstar, self.ty())


def parse_ty_words(s):
  s = s.strip()
  if s == "NONE" or s.startswith("ERROR"):
    return None if s == "NONE" else s
  return Reader(s.split()).ty()


def parse_sig_words(s):
  s = s.strip()
  if s == "NONE" or s.startswith("ERROR"):
    return None if s == "NONE" else s
  return Reader(s.split()).sig()


# ---------------------------------------------------------------------------------------------------
# model term <-> pytd

def name_str(ids, n):
  ns, i = n
  s = ids.s(i)
  return {"b": "builtins." + s, "t": "typing." + s, "p": s}[ns]


def str_name(ids, s):
  if s.startswith("builtins.") and "." not in s[9:]:
    return ("b", ids.id(s[9:]))
  if s.startswith("typing.") and "." not in s[7:]:
    return ("t", ids.id(s[7:]))
  return ("p", ids.id(s))


def to_pytd(ids, t):
  from pytype.pytd import pytd
  k = t[0]
  if k == "N":
    return pytd.NamedType(name_str(ids, (t[1], t[2])))
  if k == "A":
    return pytd.AnythingType()
  if k == "Z":
    return pytd.NothingType()
  if k == "V":
    return pytd.TypeParameter(ids.s(t[1]))
  if k == "L":
    if t[1] == "i":
      return pytd.Literal(t[2])
    if t[1] == "b":
      if t[2]:
        return pytd.Literal(pytd.Constant("builtins.True" if t[3] else "builtins.False",
                                          pytd.NamedType("builtins.bool")))
      return pytd.Literal(bool(t[3]))
    if t[1] == "s":
      return pytd.Literal(ids.s(t[2]))
    nm = ids.s(t[2])
    return pytd.Literal(pytd.Constant(nm, pytd.NamedType(nm.rsplit(".", 1)[0])))
  if k in ("G", "Tu", "Ca"):
    cls = {"G": pytd.GenericType, "Tu": pytd.TupleType, "Ca": pytd.CallableType}[k]
    return cls(pytd.NamedType(name_str(ids, t[1])), tuple(to_pytd(ids, p) for p in t[2]))
  if k == "U":
    return pytd.UnionType(tuple(to_pytd(ids, p) for p in t[1]))
  if k == "An":
    return pytd.Annotated(to_pytd(ids, t[1]), tuple(ids.s(a) for a in t[2]))
  raise ValueError(t)


class Unsupported(Exception):
  pass


def from_pytd(ids, n):
  from pytype.pytd import pytd
  if isinstance(n, (pytd.NamedType, pytd.ClassType, pytd.LateType)):
    ns, i = str_name(ids, n.name)
    return ("N", ns, i)
  if isinstance(n, pytd.AnythingType):
    return ("A",)
  if isinstance(n, pytd.NothingType):
    return ("Z",)
  if isinstance(n, pytd.ParamSpec):
    raise Unsupported("ParamSpec")
  if isinstance(n, pytd.TypeParameter):
    return ("V", ids.id(n.name))
  if isinstance(n, pytd.Literal):
    v = n.value
    if isinstance(v, bool):
      return ("L", "b", False, v)
    if isinstance(v, int):
      return ("L", "i", v)
    if isinstance(v, str):
      return ("L", "s", ids.id(v))
    if isinstance(v, pytd.Constant):
      if v.name in ("builtins.True", "builtins.False"):
        return ("L", "b", True, v.name == "builtins.True")
      return ("L", "e", ids.id(v.name))
    raise Unsupported("literal %r" % (v,))
  if isinstance(n, pytd.Concatenate):
    raise Unsupported("Concatenate")
  if isinstance(n, pytd.CallableType):
    if n.has_paramspec():
      raise Unsupported("paramspec callable")
    return ("Ca", str_name(ids, n.base_type.name), [from_pytd(ids, p) for p in n.parameters])
  if isinstance(n, pytd.TupleType):
    return ("Tu", str_name(ids, n.base_type.name), [from_pytd(ids, p) for p in n.parameters])
  if isinstance(n, pytd.GenericType):
    return ("G", str_name(ids, n.base_type.name), [from_pytd(ids, p) for p in n.parameters])
  if isinstance(n, pytd.UnionType):
    return ("U", [from_pytd(ids, p) for p in n.type_list])
  if isinstance(n, pytd.Annotated):
    return ("An", from_pytd(ids, n.base_type), [ids.id(a) for a in n.annotations])
  raise Unsupported(type(n).__name__)


KINDS = None


def _kinds():
  global KINDS
  if KINDS is None:
    from pytype.pytd import pytd
    KINDS = [pytd.ParameterKind.POSONLY, pytd.ParameterKind.REGULAR, pytd.ParameterKind.KWONLY]
  return KINDS


def sig_to_pytd(ids, s):
  from pytype.pytd import pytd
  ps, star, sstar, ret = s
  kinds = _kinds()
  params = tuple(pytd.Parameter(ids.s(nm), to_pytd(ids, t), kinds[kind], bool(opt),
                                None if mut is None else to_pytd(ids, mut))
                 for (nm, kind, opt, t, mut) in ps)
  def stp(st):
    return None if st is None else pytd.Parameter(ids.s(st[0]), to_pytd(ids, st[1]),
                                                  pytd.ParameterKind.REGULAR, True, None)
  return pytd.Signature(params=params, starargs=stp(star), starstarargs=stp(sstar),
                        return_type=to_pytd(ids, ret), exceptions=(), template=())


def sig_from_pytd(ids, sg):
  kinds = _kinds()
  if sg.exceptions:
    raise Unsupported("exceptions")
  ps = [(ids.id(p.name), kinds.index(p.kind), int(p.optional), from_pytd(ids, p.type),
         None if p.mutated_type is None else from_pytd(ids, p.mutated_type)) for p in sg.params]
  def stp(p):
    return None if p is None else (ids.id(p.name), from_pytd(ids, p.type))
  return (ps, stp(sg.starargs), stp(sg.starstarargs), from_pytd(ids, sg.return_type))


# ---------------------------------------------------------------------------------------------------
# real text -> model token words

def tokenise(ids, text):
  """Python-tokenises `text`; dotted names and signed numbers become one token."""
  toks = [t for t in tokenize.generate_tokens(io.StringIO(text).readline)]
  out = []
  i = 0
  n = len(toks)
  while i < n:
    t = toks[i]
    tt = t.type
    if tt == tokenize.NAME:
      s = t.string
      while i + 2 < n and toks[i + 1].string == "." and toks[i + 2].type == tokenize.NAME:
        s += "." + toks[i + 2].string
        i += 2
      if s == "None":
        out.append("None")
      elif s == "True":
        out.append("T")
      elif s == "False":
        out.append("F")
      else:
        out.append("n%d" % ids.id(s))
    elif tt == tokenize.NUMBER:
      out.append("i%d" % int(t.string, 0))
    elif tt == tokenize.STRING:
      s = t.string
      # adjacent prefix handled by tokenize itself (b'x' is one STRING token)
      out.append("s%d" % ids.id(s))
    elif tt == tokenize.OP:
      s = t.string
      if s == "-" and i + 1 < n and toks[i + 1].type == tokenize.NUMBER:
        out.append("i%d" % -int(toks[i + 1].string, 0))
        i += 1
      elif s in ("[", "]", "(", ")", ",", ":", "=", "*", "**", "/", "->", "..."):
        out.append(s)
      elif s == "@":
        out.append("n%d" % RESERVED["@"])
      else:
        out.append("?" + s)
    elif tt == tokenize.NEWLINE:
      out.append("NL")
    # NL, INDENT, DEDENT, COMMENT, ENDMARKER dropped
    i += 1
  while out and out[-1] == "NL":
    out.pop()
  return out


# ---------------------------------------------------------------------------------------------------
# reference implementations used by the DIRECT oracle (independent of the Coq model)

def unqual(t):
  """Names as name resolution sees them ("builtins.X" = "X"); Literal bools as the reader builds them."""
  k = t[0]
  if k == "N":
    return ("N", "p" if t[1] == "b" else t[1], t[2])
  if k == "L" and t[1] == "b":
    return ("L", "b", False, t[3])
  if k in ("G", "Tu", "Ca"):
    b = ("p" if t[1][0] == "b" else t[1][0], t[1][1])
    return (k, b, [unqual(p) for p in t[2]])
  if k == "U":
    return ("U", [unqual(p) for p in t[1]])
  if k == "An":
    return ("An", unqual(t[1]), list(t[2]))
  return t


def lit_key(t):
  # Python's == / hash on Literal values: True == 1, False == 0
  if t[1] == "i":
    return ("num", t[2])
  if t[1] == "b":
    return ("const", t[3]) if t[2] else ("num", int(t[3]))
  return (t[1], t[2])


def struct_eq(a, b):
  """pytd structural equality with (recursive) set equality on unions."""
  if a[0] != b[0]:
    return False
  k = a[0]
  if k == "L":
    return lit_key(a) == lit_key(b)
  if k in ("G", "Tu", "Ca"):
    return a[1] == b[1] and len(a[2]) == len(b[2]) and all(struct_eq(x, y) for x, y in zip(a[2], b[2]))
  if k == "U":
    return (all(any(struct_eq(x, y) for y in b[1]) for x in a[1]) and
            all(any(struct_eq(x, y) for x in a[1]) for y in b[1]))
  if k == "An":
    return struct_eq(a[1], b[1]) and list(a[2]) == list(b[2])
  return tuple(a) == tuple(b)


def subterms(t):
  yield t
  k = t[0]
  if k in ("G", "Tu", "Ca"):
    for p in t[2]:
      yield from subterms(p)
  elif k == "U":
    for p in t[1]:
      yield from subterms(p)
  elif k == "An":
    yield from subterms(t[1])


def all_lits(t):
  return [x for x in subterms(t) if x[0] == "L"]


def feature_bool_int_clash(t):
  """A bool literal and the int literal Python identifies with it occur in the same type."""
  ls = all_lits(t)
  bools = {int(x[3]) for x in ls if x[1] == "b"}
  ints = {x[2] for x in ls if x[1] == "i"}
  return bool(bools & ints)


def feature_callable_nothing(t):
  return any(x[0] == "Ca" and len(x[2]) == 2 and x[2][0] == ("Z",) for x in subterms(t))


def feature_singleton_union(t):
  return any(x[0] == "U" and len(x[1]) == 1 for x in subterms(t))


COMPAT = [(10, 11), (10, 12), (11, 12), (13, 14), (15, 14)]


def feature_compat_pair(t):
  for x in subterms(t):
    if x[0] == "U":
      ids_ = {m[2] for m in x[1] if m[0] == "N"}
      if any(a in ids_ and b in ids_ for a, b in COMPAT):
        return True
  return False


def feature_print_duplicates(t):
  """Two members of a union differ only in the builtins prefix (the printer keeps one)."""
  for x in subterms(t):
    if x[0] == "U":
      seen = set()
      for m in x[1]:
        key = repr(unqual(m))
        if key in seen:
          return True
        seen.add(key)
  return False


# ---------------------------------------------------------------------------------------------------
# generators (model level)

class Gen:
  def __init__(self, r, ids):
    self.r = r
    self.ids = ids
    self.classes = ["Foo", "Bar", "Baz", "Outer.Inner", "bool", "object", "list", "set"]
    self.simple = ["int", "float", "complex", "bytes", "bytearray", "memoryview", "str", "NoneType", "bool",
                   "object", "list", "dict", "type", "Foo", "Bar"]
    self.strs = [repr(x) for x in ["a", "", "x y", "it's", 'q"', b"x", b"", "None", "1"]]
    self.anns = [repr("property"), repr("meta"), repr("a b")]
    self.enums = ["Color.RED", "Color.BLUE", "Mode.ON"]
    self.tvars = ["T", "_T0", "KT"]

  def name(self, s, allow_b=True):
    r = self.r
    if s in RESERVED and is_typing_id(RESERVED[s]) or s in TYPING_POOL:
      return ("t", self.ids.id(s))
    return ("b" if allow_b and "." not in s and r.random() < 0.4 else "p", self.ids.id(s))

  def lit(self):
    r = self.r
    k = r.random()
    if k < 0.4:
      return ("L", "i", r.choice([0, 1, 2, -1, 3, 7, -5, 1 << 40, 255]))
    if k < 0.6:
      return ("L", "b", r.random() < 0.5, r.random() < 0.5)
    if k < 0.85:
      return ("L", "s", self.ids.id(r.choice(self.strs)))
    return ("L", "e", self.ids.id(r.choice(self.enums)))

  def named(self):
    r = self.r
    if r.random() < 0.12:
      return ("N", "t", self.ids.id(r.choice(TYPING_TYPES)))
    n = self.name(r.choice(self.simple))
    return ("N", n[0], n[1])

  def leaf(self, env):
    r = self.r
    k = r.random()
    if k < 0.55:
      return self.named()
    if k < 0.65:
      return ("A",)
    if k < 0.70:
      return ("Z",)
    if k < 0.80 and env:
      return ("V", r.choice(env))
    if k < 0.92:
      return self.lit()
    return ("N", "p", 0)

  def ty(self, depth, env, edge=False):
    r = self.r
    if depth <= 0 or r.random() < 0.25:
      return self.leaf(env)
    k = r.random()
    sub = lambda: self.ty(depth - 1, env, edge)
    if k < 0.22:
      base = r.choice(["list", "set", "frozenset", "type", "Foo", "Iterable", "Sequence"])
      return ("G", self.name(base), [sub()])
    if k < 0.30:
      base = r.choice(["dict", "Mapping", "Bar"])
      return ("G", self.name(base), [sub(), sub()])
    if k < 0.38:
      return ("G", self.name("tuple"), [sub()])
    if k < 0.45:
      return ("G", ("t", 5), [("A",), sub()])
    if k < 0.55:
      n = r.choice([0, 1, 1, 2, 3])
      return ("Tu", self.name("tuple"), [sub() for _ in range(n)])
    if k < 0.67:
      n = r.choice([0, 1, 1, 2, 3])
      args = [sub() for _ in range(n)]
      if edge and r.random() < 0.3:
        args = [("Z",)]
      return ("Ca", ("t", 5), args + [sub()])
    if k < 0.95:
      n = r.choice([2, 2, 3, 3, 4, 5])
      if edge and r.random() < 0.15:
        n = 1
      ms = []
      for _ in range(n):
        q = r.random()
        if q < 0.2:
          ms.append(("N", r.choice("bp"), 0))
        elif q < 0.45:
          ms.append(self.lit())
        elif q < 0.6:
          nm = r.choice(["int", "float", "complex", "bytes", "bytearray", "memoryview"])
          n_ = self.name(nm)
          ms.append(("N", n_[0], n_[1]))
        else:
          m = sub()
          ms.append(m)
      return ("U", ms)
    return ("An", sub(), [self.ids.id(r.choice(self.anns)) for _ in range(r.choice([1, 1, 2]))])

  def sig(self, env, cls=None, edge=False):
    r = self.r
    ids = self.ids
    names = ["a", "b", "c", "d", "e", "x", "y", "self", "cls", "args", "kwargs", "k"]
    r.shuffle(names)
    npos = r.choice([0, 0, 0, 1, 2])
    nreg = r.choice([0, 1, 1, 2, 3])
    nkw = r.choice([0, 0, 1, 2])
    ps = []
    seen_default = False
    first = True
    for kind, cnt in ((0, npos), (1, nreg), (2, nkw)):
      for _ in range(cnt):
        nm = names.pop()
        if first and cls is not None and r.random() < 0.7:
          nm = r.choice(["self", "cls"])
          names = [x for x in names if x != nm]
        q = r.random()
        if nm == "self" and cls is not None and q < 0.6:
          t = r.choice([("N", "p", cls), ("G", ("p", cls), [self.ty(1, env)]), ("A",)])
        elif nm == "cls" and cls is not None and q < 0.6:
          t = r.choice([("G", self.name("type"), [("N", "p", cls)]),
                        ("G", self.name("type"), [("G", ("p", cls), [self.ty(1, env)])]), ("A",)])
        elif q < 0.2:
          t = ("A",)
        else:
          t = self.ty(2, env, edge)
        if kind == 2:
          opt = r.random() < 0.4
        else:
          opt = seen_default or r.random() < 0.3
          seen_default = seen_default or opt
        mut = None
        if not opt and r.random() < 0.12:
          mut = self.ty(2, env, edge)
        ps.append((ids.id(nm), kind, int(opt), t, mut))
        first = False
    star = sstar = None
    if r.random() < 0.35:
      nm = names.pop()
      q = r.random()
      star = (ids.id(nm), ("N", r.choice("bp"), 6) if q < 0.3 else
              ("G", self.name("tuple"), [("A",) if q < 0.45 else self.ty(2, env, edge)]))
    if r.random() < 0.35:
      nm = names.pop()
      q = r.random()
      sstar = (ids.id(nm), ("N", r.choice("bp"), 20) if q < 0.3 else
               ("G", self.name("dict"), [("N", r.choice("bp"), 21), ("A",) if q < 0.45 else self.ty(2, env, edge)]))
    q = r.random()
    ret = ("Z",) if q < 0.08 else ("N", "p", 0) if q < 0.3 else self.ty(2, env, edge)
    return (ps, star, sstar, ret)
