"""C17, second leg: the consumer of the terms -- pytype.pytd.booleq.Solver and extract_pivots/extract_equalities.

Model: coq/Booleq/Solver.v.  Tie: the real Solver and the model run the same scripts of API calls
(register_variable / always_true / implies), and `_get_first_approximation()` and `solve()` are compared as
dict var -> set inside Coq (the model runs under two iteration orders); `term.extract_pivots(table)` and
`term.extract_equalities()` of real terms are compared with the model on (term, table) pairs.
Oracles (independent of the model, on the real code): FA_spec (declarative first approximation), soundness of
solve() against brute-force enumeration of the solutions of the completed system, result inside the start table,
fixed point of the post-solve state, solve() twice; pivots soundness on (term, table) pairs.
"""
import itertools
import json
import os
import re
import time

import common
import c17

SVARS = ["~a", "~b", "~c", "~d"]
SVALS = ["x", "y", "z"]
KNOWN_SOLVE = "solve-unsound:or-pivots-partial-mention"
KNOWN_PIVOTS = "pivots-unsound:or-partial-mention"
# Consumer-level behaviour that is refuted in Coq (solve_sound_refuted, pivots_sound_refuted) and reproduced here, but
# lies outside the statement of property C17 (see report()).
OUTSIDE_PROPERTY = (KNOWN_SOLVE, KNOWN_PIVOTS)
MAX_PRODUCT = 4096

PREAMBLE = """From Coq Require Import List String Ascii NArith Bool.
From PV Require Import Booleq.Model Booleq.Solver.
Import ListNotations.
Local Open Scope bool_scope.
(* no N_scope here: with it open, elaborating the nested list literals of the cases is 8x slower *)
Definition bytes_name (l : list nat) : name := fold_right (fun c s => String (ascii_of_nat c) s) EmptyString l.
Fixpoint failing (i : N) (l : list bool) : list N :=
  match l with [] => [] | b :: r => if b then failing (N.succ i) r else i :: failing (N.succ i) r end.
Definition oid (l : nset) := l.
Definition orev (l : nset) := rev l.
Definition eid (l : list (name*name)) := l.
Definition erev (l : list (name*name)) := rev l.
(* the real iteration order, read back from the real objects: sets iterate in the order of [rank] *)
Definition ordr (rank l : nset) : nset :=
  filter (fun x => mem_name x l) rank ++ filter (fun x => negb (mem_name x rank)) l.
Definition ordr_rev (rank l : nset) : nset := rev (ordr rank l).
Definition chk_solver (rank : nset) (cs : list call) (script_ok : bool) (efa esol : option table) : bool :=
  match run_script cs with
  | None => negb script_ok
  | Some s => script_ok && otbl_same (first_approximation oid eid s) efa
              && otbl_same (first_approximation orev erev s) efa
              && otbl_same (first_approximation (ordr rank) eid s) efa
              && otbl_same (solve_table (ordr rank) eid s) esol
  end.
(* evidence only: the reversed order gives a different solve() result *)
Definition order_dep (rank : nset) (cs : list call) : bool :=
  match run_script cs with
  | None => false
  | Some s => negb (otbl_same (solve_table (ordr rank) eid s) (solve_table (ordr_rev rank) erev s))
  end.
Definition chk_pivots (tb : table) (t : term) (e : table) : bool := tbl_same (extract_pivots tb t) e.
Definition pair_in (p : name * name) (l : list (name * name)) : bool :=
  existsb (fun q => String.eqb (fst p) (fst q) && String.eqb (snd p) (snd q)) l.
Definition eq_same (a b : list (name*name)) : bool :=
  forallb (fun p => pair_in p b) a && forallb (fun p => pair_in p a) b.
Definition chk_equalities (t : term) (e : list (name*name)) : bool := eq_same (extract_equalities t) e.
Definition model_values (rank : nset) (cs : list call) :=
  match run_script cs with
  | None => None
  | Some s => Some (first_approximation oid eid s, first_approximation orev erev s,
                    solve_table (ordr rank) eid s, solve_table (ordr_rev rank) erev s)
  end.
"""


# --------------------------------------------------------------------------------------------
# rendering for Coq

class Names:
  def __init__(self):
    self.m = {}

  def ref(self, n):
    if n not in self.m:
      self.m[n] = "n%d" % len(self.m)
    return self.m[n]

  def defs(self):
    return "".join("Definition %s : name := %s.\n" % (v, c17.coq_str(k)) for k, v in self.m.items())


def coq_recipe(nm, r):
  if r == "TRUE":
    return "T"
  if r == "FALSE":
    return "F"
  if r[0] == "Eq":
    return "(EqC %s %s)" % (nm.ref(r[1]), nm.ref(r[2]))
  return "(%s [%s])" % ("AndC" if r[0] == "And" else "OrC", "; ".join(coq_recipe(nm, x) for x in r[1]))


def coq_tbl(nm, tbl):
  return "[%s]" % "; ".join("(%s, [%s])" % (nm.ref(k), "; ".join(nm.ref(x) for x in sorted(vs)))
                            for k, vs in tbl.items())


def coq_otbl(nm, tbl):
  return "None" if tbl is None else "(Some %s)" % coq_tbl(nm, tbl)


def coq_script(nm, script):
  cs = ["CReg %s" % nm.ref(v) for v in script["vars"]]
  for c in script["calls"]:
    if c[0] == "true":
      cs.append("CTrue %s" % coq_recipe(nm, c[1]))
    else:
      cs.append("CImp (EqC %s %s) %s" % (nm.ref(c[1]), nm.ref(c[2]), coq_recipe(nm, c[3])))
  return "[%s]" % "; ".join(cs)


def coq_rank(nm, rr):
  return "[%s]" % "; ".join(nm.ref(x) for x in rr.get("rank", []))


def coq_solver_case(nm, script, rr, ref=None):
  return "chk_solver %s %s %s %s %s" % (coq_rank(nm, rr), ref or coq_script(nm, script), "true" if rr["ok"] else "false",
                                     coq_otbl(nm, rr["fa"]), coq_otbl(nm, rr["sol"]))


def coq_pivots_cases(nm, recipe, tbl, piv, eqs):
  t = coq_recipe(nm, recipe)
  return ["chk_pivots %s %s %s" % (coq_tbl(nm, tbl), t, coq_tbl(nm, piv)),
          "chk_equalities %s [%s]" % (t, "; ".join("(%s, %s)" % (nm.ref(l), nm.ref(r)) for l, r in eqs))]


def cases_file(nm, cases, scripts=(), ranks=()):
  """cases: list of Coq bool expressions; a wrong expectation is appended last (the canary).  scripts: Coq texts
  defined as sc<i> (the cases refer to them); a second Eval prints which of them the model solves differently
  under the two iteration orders."""
  canary = "chk_solver [] [CReg %s] true (Some [(%s, [%s])]) (Some [(%s, [%s])])" % (
      nm.ref("~a"), nm.ref("~a"), nm.ref("x"), nm.ref("~a"), nm.ref("x"))
  body = "Definition cases : list bool := [\n  %s\n]." % ";\n  ".join(list(cases) + [canary])
  sdefs = "".join("Definition sc%d : list call := %s.\n" % (i, t) for i, t in enumerate(scripts))
  tail = ""
  if scripts:
    tail = "Eval vm_compute in (failing 0%%N (map (fun rc => negb (order_dep (fst rc) (snd rc))) [%s])).\n" % "; ".join(
        "(%s, sc%d)" % (rk, i) for i, rk in enumerate(ranks))
  return PREAMBLE + nm.defs() + sdefs + body + "\nEval vm_compute in (failing 0%N cases).\n" + tail


def model_values(script, rr):
  nm = Names()
  body = "Eval vm_compute in (model_values %s %s).\n" % (coq_rank(nm, rr), coq_script(nm, script))
  ok, out = common.run_cases_v("c17_solver_detail", PREAMBLE + nm.defs() + body, timeout=120)
  r = common.parse_coq_eval(out)
  txt = r[0] if ok and r else out[-400:]
  for k, v in nm.m.items():                   # readable: n3 -> "x"
    txt = re.sub(r"\b%s\b" % v, json.dumps(k), txt)
  return txt


def model_agrees(script, rr):
  """One-off model-vs-real comparison for one script: (agrees?, model values as text)."""
  nm = Names()
  body = "Eval vm_compute in (failing 0%%N [%s]).\n" % coq_solver_case(nm, script, rr)
  ok, out = common.run_cases_v("c17_solver_one", PREAMBLE + nm.defs() + body, timeout=120)
  r = common.parse_coq_eval(out)
  if not ok or not r:
    return False, out[-400:]
  return not re.findall(r"\d+", r[0]), model_values(script, rr)


# --------------------------------------------------------------------------------------------
# the real code

def run_calls(b, script):
  s = b.Solver()
  for v in script["vars"]:
    s.register_variable(v)
  for c in script["calls"]:
    if c[0] == "true":
      s.always_true(c17.build(b, c[1]))
    else:
      s.implies(b.Eq(c[1], c[2]), c17.build(b, c[3]))
  return s


def tab(d):
  return None if d is None else {k: sorted(v) for k, v in d.items()}


def real_run(b, script):
  out = {"ok": True, "exc": None, "fa": None, "fa_exc": None, "sol": None, "sol_exc": None, "solver": None}
  try:
    s = run_calls(b, script)
  except Exception as e:  # pylint: disable=broad-except
    out["ok"] = False
    out["exc"] = type(e).__name__
    return out
  try:
    out["fa"] = tab(s._get_first_approximation())  # pylint: disable=protected-access
  except Exception as e:  # pylint: disable=broad-except
    out["fa_exc"] = type(e).__name__
  s2 = run_calls(b, script)
  # the iteration orders solve() follows, read from the real objects right before solve(): self.variables is never
  # mutated by solve(); value sets iterate in the order value_rank() establishes by probing real sets
  names = set(["?"])

  def walk(rc):
    if not isinstance(rc, str):
      if rc[0] == "Eq":
        names.update(rc[1:])
      else:
        for x in rc[1]:
          walk(x)
  for c in script["calls"]:
    if c[0] == "imp":
      names.update(c[1:3])
    walk(c[-1])
  vrank, consistent = value_rank(tuple(sorted(names - set(s2.variables))))
  out["rank"] = list(s2.variables) + vrank
  out["rank_consistent"] = consistent
  try:
    r = s2.solve()
    out["sol"] = tab(r)
    out["solver"] = s2
    out["sol_obj"] = r
  except Exception as e:  # pylint: disable=broad-except
    out["sol_exc"] = type(e).__name__
  return out


_RANK_CACHE = {}


def value_rank(universe):
  """The order in which real Python sets over `universe` iterate, as one global ranking, established by probing:
  every subset, built the ways Solver.solve builds/updates its sets (comprehension, copy, remove, &=), must iterate
  in the order of the ranking.  Returns (ranking, consistent?)."""
  if universe in _RANK_CACHE:
    return _RANK_CACHE[universe]
  u = list(universe)
  if len(u) > 9:
    rank = list(set(u))
    _RANK_CACHE[universe] = (rank, False)
    return _RANK_CACHE[universe]
  # candidate: pairwise order of two-element sets, topologically consistent iff it is a total order
  rank = sorted(u, key=lambda a: sum(1 for c in u if c != a and list({a, c})[0] == c))
  pos = {x: i for i, x in enumerate(rank)}
  ok = True
  for m in range(1, 1 << len(u)):
    sub = [x for j, x in enumerate(u) if m >> j & 1]
    probes = [{x for x in sub}, {x for x in reversed(sub)}]
    full = set(u)
    for x in u:
      if x not in sub:
        full.remove(x)
    probes += [full, full.copy(), probes[0].copy()]
    t = set(u)
    t &= set(frozenset(sub))
    probes += [t, t.copy()]
    for pr in probes:
      idx = [pos[x] for x in pr]
      if idx != sorted(idx):
        ok = False
  _RANK_CACHE[universe] = (rank, ok)
  return _RANK_CACHE[universe]


def script_terms(b, script):
  imps, truths = [], []
  for c in script["calls"]:
    if c[0] == "true":
      truths.append(c17.build(b, c[1]))
    else:
      imps.append((c[1], c[2], c17.build(b, c[3])))
  return imps, truths


def is_wf(b, script, rr):
  if not rr["ok"]:
    return False
  regs = set(script["vars"])
  if not all(v.startswith("~") for v in regs):
    return False
  imps, truths = script_terms(b, script)
  for var, value, _ in imps:
    if var not in regs or value.startswith("~"):
      return False
  for t in [t for _, _, t in imps] + truths:
    for l, r in c17.eq_pairs(b, t):
      if not (l.startswith("~") and l in regs):
        return False
      if r.startswith("~") and r not in regs:
        return False
  return True


def patched_or_pivots(self, assignments):
  pivots = None
  for expr in self.exprs:
    ep = expr.extract_pivots(assignments)
    if pivots is None:
      pivots = dict(ep)
    else:
      pivots = {n: pivots[n] | v for n, v in ep.items() if n in pivots}
  return pivots or {}


def solve_patched(b, script):
  orig = b._Or.extract_pivots  # pylint: disable=protected-access
  b._Or.extract_pivots = patched_or_pivots  # pylint: disable=protected-access
  try:
    return tab(run_calls(b, script).solve())
  except Exception:  # pylint: disable=broad-except
    return None
  finally:
    b._Or.extract_pivots = orig  # pylint: disable=protected-access


class OrderedVars(list):
  """Stands in for Solver.variables (a set used only through add / in / iteration) with a chosen iteration order."""

  def add(self, x):
    if x not in self:
      self.append(x)


def solve_ordered(b, script, reverse):
  s = b.Solver()
  s.variables = OrderedVars()
  for v in script["vars"]:
    s.register_variable(v)
  for c in script["calls"]:
    if c[0] == "true":
      s.always_true(c17.build(b, c[1]))
    else:
      s.implies(b.Eq(c[1], c[2]), c17.build(b, c[3]))
  if reverse:
    s.variables.reverse()
  return tab(s.solve())


def fa_spec(b, script):
  """Declarative first approximation + completed implications (O1/O2 vocabulary), written independently."""
  vars_ = list(dict.fromkeys(script["vars"]))
  regs = set(vars_)
  imps, truths = script_terms(b, script)
  eqs = [p for t in [t for _, _, t in imps] + truths for p in c17.eq_pairs(b, t)]
  parent = {v: v for v in vars_}

  def find(v):
    while parent[v] != v:
      v = parent[v]
    return v
  for l, r in eqs:
    if l in regs and r in regs:
      parent[find(l)] = find(r)
  seed = {v: set() for v in vars_}
  for var, value, t in imps:
    if t is not b.FALSE:
      seed[var].add(value)
  for l, r in eqs:
    if r not in regs:
      seed[l].add(r)
  fa = {v: set() for v in vars_}
  for v in vars_:
    for w in vars_:
      if find(v) == find(w):
        fa[v] |= seed[w]
  comp = {v: {} for v in vars_}
  for var, value, t in imps:
    comp[var][value] = t
  for v in vars_:
    for value in sorted(fa[v]):
      if value not in comp[v]:
        comp[v][value] = b.TRUE
    if not comp[v]:
      comp[v]["?"] = b.TRUE
  return vars_, fa, comp, truths


def oracles(b, script, rr):
  """Oracles O1..O5 on the real code for a wf script.  Returns (verdicts [(fingerprint, what)], info)."""
  verdicts = []
  info = {"nsol": 0, "enumerated": False, "known": False, "nontrivial": False}
  sj = json.dumps(script)
  vars_, fa, comp, truths = fa_spec(b, script)
  start = {v: sorted(k for k, t in comp[v].items() if t is not b.FALSE) for v in vars_}
  info["start"] = start
  # ---- O1
  if rr["fa"] is None:
    verdicts.append(("solve-raises:" + str(rr["fa_exc"]), "_get_first_approximation() raised %s on the well-formed "
                     "system %s" % (rr["fa_exc"], sj)))
  elif {k: set(v) for k, v in rr["fa"].items()} != fa:
    verdicts.append(("first-approximation-differs-from-spec",
                     "system %s: _get_first_approximation() = %s, the declarative first approximation (values of the "
                     "variable's var=var class) is %s" % (sj, rr["fa"], tab(fa))))
  if rr["sol"] is None:
    verdicts.append(("solve-raises:" + str(rr["sol_exc"]), "solve() raised %s on the well-formed system %s" % (
        rr["sol_exc"], sj)))
    info["nontrivial"] = True
    return verdicts, info
  sol = {k: set(v) for k, v in rr["sol"].items()}
  info["nontrivial"] = rr["sol"] != start
  # ---- O2 soundness against enumeration
  keys = [list(comp[v]) for v in vars_]
  size = 1
  for k in keys:
    size *= len(k)
  if size <= MAX_PRODUCT:
    info["enumerated"] = True
    witness = {}
    for combo in itertools.product(*keys):
      sigma = dict(zip(vars_, combo))
      if all(c17.ev(b, g, sigma) for g in truths) and all(c17.ev(b, comp[v][sigma[v]], sigma) for v in vars_):
        info["nsol"] += 1
        for v in vars_:
          witness.setdefault((v, sigma[v]), sigma)
    lost = [(v, x) for (v, x) in witness if x not in sol.get(v, ())]
    if lost:
      ps = solve_patched(b, script)
      still = [(v, x) for (v, x) in lost if ps is None or x not in ps.get(v, ())]
      v, x = (still or lost)[0]
      what = ("system %s: solve() = %s does not contain %s=%s although %s satisfies the ground truth and the "
              "implication of every variable's value (candidates: registered values plus first-approximation "
              "values); %d solutions enumerated, lost (variable, value) pairs: %s" % (
                  sj, rr["sol"], v, x, witness[(v, x)], info["nsol"], lost[:6]))
      if still:
        verdicts.append(("solve-unsound:other", what + "; still lost when _Or.extract_pivots keeps only names "
                         "that every disjunct mentions (result then %s)" % (ps,)))
      else:
        info["known"] = True
        verdicts.append((KNOWN_SOLVE, what + "; not lost when _Or.extract_pivots keeps only names that every "
                         "disjunct mentions"))
  # ---- O3
  if set(sol) != set(vars_) or any(not sol[v] <= set(start[v]) for v in vars_ if v in sol):
    verdicts.append(("solve-result-outside-first-approximation",
                     "system %s: solve() = %s, the candidates (completed implications that are not FALSE) are %s" % (
                         sj, rr["sol"], start)))
  # ---- O4 fixed point of the post-solve state
  s2 = rr["solver"]
  try:
    bad = None
    cp = lambda: {k: set(v) for k, v in sol.items()}
    for v in s2.variables:
      for x in sol[v]:
        if s2.implications[v][x].simplify(cp()) is b.FALSE:
          bad = "the implication of %s=%s simplifies to FALSE against the result" % (v, x)
    if not bad:
      d = b.And([b.Or([s2.implications[v][x].simplify(cp()) for x in sorted(sol[v])]) for v in sorted(s2.variables)])
      for p, pv in d.extract_pivots(cp()).items():
        if p in sol and not sol[p] <= set(pv):
          bad = "the pivots of the simplified system restrict %s to %s" % (p, sorted(pv))
    if bad:
      verdicts.append(("solve-not-a-fixed-point", "system %s: solve() = %s is not a fixed point of the solver's own "
                       "iteration: %s" % (sj, rr["sol"], bad)))
  except Exception as e:  # pylint: disable=broad-except
    verdicts.append(("solve-not-a-fixed-point", "system %s: solve() = %s; re-running one iteration on the post-solve "
                     "state raised %r" % (sj, rr["sol"], e)))
  # ---- O5
  try:
    again = s2.solve()
    if tab(again) != rr["sol"] or (rr["sol"] and again is not rr["sol_obj"]):
      verdicts.append(("solve-twice-differs", "system %s: first solve() = %s, second solve() = %s%s" % (
          sj, rr["sol"], tab(again), "" if again is not rr["sol_obj"] else " (same object)")))
  except Exception as e:  # pylint: disable=broad-except
    verdicts.append(("solve-twice-differs", "system %s: the second solve() raised %r" % (sj, e)))
  return verdicts, info


def order_observation(b, script):
  """Observation outside the property (both results are sound): the real solve() run with self.variables iterating
  in registration order vs reversed.  Returns (forward, reversed)."""
  try:
    return solve_ordered(b, script, False), solve_ordered(b, script, True)
  except Exception as e:  # pylint: disable=broad-except
    return "raised %r" % (e,), None


def check_script(b, script):
  """real run + wf + oracles: (rr, wf, verdicts, info)."""
  rr = real_run(b, script)
  wf = is_wf(b, script, rr)
  if not wf:
    return rr, False, [], {"nsol": 0, "enumerated": False, "known": False,
                           "nontrivial": rr["ok"] and rr["sol"] is None}
  verdicts, info = oracles(b, script, rr)
  return rr, True, verdicts, info


# ---- pivots

def or_nodes(b, t, acc=None):
  acc = [] if acc is None else acc
  k = c17.kind_of(b, t)
  if k in "AO":
    if k == "O":
      acc.append(t)
    for e in t.exprs:
      or_nodes(b, e, acc)
  return acc


def real_pivots(b, rep):
  t = c17.build(b, rep["recipe"])
  tbl = {k: set(v) for k, v in rep["table"].items()}
  piv = {k: sorted(v) for k, v in t.extract_pivots(tbl).items()}
  eqs = [tuple(p) for p in t.extract_equalities()]
  return t, tbl, piv, eqs


def check_pivots(b, rep):
  """Direct oracle for extract_pivots on (recipe, table): list of (fingerprint, what)."""
  t, tbl, piv, _ = real_pivots(b, rep)
  if not all(k.startswith("~") for k in tbl) or not all(v in tbl for v in c17.term_vars(b, t)):
    return []
  ks = sorted(tbl)
  ors = or_nodes(b, t)
  for combo in itertools.product(*[sorted(tbl[k]) for k in ks]):
    sigma = dict(zip(ks, combo))
    if not c17.ev(b, t, sigma):
      continue
    for p, pv in piv.items():
      if p in tbl and sigma[p] not in pv:
        if not ors:
          fp = "pivots-unsound:" + c17.kind_of(b, t)
        elif any(any(p not in c17.term_names(b, e) for e in o.exprs) for o in ors):
          fp = KNOWN_PIVOTS
        else:
          fp = "pivots-unsound:or-other"
        return [(fp, "%s.extract_pivots(%s) = %s restricts %s to %s, but %s satisfies the term" % (
            c17.show(c17.canon(b, t)), rep["table"], piv, p, pv, sigma))]
  return []


# --------------------------------------------------------------------------------------------
# shrinking

def recipe_variants(r):
  if isinstance(r, str):
    return
  yield "TRUE"
  if r[0] == "Eq":
    return
  for x in r[1]:
    yield x
  for i in range(len(r[1])):
    yield [r[0], r[1][:i] + r[1][i + 1:]]
  for i, x in enumerate(r[1]):
    for v in recipe_variants(x):
      yield [r[0], r[1][:i] + [v] + r[1][i + 1:]]


def script_variants(s):
  calls = s["calls"]
  for i in range(len(calls)):
    yield dict(s, calls=calls[:i] + calls[i + 1:])
  used = set()

  def names(r):
    if isinstance(r, str):
      return
    if r[0] == "Eq":
      used.update(r[1:])
    else:
      for x in r[1]:
        names(x)
  for c in calls:
    if c[0] == "imp":
      used.add(c[1])
    names(c[-1])
  for v in s["vars"]:
    if v not in used:
      yield dict(s, vars=[w for w in s["vars"] if w != v])
  for i, c in enumerate(calls):
    for v in recipe_variants(c[-1]):
      yield dict(s, calls=calls[:i] + [c[:-1] + [v]] + calls[i + 1:])


def shrink(rep, fp, verdicts_of, variants, budget_s=15.0):
  deadline = time.time() + budget_s

  def still(r):
    try:
      return any(v[0] == fp for v in verdicts_of(r))
    except Exception:  # pylint: disable=broad-except
      return False
  changed = True
  while changed and time.time() < deadline:
    changed = False
    for cand in variants(rep):
      if time.time() > deadline:
        break
      if still(cand):
        rep = cand
        changed = True
        break
  return rep


def pivots_variants(rep):
  for v in recipe_variants(rep["recipe"]):
    yield dict(rep, recipe=v)
  for k in rep["table"]:
    for drop in rep["table"][k]:
      yield dict(rep, table=dict(rep["table"], **{k: [x for x in rep["table"][k] if x != drop]}))


# --------------------------------------------------------------------------------------------
# generation

def E(l, r):
  return ["Eq", l, r]


def exhaustive_scripts():
  slots = [("~a", "x"), ("~a", "y"), ("~b", "x"), ("~b", "y")]
  def opts(var):
    o = "~b" if var == "~a" else "~a"
    return [None, "TRUE", "FALSE", E(o, "x"), E(o, "y"), E("~a", "~b"), ["And", [E(o, "x"), E(o, "y")]]]
  grounds = [None, E("~a", "x"), ["Or", [E("~a", "x"), E("~b", "y")]], E("~a", "~b")]
  out = []
  for combo in itertools.product(*[opts(v) for v, _ in slots]):
    for g in grounds:
      calls = [["imp", v, x, rc] for (v, x), rc in zip(slots, combo) if rc is not None]
      if g is not None:
        calls.append(["true", g])
      out.append({"kind": "solver", "vars": ["~a", "~b"], "calls": calls})
  return out


def rnd_atom(r, vs, vals):
  if len(vs) >= 2 and r.random() < 0.3:
    a, c = r.sample(vs, 2)
    return E(a, c)
  return E(r.choice(vs), r.choice(vals))


def rnd_term(r, vs, vals, allow_false=True):
  x = r.random()
  if x < 0.15:
    return "TRUE"
  if x < 0.30 and allow_false:
    return "FALSE"
  if x < 0.55:
    return rnd_atom(r, vs, vals)
  if x < 0.82:
    return [r.choice(["And", "Or"]), [rnd_atom(r, vs, vals) for _ in range(r.choice([2, 2, 3]))]]
  outer = r.choice(["And", "Or"])
  inner = "Or" if outer == "And" else "And"
  kids = []
  for _ in range(r.choice([2, 2, 3])):
    if r.random() < 0.3:
      kids.append(rnd_atom(r, vs, vals))
    else:
      kids.append([inner, [rnd_atom(r, vs, vals) for _ in range(2)]])
  return [outer, kids]


def rnd_script(b, r):
  vs = SVARS[:r.choice([2, 3, 3, 4])]
  calls = []
  for v in vs:
    for x in SVALS:
      if r.random() < 0.55:
        calls.append(["imp", v, x, rnd_term(r, vs, SVALS)])
  r.shuffle(calls)
  for _ in range(r.choice([0, 0, 1, 1, 2])):
    t = rnd_term(r, vs, SVALS, allow_false=False)
    if c17.build(b, t) is b.FALSE:
      t = "TRUE"
    calls.insert(r.randint(0, len(calls)), ["true", t])
  return {"kind": "solver", "vars": list(vs), "calls": calls}


def edge_script(b, r):
  s = rnd_script(b, r)
  vs = s["vars"]
  k = r.randrange(6)
  if k == 0:
    s["calls"].append(["imp", vs[0], "w", ["Or", [E("~u", "x"), E(vs[-1], "y")]]])
  elif k == 1:
    s["calls"].append(["imp", vs[0], "w", r.choice([E("x", "y"), ["And", [E("x", "y"), E(vs[-1], "y")]],
                                                    ["Or", [E("y", "x"), E(vs[-1], "z")]]])])
  elif k == 2:
    s["calls"] += [["imp", vs[0], "w", "TRUE"], ["imp", vs[0], "w", "FALSE"]]
  elif k == 3:
    s["calls"].insert(r.randint(0, len(s["calls"])), ["true", r.choice(["FALSE", ["And", [E(vs[0], "x"), "FALSE"]]])])
  elif k == 4:
    s["vars"] = vs + [r.choice(vs)]
  else:
    s["vars"] = vs + ["v"]
    s["calls"].append(["imp", "v", "x", rnd_term(r, vs + ["v"], SVALS)])
    if r.random() < 0.5:
      s["calls"].append(["imp", vs[0], "w", E("v", "y")])
  return s


def rnd_pivot_term(r, depth):
  names = ["~a", "~b", "~c"]
  if depth == 0 or r.random() < 0.25:
    x = r.random()
    if x < 0.05:
      return r.choice(["TRUE", "FALSE"])
    return rnd_atom(r, names, SVALS)
  return [r.choice(["And", "Or"]), [rnd_pivot_term(r, depth - 1) for _ in range(r.choice([2, 2, 3]))]]


def rnd_table(r):
  tbl = {}
  for v in ["~a", "~b", "~c"]:
    if r.random() >= 0.2:
      tbl[v] = sorted(r.sample(SVALS, r.randint(0, 3)))
  if r.random() < 0.1:
    tbl[r.choice(SVALS)] = sorted(r.sample(SVALS + ["~a"], r.randint(0, 2)))
  return tbl


# --------------------------------------------------------------------------------------------
# the leg

def run_leg(res, b, r, level):
  t_start = time.time()
  wall = {"real": 0.0, "oracle": 0.0, "coq": 0.0}
  res.rule += (" Solver leg: scripts of Solver API calls (register_variable, implies, always_true) -- corpus, a "
               "sample (quick) or all (thorough) of the 9604 systems over ~a ~b / x y with 7 implication shapes per "
               "(variable, value) slot and 4 ground truths, and random systems over 2-4 variables and 3 values with "
               "depth<=2 implications incl. var=var, 5% edge scripts (unregistered or non-~ variables, value=value, "
               "duplicate implies, always_true(FALSE)); plus random depth<=3 terms against 3 random tables each for "
               "extract_pivots/extract_equalities. A script is non-trivial if solve() removed at least one value "
               "from the start table (the completed non-FALSE candidates) or raised (distinct by script).")
  res.assumptions += [
      "Python set iteration order inside Solver.solve is an INPUT of the model, read back from the real objects: "
      "list(solver.variables) right before solve(), and for value sets a ranking established by probing real sets "
      "over the script's names (every subset, built by comprehension/copy/remove/&=, must iterate in ranking order; "
      "inconsistencies are counted in evidence); the comparison is exact under that order.  The model is also run "
      "under the reversed order and the number of scripts whose result differs is recorded "
      "(solve_order_dependent_scripts); the theorems hold for every order",
      "the soundness oracle's reading of a Solver system (closed world: candidates = registered values plus "
      "first-approximation values, '?' for unconstrained variables) is written independently in c17_solver.py "
      "(FA_spec)",
  ]
  ok, out = common.coq_make(["Booleq/Solver.vo"])
  if not ok:
    res.obligation("model-build:Booleq/Solver.vo", False, out[-1500:])
    return
  stats = {"scripts": {"corpus": 0, "exhaustive": 0, "random": 0, "edge": 0}, "raised_scripts": 0, "wf_scripts": 0,
           "scripts_with_solution": 0, "soundness_enumerated": 0, "solutions_enumerated": 0, "nontrivial_solve": 0,
           "known_finding_hits": {KNOWN_SOLVE: 0, KNOWN_PIVOTS: 0}, "solve_raised": {}, "pivots_pairs": 0,
           "pivots_oracle_applicable": 0, "pivots_corpus": 0,
           "real_order_dependent_scripts": 0, "real_order_dependent_with_solutions": 0,
           "real_order_dependent_examples": [], "value_rank_probe_inconsistent": 0}
  entries = []         # (script, rr) for the model
  flagged = set()      # indices of entries some oracle fired for
  order_flagged = set()  # indices of entries O6 (order dependence on the real code) fired for
  per_fp = {}
  outside = {}
  state = {"nviol": 0}

  def report(fp, what, rep, verdicts_of, variants):
    fam = fp
    if fp in OUTSIDE_PROPERTY:
      # Observed on the unchanged tree, but C17's statement is about the constructors and `simplify`; the soundness of
      # the consumer's pivot extraction is not part of it.  Counted in the evidence (known_finding_hits /
      # outside_property_observations), never reported as VIOLATION or KNOWN-FINDING.
      outside.setdefault(fp, what)
      return
    if per_fp.get(fam, 0) >= 3 or state["nviol"] >= 3:
      return
    per_fp[fam] = per_fp.get(fam, 0) + 1
    if fp in res.known:
      res.violation(fp, what, rep)
      return
    t0 = time.time()
    small = shrink(rep, fp, verdicts_of, variants)
    for v in verdicts_of(small):
      if v[0] == fp:
        what = v[1]
    wall["oracle"] += time.time() - t0
    if res.violation(fp, what, small):
      state["nviol"] += 1

  def solver_verdicts(s):
    return check_script(b, s)[2]

  def do_script(script, cls):
    t0 = time.time()
    rr = real_run(b, script)
    wf = is_wf(b, script, rr)
    t1 = time.time()
    wall["real"] += t1 - t0
    stats["scripts"][cls] += 1
    entries.append((script, rr))
    if rr["ok"] and not rr.get("rank_consistent", True):
      stats["value_rank_probe_inconsistent"] += 1
    key = None
    if not rr["ok"]:
      stats["raised_scripts"] += 1
    if rr["ok"] and rr["sol"] is None:
      stats["solve_raised"][rr["sol_exc"]] = stats["solve_raised"].get(rr["sol_exc"], 0) + 1
      key = json.dumps(script, sort_keys=True)
    if wf:
      stats["wf_scripts"] += 1
      verdicts, info = oracles(b, script, rr)
      if info["enumerated"]:
        stats["soundness_enumerated"] += 1
        stats["solutions_enumerated"] += info["nsol"]
        if info["nsol"]:
          stats["scripts_with_solution"] += 1
      if info["nontrivial"]:
        stats["nontrivial_solve"] += 1
        key = json.dumps(script, sort_keys=True)
        if rr["sol"] is not None and len(script["vars"]) >= 3 and not info["known"]:
          res.sample({"solver_script": script, "start": info["start"], "solve_impl": rr["sol"],
                      "solutions": info["nsol"]}, cap=8)
      if info["known"]:
        stats["known_finding_hits"][KNOWN_SOLVE] += 1
      if verdicts:
        flagged.add(len(entries) - 1)
      fwd, bwd = order_observation(b, script)
      if fwd != bwd:
        order_flagged.add(len(entries) - 1)
        stats["real_order_dependent_scripts"] += 1
        if len(stats["real_order_dependent_examples"]) < 2:
          stats["real_order_dependent_examples"].append({"script": script, "registration_order": fwd, "reversed": bwd,
                                                          "solutions": info["nsol"]})
        if info["nsol"]:
          stats["real_order_dependent_with_solutions"] += 1
      wall["oracle"] += time.time() - t1
      for fp, what in verdicts:
        report(fp, what, script, solver_verdicts, script_variants)
    res.count(key)

  # ---- A corpus
  cdir = os.path.join(common.CORPUS, "C17")
  pivot_entries = []     # (rep, piv, eqs)

  def do_pivots(rep):
    t0 = time.time()
    t, tbl, piv, eqs = real_pivots(b, rep)
    pivot_entries.append((rep, piv, eqs))
    stats["pivots_pairs"] += 1
    wall["real"] += time.time() - t0
    t0 = time.time()
    if all(k.startswith("~") for k in tbl) and all(v in tbl for v in c17.term_vars(b, t)):
      stats["pivots_oracle_applicable"] += 1
    vs = check_pivots(b, rep)
    wall["oracle"] += time.time() - t0
    for fp, what in vs:
      if fp == KNOWN_PIVOTS:
        stats["known_finding_hits"][KNOWN_PIVOTS] += 1
      report(fp, what, rep, lambda x: check_pivots(b, x), pivots_variants)
    res.count(("pivots", json.dumps(rep, sort_keys=True)) if piv else None)

  for f in sorted(os.listdir(cdir)) if os.path.isdir(cdir) else []:
    rep = json.load(open(os.path.join(cdir, f)))
    if rep.get("kind") == "solver":
      do_script({"kind": "solver", "vars": rep["vars"], "calls": rep["calls"]}, "corpus")
    elif rep.get("kind") == "pivots":
      stats["pivots_corpus"] += 1
      do_pivots({"kind": "pivots", "recipe": rep["recipe"], "table": rep["table"]})

  # ---- B exhaustive small scope, C random + edge
  ex = exhaustive_scripts()
  if level == 0:
    ex = r.sample(ex, 800 if level == 0 else 3000)
  elif level == 1:
    ex = r.sample(ex, 3000)
  for s in ex:
    if state["nviol"] >= 3:
      break
    do_script(s, "exhaustive")
  for _ in range((1000, 4000, 30000)[level]):
    if state["nviol"] >= 3:
      break
    if r.random() < 0.05:
      do_script(edge_script(b, r), "edge")
    else:
      do_script(rnd_script(b, r), "random")
  # ---- D pivots / equalities
  for _ in range((400, 1500, 5000)[level]):
    if state["nviol"] >= 3:
      break
    rc = rnd_pivot_term(r, r.choice([1, 2, 2, 3]))
    for _ in range(3):
      do_pivots({"kind": "pivots", "recipe": rc, "table": rnd_table(r)})
  if state["nviol"] >= 3:
    res.extra["solver_leg_stopped_early"] = "3 violations with concrete inputs found"

  # ---- model vs real
  t0 = time.time()
  files, meta = [], {}
  # every coqc process pays a fixed start-up cost (loading the libraries: 1-9 s depending on machine load), the
  # cases themselves elaborate in ~15 ms each: few large files (5 + 3 run in parallel), capped for the big tiers
  per_s = min(900, max(100, -(-len(entries) // 3)))
  per_p = min(900, max(100, -(-len(pivot_entries) // 2)))
  for n, chunk in enumerate(c17.chunks(entries, per_s)):
    nm = Names()
    cases = [coq_solver_case(nm, s, rr, ref="sc%d" % i) for i, (s, rr) in enumerate(chunk)]
    name = "c17_solver_%d" % n
    files.append((name, cases_file(nm, cases, scripts=[coq_script(nm, s) for s, _ in chunk],
                                   ranks=[coq_rank(nm, rr) for _, rr in chunk])))
    meta[name] = ("solver", chunk, n * per_s)
  for n, chunk in enumerate(c17.chunks(pivot_entries, per_p)):
    nm = Names()
    cases = []
    for rep, piv, eqs in chunk:
      cases += coq_pivots_cases(nm, rep["recipe"], rep["table"], piv, eqs)
    name = "c17_pivots_%d" % n
    files.append((name, cases_file(nm, cases)))
    meta[name] = ("pivots", chunk, 0)
  results = common.run_cases_parallel(files, timeout=1500)
  wall["coq"] = time.time() - t0
  mism_s, mism_p, order_dep = [], [], []
  for name, _ in files:
    ok, out = results[name]
    what, chunk, base = meta[name]
    if not ok:
      res.obligation("model-run:" + name, False, out[-1500:])
      continue
    terms = common.parse_coq_eval(out)
    if len(terms) != (2 if what == "solver" else 1):
      res.obligation("model-run:" + name, False, "unexpected output: " + out[-800:])
      continue
    if what == "solver":
      for i in [int(x) for x in re.findall(r"\d+", terms[1])]:
        order_dep.append(base + i)
    bad = [int(x) for x in re.findall(r"\d+", terms[0])]
    ncases = len(chunk) * (2 if what == "pivots" else 1)
    if ncases not in bad:
      res.obligation("comparator-live:" + name, False, "the canary was not reported: " + terms[0][:300])
    for i in bad:
      if i < ncases:
        if what == "solver":
          mism_s.append((base + i, chunk[i][0], chunk[i][1]))
        else:
          mism_p.append((chunk[i // 2], "extract_pivots" if i % 2 == 0 else "extract_equalities"))
  nrep = 0
  for idx, script, rr in mism_s[:3]:
    mv = model_values(script, rr)
    detail = {"script": script, "impl_script_ok": rr["ok"], "impl_exception": rr["exc"] or rr["sol_exc"],
              "impl_first_approximation": rr["fa"], "impl_solve": rr["sol"],
              "order_handed_to_model": rr.get("rank"),
              "model (fa id, fa rev, solve real order, solve reversed order)": mv}
    res.obligation("correspondence:solver:%d" % nrep, False, json.dumps(detail, default=str)[:1800])
    nrep += 1
    if idx not in flagged:
      res.violation("solver-differs-from-verified-model",
                    "the real Solver and the verified model disagree on %s: real first approximation %s, real solve() "
                    "%s%s; model (first approximation under identity/reversed order, solve under the real iteration "
                    "order / its reverse; None = raised): %s" % (json.dumps(script), rr["fa"], rr["sol"],
                                                   " (raised %s)" % (rr["exc"] or rr["sol_exc"]) if rr["sol"] is None else "",
                                                   mv), script)
  for (rep, piv, eqs), which in mism_p[:3]:
    nm = Names()
    body = "Eval vm_compute in (%s).\n" % (
        "extract_pivots %s %s" % (coq_tbl(nm, rep["table"]), coq_recipe(nm, rep["recipe"])) if which == "extract_pivots"
        else "extract_equalities %s" % coq_recipe(nm, rep["recipe"]))
    ok, out = common.run_cases_v("c17_pivots_detail", PREAMBLE + nm.defs() + body, timeout=120)
    pr = common.parse_coq_eval(out)
    detail = {"what": which, "recipe": rep["recipe"], "table": rep["table"], "impl": piv if which == "extract_pivots" else eqs,
              "model": pr[0] if ok and pr else out[-400:], "names": nm.m}
    res.obligation("correspondence:solver:%d" % nrep, False, json.dumps(detail, default=str)[:1800])
    nrep += 1
    if not check_pivots(b, rep):
      res.violation("solver-differs-from-verified-model",
                    "%s of the real term and of the verified model disagree: %s" % (which, json.dumps(detail, default=str)[:1200]),
                    rep)
  res.obligation("correspondence:model-vs-Solver", not mism_s,
                 "%d disagreements (%d scripts: _get_first_approximation under 3 iteration orders, solve under the real "
                 "iteration order read back from the real objects; "
                 "%d scripts raised in a call)" % (len(mism_s), len(entries), stats["raised_scripts"]))
  res.obligation("correspondence:model-vs-extract_pivots", not mism_p,
                 "%d disagreements (%d (term, table) pairs: extract_pivots and extract_equalities)" % (
                     len(mism_p), len(pivot_entries)))
  # the model says the result depends on the iteration order: the real code (O6) must have said the same for
  # the variables' order, or the dependence is on the order of a value set (not reproducible in-process)
  stats["solve_order_dependent_scripts"] = len(order_dep)
  stats["solve_order_dependent_not_reproduced_by_reversing_variables"] = len([i for i in order_dep if i not in order_flagged])
  stats["coq_case_files"] = len(files)
  stats["wall_s"] = {k: round(v, 1) for k, v in wall.items()}
  stats["wall_s"]["total"] = round(time.time() - t_start, 1)
  stats["outside_property_observations"] = outside
  res.extra["solver_leg"] = stats


# --------------------------------------------------------------------------------------------
# replay

def replay_solver(res, b, rep):
  del res
  if rep["kind"] == "pivots":
    t, _, piv, eqs = real_pivots(b, rep)
    print("recipe :", json.dumps(rep["recipe"]))
    print("term   :", c17.show(c17.canon(b, t)))
    print("table  :", rep["table"])
    print("impl   : extract_pivots =", piv, " extract_equalities =", eqs)
    vs = check_pivots(b, rep)
    print("oracle :", "OK (every satisfying assignment drawn from the table is inside the pivots)" if not vs
          else "%s -- %s" % vs[0])
    nm = Names()
    cases = coq_pivots_cases(nm, rep["recipe"], rep["table"], piv, eqs)
    body = ("Eval vm_compute in (failing 0%%N [%s]).\nEval vm_compute in (extract_pivots %s %s).\n" % (
        "; ".join(cases), coq_tbl(nm, rep["table"]), coq_recipe(nm, rep["recipe"])))
    ok, out = common.run_cases_v("c17_pivots_replay", PREAMBLE + nm.defs() + body, timeout=120)
    pr = common.parse_coq_eval(out)
    differs = not ok or len(pr) != 2 or bool(re.findall(r"\d+", pr[0]))
    print("model  :", (pr[1] if len(pr) == 2 else out[-400:]), " names:", nm.m)
    print("model vs impl:", "DIFFER" if differs else "agree")
    return 1 if vs or differs else 0
  script = {"kind": "solver", "vars": rep["vars"], "calls": rep["calls"]}
  print("script :", json.dumps(script))
  rr, wf, verdicts, info = check_script(b, script)
  if not rr["ok"]:
    print("impl   : a call raised", rr["exc"])
  else:
    print("impl   : _get_first_approximation() =", rr["fa"] if rr["fa"] is not None else "raised %s" % rr["fa_exc"])
    print("impl   : solve() =", rr["sol"] if rr["sol"] is not None else "raised %s" % rr["sol_exc"])
  print("wf     :", wf, "" if wf else "(oracles do not apply: model-vs-real comparison only)")
  if wf:
    print("oracle : candidates (start table) =", info.get("start"), " solutions enumerated =",
          info["nsol"] if info["enumerated"] else "skipped (product too large)")
    for name in ("first-approximation-differs-from-spec", "solve-unsound", "solve-result-outside-first-approximation",
                 "solve-not-a-fixed-point", "solve-twice-differs", "solve-raises"):
      hit = [v for v in verdicts if v[0].startswith(name)]
      print("oracle : %-42s %s" % (name, "OK" if not hit else "VIOLATED: %s -- %s" % hit[0]))
    fwd, bwd = order_observation(b, script)
    print("observed (outside the property): solve() with self.variables in registration order =", fwd,
          "; reversed =", bwd, "" if fwd == bwd else " -- ORDER DEPENDENT")
  print("order  : real iteration order handed to the model =", rr.get("rank"))
  agrees, mv = model_agrees(script, rr)
  print("model  : (first approximation id/rev order, solve under the real order / its reverse; None = raised):", mv)
  print("model vs impl:", "agree" if agrees else "DIFFER")
  return 1 if verdicts or not agrees else 0
