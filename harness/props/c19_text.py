"""C19, character-level legs: (a) the *.imports writer/reader, (b) the rule block and the command ninja hands to
/bin/sh, (c) module names and imports-map keys.  Every leg runs the REAL code (pytype_runner, imports_map_loader,
module_utils, module_loader._PathFinder, the ninja binary, /bin/sh) and the extracted Coq model (Plan/Text.v) on the
same generated inputs, compares every answer, and evaluates the property directly on the real outputs."""
import json
import os
import shutil
import subprocess
import types

import c19_lib as L

SH = "/bin/sh"


# ---------------------------------------------------------------------------------------------
# encoding for the driver

def enc(s):
  return [str(len(s))] + [str(ord(c)) for c in s]


def encl(xs):
  out = [str(len(xs))]
  for x in xs:
    out += enc(x)
  return out


def encp(ps):
  out = [str(len(ps))]
  for a, b in ps:
    out += enc(a) + enc(b)
  return out


def dec(tok):
  """'-' | '1.2.3' -> str"""
  if tok == "-" or tok == "":
    return ""
  return "".join(chr(int(x)) for x in tok.split("."))


def dec_codes(txt):
  return "".join(chr(int(x)) for x in txt.split()) if txt.strip() else ""


def dec_items(txt):
  if not txt:
    return []
  out = []
  for e in txt.split(";"):
    k, _, v = e.partition("=")
    out.append((dec(k), dec(v)))
  return out


def run_model(exe, lines):
  r = subprocess.run([exe], input="\n".join(lines) + "\n", capture_output=True, text=True)
  out = r.stdout.split("\n")
  if r.returncode != 0 or len(out) < len(lines):
    raise RuntimeError("model driver failed: %s (answered %d of %d)" % (r.stderr[-300:], len(out), len(lines)))
  return out


# ---------------------------------------------------------------------------------------------
# Python statement of the hypotheses of the theorems (cross-checked against the model on every case:
# whenever they hold the model must return the identity)

def py_space(c):
  return c.isspace()


def key_ok(k):
  return bool(k) and not py_space(k[0]) and not any(c in " \n\r" for c in k)


def val_ok(v):
  return bool(v) and not py_space(v[-1]) and not any(c in "\n\r" for c in v)


def hyp_class(items):
  """None if the hypotheses of reader_returns_exactly_the_map hold, else the first one that fails."""
  ks = [k for k, _ in items]
  for k, v in items:
    if not k: return "key-empty"
    if " " in k: return "key-space"
    if py_space(k[0]): return "key-leading-blank"
    if "\n" in k or "\r" in k or "\n" in v or "\r" in v: return "line-break"
    if not v: return "value-empty"
    if py_space(v[-1]): return "value-trailing-blank"
  if len(set(ks)) != len(ks): return "duplicate-keys"
  for k in ks:
    if os.path.splitext(k)[0] != k: return "key-extension"
    if k == "%": return "key-percent"
  return None


SH_SPECIAL = set(" \t'\\$\0\n\r\"`;&|<>()*?[]#~{}!")


def sh_plain_str(s):
  return bool(s) and not any(c in SH_SPECIAL for c in s)


# ---------------------------------------------------------------------------------------------
# (a) *.imports

KEY_ALPHA = ["a", "b", "p/", "q/", ".", " ", "\t", "\r", "\n", "\xa0", "\x85", "\u2028", "%", "$", ":", "__init__", "c.d", "-1", "\x1f", "é"]
VAL_ALPHA = ["/o", "/my dir", "/$x:y", "/a.pyi", "/a.pyi-1", " ", "\t", "\r", "\n", "\xa0", "b", ".", "//", "/../", "\u3000", "'"]


def gen_items(r, nice):
  n = r.randint(0, 4) if not nice else r.randint(1, 4)
  items = []
  for i in range(n):
    if nice:
      k = "/".join(r.choice(["a", "b", "pk", "__init__", "x$y", "c:d", "é"]) + (str(i) if j == 0 else "") for j in range(r.randint(1, 3)))
      v = r.choice(["/o", "/my dir", "/o $x:y d", "/é"]) + "/pyi/" + k + ".pyi" + r.choice(["", "-1"])
      if r.random() < 0.2:
        v = r.choice(["/o", "/my dir"]) + "/imports/default.pyi"
    else:
      k = "".join(r.choice(KEY_ALPHA) for _ in range(r.randint(0, 3)))
      v = "".join(r.choice(VAL_ALPHA) for _ in range(r.randint(0, 3)))
      if r.random() < 0.15 and items:
        k = r.choice(items)[0] + r.choice(["", ".py", ".x"])
    if "\0" in k or "\0" in v:
      continue
    items.append((k, v))
  # write_imports receives a dict: keys are distinct
  d = {}
  for k, v in items:
    d[k] = v
  return list(d.items())


def real_reader_view(S, path):
  b = S["iml"].ImportsMapBuilder(types.SimpleNamespace(open_function=open))
  try:
    items = b._read_from_file(path)       # pylint: disable=protected-access
  except ValueError:
    items = "ERR"
  try:
    m = b.build_from_file(path)
    full = None if m is None else (dict(m.items), list(m.unused))
  except ValueError:
    full = "ERR"
  return items, full


def basename_ties(items):
  by = {}
  for k, v in items:
    by.setdefault(os.path.splitext(k)[0], set()).add(v)
  return any(len({os.path.basename(p) for p in ps}) < len(ps) for ps in by.values())


def reader_leg(res, exe, root, r, n_cases, plan_files):
  """plan_files: [(path, dict written by the real runner)] collected from real setup_build runs."""
  S = L.setup()
  runner_cls = S["pr"].PytypeRunner
  conf = S["parser"].config_from_defaults()
  d = os.path.join(root, "rd o$x")
  conf.output = d
  conf.inputs = []
  runner = runner_cls(conf, [])
  os.makedirs(runner.imports_dir, exist_ok=True)
  cases = []
  for i in range(n_cases):
    items = gen_items(r, nice=(i % 3 == 0))
    path = runner.write_imports("m%d" % i, dict(items), "")        # the REAL writer
    cases.append((path, items))
  cases += [(p, list(dd.items())) for p, dd in plan_files]
  lines = []
  for path, items in cases:
    with open(path, newline="", encoding="utf-8") as f:
      content = f.read()
    lines.append("W " + " ".join(encp(items)))
    lines.append("I " + " ".join(enc(content)))
    lines.append("F " + " ".join(enc(os.devnull) + enc(content)))
  out = run_model(exe, lines)
  n_bad = 0
  hist = {}
  viol = []
  n_ties = 0
  def bad(name, detail):
    nonlocal n_bad
    n_bad += 1
    if n_bad <= 3:
      res.obligation(name, False, detail[:900])
  for i, (path, items) in enumerate(cases):
    with open(path, newline="", encoding="utf-8") as f:
      content = f.read()
    w, rd, fin = out[3 * i], out[3 * i + 1], out[3 * i + 2]
    if dec_codes(w) != content:
      bad("correspondence:write_imports", "model %r real %r" % (dec_codes(w), content))
    real_items, real_full = real_reader_view(S, path)
    m_items = "ERR" if rd == "ERR" else dec_items(rd[3:])
    if (real_items == "ERR") != (m_items == "ERR") or (real_items != "ERR" and [tuple(x) for x in real_items] != m_items):
      bad("correspondence:_read_from_file", "items %r: model %r real %r" % (items, m_items, real_items))
    if fin == "ERR":
      m_full = "ERR"
    elif fin == "NONE":
      m_full = None
    else:
      a, _, b = fin[3:].partition("#")
      m_full = ({k: os.path.abspath(v) for k, v in dec_items(a)}, [dec(x) for x in b.split(";")] if b else [])
    if basename_ties(items):
      n_ties += 1
    elif m_full != real_full:
      bad("correspondence:build_from_file", "items %r: model %r real %r" % (items, m_full, real_full))
    # hypotheses and the direct oracle on the real reader
    h = hyp_class(items)
    hist[h or "hypotheses-hold"] = hist.get(h or "hypotheses-hold", 0) + 1
    if h is None and items:
      if m_items != items:
        bad("theorem-vs-model:imports_file_roundtrip", "hypotheses hold for %r but the model reads %r" % (items, m_items))
      ok = real_full not in ("ERR", None)
      if ok:
        got, unused = real_full
        ok = (not unused and all(got.get(k) == os.path.abspath(v) for k, v in items)
              and all(v == os.devnull for k, v in got.items() if k not in dict(items)))
      if not ok:
        viol.append(("imports-reader-roundtrip", "the reader does not return the written map: wrote %r, read %r" % (items, real_full),
                     {"kind": "reader", "items": items}))
    res.count(("reader", h, len(items)) if items else None)
  res.extra["reader_leg"] = {"files": len(cases), "of which written by setup_build": len(plan_files),
                             "hypothesis_classes": dict(sorted(hist.items(), key=str)), "basename_ties_skipped": n_ties}
  res.obligation("correspondence:imports-files(write_imports,_read_from_file,build_from_file)", n_bad == 0,
                 "%d disagreements over %d files" % (n_bad, len(cases)))
  res.evaluations += len(cases)
  return viol


# ---------------------------------------------------------------------------------------------
# (b) rule block and command

def real_flags(runner, report_errors):
  fw = {"--imports_info": "$imports", "-V": runner.python_version, "-o": "$out", "--module-name": "$module",
        "--platform": runner.platform}
  bf = {"--quick", "--analyze-annotated" if report_errors else "--no-report-errors", "--nofail"}
  runner.set_custom_options(fw, bf, report_errors)
  return fw, bf


def sh_argv(cmd, env):
  """argv the real /bin/sh produces for the words of `cmd` (NUL separated)."""
  script = "set -- " + cmd + "\nfor ARG__ do printf '%s\\0' \"$ARG__\"; done"
  r = subprocess.run([SH, "-c", script], capture_output=True, env=env, cwd=env["PWD"])
  if r.returncode != 0:
    return None
  parts = r.stdout.decode("utf-8", "surrogateescape").split("\0")
  return parts[:-1]


def sh_argv_batch(cmds, env):
  """sh_argv for many commands in one shell process (falls back to one process each if the batch fails)."""
  if not cmds:
    return []
  script = "".join("set -- " + c + "\nfor ARG__ do printf '%s\\0' \"$ARG__\"; done\nprintf '\\001\\0'\n" for c in cmds)
  r = subprocess.run([SH, "-c", script], capture_output=True, env=env, cwd=env["PWD"])
  chunks = r.stdout.decode("utf-8", "surrogateescape").split("\x01\0")
  if r.returncode != 0 or len(chunks) != len(cmds) + 1:
    return [sh_argv(c, env) for c in cmds]
  return [ch.split("\0")[:-1] for ch in chunks[:-1]]


CMD_ALPHA = ["a", "b", " ", "  ", "\t", "'", "\\", "$", "$x", "$y", "$z", ":", "/", ".", "-", "=", "%", "+", "é", "\\'", "$:", "$/", "x$y", "''"]


def command_leg(res, exe, root, r, cases, n_sh):
  """cases: adversarial plan cases (from the text leg's generator); the output directory alternates between one
  that needs shell quoting and one that does not (a colon is harmless)."""
  S = L.setup()
  pr = S["pr"]
  outdirs = [os.path.join(root, "c $x:y d"), os.path.join(root, "c:y_d")]
  shdir = os.path.join(root, "shcwd")
  os.makedirs(shdir, exist_ok=True)
  env = {"PATH": "/usr/bin:/bin", "PWD": shdir, "x": "XV", "y": "p q", "IFS": " \t\n"}
  menv = [("x", "XV"), ("y", "p q")]
  n_bad = 0
  viol = []
  stats = {"plans": 0, "edges": 0, "sh_runs": 0, "model_declines": 0, "argv_exact": 0, "argv_mangled": 0, "ninja_rejects": 0}
  def bad(name, detail):
    nonlocal n_bad
    n_bad += 1
    if n_bad <= 3:
      res.obligation(name, False, detail[:900])
  # ---- the shell model against the real shell on synthetic commands
  synth = []
  for _ in range(n_sh):
    synth.append("".join(r.choice(CMD_ALPHA) for _ in range(r.randint(1, 7))))
  lines = ["S " + " ".join(encp(menv) + enc(c)) for c in synth]
  lines += ["Q " + " ".join(enc(c)) for c in synth]
  out = run_model(exe, lines)
  todo = []          # (kind, command text, expected argv, source)
  for c, o, q in zip(synth, out[:len(synth)], out[len(synth):]):
    if o == "DECLINE":
      stats["model_declines"] += 1
    else:
      todo.append(("correspondence:sh-model-vs-/bin/sh", c, [dec(x) for x in o[3:].split(";")] if o[3:] else [], c))
    # ninja's shell escaping, read back by the real shell, is the identity
    if c and "\0" not in c:
      todo.append(("correspondence:shell_escape-vs-/bin/sh", dec_codes(q[3:]), [c], c))
  for (kind, cmd, want, src), got in zip(todo, sh_argv_batch([t[1] for t in todo], env)):
    stats["sh_runs"] += 1
    if got != want:
      bad(kind, "source %r command %r: expected %r, /bin/sh gives %r" % (src, cmd, want, got))
  # ---- the real preamble and commands
  for ci, c in enumerate(cases):
    outdir = outdirs[ci % 2]
    impl = L.run_impl(c, outdir)
    if impl == "ERR" or getattr(impl[1], "unreadable", None):
      continue
    steps = impl[1]
    conf = S["conf"]
    runner = pr.PytypeRunner(conf, [])
    with open(os.path.join(outdir, "build.ninja"), newline="", encoding="utf-8") as f:
      text = f.read()
    i = text.find("\nbuild ")
    pre = text[:i + 1] if i >= 0 else text
    lines = []
    words = {}
    for action, rep in (("infer", False), ("check", True)):
      fw, bf = real_flags(runner, rep)
      lines.append("K " + " ".join(encl(pr.PYTYPE_SINGLE) + encp(list(fw.items())) + encl(sorted(bf, reverse=True))))
      words[action] = runner.get_pytype_command_for_ninja(report_errors=rep)
    lines.append("V " + " ".join(enc(pre)))
    lines.append("U " + " ".join(enc("infer") + encl(words["infer"])))
    lines.append("U " + " ".join(enc("check") + encl(words["check"])))
    out = run_model(exe, lines)
    for k, action in enumerate(("infer", "check")):
      mw = [dec(x) for x in out[k].split(";")]
      if mw != words[action]:
        bad("correspondence:get_pytype_command_for_ninja", "model %r real %r" % (mw, words[action]))
    if dec_codes(out[3]) + dec_codes(out[4]) != pre:
      bad("correspondence:write_ninja_preamble", "model %r real %r" % (dec_codes(out[3]) + dec_codes(out[4]), pre))
    if out[2] == "FAIL" or not out[2].startswith(" ".join(str(ord(ch)) for ch in "infer") + "/"):
      bad("correspondence:parse_rule", "model parse of the real rule block: %r" % out[2][:200])
    if not steps:
      continue
    stats["plans"] += 1
    # ninja's evaluation of the real rule for every edge
    rc, nout, nerr = L.ninja(["-t", "commands", "-s"] + [s["out"] for s in steps], outdir)
    if rc != 0:
      kinj, _ = L.injective_case(c)
      if "multiple rules generate" in (nout + nerr) and not kinj:
        stats["ninja_rejects"] += 1
        continue
      bad("ninja-binary:commands", (nout + nerr)[:300] + " case=" + json.dumps(c)[:300])
      continue
    ncmds = [l for l in nout.split("\n") if l]
    if len(ncmds) != len(steps):
      bad("ninja-binary:commands", "%d commands for %d statements" % (len(ncmds), len(steps)))
      continue
    cmdval = {a: " ".join(words[a]) for a in words}
    lines = ["X " + " ".join(enc(cmdval[s["action"]]) + enc(s["input"]) + enc(s["out"]) + enc(s["impfile"]) + enc(s["module"]))
             for s in steps]
    lines += ["S " + " ".join(encp(menv) + enc(nc)) for nc in ncmds]
    out = run_model(exe, lines)
    reals = sh_argv_batch(ncmds, env)      # names come from the generator's alphabet ( :$-_{} and letters): safe to run
    for k, (s, nc) in enumerate(zip(steps, ncmds)):
      stats["edges"] += 1
      mo = out[k]
      if mo == "FAIL" or dec_codes(mo[3:]) != nc:
        bad("correspondence:edge_command-vs-ninja", "model %r ninja %r" % (mo if mo == "FAIL" else dec_codes(mo[3:]), nc))
      # the shell: model vs real, and the direct oracle on the real argv
      so = out[len(steps) + k]
      exp = [({"$imports": s["impfile"], "$out": s["out"], "$module": s["module"], "$in": s["input"]}).get(w, w)
             for w in words[s["action"]]]
      real = reals[k]
      stats["sh_runs"] += 1
      if so != "DECLINE":
        want = [dec(x) for x in so[3:].split(";")] if so[3:] else []
        if real != want:
          bad("correspondence:sh-model-vs-/bin/sh(plan command)", "command %r: model %r sh %r" % (nc, want, real))
      else:
        stats["model_declines"] += 1
      hyp = (sh_plain_str(s["impfile"]) and sh_plain_str(s["module"]) and s["input"] and s["out"]
             and all(sh_plain_str(w) for w in words[s["action"]] if not w.startswith("$")))
      if real == exp:
        stats["argv_exact"] += 1
      elif hyp:
        stats["argv_mangled"] += 1
        viol.append(("command-argv-mangled", "hypotheses of command_names_the_step hold but sh reads %r, expected %r" % (real, exp),
                     {"kind": "command", "case": c, "outdir": os.path.basename(outdir)}))
      else:
        stats["argv_mangled"] += 1
        culprit = s["impfile"] if not sh_plain_str(s["impfile"]) else s["module"]
        ch = "space" if " " in culprit else "dollar" if "$" in culprit else "other"
        viol.append(("command-unquoted:%s" % ch,
                     "the rule command inserts $imports/$module unquoted: for %r ninja runs %r, which /bin/sh reads as %r (expected %r)"
                     % (s["out"], nc, real, exp), {"kind": "command", "case": c, "outdir": os.path.basename(outdir)}))
      res.count(("command", s["action"], hyp, so == "DECLINE"))
  res.extra["command_leg"] = stats
  res.obligation("correspondence:rule-block,edge-command(ninja -t commands),shell(/bin/sh)", n_bad == 0,
                 "%d disagreements over %d edges, %d shell runs" % (n_bad, stats["edges"], stats["sh_runs"]))
  res.evaluations += stats["edges"] + len(synth)
  return viol


# ---------------------------------------------------------------------------------------------
# (c) names and keys

COMP_ALPHA = ["a", "b", "pkg", "__init__", "__init__x", ".", "..", " ", "x y", "a.b", ".hid", "$v", "c:d", "é", "py", "%"]
EXTS = [".py", ".pyi", ".pytd", ".txt", "", ".py.bak", ".pyc", "."]


class Local:          # importlab.resolve.Local stand-in: resolved_file_to_module uses the class name as kind
  pass


def gen_filename(r, plain):
  n = r.randint(1, 4)
  if plain:
    comps = [r.choice(["a", "b", "pkg", "mod", "x_y", "é", "c:d", "$v", "x y"]) + r.choice(["", "1"]) for _ in range(n)]
    return "/".join(comps) + ".py", comps
  comps = ["".join(r.choice(COMP_ALPHA) for _ in range(r.randint(1, 2))) for _ in range(n)]
  f = "/".join(comps) + r.choice(EXTS)
  if r.random() < 0.1:
    f = "/" + f
  if r.random() < 0.1:
    f = f.replace("/", "//", 1)
  return f, None


def names_leg(res, exe, r, n_cases):
  S = L.setup()
  from pytype import module_utils                                   # pylint: disable=import-outside-toplevel
  from pytype.platform_utils import path_utils                      # pylint: disable=import-outside-toplevel
  pr = S["pr"]
  lines = []
  expect = []
  viol = []
  n_plain = 0
  for i in range(n_cases):
    plain = i % 3 == 0
    f, comps = gen_filename(r, plain)
    roots = [r.choice(["/src", "/src/", "/s p", "", "/x", "/src/a", "rel"]) for _ in range(r.randint(0, 3))]
    root = r.choice(roots + ["/src"]) if roots else "/src"
    full = (root.rstrip("/") + "/" + f) if (root and r.random() < 0.8) else f
    m = module_utils.infer_module(full, roots)
    lines.append("N 1 " + " ".join(enc(full) + encl(roots)))
    expect.append(("infer_module", (full, roots), "%s|%s|%s" % (m.path, m.target, "NONE" if m.name is None else "OK " + m.name)))
    nm = module_utils.path_to_module_name(f)
    lines.append("N 0 " + " ".join(enc(f)))
    expect.append(("path_to_module_name", f, "NONE" if nm is None else "OK " + nm))
    for which, fn in ((0, lambda p: "%s|%s" % os.path.splitext(p)), (1, os.path.dirname), (2, os.path.basename)):
      lines.append("O %d " % which + " ".join(enc(f)))
      expect.append(("os.path[%d]" % which, f, fn(f)))
    g, _ = gen_filename(r, False)
    lines.append("O 3 " + " ".join(enc(f) + enc(g)))
    expect.append(("os.path.join", (f, g), os.path.join(f, g)))
    # the runner's key for (target, name): the inferred name, an importlab-style name, or a mismatching one
    target = m.target
    t = r.random()
    name = (nm if nm is not None and t < 0.6 else
            ".".join(r.choice(["a", "b", "pkg", "z"]) for _ in range(r.randint(1, 3))) if t < 0.8 else "")
    if name is None:
      name = ""
    mod = module_utils.Module(m.path, target, name)
    try:
      key = pr._module_to_output_path(mod)                          # pylint: disable=protected-access
    except IndexError:
      key = None
    if key is not None:
      lines.append("N 2 " + " ".join(enc(target) + enc(name)))
      expect.append(("_module_to_output_path", (target, name), "OK " + key))
    if name:
      lp = path_utils.join("", *name.split("."))
      lines.append("N 4 " + " ".join(enc(name)))
      expect.append(("loader path", name, "OK " + lp))
      lines.append("N 5 " + " ".join(enc(name)))
      expect.append(("loader init path", name, "OK " + path_utils.join(lp, "__init__")))
    # resolved_file_to_module on an importlab-like ResolvedFile
    sp = f.lstrip("/")
    if i % 4 == 1:                                                   # packages: <dirs>/__init__.py named after the directory
      pk = [r.choice(["a", "b", "pkg", "x y", "$v"]) for _ in range(r.randint(1, 3))]
      sp = "/".join(pk) + "/__init__.py"
    fullp = "/r/" + sp
    modname = r.choice([nm or "", "pkg", ""]) if i % 4 != 1 else ".".join(pk)
    lf = Local(); lf.path, lf.short_path, lf.module_name = fullp, sp, modname
    rm = pr.resolved_file_to_module(lf)
    lines.append("N 3 " + " ".join(enc(fullp) + enc(sp) + enc(modname)))
    expect.append(("resolved_file_to_module", (fullp, sp, modname), "%s|%s|%s" % (rm.path, rm.target, rm.name)))
    # direct oracle (key_link): plain components -> the key is the loader's lookup path and the reader keeps it
    if plain and nm is not None:
      n_plain += 1
      mod2 = module_utils.Module(m.path, f, nm)
      key2 = pr._module_to_output_path(mod2)                        # pylint: disable=protected-access
      lp2 = path_utils.join("", *nm.split("."))
      if not (key2 == "/".join(comps) == lp2 and os.path.splitext(key2)[0] == key2
              and (".__init__" in nm or module_utils.path_to_module_name(key2) == nm)):
        viol.append(("key-not-loader-path", "file %r named %r: key %r, loader looks up %r" % (f, nm, key2, lp2),
                     {"kind": "names", "file": f}))
    res.count(("names", plain, nm is None, len(f.split("/"))))
  out = run_model(exe, lines)
  n_bad = 0
  for (what, arg, want), o in zip(expect, out):
    got = o
    if "|" in o or o.startswith("OK ") or o == "NONE":
      parts = []
      for seg in o.split("|"):
        if seg.startswith("OK "):
          parts.append("OK " + dec(seg[3:]))
        elif seg == "NONE":
          parts.append("NONE")
        else:
          parts.append(dec(seg))
      got = "|".join(parts)
    else:
      got = dec(o)
    if got != want:
      n_bad += 1
      if n_bad <= 3:
        res.obligation("correspondence:%s" % what, False, "input %r: model %r real %r" % (arg, got, want))
  res.extra["names_leg"] = {"calls_compared": len(expect), "plain_files(oracle)": n_plain}
  res.obligation("correspondence:module_utils,_module_to_output_path,resolved_file_to_module,os.path,loader-path", n_bad == 0,
                 "%d disagreements over %d calls" % (n_bad, len(expect)))
  res.evaluations += len(expect)
  return viol


# ---------------------------------------------------------------------------------------------
# end to end on the real code: every dependency of every statement is FOUND by pytype-single's module finder
# through the real reader of the statement's .imports file (keys (c) + file round trip (a))

def finder_oracle(res, root, cases):
  S = L.setup()
  from pytype.imports import module_loader                          # pylint: disable=import-outside-toplevel
  pr = S["pr"]
  outdir = os.path.join(root, "f $x:y d")
  viol = []
  stats = {"lookups": 0, "found": 0, "outside_hypotheses": 0}
  plan_files = []
  stash = os.path.join(root, "stash")
  os.makedirs(stash, exist_ok=True)
  recorded = {}
  orig = pr.PytypeRunner.write_imports
  def recording(self, module_name, imports_map, suffix):
    out = orig(self, module_name, imports_map, suffix)
    recorded[out] = dict(imports_map)
    return out
  for c in cases:
    recorded.clear()
    pr.PytypeRunner.write_imports = recording
    try:
      impl = L.run_impl(c, outdir)
    finally:
      pr.PytypeRunner.write_imports = orig
    for pth, dd in recorded.items():
      if dd and len(plan_files) < 400:
        dst = os.path.join(stash, "f%d.imports" % len(plan_files))
        shutil.copy(pth, dst)
        plan_files.append((dst, dd))
    if impl == "ERR" or getattr(impl[1], "unreadable", None):
      continue
    kinj, ninj = L.injective_case(c)
    if not (kinj and ninj):
      continue
    steps = impl[1]
    for s in steps:
      os.makedirs(os.path.dirname(s["out"]), exist_ok=True)
      open(s["out"], "w").close()
    mods = L.real_modules(c)
    where = {}
    for g, d in c["groups"]:
      for i in g:
        where[mods[i].full_path] = (g, d)
    b = S["iml"].ImportsMapBuilder(types.SimpleNamespace(open_function=open))
    for s in steps:
      if s["input"] not in where or not os.path.exists(s["impfile"]):
        continue
      g, d = where[s["input"]]
      need = list(d) + (list(g) if len(g) != 1 and not s["out"].endswith("-1") else [])
      try:
        imap = b.build_from_file(s["impfile"])
      except ValueError:
        imap = "ERR"
      written = dict(s["imports"] or [])
      file_hyp = hyp_class(list(recorded.get(s["impfile"], {}).items())) is None
      for j in dict.fromkeys(need):
        m = mods[j]
        key = pr._module_to_output_path(m)                          # pylint: disable=protected-access
        name = m.name[:-len(".__init__")] if m.name.endswith(".__init__") else m.name
        comps = name.split(".")
        plain = (all(cc and not any(ch in " \n\r/" for ch in cc) and not py_space(cc[0]) for cc in comps)
                 and os.path.splitext(m.target)[0].replace("/", ".") == m.name and key != "%"
                 and not any(ch in "\n\r" for ch in outdir))
        stats["lookups"] += 1
        want = written.get(key)
        got = None
        if imap not in ("ERR", None):
          pf = module_loader._PathFinder(types.SimpleNamespace(pythonpath=[""], imports_map=imap))   # pylint: disable=protected-access
          got = pf.find_import(name)
        if want is not None and got == (os.path.abspath(want), True):
          stats["found"] += 1
        elif plain and file_hyp:
          viol.append(("dependency-stub-not-found", "statement %r: module %r (key %r, stub %r) is not found through %r: %r"
                       % (s["out"], m.name, key, want, s["impfile"], got), {"kind": "finder", "case": c}))
        else:
          stats["outside_hypotheses"] += 1
      res.count(("finder", len(need)) if need else None)
  res.extra["finder_oracle"] = stats
  res.evaluations += stats["lookups"]
  return viol, plan_files


def report(res, viol, cap=2):
  seen = {}
  for fp, msg, rep in viol:
    seen[fp] = seen.get(fp, 0) + 1
    if seen[fp] <= cap:
      res.violation(fp, msg, rep)
  if seen:
    res.extra["text_violation_counts"] = seen


def replay(res, d):
  import common                                                     # pylint: disable=import-outside-toplevel
  common.bootstrap_pytype()
  S = L.setup()
  rep = d["replay"]
  want = d.get("fingerprint", "").replace("UNEXPECTED:", "")
  root = L.scratch_root()
  class R:                                                          # a throw-away Result
    extra = {}; evaluations = 0
    def count(self, *a, **k): pass
    def obligation(self, name, ok, detail=""):
      if not ok: print("obligation failed:", name, detail)
    def violation(self, *a): pass
  try:
    if rep["kind"] == "reader":
      items = [tuple(x) for x in rep["items"]]
      conf = S["parser"].config_from_defaults(); conf.output = os.path.join(root, "rp"); conf.inputs = []
      runner = S["pr"].PytypeRunner(conf, [])
      os.makedirs(runner.imports_dir, exist_ok=True)
      path = runner.write_imports("m", dict(items), "")
      got = real_reader_view(S, path)
      print("wrote:", items); print("read :", got)
      ok = got[1] not in ("ERR", None) and all(got[1][0].get(k) == os.path.abspath(v) for k, v in items)
      return 0 if ok else 1
    if rep["kind"] == "names":
      from pytype import module_utils                               # pylint: disable=import-outside-toplevel
      f = rep["file"]; nm = module_utils.path_to_module_name(f)
      key = S["pr"]._module_to_output_path(module_utils.Module("", f, nm))   # pylint: disable=protected-access
      print("file", repr(f), "name", repr(nm), "key", repr(key), "loader path", repr(os.path.join("", *nm.split("."))))
      return 1 if key != os.path.join("", *nm.split(".")) else 0
    exe = common.build_extracted("plan", "Extract/ExtractPlan.v", os.path.join(common.VERIF, "harness", "ocaml", "plan_driver.ml"), ["plan_model"])
    if rep["kind"] == "command":
      import random                                                  # pylint: disable=import-outside-toplevel
      cases = [rep["case"]] if rep.get("outdir", "c $x:y d") == "c $x:y d" else [{"mods": [], "groups": [], "req": []}, rep["case"]]
      v = command_leg(R(), exe, root, random.Random(0), cases, 0)
    else:
      v, _ = finder_oracle(R(), root, [rep["case"]])
    for fp, msg, _ in v[:6]:
      print("oracle:", fp, "-", msg)
    return 1 if any(fp == want for fp, _, _ in v) or (v and not want) else 0
  finally:
    shutil.rmtree(root, ignore_errors=True)
